// Shared helpers of the correspondence harnesses: one operation per stdin
// line, one canonical result line per operation on stdout (flushed per line,
// so that the runner can attribute a sanitizer abort to the line being run).
#ifndef VERIF_HARNESS_COMMON_H_
#define VERIF_HARNESS_COMMON_H_
#include <cstdint>
#include <cstdio>
#include <cstdlib>
#include <iostream>
#include <sstream>
#include <string>
#include <vector>
#include <new>
#include <stdexcept>
#include <primitiv/core/error.h>

namespace vh {

inline std::vector<std::string> words(const std::string &line) {
  std::vector<std::string> w;
  std::istringstream is(line);
  std::string t;
  while (is >> t) w.push_back(t);
  return w;
}

inline std::vector<std::string> split(const std::string &s, char c) {
  std::vector<std::string> out;
  std::string cur;
  for (char ch : s) {
    if (ch == c) { out.push_back(cur); cur.clear(); }
    else cur.push_back(ch);
  }
  out.push_back(cur);
  return out;
}

struct BadOp {};

inline std::uint64_t to_u64(const std::string &s) {
  if (s.empty()) throw BadOp();
  for (char c : s) if (c < '0' || c > '9') throw BadOp();
  return std::strtoull(s.c_str(), nullptr, 10);
}
inline std::uint32_t to_u32(const std::string &s) {
  std::uint64_t v = to_u64(s);
  if (v > 0xffffffffull) throw BadOp();
  return static_cast<std::uint32_t>(v);
}
inline std::int64_t to_i64(const std::string &s) {
  if (s.empty()) throw BadOp();
  return std::strtoll(s.c_str(), nullptr, 10);
}
inline std::vector<std::uint32_t> csv_u32(const std::string &s) {
  std::vector<std::uint32_t> v;
  if (s.empty()) return v;
  for (const std::string &t : split(s, ',')) v.push_back(to_u32(t));
  return v;
}

// Runs `f(words)` for each line; f returns the result line. Exceptions map to
// the canonical error enum.
template <class F>
int run_lines(F f) {
  std::string line;
  while (std::getline(std::cin, line)) {
    if (line.empty() || line[0] == '#') continue;
    std::string out;
    try {
      out = f(words(line));
    } catch (const BadOp &) {
      out = "bad-op";
    } catch (const primitiv::NotImplementedError &) {
      out = "err-notimpl";
    } catch (const primitiv::Error &) {
      out = "err";
    } catch (const std::bad_alloc &) {
      out = "err-alloc";
    } catch (const std::exception &e) {
      out = std::string("err-other ") + e.what();
    }
    std::cout << out << "\n" << std::flush;
  }
  return 0;
}

}  // namespace vh
#endif
