// Harness of the `capi` family (property C20): the real C API of primitiv
// (primitiv/c/**, built into the library by vlib.build) called in-process and
// compared with the C++ API on the same inputs.
//
//   call <fn> <pattern>        every wrapper, mechanically (generated dispatch): v valid, N NULL,
//                              E array with a NULL element, z zero, m all-ones  ->  ok | err null <arg> | err cpp
//   eq <fn> <args…>            hand-written: C call vs the corresponding C++ call  ->  ok same | diff …
//   sizeq0 <fn> / sizeq <fn> <len> <cap|null>   size-query convention
//   st reset|getmsg|fail <kind>|succ <kind>     status machine of the calling thread
//   threads <kind>,<kind>,…    one thread per kind
#include "common.h"
#include <cmath>
#include <condition_variable>
#include <cstring>
#include <deque>
#include <fstream>
#include <functional>
#include <map>
#include <mutex>
#include <thread>
#include <unistd.h>
#include <primitiv/primitiv.h>
#include <primitiv/c/api.h>

using namespace primitiv;
namespace F = primitiv::functions;
using vh::BadOp;

#define OKST PRIMITIV_C_OK
#define ERRST PRIMITIV_C_ERROR

// ---------------------------------------------------------------- handles
#define HCAST(X) \
  static inline primitiv##X##_t *c(X *p) { return reinterpret_cast<primitiv##X##_t *>(p); } \
  static inline const primitiv##X##_t *c(const X *p) { return reinterpret_cast<const primitiv##X##_t *>(p); } \
  static inline X *cpp(primitiv##X##_t *p) { return reinterpret_cast<X *>(p); } \
  static inline const X *cpp(const primitiv##X##_t *p) { return reinterpret_cast<const X *>(p); }
HCAST(Device) HCAST(Node) HCAST(Graph) HCAST(Initializer) HCAST(Model) HCAST(Parameter) HCAST(Shape) HCAST(Tensor)
HCAST(Optimizer)

enum HKind { H_Device, H_Node, H_Graph, H_Initializer, H_Model, H_Parameter, H_Shape, H_Tensor, H_Optimizer, H_COUNT };

static void destroy(int kind, void *p) {
  switch (kind) {
    case H_Device: delete static_cast<Device *>(p); break;
    case H_Node: delete static_cast<Node *>(p); break;
    case H_Graph: delete static_cast<Graph *>(p); break;
    case H_Initializer: delete static_cast<Initializer *>(p); break;
    case H_Model: delete static_cast<Model *>(p); break;
    case H_Parameter: delete static_cast<Parameter *>(p); break;
    case H_Shape: delete static_cast<Shape *>(p); break;
    case H_Tensor: delete static_cast<Tensor *>(p); break;
    case H_Optimizer: delete static_cast<Optimizer *>(p); break;
  }
}

static void *fresh(int kind) {
  switch (kind) {
    case H_Device: return static_cast<Device *>(new devices::Naive());
    case H_Node: return new Node();
    case H_Graph: return new Graph();
    case H_Initializer: return static_cast<Initializer *>(new initializers::Constant(1));
    case H_Model: return new Model();
    case H_Parameter: return new Parameter();
    case H_Shape: return new Shape();
    case H_Tensor: return new Tensor();
    case H_Optimizer: return static_cast<Optimizer *>(new optimizers::SGD(0.1f));
  }
  return nullptr;
}

// ---------------------------------------------------------------- status
static std::string get_message() {
  std::size_t n = 0;
  if (primitivGetMessage(nullptr, &n) != OKST) return "<primitivGetMessage failed>";
  std::vector<char> b(n + 1, 0);
  if (primitivGetMessage(b.data(), &n) != OKST) return "<primitivGetMessage failed>";
  return std::string(b.data());
}

// "…: Argument `X` must not be null."  ->  X (blanks removed), else ""
static std::string null_arg_of(const std::string &m) {
  const std::string a = "Argument `", b = "` must not be null.";
  std::size_t i = m.find(a);
  if (i == std::string::npos || m.size() < b.size() || m.compare(m.size() - b.size(), b.size(), b) != 0) return "";
  std::size_t s = i + a.size(), e = m.size() - b.size();
  if (e <= s) return "";
  std::string x;
  for (char ch : m.substr(s, e - s)) if (ch != ' ') x.push_back(ch);
  return x;
}

static std::string classify(PRIMITIV_C_STATUS st) {
  if (st == OKST) return "ok";
  if (st != ERRST) return "bad-status " + std::to_string(st);
  std::string x = null_arg_of(get_message());
  if (!x.empty()) return "err null " + x;
  return "err cpp";
}

static std::string g_tmpdir;
static std::string tmp_path(const std::string &name) { return g_tmpdir + "/" + name; }

// ---------------------------------------------------------------- fixture of the mechanical calls
struct World {
  devices::Naive dev, dev2;
  Graph g, g2;
  Shape shp[2];
  Tensor ten[2];
  Node nod[2];
  Parameter par[2];
  Model mod[2];
  initializers::Constant ini0, ini1;
  optimizers::SGD opt0, opt1;
  World() : ini0(1), ini1(2), opt0(0.1f), opt1(0.2f) {
    Device::set_default(dev);
    Graph::set_default(g);
    shp[0] = Shape({2, 2});
    shp[1] = Shape({2, 2});
    ten[0] = F::input<Tensor>(shp[0], {1, 2, 3, 4}, dev);
    ten[1] = F::input<Tensor>(shp[1], {4, 3, 2, 1}, dev);
    nod[0] = F::input_node(shp[0], {1, 2, 3, 4}, &dev, &g);
    nod[1] = F::input_node(shp[1], {4, 3, 2, 1}, &dev, &g);
    par[0].init(shp[0], {1, 2, 3, 4}, dev);
    par[1].init(shp[1], {4, 3, 2, 1}, dev);
  }
  void *obj(int kind, int k) {
    k &= 1;
    switch (kind) {
      case H_Device: return static_cast<Device *>(k ? &dev2 : &dev);
      case H_Node: return &nod[k];
      case H_Graph: return k ? &g2 : &g;
      case H_Initializer: return static_cast<Initializer *>(k ? &ini1 : &ini0);
      case H_Model: return &mod[k];
      case H_Parameter: return &par[k];
      case H_Shape: return &shp[k];
      case H_Tensor: return &ten[k];
      case H_Optimizer: return static_cast<Optimizer *>(k ? &opt1 : &opt0);
    }
    return nullptr;
  }
};

static void *const SENT = reinterpret_cast<void *>(static_cast<std::uintptr_t>(0x5a5a5a5a5a5a5a50ull));
static const std::uint64_t SENT64 = 0xa5a5a5a5a5a5a5a5ull;

struct Ctx {
  World &w;
  std::vector<std::string> pat;
  int used[H_COUNT];
  struct OutH { void **slot; int kind; bool owned; std::size_t n; bool is_array; };
  std::deque<void *> slots;
  std::vector<OutH> outs;
  std::deque<std::vector<void *>> arrays;
  std::deque<std::vector<char>> bufs;
  std::deque<std::size_t> sizes;
  std::deque<std::uint64_t> scalars;
  std::vector<std::pair<void *, int>> released;
  std::deque<std::vector<const char *>> strarrs;
  bool finished;

  Ctx(World &w_, const std::vector<std::string> &p) : w(w_), pat(p), finished(false) {
    for (int &u : used) u = 0;
  }
  ~Ctx() {
    if (!finished) for (auto &r : released) destroy(r.second, r.first);
  }
  const std::string &tok(int i) {
    if (i < 0 || static_cast<std::size_t>(i) >= pat.size()) throw BadOp();
    return pat[i];
  }
  std::size_t count_value(int i) {
    const std::string &t = tok(i);
    if (t == "v") return 2;
    if (t == "z") return 0;
    throw BadOp();
  }
  template <class T> T value(int i, bool is_count) {
    const std::string &t = tok(i);
    if (t == "v") return is_count ? T(2) : (std::is_floating_point<T>::value ? T(0.5) : T(1));
    if (t == "z") return T(0);
    if (t == "m" && !is_count) {
      if (std::is_floating_point<T>::value) return T(HUGE_VALF);
      return static_cast<T>(~static_cast<std::uint64_t>(0));
    }
    throw BadOp();
  }
  template <class T> T *in_handle(int i, int kind, bool release) {
    const std::string &t = tok(i);
    if (t == "N") return nullptr;
    if (t != "v") throw BadOp();
    void *p;
    if (release) {
      p = fresh(kind);
      released.push_back(std::make_pair(p, kind));
    } else {
      p = w.obj(kind, used[kind]++);
    }
    return static_cast<T *>(p);
  }
  template <class T> T **out_handle(int i, int kind, bool owned) {
    const std::string &t = tok(i);
    if (t == "N") return nullptr;
    if (t != "v") throw BadOp();
    slots.push_back(SENT);
    outs.push_back(OutH{&slots.back(), kind, owned, 1, false});
    return (T **)(&slots.back());
  }
  template <class T> T **out_handle_array(int i, int kind, int count_idx) {
    const std::string &t = tok(i);
    if (t == "N") return nullptr;
    if (t != "v") throw BadOp();
    std::size_t cap = count_value(count_idx);
    arrays.emplace_back(cap + 1, SENT);
    outs.push_back(OutH{arrays.back().data(), kind, true, cap, true});
    return (T **)(arrays.back().data());
  }
  template <class T> T *out_scalar(int i) {
    const std::string &t = tok(i);
    if (t == "N") return nullptr;
    if (t != "v") throw BadOp();
    scalars.push_back(SENT64);
    return reinterpret_cast<T *>(&scalars.back());
  }
  template <class T> T *out_buf(int i, int) {
    const std::string &t = tok(i);
    if (t == "N") return nullptr;
    if (t != "v") throw BadOp();
    bufs.emplace_back(4096 * sizeof(T));
    return reinterpret_cast<T *>(bufs.back().data());
  }
  std::size_t *size_inout(int i) {
    const std::string &t = tok(i);
    if (t == "N") return nullptr;
    if (t != "v") throw BadOp();
    sizes.push_back(4096);
    return &sizes.back();
  }
  template <class T> const T *in_array(int i) {
    static const T data[16] = {T(1), T(0), T(1), T(0), T(1), T(0), T(1), T(0), T(1), T(0), T(1), T(0), T(1), T(0), T(1), T(0)};
    const std::string &t = tok(i);
    if (t == "N") return nullptr;
    if (t != "v") throw BadOp();
    return data;
  }
  const char **in_string_array(int i) {
    const std::string &t = tok(i);
    if (t == "N") return nullptr;
    strarrs.emplace_back();
    if (t == "v") { strarrs.back().push_back("a"); strarrs.back().push_back("b"); }
    else if (t == "E") { strarrs.back().push_back("a"); strarrs.back().push_back(nullptr); }
    else throw BadOp();
    return strarrs.back().data();
  }
  template <class T> T **in_handle_array(int i, int kind) {
    const std::string &t = tok(i);
    if (t == "N") return nullptr;
    arrays.emplace_back();
    if (t == "v") { arrays.back().push_back(w.obj(kind, 0)); arrays.back().push_back(w.obj(kind, 1)); }
    else if (t == "E") { arrays.back().push_back(w.obj(kind, 0)); arrays.back().push_back(nullptr); }
    else throw BadOp();
    return (T **)(arrays.back().data());
  }
  const char *in_string(int i, const char *name) {
    const std::string &t = tok(i);
    if (t == "N") return nullptr;
    if (t != "v") throw BadOp();
    static std::string path;
    if (std::strcmp(name, "path") == 0) { path = tmp_path("mech.bin"); return path.c_str(); }
    if (std::strcmp(name, "format") == 0) return "dot";
    return "x";
  }
  void unsupported(int) { throw BadOp(); }

  // after the call: free what the call handed over; report outputs written by a failed call
  std::string finish(PRIMITIV_C_STATUS st) {
    finished = true;
    std::string note;
    for (auto &r : released) if (st != OKST) destroy(r.second, r.first);
    for (OutH &o : outs) {
      for (std::size_t j = 0; j < o.n; ++j) {
        if (o.slot[j] == SENT) continue;
        if (st != OKST) { note = " out-written-on-error"; continue; }
        if (o.owned && o.slot[j]) destroy(o.kind, o.slot[j]);
      }
      if (o.is_array && o.slot[o.n] != SENT) note = " out-overrun";
    }
    if (st != OKST) {
      for (std::uint64_t s : scalars) if (s != SENT64) note = " out-written-on-error";
    }
    return note;
  }
};

struct GenEntry {
  const char *name;
  int nparams;
  PRIMITIV_C_STATUS (*fn)(Ctx &);
};

#include "capi_dispatch.inc"

static std::string do_call(const std::vector<std::string> &wd) {
  if (wd.size() != 3) throw BadOp();
  const GenEntry *e = nullptr;
  for (const GenEntry &g : GEN_TABLE) if (wd[1] == g.name) { e = &g; break; }
  if (!e) throw BadOp();
  std::vector<std::string> pat;
  if (wd[2] != "-") pat = vh::split(wd[2], ',');
  if (static_cast<int>(pat.size()) != e->nparams) throw BadOp();
  for (const std::string &t : pat) if (t != "v" && t != "N" && t != "E" && t != "z" && t != "m") throw BadOp();
  World w;
  Ctx ctx(w, pat);
  PRIMITIV_C_STATUS st = e->fn(ctx);
  std::string r = classify(st);
  r += ctx.finish(st);
  return r;
}

// ---------------------------------------------------------------- C vs C++ on the same inputs
struct TSpec { Shape s; std::vector<float> v; };

struct Args {
  std::vector<Shape> S;
  std::vector<TSpec> T;
  std::vector<std::vector<std::uint32_t>> L;
  std::vector<std::int64_t> n;
  std::vector<float> f;
  std::vector<std::string> str;
  const Shape &sh(std::size_t i) const { if (i >= S.size()) throw BadOp(); return S[i]; }
  const TSpec &t(std::size_t i) const { if (i >= T.size()) throw BadOp(); return T[i]; }
  const std::vector<std::uint32_t> &l(std::size_t i) const { if (i >= L.size()) throw BadOp(); return L[i]; }
  std::uint32_t u(std::size_t i) const { if (i >= n.size()) throw BadOp(); return static_cast<std::uint32_t>(n[i]); }
  std::int32_t i32(std::size_t i) const { if (i >= n.size()) throw BadOp(); return static_cast<std::int32_t>(n[i]); }
  float fl(std::size_t i) const { if (i >= f.size()) throw BadOp(); return f[i]; }
  const std::string &s(std::size_t i) const { if (i >= str.size()) throw BadOp(); return str[i]; }
};

static Shape parse_shape(const std::string &t) {
  std::vector<std::string> p = vh::split(t, '/');
  if (p.size() != 2) throw BadOp();
  return Shape(vh::csv_u32(p[0]), vh::to_u32(p[1]));
}

static Args parse_args(const std::vector<std::string> &wd, std::size_t from) {
  Args A;
  for (std::size_t i = from; i < wd.size(); ++i) {
    const std::string &t = wd[i];
    if (t.compare(0, 2, "S:") == 0) A.S.push_back(parse_shape(t.substr(2)));
    else if (t.compare(0, 2, "T:") == 0) {
      std::vector<std::string> p = vh::split(t.substr(2), ':');
      if (p.size() != 2) throw BadOp();
      TSpec ts;
      ts.s = parse_shape(p[0]);
      std::vector<std::string> vs = vh::split(p[1], ',');
      if (vs.empty() || vs[0].empty()) throw BadOp();
      for (std::uint32_t k = 0; k < ts.s.size(); ++k) ts.v.push_back(std::strtof(vs[k % vs.size()].c_str(), nullptr));
      A.T.push_back(ts);
    } else if (t.compare(0, 2, "L:") == 0) A.L.push_back(vh::csv_u32(t.substr(2)));
    else if (t.compare(0, 2, "F:") == 0) A.f.push_back(std::strtof(t.c_str() + 2, nullptr));
    else if (t.compare(0, 2, "s:") == 0) A.str.push_back(t.substr(2));
    else {
      if (t.empty()) throw BadOp();
      for (std::size_t k = (t[0] == '-' ? 1 : 0); k < t.size(); ++k) if (t[k] < '0' || t[k] > '9') throw BadOp();
      A.n.push_back(vh::to_i64(t));
    }
  }
  return A;
}

static std::string hexf(float f) {
  std::uint32_t u;
  std::memcpy(&u, &f, 4);
  char b[16];
  std::snprintf(b, sizeof b, "%08x", u);
  return b;
}
static std::string num(std::uint64_t v) { return std::to_string(v); }
static std::string show(const Shape &s) { return s.to_string(); }
static std::string show(const std::vector<float> &v) { std::string r; for (float f : v) r += hexf(f) + ","; return r; }
static std::string show(const std::vector<std::uint32_t> &v) { std::string r; for (std::uint32_t x : v) r += num(x) + ","; return r; }
static std::string show(const Tensor &t) {
  if (!t.valid()) return "invalid-tensor";
  return t.shape().to_string() + ":" + show(t.to_vector());
}
static std::string show(const Node &n) {
  if (!n.valid()) return "invalid-node";
  // operators check some arguments only when the value is computed
  try { return n.shape().to_string() + ":" + show(n.to_vector()); }
  catch (const std::exception &e) { return std::string("evaluation throws: ") + e.what(); }
}
static std::string show(const Parameter &p) {
  if (!p.valid()) return "invalid-parameter";
  return p.shape().to_string() + " v=" + show(p.value().to_vector()) + " g=" + show(p.gradient().to_vector());
}

struct Res { bool threw; std::string what, val; Res() : threw(false) {} };

template <class Fn> static Res run_c(Fn f) {
  Res r;
  PRIMITIV_C_STATUS st = f(r.val);
  if (st == ERRST) { r.threw = true; r.what = get_message(); }
  else if (st != OKST) r.val = "bad-status " + std::to_string(st);
  return r;
}
template <class Fn> static Res run_cpp(Fn f) {
  Res r;
  try { r.val = f(); }
  catch (const std::exception &e) { r.threw = true; r.what = e.what(); }
  return r;
}
static std::string verdict_(const Res &c, const Res &p) {
  if (c.threw != p.threw)
    return std::string("diff status c=") + (c.threw ? "ERROR(" + c.what + ")" : "OK[" + c.val + "]") + " cpp=" +
           (p.threw ? "throws(" + p.what + ")" : "returns[" + p.val + "]");
  if (c.threw) return c.what == p.what ? "ok same error" : "diff message c=(" + c.what + ") cpp=(" + p.what + ")";
  return c.val == p.val ? "ok same" : "diff value c=[" + c.val + "] cpp=[" + p.val + "]";
}
// the C side first, then the C++ side (argument evaluation order is unspecified otherwise)
template <class FC, class FP> static std::string verdict_seq(FC fc, FP fp) {
  Res c = fc();
  Res p = fp();
  return verdict_(c, p);
}
#define verdict(C_, P_) verdict_seq([&]() -> Res { return C_; }, [&]() -> Res { return P_; })
// several observations: all must be `ok same`
static std::string all_same(const std::vector<std::string> &vs) {
  bool err = false;
  for (const std::string &v : vs) {
    if (v == "ok same error") err = true;
    else if (v != "ok same") return v;
  }
  return err ? "ok same error" : "ok same";
}

#define CC(...) run_c([&](std::string &out) -> PRIMITIV_C_STATUS { (void)out; __VA_ARGS__ })
#define PP(...) run_cpp([&]() -> std::string { __VA_ARGS__ })

// per-line environment of the eq cases
struct Env {
  devices::Naive dev, dev2;
  Graph g;
  std::unique_ptr<devices::Naive> devA, devB;  // identically seeded pair for the random functions
  Env() { Device::set_default(dev); Graph::set_default(g); }
  void twins(std::uint32_t seed) { devA.reset(new devices::Naive(seed)); devB.reset(new devices::Naive(seed)); }
  template <class V> std::vector<V> vars(const Args &A);
};
template <> std::vector<Tensor> Env::vars<Tensor>(const Args &A) {
  std::vector<Tensor> r;
  for (const TSpec &t : A.T) r.push_back(F::input<Tensor>(t.s, t.v, dev));
  return r;
}
template <> std::vector<Node> Env::vars<Node>(const Args &A) {
  std::vector<Node> r;
  for (const TSpec &t : A.T) r.push_back(F::input_node(t.s, t.v, &dev, &g));
  return r;
}
template <class V> static const V &at(const std::vector<V> &x, std::size_t i) { if (i >= x.size()) throw BadOp(); return x[i]; }

static void fin(PRIMITIV_C_STATUS st, primitivTensor_t *y, std::string &out) {
  if (st != OKST) return;
  if (!y) { out = "null-output"; return; }
  out = show(*cpp(y));
  primitivDeleteTensor(y);
}
static void fin(PRIMITIV_C_STATUS st, primitivNode_t *y, std::string &out) {
  if (st != OKST) return;
  if (!y) { out = "null-output"; return; }
  out = show(*cpp(y));
  primitivDeleteNode(y);
}
static void fin(PRIMITIV_C_STATUS st, primitivShape_t *y, std::string &out) {
  if (st != OKST) return;
  if (!y) { out = "null-output"; return; }
  out = show(*cpp(y));
  primitivDeleteShape(y);
}

typedef std::function<std::string(Env &, Args &)> Case;
static std::map<std::string, Case> &cases() { static std::map<std::string, Case> m; return m; }
static void reg(const std::string &n, Case c) { cases()[n] = c; }

// pointer arrays for the list-taking functions
template <class CT, class V> static std::vector<const CT *> cptrs(const std::vector<V> &x) {
  std::vector<const CT *> r;
  for (const V &v : x) r.push_back(c(&v));
  return r;
}
template <class V> static std::vector<const V *> ptrs(const std::vector<V> &x) {
  std::vector<const V *> r;
  for (const V &v : x) r.push_back(&v);
  return r;
}
static const std::uint32_t *dat(const std::vector<std::uint32_t> &v) { static const std::uint32_t z = 0; return v.empty() ? &z : v.data(); }
static const float *dat(const std::vector<float> &v) { static const float z = 0; return v.empty() ? &z : v.data(); }

// Tensor and Node variant of one function wrapper
#define FN1(V, CName, CARGS, CPPEXPR) \
  reg(#CName, [](Env &E, Args &A) -> std::string { \
    std::vector<V> X = E.vars<V>(A); (void)X; \
    return verdict(run_c([&](std::string &out) -> PRIMITIV_C_STATUS { \
        primitiv##V##_t *y = nullptr; PRIMITIV_C_STATUS st = CName CARGS; fin(st, y, out); return st; }), \
      run_cpp([&]() -> std::string { return show(CPPEXPR); })); });
#define FN(Name, CARGS, CPPEXPR) \
  FN1(Tensor, primitivApplyTensor##Name, CARGS, CPPEXPR) FN1(Node, primitivApplyNode##Name, CARGS, CPPEXPR)
#define X0 at(X, 0)
#define X1 at(X, 1)

template <class V> struct CT;
template <> struct CT<Tensor> { typedef primitivTensor_t type; };
template <> struct CT<Node> { typedef primitivNode_t type; };

static void register_functions() {
#define UN(Name, fn) FN(Name, (c(&X0), &y), F::fn(X0))
  UN(Positive, positive) UN(Negative, negative) UN(Flatten, flatten) UN(Transpose, transpose) UN(Abs, abs)
  UN(Sqrt, sqrt) UN(Exp, exp) UN(Log, log) UN(Tanh, tanh) UN(Sigmoid, sigmoid) UN(Softplus, softplus)
  UN(Sin, sin) UN(Cos, cos) UN(Tan, tan) UN(Relu, relu) UN(Lrelu, lrelu) UN(StopGradient, stop_gradient)
  UN(Selu, selu) UN(BatchSum, batch::sum) UN(BatchMean, batch::mean) UN(BatchNormalize, batch::normalize)
#define BIN(Name, fn) \
  FN(Name##XC, (c(&X0), A.fl(0), &y), F::fn(X0, A.fl(0))) \
  FN(Name##CX, (A.fl(0), c(&X0), &y), F::fn(A.fl(0), X0)) \
  FN(Name, (c(&X0), c(&X1), &y), F::fn(X0, X1))
  BIN(Add, add) BIN(Subtract, subtract) BIN(Multiply, multiply) BIN(Divide, divide) BIN(Pow, pow)
  FN(Matmul, (c(&X0), c(&X1), &y), F::matmul(X0, X1))
  FN(PowN, (c(&X0), A.i32(0), &y), F::pown(X0, A.i32(0)))
#define DIM(Name, fn) FN(Name, (c(&X0), A.u(0), &y), F::fn(X0, A.u(0)))
  DIM(Flip, flip) DIM(Max, max) DIM(Min, min) DIM(Sum, sum) DIM(Logsumexp, logsumexp) DIM(LogSoftmax, log_softmax)
  DIM(Softmax, softmax) DIM(Mean, mean)
  FN(Prelu, (c(&X0), A.fl(0), &y), F::prelu(X0, A.fl(0)))
  FN(Elu, (c(&X0), A.fl(0), &y), F::elu(X0, A.fl(0)))
  FN(Slice, (c(&X0), A.u(0), A.u(1), A.u(2), &y), F::slice(X0, A.u(0), A.u(1), A.u(2)))
  FN(Broadcast, (c(&X0), A.u(0), A.u(1), &y), F::broadcast(X0, A.u(0), A.u(1)))
  FN(BatchSlice, (c(&X0), A.u(0), A.u(1), &y), F::batch::slice(X0, A.u(0), A.u(1)))
  FN(Pick, (c(&X0), dat(A.l(0)), A.l(0).size(), A.u(0), &y), F::pick(X0, A.l(0), A.u(0)))
  FN(BatchPick, (c(&X0), dat(A.l(0)), A.l(0).size(), &y), F::batch::pick(X0, A.l(0)))
  FN(PermuteDims, (c(&X0), dat(A.l(0)), A.l(0).size(), &y), F::permute_dims(X0, A.l(0)))
  FN(Reshape, (c(&X0), c(&A.sh(0)), &y), F::reshape(X0, A.sh(0)))
  FN(SoftmaxCrossEntropy, (c(&X0), c(&X1), A.u(0), &y), F::softmax_cross_entropy(X0, X1, A.u(0)))
  FN(SoftmaxCrossEntropyWithArray, (c(&X0), dat(A.l(0)), A.l(0).size(), A.u(0), &y),
     F::softmax_cross_entropy(X0, A.l(0), A.u(0)))
  FN(Conv2d, (c(&X0), c(&X1), A.u(0), A.u(1), A.u(2), A.u(3), A.u(4), A.u(5), &y),
     F::conv2d(X0, X1, A.u(0), A.u(1), A.u(2), A.u(3), A.u(4), A.u(5)))
  FN(MaxPool2d, (c(&X0), A.u(0), A.u(1), A.u(2), A.u(3), A.u(4), A.u(5), &y),
     F::max_pool2d(X0, A.u(0), A.u(1), A.u(2), A.u(3), A.u(4), A.u(5)))
  FN(Dropout, (c(&X0), A.fl(0), 0u, &y), F::dropout(X0, A.fl(0), false))
  // lists of variables (at least one element: the C API has no way to pass an empty array without a pointer)
#define LST(V, CName, CARGS, CPPEXPR) \
  reg(#CName, [](Env &E, Args &A) -> std::string { \
    std::vector<V> X = E.vars<V>(A); \
    std::vector<const CT<V>::type *> CP = cptrs<CT<V>::type>(X); std::vector<const V *> PX = ptrs(X); \
    static const CT<V>::type *none[1] = {nullptr}; const CT<V>::type *const *cp = CP.empty() ? none : CP.data(); (void)cp; \
    return verdict(run_c([&](std::string &out) -> PRIMITIV_C_STATUS { \
        primitiv##V##_t *y = nullptr; PRIMITIV_C_STATUS st = CName CARGS; fin(st, y, out); return st; }), \
      run_cpp([&]() -> std::string { return show(CPPEXPR); })); });
  LST(Tensor, primitivApplyTensorConcat, (cp, CP.size(), A.u(0), &y), F::concat(PX, A.u(0)))
  LST(Node, primitivApplyNodeConcat, (cp, CP.size(), A.u(0), &y), F::concat(PX, A.u(0)))
  LST(Tensor, primitivApplyTensorBatchConcat, (cp, CP.size(), &y), F::batch::concat(PX))
  LST(Node, primitivApplyNodeBatchConcat, (cp, CP.size(), &y), F::batch::concat(PX))
  LST(Tensor, primitivApplyTensorSumTensors, (cp, CP.size(), &y), F::sum(PX))
  LST(Node, primitivApplyNodeSumNodes, (cp, CP.size(), &y), F::sum(PX))
  LST(Tensor, primitivApplyTensorMeanTensors, (cp, CP.size(), &y), F::mean(PX))
  LST(Node, primitivApplyNodeMeanNodes, (cp, CP.size(), &y), F::mean(PX))
  // split: arrays of results
#define SPL(V, CName, CARGS, N, CPPEXPR) \
  reg(#CName, [](Env &E, Args &A) -> std::string { \
    std::vector<V> X = E.vars<V>(A); \
    return verdict(run_c([&](std::string &out) -> PRIMITIV_C_STATUS { \
        std::size_t n = (N); if (n > 64) throw BadOp(); \
        std::vector<primitiv##V##_t *> ys(n + 1, nullptr); PRIMITIV_C_STATUS st = CName CARGS; \
        if (st == OKST) for (std::size_t k = 0; k < n; ++k) { std::string o; fin(st, ys[k], o); out += o + ";"; } \
        if (ys[n]) out += "overrun"; return st; }), \
      run_cpp([&]() -> std::string { std::string r; for (const V &v : CPPEXPR) r += show(v) + ";"; return r; })); });
  SPL(Tensor, primitivApplyTensorSplit, (c(&X0), A.u(0), A.u(1), ys.data()), A.u(1), F::split(X0, A.u(0), A.u(1)))
  SPL(Node, primitivApplyNodeSplit, (c(&X0), A.u(0), A.u(1), ys.data()), A.u(1), F::split(X0, A.u(0), A.u(1)))
  SPL(Tensor, primitivApplyTensorBatchSplit, (c(&X0), A.u(0), ys.data()), A.u(0), F::batch::split(X0, A.u(0)))
  SPL(Node, primitivApplyNodeBatchSplit, (c(&X0), A.u(0), ys.data()), A.u(0), F::batch::split(X0, A.u(0)))
  // creation; A.n.back() selects the device/graph arguments: 0 = NULL (defaults), 1 = explicit
#define DV (A.u(A.n.size() - 1) ? &E.dev2 : nullptr)
#define GR (A.u(A.n.size() - 1) ? &E.g : nullptr)
  FN1(Tensor, primitivApplyTensorInput, (c(&A.sh(0)), dat(A.t(0).v), A.t(0).v.size() - A.u(0), c(static_cast<Device *>(DV)), &y),
      F::input_tensor(A.sh(0), std::vector<float>(A.t(0).v.begin(), A.t(0).v.end() - A.u(0)), DV))
  FN1(Node, primitivApplyNodeInput, (c(&A.sh(0)), dat(A.t(0).v), A.t(0).v.size() - A.u(0), c(static_cast<Device *>(DV)), c(GR), &y),
      F::input_node(A.sh(0), std::vector<float>(A.t(0).v.begin(), A.t(0).v.end() - A.u(0)), DV, GR))
  FN1(Tensor, primitivApplyTensorConstant, (c(&A.sh(0)), A.fl(0), c(static_cast<Device *>(DV)), &y), F::constant_tensor(A.sh(0), A.fl(0), DV))
  FN1(Node, primitivApplyNodeConstant, (c(&A.sh(0)), A.fl(0), c(static_cast<Device *>(DV)), c(GR), &y), F::constant_node(A.sh(0), A.fl(0), DV, GR))
  FN1(Tensor, primitivApplyTensorIdentity, (A.u(0), c(static_cast<Device *>(DV)), &y), F::identity_tensor(A.u(0), DV))
  FN1(Node, primitivApplyNodeIdentity, (A.u(0), c(static_cast<Device *>(DV)), c(GR), &y), F::identity_node(A.u(0), DV, GR))
  FN1(Tensor, primitivApplyTensorZeros, (c(&A.sh(0)), c(static_cast<Device *>(DV)), &y), F::zeros_tensor(A.sh(0), DV))
  FN1(Node, primitivApplyNodeZeros, (c(&A.sh(0)), c(static_cast<Device *>(DV)), c(GR), &y), F::zeros_node(A.sh(0), DV, GR))
  FN1(Tensor, primitivApplyTensorOnes, (c(&A.sh(0)), c(static_cast<Device *>(DV)), &y), F::ones_tensor(A.sh(0), DV))
  FN1(Node, primitivApplyNodeOnes, (c(&A.sh(0)), c(static_cast<Device *>(DV)), c(GR), &y), F::ones_node(A.sh(0), DV, GR))
  FN1(Tensor, primitivApplyTensorCopy, (c(&X0), c(static_cast<Device *>(DV)), &y), F::copy(X0, DV))
  FN1(Node, primitivApplyNodeCopy, (c(&X0), c(static_cast<Device *>(DV)), &y), F::copy(X0, DV))
  // random sources: two identically seeded devices
#define DA c(static_cast<Device *>(E.devA.get()))
#define DB static_cast<Device *>(E.devB.get())
#define RND(Name, fn, CA, PA) \
  reg("primitivApplyTensorRandom" #Name, [](Env &E, Args &A) -> std::string { E.twins(A.u(0)); \
    return verdict(run_c([&](std::string &out) -> PRIMITIV_C_STATUS { primitivTensor_t *y = nullptr; \
        PRIMITIV_C_STATUS st = primitivApplyTensorRandom##Name CA; fin(st, y, out); return st; }), \
      run_cpp([&]() -> std::string { return show(F::random::fn##_tensor PA); })); }); \
  reg("primitivApplyNodeRandom" #Name, [](Env &E, Args &A) -> std::string { E.twins(A.u(0)); \
    return verdict(run_c([&](std::string &out) -> PRIMITIV_C_STATUS { primitivNode_t *y = nullptr; primitivGraph_t *g = c(&E.g); (void)g; \
        PRIMITIV_C_STATUS st = primitivApplyNodeRandom##Name CA##_N; fin(st, y, out); return st; }), \
      run_cpp([&]() -> std::string { return show(F::random::fn##_node PA##_N); })); });
#define CA1 (c(&A.sh(0)), A.fl(0), DA, &y)
#define CA1_N (c(&A.sh(0)), A.fl(0), DA, g, &y)
#define PA1 (A.sh(0), A.fl(0), DB)
#define PA1_N (A.sh(0), A.fl(0), DB, &E.g)
#define CA2 (c(&A.sh(0)), A.fl(0), A.fl(1), DA, &y)
#define CA2_N (c(&A.sh(0)), A.fl(0), A.fl(1), DA, g, &y)
#define PA2 (A.sh(0), A.fl(0), A.fl(1), DB)
#define PA2_N (A.sh(0), A.fl(0), A.fl(1), DB, &E.g)
  RND(Bernoulli, bernoulli, CA1, PA1) RND(Uniform, uniform, CA2, PA2) RND(Normal, normal, CA2, PA2)
  RND(LogNormal, log_normal, CA2, PA2) RND(Gumbel, gumbel, CA2, PA2)
}

// ---------------------------------------------------------------- shape, tensor, node, graph
static std::string b2s(bool b) { return b ? "true" : "false"; }

static void register_objects() {
  reg("primitivCreateShape", [](Env &, Args &) -> std::string {
    return verdict(CC(primitivShape_t *y = nullptr; PRIMITIV_C_STATUS st = primitivCreateShape(&y); fin(st, y, out); return st;),
                   PP(return show(Shape());)); });
  reg("primitivCreateShapeWithDims", [](Env &, Args &A) -> std::string {
    const std::vector<std::uint32_t> &d = A.l(0);
    return verdict(CC(primitivShape_t *y = nullptr; PRIMITIV_C_STATUS st = primitivCreateShapeWithDims(dat(d), d.size(), A.u(0), &y);
                      fin(st, y, out); return st;),
                   PP(return show(Shape(d, A.u(0)));)); });
  reg("primitivCloneShape", [](Env &, Args &A) -> std::string {
    Shape s = A.sh(0);
    return verdict(CC(primitivShape_t *y = nullptr; PRIMITIV_C_STATUS st = primitivCloneShape(c(&s), &y); fin(st, y, out); return st;),
                   PP(return show(Shape(s));)); });
#define SGET(CName, CARGS, CPPEXPR) \
  reg(#CName, [](Env &, Args &A) -> std::string { Shape s = A.sh(0); \
    return verdict(CC(std::uint32_t r = 12345; PRIMITIV_C_STATUS st = CName CARGS; out = num(r); return st;), \
                   PP(return num(CPPEXPR);)); });
  SGET(primitivGetShapeDimSize, (c(&s), A.u(0), &r), s[A.u(0)])
  SGET(primitivGetShapeDepth, (c(&s), &r), s.depth())
  SGET(primitivGetShapeBatchSize, (c(&s), &r), s.batch())
  SGET(primitivGetShapeVolume, (c(&s), &r), s.volume())
  SGET(primitivGetShapeLowerVolume, (c(&s), A.u(0), &r), s.lower_volume(A.u(0)))
  SGET(primitivGetShapeSize, (c(&s), &r), s.size())
#define SPRED(CName, CARGS, CPPEXPR) \
  reg(#CName, [](Env &, Args &A) -> std::string { Shape s = A.sh(0); \
    return verdict(CC(PRIMITIV_C_BOOL r = 12345; PRIMITIV_C_STATUS st = CName CARGS; out = r == 12345 ? "unset" : b2s(r != 0); return st;), \
                   PP(return b2s(CPPEXPR);)); });
  SPRED(primitivIsShapeEqualTo, (c(&s), c(&A.sh(1)), &r), s == A.sh(1))
  SPRED(primitivIsNotShapeEqualTo, (c(&s), c(&A.sh(1)), &r), s != A.sh(1))
  SPRED(primitivHasShapeBatch, (c(&s), &r), s.has_batch())
  SPRED(primitivHasShapeCompatibleBatch, (c(&s), c(&A.sh(1)), &r), s.has_compatible_batch(A.sh(1)))
  SPRED(primitivIsShapeScalar, (c(&s), &r), s.is_scalar())
  SPRED(primitivIsShapeColumnVector, (c(&s), &r), s.is_column_vector())
  SPRED(primitivIsShapeMatrix, (c(&s), &r), s.is_matrix())
  SPRED(primitivHasShapeSameDims, (c(&s), c(&A.sh(1)), &r), s.has_same_dims(A.sh(1)))
  SPRED(primitivHasShapeSameLooDims, (c(&s), c(&A.sh(1)), A.u(0), &r), s.has_same_loo_dims(A.sh(1), A.u(0)))
  reg("primitivGetShapeDims", [](Env &, Args &A) -> std::string { Shape s = A.sh(0);
    return verdict(CC(std::size_t n = 0; PRIMITIV_C_STATUS st = primitivGetShapeDims(c(&s), nullptr, &n); if (st != OKST) return st;
                      std::vector<std::uint32_t> v(n + 1, 777); st = primitivGetShapeDims(c(&s), v.data(), &n);
                      if (v[n] != 777) out = "overrun"; v.resize(n); out += show(v); return st;),
                   PP(return show(s.dims());)); });
  reg("primitivRepresentShapeAsString", [](Env &, Args &A) -> std::string { Shape s = A.sh(0);
    return verdict(CC(std::size_t n = 0; PRIMITIV_C_STATUS st = primitivRepresentShapeAsString(c(&s), nullptr, &n); if (st != OKST) return st;
                      std::vector<char> v(n + 1, 'x'); st = primitivRepresentShapeAsString(c(&s), v.data(), &n);
                      if (v[n] != 'x') out = "overrun"; out += std::string(v.data()); return st;),
                   PP(return s.to_string();)); });
  reg("primitivResizeShapeDim", [](Env &, Args &A) -> std::string { Shape s = A.sh(0);
    return verdict(CC(primitivShape_t *y = nullptr; PRIMITIV_C_STATUS st = primitivResizeShapeDim(c(&s), A.u(0), A.u(1), &y); fin(st, y, out); return st;),
                   PP(return show(s.resize_dim(A.u(0), A.u(1)));)); });
  reg("primitivResizeShapeBatch", [](Env &, Args &A) -> std::string { Shape s = A.sh(0);
    return verdict(CC(primitivShape_t *y = nullptr; PRIMITIV_C_STATUS st = primitivResizeShapeBatch(c(&s), A.u(0), &y); fin(st, y, out); return st;),
                   PP(return show(s.resize_batch(A.u(0)));)); });
  reg("primitivUpdateShapeDim", [](Env &, Args &A) -> std::string { Shape a = A.sh(0), b = A.sh(0);
    std::string v = verdict(CC(return primitivUpdateShapeDim(c(&a), A.u(0), A.u(1));), PP(b.update_dim(A.u(0), A.u(1)); return "";));
    return all_same({v, a == b && a.volume() == b.volume() ? "ok same" : "diff effect c=" + show(a) + " cpp=" + show(b)}); });
  reg("primitivUpdateShapeBatchSize", [](Env &, Args &A) -> std::string { Shape a = A.sh(0), b = A.sh(0);
    std::string v = verdict(CC(return primitivUpdateShapeBatchSize(c(&a), A.u(0));), PP(b.update_batch(A.u(0)); return "";));
    return all_same({v, a == b ? "ok same" : "diff effect c=" + show(a) + " cpp=" + show(b)}); });

  // ---- Tensor objects
  reg("primitivCreateTensor", [](Env &, Args &) -> std::string {
    return verdict(CC(primitivTensor_t *y = nullptr; PRIMITIV_C_STATUS st = primitivCreateTensor(&y); fin(st, y, out); return st;),
                   PP(return show(Tensor());)); });
#define TOBJ(CName, BODY_C, BODY_P) \
  reg(#CName, [](Env &E, Args &A) -> std::string { std::vector<Tensor> X = E.vars<Tensor>(A); \
    Tensor inval; const Tensor &x = A.n.size() && A.n.back() == -7 ? inval : X0; (void)x; \
    return verdict(CC(BODY_C), PP(BODY_P)); });
  TOBJ(primitivCloneTensor, primitivTensor_t *y = nullptr; PRIMITIV_C_STATUS st = primitivCloneTensor(c(&x), &y); fin(st, y, out); return st;,
       return show(Tensor(x));)
  TOBJ(primitivIsValidTensor, PRIMITIV_C_BOOL r = 9; PRIMITIV_C_STATUS st = primitivIsValidTensor(c(&x), &r); out = b2s(r != 0); return st;,
       return b2s(x.valid());)
  TOBJ(primitivGetTensorShape, primitivShape_t *y = nullptr; PRIMITIV_C_STATUS st = primitivGetTensorShape(c(&x), &y); fin(st, y, out); return st;,
       return show(x.shape());)
  TOBJ(primitivGetDeviceFromTensor, primitivDevice_t *d = nullptr; PRIMITIV_C_STATUS st = primitivGetDeviceFromTensor(c(&x), &d);
       out = cpp(d) == &E.dev ? "dev" : "other"; return st;, return &x.device() == &E.dev ? "dev" : "other";)
  TOBJ(primitivEvaluateTensorAsFloat, float r = -77; PRIMITIV_C_STATUS st = primitivEvaluateTensorAsFloat(c(&x), &r); out = hexf(r); return st;,
       return hexf(x.to_float());)
  TOBJ(primitivEvaluateTensorAsArray, std::size_t n = 0; PRIMITIV_C_STATUS st = primitivEvaluateTensorAsArray(c(&x), nullptr, &n); if (st != OKST) return st;
       std::vector<float> v(n + 1, -77); st = primitivEvaluateTensorAsArray(c(&x), v.data(), &n);
       if (st != OKST) { out = "the size query succeeded, the read of the same tensor failed"; return OKST; }   // the two steps of one protocol must agree
       if (v[n] != -77) out = "overrun"; v.resize(n); out += show(v); return st;,
       return show(x.to_vector());)
  TOBJ(primitivGetTensorArgmax, std::size_t n = 0; PRIMITIV_C_STATUS st = primitivGetTensorArgmax(c(&x), A.u(0), nullptr, &n); if (st != OKST) return st;
       std::vector<std::uint32_t> v(n + 1, 777); st = primitivGetTensorArgmax(c(&x), A.u(0), v.data(), &n); if (v[n] != 777) out = "overrun"; v.resize(n); out += show(v); return st;,
       return show(x.argmax(A.u(0)));)
  TOBJ(primitivGetTensorArgmin, std::size_t n = 0; PRIMITIV_C_STATUS st = primitivGetTensorArgmin(c(&x), A.u(0), nullptr, &n); if (st != OKST) return st;
       std::vector<std::uint32_t> v(n + 1, 777); st = primitivGetTensorArgmin(c(&x), A.u(0), v.data(), &n); if (v[n] != 777) out = "overrun"; v.resize(n); out += show(v); return st;,
       return show(x.argmin(A.u(0)));)
  TOBJ(primitivReshapeTensor, primitivTensor_t *y = nullptr; PRIMITIV_C_STATUS st = primitivReshapeTensor(c(&x), c(&A.sh(0)), &y); fin(st, y, out); return st;,
       return show(x.reshape(A.sh(0)));)
  TOBJ(primitivFlattenTensor, primitivTensor_t *y = nullptr; PRIMITIV_C_STATUS st = primitivFlattenTensor(c(&x), &y); fin(st, y, out); return st;,
       return show(x.flatten());)
  // in-place operations: one copy for each side (copies share the buffer until written: value semantics)
#define TMUT(CName, CCALL, CPPSTMT) \
  reg(#CName, [](Env &E, Args &A) -> std::string { std::vector<Tensor> X = E.vars<Tensor>(A); \
    Tensor inval; bool iv = A.n.size() && A.n.back() == -7; Tensor a = iv ? inval : X0, b = iv ? inval : X0; \
    std::string v = verdict(CC(return CCALL;), PP(CPPSTMT; return "";)); \
    return all_same({v, show(a) == show(b) ? "ok same" : "diff effect c=" + show(a) + " cpp=" + show(b), \
                     iv || show(X0) == show(F::input<Tensor>(A.t(0).s, A.t(0).v, E.dev)) ? "ok same" : "diff the source tensor changed"}); });
  TMUT(primitivResetTensor, primitivResetTensor(c(&a), A.fl(0)), b.reset(A.fl(0)))
  TMUT(primitivResetTensorByArray, primitivResetTensorByArray(c(&a), A.t(1).v.data()), b.reset_by_array(A.t(1).v.data()))
  TMUT(primitivMultiplyTensorByConstantInplace, primitivMultiplyTensorByConstantInplace(c(&a), A.fl(0)), b.inplace_multiply_const(A.fl(0)))
  TMUT(primitivAddTensorInplace, primitivAddTensorInplace(c(&a), c(&X1)), b.inplace_add(X1))
  TMUT(primitivSubtractTensorInplace, primitivSubtractTensorInplace(c(&a), c(&X1)), b.inplace_subtract(X1))

  // ---- Node objects and graphs: the same computation built through C in one graph and through C++ in another
  reg("primitivExecuteGraphBackward", [](Env &E, Args &A) -> std::string {
    // y = sum_all( (p * x) + k ), p a parameter, x an input; forward value, shapes, ids, backward, gradient of p
    const TSpec &ts = A.t(0);
    float k = A.fl(0);
    bool via_node = A.u(0) != 0;
    Parameter pa(ts.s.resize_batch(1), std::vector<float>(ts.s.volume(), 2.0f), E.dev), pb(ts.s.resize_batch(1), std::vector<float>(ts.s.volume(), 2.0f), E.dev);
    std::vector<std::string> obs;
    std::string cs, ps;
    Res rc = CC(
      primitivGraph_t *g = nullptr; PRIMITIV_C_STATUS st = primitivCreateGraph(&g); if (st != OKST) return st;
      primitivNode_t *x = nullptr; primitivNode_t *p = nullptr; primitivNode_t *m = nullptr; primitivNode_t *a = nullptr; primitivNode_t *y = nullptr; primitivNode_t *f = nullptr;
      std::vector<primitivNode_t *> made;
      do {
        st = primitivApplyNodeInput(c(&ts.s), ts.v.data(), ts.v.size(), nullptr, g, &x); if (st != OKST) break; made.push_back(x);
        st = primitivApplyNodeParameter(c(&pa), g, &p); if (st != OKST) break; made.push_back(p);
        st = primitivApplyNodeMultiply(p, x, &m); if (st != OKST) break; made.push_back(m);
        st = primitivApplyNodeAddXC(m, k, &a); if (st != OKST) break; made.push_back(a);
        st = primitivApplyNodeFlatten(a, &f); if (st != OKST) break; made.push_back(f);
        st = primitivApplyNodeSum(f, 0, &y); if (st != OKST) break; made.push_back(y);
        primitivNode_t *yb = nullptr; st = primitivApplyNodeBatchSum(y, &yb); if (st != OKST) break; made.push_back(yb);
        std::uint32_t nops = 0; st = primitivGetGraphNumOperators(g, &nops); if (st != OKST) break; out += "ops=" + num(nops);
        std::uint32_t oid = 0, vid = 9; st = primitivGetNodeOperatorId(yb, &oid); if (st != OKST) break;
        st = primitivGetNodeValueId(yb, &vid); if (st != OKST) break; out += " id=" + num(oid) + "/" + num(vid);
        primitivShape_t *sh = nullptr; st = primitivGetGraphShape(g, a, &sh); if (st != OKST) break; out += " sa=" + show(*cpp(sh)); primitivDeleteShape(sh);
        sh = nullptr; st = primitivGetNodeShape(yb, &sh); if (st != OKST) break; out += " sy=" + show(*cpp(sh)); primitivDeleteShape(sh);
        primitivGraph_t *g2 = nullptr; st = primitivGetGraphFromNode(yb, &g2); if (st != OKST) break; out += g2 == g ? " g=same" : " g=other";
        primitivDevice_t *d = nullptr; st = primitivGetDeviceFromNode(yb, &d); if (st != OKST) break; out += cpp(d) == &E.dev ? " d=dev" : " d=other";
        d = nullptr; st = primitivGetDeviceFromGraph(g, a, &d); if (st != OKST) break; out += cpp(d) == &E.dev ? " d=dev" : " d=other";
        PRIMITIV_C_BOOL valid = 9; st = primitivIsValidNode(yb, &valid); if (st != OKST) break; out += valid ? " valid" : " invalid";
        const primitivTensor_t *val = nullptr; st = primitivExecuteGraphForward(g, yb, &val); if (st != OKST) break; out += " fw=" + show(*cpp(val));
        float fv = -1; st = primitivEvaluateNodeAsFloat(yb, &fv); if (st != OKST) break; out += " f=" + hexf(fv);
        std::size_t n = 0; st = primitivEvaluateNodeAsArray(a, nullptr, &n); if (st != OKST) break;
        std::vector<float> v(n); st = primitivEvaluateNodeAsArray(a, v.data(), &n); if (st != OKST) break; out += " a=" + show(v);
        st = primitivGetNodeArgmax(a, 0, nullptr, &n); if (st != OKST) break;
        std::vector<std::uint32_t> am(n); st = primitivGetNodeArgmax(a, 0, am.data(), &n); if (st != OKST) break; out += " amax=" + show(am);
        st = primitivGetNodeArgmin(a, 0, nullptr, &n); if (st != OKST) break;
        am.assign(n, 0); st = primitivGetNodeArgmin(a, 0, am.data(), &n); if (st != OKST) break; out += " amin=" + show(am);
        primitivNode_t *cl = nullptr; st = primitivCloneNode(yb, &cl); if (st != OKST) break; made.push_back(cl);
        st = primitivResetParameterGradients(c(&pa)); if (st != OKST) break;
        st = via_node ? primitivExecuteNodeBackward(cl) : primitivExecuteGraphBackward(g, yb); if (st != OKST) break;
        out += " p=" + show(pa);
        std::size_t dn = 0; st = primitivDumpGraph(g, "dot", nullptr, &dn); if (st != OKST) break;
        std::vector<char> dump(dn); st = primitivDumpGraph(g, "dot", dump.data(), &dn); if (st != OKST) break; cs = dump.data();
        st = primitivClearGraph(g); if (st != OKST) break;
        st = primitivGetGraphNumOperators(g, &nops); if (st != OKST) break; out += " cleared=" + num(nops);
      } while (false);
      for (primitivNode_t *nd : made) primitivDeleteNode(nd);
      PRIMITIV_C_STATUS st2 = st;
      if (st != OKST) { std::string keep = get_message(); (void)keep; }
      std::string msg = st != OKST ? get_message() : "";
      primitivDeleteGraph(g);
      if (st2 != OKST) {
        // deleting succeeded, so the message is still the one of the failing call
        if (get_message() != msg) out = "message changed by a succeeding call";
      }
      return st2;);
    Res rp = PP(
      Graph g; std::string out;
      Node x = F::input_node(ts.s, ts.v, nullptr, &g);
      Node p = F::parameter_node(pb, &g);
      Node m = F::multiply(p, x);
      Node a = F::add(m, k);
      Node f = F::flatten(a);
      Node y = F::sum(f, 0);
      Node yb = F::batch::sum(y);
      out += "ops=" + num(g.num_operators());
      out += " id=" + num(yb.operator_id()) + "/" + num(yb.value_id());
      out += " sa=" + show(g.get_shape(a));
      out += " sy=" + show(yb.shape());
      out += &yb.graph() == &g ? " g=same" : " g=other";
      out += &yb.device() == &E.dev ? " d=dev" : " d=other";
      out += &g.get_device(a) == &E.dev ? " d=dev" : " d=other";
      out += yb.valid() ? " valid" : " invalid";
      out += " fw=" + show(g.forward(yb));
      out += " f=" + hexf(yb.to_float());
      out += " a=" + show(a.to_vector());
      out += " amax=" + show(a.argmax(0));
      out += " amin=" + show(a.argmin(0));
      Node cl(yb);
      pb.reset_gradient();
      if (via_node) cl.backward(); else g.backward(yb);
      out += " p=" + show(pb);
      ps = g.dump("dot");
      g.clear();
      out += " cleared=" + num(g.num_operators());
      return out;);
    return all_same({verdict(rc, rp), cs == ps ? "ok same" : "diff dump"}); });
  reg("primitivCreateNode", [](Env &, Args &) -> std::string {
    return verdict(CC(primitivNode_t *y = nullptr; PRIMITIV_C_STATUS st = primitivCreateNode(&y); if (st != OKST) return st;
                      PRIMITIV_C_BOOL v = 9; st = primitivIsValidNode(y, &v); out = b2s(v != 0); primitivDeleteNode(y); return st;),
                   PP(return b2s(Node().valid());)); });
  // an invalid node: every accessor must fail the same way
  reg("primitivGetNodeShape", [](Env &, Args &) -> std::string {
    Node nd;
    return all_same({
      verdict(CC(primitivShape_t *y = nullptr; PRIMITIV_C_STATUS st = primitivGetNodeShape(c(&nd), &y); fin(st, y, out); return st;), PP(return show(nd.shape());)),
      verdict(CC(float r = 0; return primitivEvaluateNodeAsFloat(c(&nd), &r);), PP(nd.to_float(); return "";)),
      verdict(CC(std::uint32_t r = 0; return primitivGetNodeOperatorId(c(&nd), &r);), PP(nd.operator_id(); return "";)),
      verdict(CC(primitivGraph_t *r = nullptr; return primitivGetGraphFromNode(c(&nd), &r);), PP(nd.graph(); return "";)),
      verdict(CC(return primitivExecuteNodeBackward(c(&nd));), PP(nd.backward(); return "";))}); });
  reg("primitivSetDefaultGraph", [](Env &E, Args &) -> std::string {
    Graph other;
    std::vector<std::string> obs;
    obs.push_back(verdict(CC(primitivGraph_t *r = nullptr; PRIMITIV_C_STATUS st = primitivGetDefaultGraph(&r); out = cpp(r) == &E.g ? "g" : "?"; return st;),
                          PP(return &Graph::get_default() == &E.g ? "g" : "?";)));
    obs.push_back(verdict(CC(PRIMITIV_C_STATUS st = primitivSetDefaultGraph(c(&other)); out = &Graph::get_default() == &other ? "other" : "?"; return st;),
                          PP(Graph::set_default(other); return &Graph::get_default() == &other ? "other" : "?";)));
    Graph::set_default(E.g);
    return all_same(obs); });
  reg("primitivGetDefaultGraph", [](Env &, Args &) -> std::string {
    // no default graph: both sides must fail the same way
    std::unique_ptr<Graph> tmp(new Graph());
    Graph::set_default(*tmp);
    tmp.reset();
    return verdict(CC(primitivGraph_t *r = nullptr; return primitivGetDefaultGraph(&r);), PP(Graph::get_default(); return "";)); });
}

// ---------------------------------------------------------------- parameter, model, initializer, optimizer, device
static std::string file_bytes(const std::string &p) {
  std::ifstream f(p.c_str(), std::ios::binary);
  if (!f) return "<no file>";
  std::ostringstream os;
  os << f.rdbuf();
  std::string s = os.str(), r;
  char b[4];
  for (unsigned char ch : s) { std::snprintf(b, sizeof b, "%02x", ch); r += b; }
  return r;
}

static Optimizer *make_opt(std::uint32_t kind, float a, float b2) {
  switch (kind % 6) {
    case 0: return new optimizers::SGD(a);
    case 1: return new optimizers::MomentumSGD(a, b2);
    case 2: return new optimizers::AdaGrad(a, b2);
    case 3: return new optimizers::RMSProp(a, b2, 0.125f);
    case 4: return new optimizers::AdaDelta(a, b2);
    default: return new optimizers::Adam(a, b2, 0.75f, 0.125f);
  }
}
static PRIMITIV_C_STATUS make_opt_c(std::uint32_t kind, float a, float b2, primitivOptimizer_t **o) {
  switch (kind % 6) {
    case 0: return primitivCreateSgdOptimizer(a, o);
    case 1: return primitivCreateMomentumSgdOptimizer(a, b2, o);
    case 2: return primitivCreateAdaGradOptimizer(a, b2, o);
    case 3: return primitivCreateRmsPropOptimizer(a, b2, 0.125f, o);
    case 4: return primitivCreateAdaDeltaOptimizer(a, b2, o);
    default: return primitivCreateAdamOptimizer(a, b2, 0.75f, 0.125f, o);
  }
}
static const char *opt_names[6] = {"primitivCreateSgdOptimizer", "primitivCreateMomentumSgdOptimizer", "primitivCreateAdaGradOptimizer",
                                   "primitivCreateRmsPropOptimizer", "primitivCreateAdaDeltaOptimizer", "primitivCreateAdamOptimizer"};

static std::string show_configs(const Optimizer &o) {
  std::unordered_map<std::string, std::uint32_t> u;
  std::unordered_map<std::string, float> f;
  o.get_configs(u, f);
  std::map<std::string, std::string> m;
  for (auto &kv : u) m[kv.first] = num(kv.second);
  for (auto &kv : f) m[kv.first] = hexf(kv.second);
  std::string r;
  for (auto &kv : m) r += kv.first + "=" + kv.second + ";";
  return r;
}

static Initializer *make_init(std::uint32_t kind, float a, float b2) {
  switch (kind % 8) {
    case 0: return new initializers::Constant(a);
    case 1: return new initializers::Uniform(a, b2);
    case 2: return new initializers::Normal(a, b2);
    case 3: return new initializers::Identity();
    case 4: return new initializers::XavierUniform(a);
    case 5: return new initializers::XavierNormal(a);
    case 6: return new initializers::XavierUniformConv2D(a);
    default: return new initializers::XavierNormalConv2D(a);
  }
}
static PRIMITIV_C_STATUS make_init_c(std::uint32_t kind, float a, float b2, primitivInitializer_t **o) {
  switch (kind % 8) {
    case 0: return primitivCreateConstantInitializer(a, o);
    case 1: return primitivCreateUniformInitializer(a, b2, o);
    case 2: return primitivCreateNormalInitializer(a, b2, o);
    case 3: return primitivCreateIdentityInitializer(o);
    case 4: return primitivCreateXavierUniformInitializer(a, o);
    case 5: return primitivCreateXavierNormalInitializer(a, o);
    case 6: return primitivCreateXavierUniformConv2DInitializer(a, o);
    default: return primitivCreateXavierNormalConv2DInitializer(a, o);
  }
}
static const char *init_names[8] = {"primitivCreateConstantInitializer", "primitivCreateUniformInitializer", "primitivCreateNormalInitializer",
                                    "primitivCreateIdentityInitializer", "primitivCreateXavierUniformInitializer", "primitivCreateXavierNormalInitializer",
                                    "primitivCreateXavierUniformConv2DInitializer", "primitivCreateXavierNormalConv2DInitializer"};

static void register_training() {
  // ---- parameters
  reg("primitivCreateParameter", [](Env &, Args &) -> std::string {
    return verdict(CC(primitivParameter_t *p = nullptr; PRIMITIV_C_STATUS st = primitivCreateParameter(&p); if (st != OKST) return st;
                      PRIMITIV_C_BOOL v = 9; st = primitivIsValidParameter(p, &v); out = b2s(v != 0); primitivDeleteParameter(p); return st;),
                   PP(return b2s(Parameter().valid());)); });
  reg("primitivCreateParameterWithValues", [](Env &E, Args &A) -> std::string {
    // S T drop devsel: values of T (minus `drop`), explicit device or NULL = default
    const Shape &s = A.sh(0); const std::vector<float> &v = A.t(0).v; std::size_t n = v.size() - A.u(0);
    Device *d = A.u(1) ? static_cast<Device *>(&E.dev2) : nullptr;
    return verdict(CC(primitivParameter_t *p = nullptr; PRIMITIV_C_STATUS st = primitivCreateParameterWithValues(c(&s), dat(v), n, c(d), &p);
                      if (st != OKST) return st; out = show(*cpp(p)) + (&cpp(p)->device() == (d ? d : &E.dev) ? " dev-ok" : " dev-wrong");
                      primitivDeleteParameter(p); return st;),
                   PP(Parameter p(s, std::vector<float>(v.begin(), v.begin() + n), d); return show(p) + (&p.device() == (d ? d : &E.dev) ? " dev-ok" : " dev-wrong");)); });
  reg("primitivInitializeParameterWithValues", [](Env &E, Args &A) -> std::string {
    const Shape &s = A.sh(0); const std::vector<float> &v = A.t(0).v; std::size_t n = v.size() - A.u(0);
    Device *d = A.u(1) ? static_cast<Device *>(&E.dev2) : nullptr;
    Parameter a, b;
    std::string r = verdict(CC(return primitivInitializeParameterWithValues(c(&a), c(&s), dat(v), n, c(d));),
                            PP(b.init(s, std::vector<float>(v.begin(), v.begin() + n), d); return "";));
    return all_same({r, show(a) == show(b) ? "ok same" : "diff effect c=" + show(a) + " cpp=" + show(b)}); });
  // initializers: S kind F:a F:b seed devsel  (created through C / C++, applied through a parameter and directly)
  for (int k = 0; k < 8; ++k) {
    reg(init_names[k], [k](Env &E, Args &A) -> std::string {
      const Shape &s = A.sh(0); float a = A.fl(0), b2 = A.fl(1);
      E.twins(A.u(0));
      bool explicit_dev = A.u(1) != 0;
      std::unique_ptr<Initializer> pi(make_init(k, a, b2));
      primitivInitializer_t *ci = nullptr;
      if (make_init_c(k, a, b2, &ci) != OKST || !ci) return "diff initializer not created: " + get_message();
      std::vector<std::string> obs;
      // default device := twin for the NULL-device variant
      Device::set_default(*E.devA);
      obs.push_back(verdict(
        CC(primitivParameter_t *p = nullptr;
           PRIMITIV_C_STATUS st = primitivCreateParameterWithInitializer(c(&s), ci, explicit_dev ? c(static_cast<Device *>(E.devA.get())) : nullptr, &p);
           if (st != OKST) return st; out = show(*cpp(p)); primitivDeleteParameter(p); return st;),
        PP(Device::set_default(*E.devB); Parameter p(s, *pi, explicit_dev ? static_cast<Device *>(E.devB.get()) : nullptr); return show(p);)));
      Device::set_default(*E.devA);
      Parameter qa, qb;
      obs.push_back(verdict(
        CC(PRIMITIV_C_STATUS st = primitivInitializeParameterWithInitializer(c(&qa), c(&s), ci, explicit_dev ? c(static_cast<Device *>(E.devA.get())) : nullptr);
           if (st == OKST) out = show(qa); return st;),
        PP(Device::set_default(*E.devB); qb.init(s, *pi, explicit_dev ? static_cast<Device *>(E.devB.get()) : nullptr); return show(qb);)));
      Device::set_default(E.dev);
      Tensor ta, tb;
      try { ta = F::zeros<Tensor>(s, *E.devA); tb = F::zeros<Tensor>(s, *E.devB); } catch (const Error &) {}
      obs.push_back(verdict(CC(PRIMITIV_C_STATUS st = primitivApplyInitializer(ci, c(&ta)); if (st == OKST) out = show(ta); return st;),
                            PP(pi->apply(tb); return show(tb);)));
      obs.push_back(verdict(CC(return primitivDeleteInitializer(ci);), PP(return "";)));
      return all_same(obs); });
  }
  reg("primitivAddStatsToParameter", [](Env &E, Args &A) -> std::string {
    // S T s:name S(stat shape) : add / has / get / value / gradient / shape / device / reset / invalid parameter with -7
    bool iv = A.n.size() && A.n.back() == -7;
    Parameter a, b;
    if (!iv) { a.init(A.sh(0), A.t(0).v, E.dev); b.init(A.sh(0), A.t(0).v, E.dev); }
    const Parameter &kb = b;   // the wrappers of the accessors take a const handle
    const std::string &nm = A.s(0);
    std::vector<std::string> obs;
    obs.push_back(verdict(CC(PRIMITIV_C_BOOL r = 9; PRIMITIV_C_STATUS st = primitivHasParameterStats(c(&a), nm.c_str(), &r); out = b2s(r != 0); return st;),
                          PP(return b2s(b.has_stats(nm));)));
    obs.push_back(verdict(CC(return primitivAddStatsToParameter(c(&a), nm.c_str(), c(&A.sh(1)));), PP(b.add_stats(nm, A.sh(1)); return "";)));
    obs.push_back(verdict(CC(return primitivAddStatsToParameter(c(&a), nm.c_str(), c(&A.sh(1)));), PP(b.add_stats(nm, A.sh(1)); return "";)));
    obs.push_back(verdict(CC(PRIMITIV_C_BOOL r = 9; PRIMITIV_C_STATUS st = primitivHasParameterStats(c(&a), nm.c_str(), &r); out = b2s(r != 0); return st;),
                          PP(return b2s(b.has_stats(nm));)));
    obs.push_back(verdict(CC(const primitivTensor_t *t = nullptr; PRIMITIV_C_STATUS st = primitivGetParameterStats(c(&a), nm.c_str(), &t);
                             if (st == OKST) out = show(*cpp(t)) + (cpp(t) == &static_cast<const Parameter &>(a).stats(nm) ? " same-object" : " copy"); return st;),
                          PP(return show(kb.stats(nm)) + " same-object";)));
    obs.push_back(verdict(CC(const primitivTensor_t *t = nullptr; PRIMITIV_C_STATUS st = primitivGetParameterStats(c(&a), "no-such-stats", &t); return st;),
                          PP(kb.stats("no-such-stats"); return "";)));
    obs.push_back(verdict(CC(const primitivTensor_t *t = nullptr; PRIMITIV_C_STATUS st = primitivGetParameterValue(c(&a), &t);
                             if (st == OKST) out = show(*cpp(t)) + (cpp(t) == &a.value() ? " same-object" : " copy"); return st;),
                          PP(return show(kb.value()) + " same-object";)));
    obs.push_back(verdict(CC(const primitivTensor_t *t = nullptr; PRIMITIV_C_STATUS st = primitivGetParameterGradient(c(&a), &t);
                             if (st == OKST) out = show(*cpp(t)) + (cpp(t) == &a.gradient() ? " same-object" : " copy"); return st;),
                          PP(return show(kb.gradient()) + " same-object";)));
    obs.push_back(verdict(CC(primitivShape_t *y = nullptr; PRIMITIV_C_STATUS st = primitivGetParameterShape(c(&a), &y); fin(st, y, out); return st;),
                          PP(return show(b.shape());)));
    obs.push_back(verdict(CC(primitivDevice_t *d = nullptr; PRIMITIV_C_STATUS st = primitivGetDeviceFromParameter(c(&a), &d); out = cpp(d) == &E.dev ? "dev" : "?"; return st;),
                          PP(return &b.device() == &E.dev ? "dev" : "?";)));
    if (!iv) { a.gradient().reset(3); b.gradient().reset(3); }
    obs.push_back(verdict(CC(PRIMITIV_C_STATUS st = primitivResetParameterGradients(c(&a)); if (st == OKST) out = show(a); return st;),
                          PP(b.reset_gradient(); return show(b);)));
    obs.push_back(verdict(CC(PRIMITIV_C_BOOL r = 9; PRIMITIV_C_STATUS st = primitivIsValidParameter(c(&a), &r); out = b2s(r != 0); return st;),
                          PP(return b2s(b.valid());)));
    return all_same(obs); });
  reg("primitivApplyTensorParameter", [](Env &E, Args &A) -> std::string {
    // S T gsel [-7 = invalid parameter]
    bool iv = A.n.size() && A.n.back() == -7;
    Parameter p;
    if (!iv) p.init(A.sh(0), A.t(0).v, E.dev);
    Graph *g = A.u(0) ? &E.g : nullptr;
    return all_same({
      verdict(CC(primitivTensor_t *y = nullptr; PRIMITIV_C_STATUS st = primitivApplyTensorParameter(c(&p), &y); fin(st, y, out); return st;),
              PP(return show(F::parameter_tensor(p));)),
      verdict(CC(primitivNode_t *y = nullptr; PRIMITIV_C_STATUS st = primitivApplyNodeParameter(c(&p), c(g), &y); fin(st, y, out); return st;),
              PP(return show(F::parameter_node(p, g));))}); });
  reg("primitivGetParameterStats", [](Env &E, Args &A) -> std::string {
    // S T s:name : the lookup of a name that was never added ends in std::map::at -> std::out_of_range, which is
    // not a primitiv::Error: it must come back as PRIMITIV_C_ERROR with the what() of that exception
    Parameter p(A.sh(0), A.t(0).v, E.dev);
    p.add_stats("present", Shape({2}));
    const Parameter &kp = p;
    const std::string &nm = A.s(0);
    bool is_error_class = false, threw = false;
    try { kp.stats(nm); } catch (const Error &) { threw = is_error_class = true; } catch (const std::exception &) { threw = true; }
    std::string r = verdict(CC(const primitivTensor_t *t = nullptr; PRIMITIV_C_STATUS st = primitivGetParameterStats(c(&p), nm.c_str(), &t);
                               if (st == OKST) out = show(*cpp(t)); else if (get_message().empty()) out = "empty-message"; return st;),
                            PP(return show(kp.stats(nm));));
    if (threw && !is_error_class && r == "ok same error") {
      // and the status machine treats it like any other failure
      std::string m = get_message();
      std::uint32_t v = 0;
      if (primitivGetShapeVolume(c(&A.sh(0)), &v) != OKST || get_message() != m) return "diff message lost after a succeeding call";
    }
    return r; });
  reg("primitivSaveParameter", [](Env &E, Args &A) -> std::string {
    // S T with_stats devsel [-7 = invalid parameter]: save through both, compare the bytes; load each other's file
    bool iv = A.n.size() && A.n.back() == -7;
    std::uint32_t ws = A.u(0);
    Device *d = A.u(1) ? static_cast<Device *>(&E.dev2) : nullptr;
    Parameter a, b;
    if (!iv) { a.init(A.sh(0), A.t(0).v, E.dev); b.init(A.sh(0), A.t(0).v, E.dev); a.add_stats("m", Shape({2})); b.add_stats("m", Shape({2})); }
    std::string fa = tmp_path("pa.bin"), fb = tmp_path("pb.bin");
    std::remove(fa.c_str()); std::remove(fb.c_str());
    std::vector<std::string> obs;
    obs.push_back(verdict(CC(PRIMITIV_C_STATUS st = primitivSaveParameter(c(&a), fa.c_str(), ws); if (st == OKST) out = file_bytes(fa); return st;),
                          PP(b.save(fb, ws != 0); return file_bytes(fb);)));
    Parameter la, lb;
    obs.push_back(verdict(CC(PRIMITIV_C_STATUS st = primitivLoadParameter(c(&la), fb.c_str(), ws, c(d)); if (st == OKST) out = show(la) + b2s(la.has_stats("m")); return st;),
                          PP(lb.load(fb, ws != 0, d); return show(lb) + b2s(lb.has_stats("m"));)));
    obs.push_back(verdict(CC(return primitivLoadParameter(c(&la), tmp_path("does-not-exist").c_str(), ws, c(d));),
                          PP(lb.load(tmp_path("does-not-exist"), ws != 0, d); return "";)));
    return all_same(obs); });

  // ---- models
  reg("primitivAddParameterToModel", [](Env &E, Args &A) -> std::string {
    // s:n1 s:n2 : m.add(n1,p) ; m.add(n2,sub) ; sub.add(n1,q) ; duplicate names ; lookups ; save / load
    const std::string &n1 = A.s(0), &n2 = A.s(1);
    Model ma, sa, mb, sb;
    Parameter pa(Shape({2}), {1, 2}, E.dev), qa(Shape({3}), {3, 4, 5}, E.dev), pb(Shape({2}), {1, 2}, E.dev), qb(Shape({3}), {3, 4, 5}, E.dev);
    std::vector<std::string> obs;
    obs.push_back(verdict(CC(return primitivAddParameterToModel(c(&ma), n1.c_str(), c(&pa));), PP(mb.add(n1, pb); return "";)));
    obs.push_back(verdict(CC(return primitivAddParameterToModel(c(&ma), n1.c_str(), c(&qa));), PP(mb.add(n1, qb); return "";)));
    obs.push_back(verdict(CC(return primitivAddSubmodelToModel(c(&ma), n2.c_str(), c(&sa));), PP(mb.add(n2, sb); return "";)));
    obs.push_back(verdict(CC(return primitivAddSubmodelToModel(c(&ma), n2.c_str(), c(&sa));), PP(mb.add(n2, sb); return "";)));
    obs.push_back(verdict(CC(return primitivAddSubmodelToModel(c(&sa), n1.c_str(), c(&ma));), PP(sb.add(n1, mb); return "";)));
    obs.push_back(verdict(CC(return primitivAddParameterToModel(c(&sa), n1.c_str(), c(&qa));), PP(sb.add(n1, qb); return "";)));
    const Model &kmb = mb;   // the lookups take a const handle
    const char *path1[1] = {n1.c_str()};
    const char *path2[2] = {n2.c_str(), n1.c_str()};
    const char *path3[2] = {n1.c_str(), n2.c_str()};
    obs.push_back(verdict(CC(const primitivParameter_t *r = nullptr; PRIMITIV_C_STATUS st = primitivGetParameterFromModel(c(&ma), path1, 1, &r);
                             if (st == OKST) out = cpp(r) == &pa ? "p" : "?"; return st;),
                          PP(return &kmb.get_parameter(std::vector<std::string>{n1}) == &pb ? "p" : "?";)));
    obs.push_back(verdict(CC(const primitivParameter_t *r = nullptr; PRIMITIV_C_STATUS st = primitivGetParameterFromModel(c(&ma), path2, 2, &r);
                             if (st == OKST) out = cpp(r) == &qa ? "q" : "?"; return st;),
                          PP(return &kmb.get_parameter(std::vector<std::string>{n2, n1}) == &qb ? "q" : "?";)));
    obs.push_back(verdict(CC(const primitivParameter_t *r = nullptr; return primitivGetParameterFromModel(c(&ma), path3, 2, &r);),
                          PP(kmb.get_parameter(std::vector<std::string>{n1, n2}); return "";)));
    obs.push_back(verdict(CC(const primitivModel_t *r = nullptr; PRIMITIV_C_STATUS st = primitivGetSubmodelFromModel(c(&ma), path2, 1, &r);
                             if (st == OKST) out = cpp(r) == &sa ? "s" : "?"; return st;),
                          PP(return &kmb.get_submodel(std::vector<std::string>{n2}) == &sb ? "s" : "?";)));
    obs.push_back(verdict(CC(const primitivModel_t *r = nullptr; return primitivGetSubmodelFromModel(c(&ma), path3, 2, &r);),
                          PP(kmb.get_submodel(std::vector<std::string>{n1, n2}); return "";)));
    std::string fa = tmp_path("ma.bin"), fb = tmp_path("mb.bin");
    std::remove(fa.c_str()); std::remove(fb.c_str());
    // statistics on both sides; PRIMITIV_C_BOOL is "zero / non-zero" (define.h): the C side passes true values other than 1
    if (pa.valid() && pb.valid()) { pa.add_stats("m", Shape({2})); pb.add_stats("m", Shape({2})); pa.stats("m").reset(7); pb.stats("m").reset(7); }
    const PRIMITIV_C_BOOL truthy[3] = {2u, 0x100u, 0x80000000u};
    const PRIMITIV_C_BOOL ws_save = truthy[(n1.size() + n2.size()) % 3], ws_load = truthy[(n1.size() + 2 * n2.size() + 1) % 3];
    obs.push_back(verdict(CC(PRIMITIV_C_STATUS st = primitivSaveModel(c(&ma), fa.c_str(), ws_save); if (st == OKST) out = file_bytes(fa); return st;),
                          PP(mb.save(fb, true); return file_bytes(fb);)));
    pa.value().reset(9); pb.value().reset(9);
    if (pa.valid() && pa.has_stats("m")) { pa.stats("m").reset(1); pb.stats("m").reset(1); }
    obs.push_back(verdict(CC(PRIMITIV_C_STATUS st = primitivLoadModel(c(&ma), fb.c_str(), ws_load, nullptr);
                             if (st == OKST) out = show(pa) + show(qa) + (pa.has_stats("m") ? show(pa.stats("m").to_vector()) : "nostats"); return st;),
                          PP(mb.load(fb, true, nullptr); return show(pb) + show(qb) + (pb.has_stats("m") ? show(pb.stats("m").to_vector()) : "nostats");)));
    obs.push_back(verdict(CC(return primitivLoadModel(c(&ma), tmp_path("does-not-exist").c_str(), 1, c(static_cast<Device *>(&E.dev2)));),
                          PP(mb.load(tmp_path("does-not-exist"), true, &E.dev2); return "";)));
    return all_same(obs); });
  reg("primitivCreateModel", [](Env &, Args &) -> std::string {
    return verdict(CC(primitivModel_t *m = nullptr; PRIMITIV_C_STATUS st = primitivCreateModel(&m); if (st != OKST) return st;
                      const char *nm[1] = {"x"}; const primitivParameter_t *r = nullptr;
                      out = primitivGetParameterFromModel(m, nm, 1, &r) == ERRST ? "empty" : "?"; return primitivDeleteModel(m);),
                   PP(return "empty";)); });

  // ---- optimizers: kind F:a F:b epoch F:lr F:wd F:gc s:key intval F:floatval
  for (int k = 0; k < 6; ++k) {
    reg(opt_names[k], [k](Env &E, Args &A) -> std::string {
      float a = A.fl(0), b2 = A.fl(1);
      std::unique_ptr<Optimizer> po(make_opt(k, a, b2));
      primitivOptimizer_t *co = nullptr;
      if (make_opt_c(k, a, b2, &co) != OKST || !co) return "diff optimizer not created: " + get_message();
      std::vector<std::string> obs;
      Parameter pa(Shape({2, 2}), {1, 2, 3, 4}, E.dev), pb(Shape({2, 2}), {1, 2, 3, 4}, E.dev);
      Parameter qa(Shape({2}), {5, 6}, E.dev), qb(Shape({2}), {5, 6}, E.dev);
      Parameter ra(Shape({3}), {7, 8, 9}, E.dev), rb(Shape({3}), {7, 8, 9}, E.dev);
      Model ma, mb, m2a, m2b, m3a, m3b;
      ma.add("q", qa); mb.add("q", qb); m2a.add("r", ra); m2b.add("r", rb);
      obs.push_back(show_configs(*cpp(co)) == show_configs(*po) ? "ok same" : "diff configs after creation c=" + show_configs(*cpp(co)) + " cpp=" + show_configs(*po));
      obs.push_back(verdict(CC(return primitivSetOptimizerEpoch(co, A.u(0));), PP(po->set_epoch(A.u(0)); return "";)));
      obs.push_back(verdict(CC(return primitivSetOptimizerLearningRateScaling(co, A.fl(2));), PP(po->set_learning_rate_scaling(A.fl(2)); return "";)));
      obs.push_back(verdict(CC(return primitivSetOptimizerWeightDecay(co, A.fl(3));), PP(po->set_weight_decay(A.fl(3)); return "";)));
      obs.push_back(verdict(CC(return primitivSetOptimizerGradientClipping(co, A.fl(4));), PP(po->set_gradient_clipping(A.fl(4)); return "";)));
      obs.push_back(verdict(CC(std::uint32_t r = 77; PRIMITIV_C_STATUS st = primitivGetOptimizerEpoch(co, &r); out = num(r); return st;), PP(return num(po->get_epoch());)));
      obs.push_back(verdict(CC(float r = 77; PRIMITIV_C_STATUS st = primitivGetOptimizerLearningRateScaling(co, &r); out = hexf(r); return st;), PP(return hexf(po->get_learning_rate_scaling());)));
      obs.push_back(verdict(CC(float r = 77; PRIMITIV_C_STATUS st = primitivGetOptimizerWeightDecay(co, &r); out = hexf(r); return st;), PP(return hexf(po->get_weight_decay());)));
      obs.push_back(verdict(CC(float r = 77; PRIMITIV_C_STATUS st = primitivGetOptimizerGradientClipping(co, &r); out = hexf(r); return st;), PP(return hexf(po->get_gradient_clipping());)));
      // configuration by key (0 is an ordinary value)
      const std::string &key = A.s(0);
      obs.push_back(verdict(CC(PRIMITIV_C_STATUS st = primitivSetOptimizerIntConfig(co, key.c_str(), A.u(1)); if (st == OKST) out = show_configs(*cpp(co)); return st;),
        PP(std::unordered_map<std::string, std::uint32_t> u{{key, A.u(1)}}; std::unordered_map<std::string, float> f; po->set_configs(u, f); return show_configs(*po);)));
      obs.push_back(verdict(CC(PRIMITIV_C_STATUS st = primitivSetOptimizerFloatConfig(co, key.c_str(), A.fl(5)); if (st == OKST) out = show_configs(*cpp(co)); return st;),
        PP(std::unordered_map<std::string, std::uint32_t> u; std::unordered_map<std::string, float> f{{key, A.fl(5)}}; po->set_configs(u, f); return show_configs(*po);)));
      obs.push_back(verdict(CC(std::uint32_t r = 4242; PRIMITIV_C_STATUS st = primitivGetOptimizerIntConfig(co, key.c_str(), &r); out = num(r); return st;),
        PP(std::unordered_map<std::string, std::uint32_t> u; std::unordered_map<std::string, float> f; po->get_configs(u, f); return num(u.count(key) ? u[key] : 4242);)));
      obs.push_back(verdict(CC(float r = 4242; PRIMITIV_C_STATUS st = primitivGetOptimizerFloatConfig(co, key.c_str(), &r); out = hexf(r); return st;),
        PP(std::unordered_map<std::string, std::uint32_t> u; std::unordered_map<std::string, float> f; po->get_configs(u, f); return hexf(f.count(key) ? f[key] : 4242.0f);)));
      // registration: one parameter, an array of parameters (with a duplicate), a model, an array of models
      obs.push_back(verdict(CC(return primitivAddParameterToOptimizer(co, c(&pa));), PP(po->add(pb); return "";)));
      obs.push_back(verdict(CC(return primitivAddParameterToOptimizer(co, c(&pa));), PP(po->add(pb); return "";)));
      obs.push_back(verdict(CC(return primitivAddModelToOptimizer(co, c(&ma));), PP(po->add(mb); return "";)));
      { primitivModel_t *ms[2] = {c(&m2a), c(&m3a)};
        obs.push_back(verdict(CC(return primitivAddModelsToOptimizer(co, ms, 2);), PP(po->add(m2b); po->add(m3b); return "";))); }
      { Parameter xa(Shape({2}), {1, 1}, E.dev), xb(Shape({2}), {1, 1}, E.dev), ya(Shape({2}), {2, 2}, E.dev), yb(Shape({2}), {2, 2}, E.dev);
        primitivParameter_t *ps[2] = {c(&xa), c(&ya)};
        obs.push_back(verdict(CC(return primitivAddParametersToOptimizer(co, ps, A.u(2) % 3);),
                              PP(if (A.u(2) % 3 > 0) po->add(xb); if (A.u(2) % 3 > 1) po->add(yb); return "";)));
        // a rejected array call ({valid, NULL}) registers nothing: after one more update on both sides the parameter that
        // stood before the NULL still has its value
        { Parameter za(Shape({2}), {3, 3}, E.dev);
          primitivParameter_t *bad[2] = {c(&za), nullptr};
          const PRIMITIV_C_STATUS bst = primitivAddParametersToOptimizer(co, bad, 2);
          (void)get_message();
          primitivResetStatus();
          for (Parameter *p : {&pa, &pb, &qa, &qb, &ra, &rb, &xa, &xb, &ya, &yb}) if (p->valid()) p->gradient().reset(0.25f);
          za.gradient().reset(1);
          bool upd_ok = true;
          try { cpp(co)->update(); po->update(); } catch (const std::exception &) { upd_ok = false; }
          const std::vector<float> zv = za.value().to_vector();
          if (bst != ERRST) obs.push_back("diff status: primitivAddParametersToOptimizer({p, NULL}, 2) did not fail");
          else if (upd_ok && !(zv[0] == 3 && zv[1] == 3)) obs.push_back("diff state: the rejected primitivAddParametersToOptimizer({p, NULL}, 2) registered p (update() changed it)");
          else obs.push_back("ok same error"); }
        // two update steps with the same gradients
        for (int step = 0; step < 2; ++step) {
          obs.push_back(verdict(CC(return primitivResetOptimizerGradients(co);), PP(po->reset_gradients(); return "";)));
          for (Parameter *p : {&pa, &pb, &qa, &qb, &ra, &rb, &xa, &xb, &ya, &yb}) if (p->valid()) p->gradient().reset(0.5f * (step + 1));
          obs.push_back(verdict(CC(PRIMITIV_C_STATUS st = primitivExecuteOptimizerUpdate(co);
                                   if (st == OKST) out = show(pa) + show(qa) + show(ra) + show(xa) + show(ya) + num(cpp(co)->get_epoch()); return st;),
                                PP(po->update(); return show(pb) + show(qb) + show(rb) + show(xb) + show(yb) + num(po->get_epoch());)));
        }
        std::string fa = tmp_path("oa.bin"), fb = tmp_path("ob.bin");
        std::remove(fa.c_str()); std::remove(fb.c_str());
        obs.push_back(verdict(CC(PRIMITIV_C_STATUS st = primitivSaveOptimizer(co, fa.c_str()); if (st == OKST) out = file_bytes(fa); return st;),
                              PP(po->save(fb); return file_bytes(fb);)));
        obs.push_back(verdict(CC(PRIMITIV_C_STATUS st = primitivLoadOptimizer(co, fb.c_str()); if (st == OKST) out = show_configs(*cpp(co)); return st;),
                              PP(po->load(fb); return show_configs(*po);)));
        obs.push_back(verdict(CC(return primitivLoadOptimizer(co, tmp_path("does-not-exist").c_str());), PP(po->load(tmp_path("does-not-exist")); return "";)));
        obs.push_back(verdict(CC(return primitivDeleteOptimizer(co);), PP(po.reset(); return "";)));
      }
      return all_same(obs); });
  }

  // ---- devices
  reg("primitivCreateNaiveDeviceWithSeed", [](Env &E, Args &A) -> std::string {
    std::uint32_t seed = A.u(0);
    bool eigen = A.u(1) != 0, with_seed = A.u(2) != 0;
    std::vector<std::string> obs;
    primitivDevice_t *d = nullptr;
    PRIMITIV_C_STATUS st = eigen ? (with_seed ? primitivCreateEigenDeviceWithSeed(seed, &d) : primitivCreateEigenDevice(&d))
                                 : (with_seed ? primitivCreateNaiveDeviceWithSeed(seed, &d) : primitivCreateNaiveDevice(&d));
    if (st != OKST || !d) return "diff device not created: " + get_message();
    std::unique_ptr<Device> p(eigen ? (with_seed ? static_cast<Device *>(new devices::Eigen(seed)) : static_cast<Device *>(new devices::Eigen()))
                                    : (with_seed ? static_cast<Device *>(new devices::Naive(seed)) : static_cast<Device *>(new devices::Naive())));
    if (with_seed) {
      Shape s({2, 3});
      std::string first;
      obs.push_back(verdict(CC(primitivTensor_t *y = nullptr; PRIMITIV_C_STATUS s2 = primitivApplyTensorRandomUniform(c(&s), -1, 1, d, &y); fin(s2, y, out); first = out; return s2;),
                            PP(return show(F::random::uniform_tensor(s, -1, 1, p.get()));)));
      obs.push_back(verdict(CC(primitivTensor_t *y = nullptr; PRIMITIV_C_STATUS s2 = primitivApplyTensorRandomNormal(c(&s), 0, 1, d, &y); fin(s2, y, out); return s2;),
                            PP(return show(F::random::normal_tensor(s, 0, 1, p.get()));)));
      // a second device created through C with the same seed draws the same numbers
      primitivDevice_t *d2 = nullptr;
      PRIMITIV_C_STATUS st2 = eigen ? primitivCreateEigenDeviceWithSeed(seed, &d2) : primitivCreateNaiveDeviceWithSeed(seed, &d2);
      if (st2 != OKST || !d2) return "diff second device not created: " + get_message();
      obs.push_back(verdict(CC(primitivTensor_t *y = nullptr; PRIMITIV_C_STATUS s2 = primitivApplyTensorRandomUniform(c(&s), -1, 1, d2, &y); fin(s2, y, out); return s2;),
                            PP(return first;)));
      obs.push_back(verdict(CC(return primitivDeleteDevice(d2);), PP(return "";)));
    }
    obs.push_back(verdict(CC(PRIMITIV_C_STATUS s2 = primitivSetDefaultDevice(d); out = &Device::get_default() == cpp(d) ? "set" : "?"; return s2;), PP(return "set";)));
    obs.push_back(verdict(CC(primitivDevice_t *r = nullptr; PRIMITIV_C_STATUS s2 = primitivGetDefaultDevice(&r); out = r == d ? "got" : "?"; return s2;), PP(return "got";)));
    obs.push_back(verdict(CC(primitivTensor_t *y = nullptr; Shape s({2}); PRIMITIV_C_STATUS s2 = primitivApplyTensorOnes(c(&s), nullptr, &y);
                             if (s2 == OKST) out = &cpp(y)->device() == cpp(d) ? "on-default" : "elsewhere"; if (y) primitivDeleteTensor(y); return s2;), PP(return "on-default";)));
    obs.push_back(verdict(CC(return primitivDeleteDevice(d);), PP(return "";)));
    // now there is no default device
    obs.push_back(verdict(CC(primitivDevice_t *r = nullptr; return primitivGetDefaultDevice(&r);), PP(Device::get_default(); return "";)));
    Device::set_default(E.dev);
    return all_same(obs); });
  reg("primitivResetStatus", [](Env &, Args &) -> std::string {
    std::vector<std::string> obs;
    Shape s({2, 2});
    PRIMITIV_C_STATUS st = primitivUpdateShapeDim(c(&s), 100, 2);
    std::string w;
    try { s.update_dim(100, 2); } catch (const Error &e) { w = e.what(); }
    obs.push_back(st == ERRST && get_message() == w ? "ok same" : "diff message after a failing call: " + get_message());
    std::uint32_t r = 0;
    obs.push_back(primitivGetShapeDepth(c(&s), &r) == OKST && get_message() == w ? "ok same" : "diff a succeeding call changed the message");
    obs.push_back(primitivResetStatus() == OKST && get_message() == "OK" ? "ok same" : "diff message after reset: " + get_message());
    return all_same(obs); });
}

// ---------------------------------------------------------------- size queries
struct SizeQ {
  std::size_t elem;                                                   // bytes per cell
  std::function<PRIMITIV_C_STATUS(void *, std::size_t *)> call;
  std::string expected;                                               // bytes of the source (with the NUL for strings)
  std::size_t len;                                                    // cells of the source (without the NUL)
};

template <class T> static std::string bytes_of(const std::vector<T> &v) {
  return std::string(reinterpret_cast<const char *>(v.data()), v.size() * sizeof(T));
}

// `spec` (optional): the tensor / node / shape the query is made on; `dim`: the axis of argmax / argmin
static bool make_sizeq(const std::string &fn, World &w, SizeQ &q, const TSpec *spec, std::uint32_t dim) {
  if (spec) {
    w.shp[0] = spec->s;
    w.ten[0] = F::input<Tensor>(spec->s, spec->v, w.dev);
    w.nod[0] = F::input_node(spec->s, spec->v, &w.dev, &w.g);
  }
  if (fn == "primitivGetMessage") {
    primitivResetStatus();
    q.elem = 1; q.expected = std::string("OK") + '\0'; q.len = 2;
    q.call = [](void *b, std::size_t *n) { return primitivGetMessage(static_cast<char *>(b), n); };
  } else if (fn == "primitivGetShapeDims") {
    if (!spec) w.shp[0] = Shape({2, 3, 4});
    q.elem = 4; q.expected = bytes_of(w.shp[0].dims()); q.len = w.shp[0].dims().size();
    q.call = [&w](void *b, std::size_t *n) { return primitivGetShapeDims(c(&w.shp[0]), static_cast<std::uint32_t *>(b), n); };
  } else if (fn == "primitivRepresentShapeAsString") {
    std::string t = w.shp[0].to_string();
    q.elem = 1; q.expected = t + '\0'; q.len = t.size();
    q.call = [&w](void *b, std::size_t *n) { return primitivRepresentShapeAsString(c(&w.shp[0]), static_cast<char *>(b), n); };
  } else if (fn == "primitivEvaluateTensorAsArray") {
    q.elem = 4; q.expected = bytes_of(w.ten[0].to_vector()); q.len = w.ten[0].shape().size();
    q.call = [&w](void *b, std::size_t *n) { return primitivEvaluateTensorAsArray(c(&w.ten[0]), static_cast<float *>(b), n); };
  } else if (fn == "primitivGetTensorArgmax" || fn == "primitivGetTensorArgmin") {
    bool mx = fn == "primitivGetTensorArgmax";
    std::uint32_t td = spec ? dim : 0;
    std::vector<std::uint32_t> v = mx ? w.ten[0].argmax(td) : w.ten[0].argmin(td);
    q.elem = 4; q.expected = bytes_of(v); q.len = v.size();
    q.call = [&w, mx, td](void *b, std::size_t *n) {
      return mx ? primitivGetTensorArgmax(c(&w.ten[0]), td, static_cast<std::uint32_t *>(b), n)
                : primitivGetTensorArgmin(c(&w.ten[0]), td, static_cast<std::uint32_t *>(b), n); };
  } else if (fn == "primitivEvaluateNodeAsArray") {
    q.elem = 4; q.expected = bytes_of(w.nod[0].to_vector()); q.len = w.nod[0].shape().size();
    q.call = [&w](void *b, std::size_t *n) { return primitivEvaluateNodeAsArray(c(&w.nod[0]), static_cast<float *>(b), n); };
  } else if (fn == "primitivGetNodeArgmax" || fn == "primitivGetNodeArgmin") {
    bool mx = fn == "primitivGetNodeArgmax";
    std::uint32_t nd = spec ? dim : 1;
    std::vector<std::uint32_t> v = mx ? w.nod[0].argmax(nd) : w.nod[0].argmin(nd);
    q.elem = 4; q.expected = bytes_of(v); q.len = v.size();
    q.call = [&w, mx, nd](void *b, std::size_t *n) {
      return mx ? primitivGetNodeArgmax(c(&w.nod[0]), nd, static_cast<std::uint32_t *>(b), n)
                : primitivGetNodeArgmin(c(&w.nod[0]), nd, static_cast<std::uint32_t *>(b), n); };
  } else if (fn == "primitivDumpGraph") {
    std::string t = w.g.dump("dot");
    q.elem = 1; q.expected = t + '\0'; q.len = t.size();
    q.call = [&w](void *b, std::size_t *n) { return primitivDumpGraph(c(&w.g), "dot", static_cast<char *>(b), n); };
  } else {
    return false;
  }
  return true;
}

static std::string do_sizeq(const std::vector<std::string> &wd) {
  World w;
  SizeQ q;
  std::size_t fixed = wd[0] == "sizeq0" ? 2 : 4;
  if (wd.size() != fixed && wd.size() != fixed + 2) throw BadOp();
  TSpec spec;
  std::uint32_t dim = 0;
  bool has_spec = wd.size() == fixed + 2;
  if (has_spec) {
    Args A = parse_args(wd, fixed);
    if (A.T.size() != 1 || A.n.size() != 1) throw BadOp();
    spec = A.T[0];
    dim = A.u(0);
  }
  if (!make_sizeq(wd[1], w, q, has_spec ? &spec : nullptr, dim)) throw BadOp();
  if (wd[0] == "sizeq0") return "ok " + std::to_string(q.len);
  std::size_t len = vh::to_u64(wd[2]);
  if (len != q.len) return "bad-len " + std::to_string(q.len);
  if (wd[3] == "null") {
    std::size_t n = 12345;
    PRIMITIV_C_STATUS st = q.call(nullptr, &n);
    return std::string(st == OKST ? "ok" : "err") + " size=" + std::to_string(n) + " written=0";
  }
  std::size_t cap = vh::to_u64(wd[3]);
  if (cap > (1u << 20)) throw BadOp();
  unsigned char *buf = static_cast<unsigned char *>(::operator new(cap * q.elem));  // exact size: ASan sees an overrun
  std::memset(buf, 0xA5, cap * q.elem);
  std::size_t n = cap;
  PRIMITIV_C_STATUS st = q.call(buf, &n);
  std::size_t written = 0;
  while (written < cap) {
    bool sent = true;
    for (std::size_t k = 0; k < q.elem; ++k) if (buf[written * q.elem + k] != 0xA5) sent = false;
    if (sent) break;
    ++written;
  }
  bool tail_clean = true;
  for (std::size_t k = written * q.elem; k < cap * q.elem; ++k) if (buf[k] != 0xA5) tail_clean = false;
  std::string r = std::string(st == OKST ? "ok" : st == ERRST ? "err" : "bad-status") + " size=" + std::to_string(n) + " written=" + std::to_string(written);
  if (st == OKST && (written * q.elem != q.expected.size() || std::memcmp(buf, q.expected.data(), q.expected.size()) != 0)) r += " diff-content";
  if (!tail_clean) r += " tail-touched";
  if (st == ERRST && get_message().find("Size is not enough") == std::string::npos) r += " wrong-message";
  ::operator delete(buf);
  return r;
}

// ---------------------------------------------------------------- status machine
struct FailKind { const char *name; const char *label; };
static const FailKind FAILS[] = {
  {"nshape", "null:shape"}, {"nretval", "null:retval"}, {"ntensor", "null:tensor"}, {"nnode", "null:node"}, {"ngraph", "null:graph"},
  {"nparameter", "null:parameter"}, {"nmodel", "null:model"}, {"noptimizer", "null:optimizer"}, {"nnewobj", "null:newobj"},
  {"nsize", "null:size"}, {"updim", "cpp:updim"}, {"reshape", "cpp:reshape"}, {"tofloat", "cpp:tofloat"}, {"invalid", "cpp:invalid"},
  {"slice", "cpp:slice"}, {"matmul", "cpp:matmul"}, {"nofile", "cpp:nofile"}, {"stats", "cpp:stats"}};

// objects of one thread
struct Local {
  devices::Naive dev;
  Shape s22, s3;
  Tensor t22, t23, inval;
  Parameter par;
  Local() : s22({2, 2}), s3({3}) {
    t22 = F::input<Tensor>(s22, {1, 2, 3, 4}, dev);
    t23 = F::input<Tensor>(Shape({2, 3}), {1, 2, 3, 4, 5, 6}, dev);
    par.init(s22, {1, 2, 3, 4}, dev);
  }
};

// performs the failing call through C; `expected` = what() of the same failure through C++ ("" for null kinds)
static PRIMITIV_C_STATUS do_fail(const std::string &k, Local &L, std::string &expected) {
  std::uint32_t r = 0; PRIMITIV_C_BOOL b = 0; float f = 0;
  expected.clear();
  if (k == "nshape") return primitivGetShapeDepth(nullptr, &r);
  if (k == "nretval") return primitivGetShapeDepth(c(&L.s22), nullptr);
  if (k == "ntensor") return primitivIsValidTensor(nullptr, &b);
  if (k == "nnode") return primitivIsValidNode(nullptr, &b);
  if (k == "ngraph") return primitivClearGraph(nullptr);
  if (k == "nparameter") return primitivIsValidParameter(nullptr, &b);
  if (k == "nmodel") return primitivDeleteModel(nullptr);
  if (k == "noptimizer") return primitivDeleteOptimizer(nullptr);
  if (k == "nnewobj") return primitivCreateShape(nullptr);
  if (k == "nsize") return primitivGetMessage(nullptr, nullptr);
#define CPPFAIL(stmt) try { stmt; expected = "<the C++ call did not throw>"; } catch (const std::exception &e) { expected = e.what(); }
  if (k == "updim") { Shape s = L.s22; CPPFAIL(s.update_dim(100, 2)) Shape s2 = L.s22; return primitivUpdateShapeDim(c(&s2), 100, 2); }
  if (k == "reshape") { CPPFAIL(L.t22.reshape(L.s3)) primitivTensor_t *y = nullptr; return primitivReshapeTensor(c(&L.t22), c(&L.s3), &y); }
  if (k == "tofloat") { CPPFAIL(L.t22.to_float()) return primitivEvaluateTensorAsFloat(c(&L.t22), &f); }
  if (k == "invalid") { CPPFAIL(L.inval.shape()) primitivShape_t *y = nullptr; return primitivGetTensorShape(c(&L.inval), &y); }
  if (k == "slice") { CPPFAIL(F::slice(L.t22, 0, 2, 1)) primitivTensor_t *y = nullptr; return primitivApplyTensorSlice(c(&L.t22), 0, 2, 1, &y); }
  if (k == "matmul") { CPPFAIL(F::matmul(L.t23, L.t23)) primitivTensor_t *y = nullptr; return primitivApplyTensorMatmul(c(&L.t23), c(&L.t23), &y); }
  if (k == "nofile") { Parameter p; CPPFAIL(p.load(tmp_path("does-not-exist"), true, &L.dev))
                       return primitivLoadParameter(c(&p), tmp_path("does-not-exist").c_str(), 1, c(static_cast<Device *>(&L.dev))); }
  if (k == "stats") { CPPFAIL(static_cast<const Parameter &>(L.par).stats("nostat")) const primitivTensor_t *t = nullptr; return primitivGetParameterStats(c(&L.par), "nostat", &t); }
  throw BadOp();
}

static PRIMITIV_C_STATUS do_succ(const std::string &k, Local &L) {
  if (k == "shape") { primitivShape_t *s = nullptr; PRIMITIV_C_STATUS st = primitivCreateShape(&s); if (st != OKST) return st; return primitivDeleteShape(s); }
  if (k == "tensor") { primitivTensor_t *s = nullptr; PRIMITIV_C_STATUS st = primitivCreateTensor(&s); if (st != OKST) return st; return primitivDeleteTensor(s); }
  if (k == "dims") { std::size_t n = 0; PRIMITIV_C_STATUS st = primitivGetShapeDims(c(&L.s22), nullptr, &n); if (st != OKST) return st;
                     std::vector<std::uint32_t> v(n); return primitivGetShapeDims(c(&L.s22), v.data(), &n); }
  if (k == "volume") { std::uint32_t r = 0; return primitivGetShapeVolume(c(&L.s22), &r); }
  if (k == "node") { primitivNode_t *s = nullptr; PRIMITIV_C_STATUS st = primitivCreateNode(&s); if (st != OKST) return st; return primitivDeleteNode(s); }
  if (k == "optimizer") { primitivOptimizer_t *s = nullptr; PRIMITIV_C_STATUS st = primitivCreateSgdOptimizer(0.5f, &s); if (st != OKST) return st; return primitivDeleteOptimizer(s); }
  if (k == "string") { std::size_t n = 0; PRIMITIV_C_STATUS st = primitivRepresentShapeAsString(c(&L.s22), nullptr, &n); if (st != OKST) return st;
                       std::vector<char> v(n); return primitivRepresentShapeAsString(c(&L.s22), v.data(), &n); }
  throw BadOp();
}

static std::mutex g_labels_mu;
static std::map<std::string, std::string> g_labels;   // what() text -> label

static std::string label_of(const std::string &m) {
  if (m == "OK") return "OK";
  std::string x = null_arg_of(m);
  if (!x.empty()) return "null:" + x;
  std::lock_guard<std::mutex> lk(g_labels_mu);
  auto it = g_labels.find(m);
  if (it != g_labels.end()) return it->second;
  return "?" + m;
}

static const char *fail_label(const std::string &k) {
  for (const FailKind &f : FAILS) if (k == f.name) return f.label;
  return nullptr;
}

// fail through C, check ERROR and message == what() of the C++ failure
static std::string fail_once(const std::string &k, Local &L) {
  const char *lab = fail_label(k);
  if (!lab) throw BadOp();
  std::string expected;
  PRIMITIV_C_STATUS st = do_fail(k, L, expected);
  if (st != ERRST) return st == OKST ? "ok" : "bad-status";
  std::string m = get_message();
  if (!expected.empty()) {
    if (m != expected) return "err message-differs c=(" + m + ") cpp=(" + expected + ")";
    std::lock_guard<std::mutex> lk(g_labels_mu);
    g_labels[expected] = lab;
  }
  return "err";
}

static std::string do_st(const std::vector<std::string> &wd) {
  static Local *L = new Local();   // lives as long as the process (the stream)
  if (wd.size() == 2 && wd[1] == "reset") return primitivResetStatus() == OKST ? "ok" : "err";
  if (wd.size() == 2 && wd[1] == "getmsg") return "ok msg " + label_of(get_message());
  if (wd.size() == 3 && wd[1] == "fail") return fail_once(wd[2], *L);
  if (wd.size() == 3 && wd[1] == "succ") { PRIMITIV_C_STATUS st = do_succ(wd[2], *L); return st == OKST ? "ok" : st == ERRST ? "err" : "bad-status"; }
  throw BadOp();
}

struct Barrier {
  std::mutex mu; std::condition_variable cv; std::size_t n, count, gen;
  explicit Barrier(std::size_t n_) : n(n_), count(0), gen(0) {}
  void wait() {
    std::unique_lock<std::mutex> lk(mu);
    std::size_t g = gen;
    if (++count == n) { ++gen; count = 0; cv.notify_all(); }
    else cv.wait(lk, [&] { return g != gen; });
  }
};

static std::string do_threads(const std::vector<std::string> &wd) {
  if (wd.size() != 2) throw BadOp();
  std::vector<std::string> kinds = vh::split(wd[1], ',');
  if (kinds.empty() || kinds.size() > 16) throw BadOp();
  for (const std::string &k : kinds) if (!fail_label(k)) throw BadOp();
  static Local *LM = new Local();
  std::string mainres = fail_once("nretval", *LM);
  std::size_t n = kinds.size();
  std::vector<std::string> labels(n), notes(n);
  Barrier bar(n);
  std::vector<std::thread> ths;
  for (std::size_t i = 0; i < n; ++i) {
    ths.emplace_back([&, i] {
      try {
        Local L;
        if (get_message() != "OK") notes[i] = "fresh-thread-message-not-OK";
        primitivResetStatus();
        bar.wait();
        std::string r = fail_once(kinds[i], L);
        if (r != "err") notes[i] = r;
        bar.wait();
        if (do_succ("shape", L) != OKST) notes[i] = "succ-failed";
        bar.wait();
        labels[i] = label_of(get_message());
      } catch (...) { notes[i] = "exception-in-thread"; }
    });
  }
  for (std::thread &t : ths) t.join();
  std::string r = "ok ";
  for (std::size_t i = 0; i < n; ++i) r += (i ? "," : "") + labels[i];
  r += " main=" + label_of(get_message());
  if (mainres != "err") r += " main-fail:" + mainres;
  for (std::size_t i = 0; i < n; ++i) if (!notes[i].empty()) r += " note" + std::to_string(i) + ":" + notes[i];
  return r;
}

// ---------------------------------------------------------------- main
static std::string exec(const std::vector<std::string> &wd) {
  if (wd.empty()) throw BadOp();
  const std::string &op = wd[0];
  if (op == "call") return do_call(wd);
  if (op == "eq") {
    if (wd.size() < 2) throw BadOp();
    auto it = cases().find(wd[1]);
    if (it == cases().end()) throw BadOp();
    Args A = parse_args(wd, 2);
    Env E;
    return it->second(E, A);
  }
  if (op == "sizeq0" || op == "sizeq") return do_sizeq(wd);
  if (op == "st") return do_st(wd);
  if (op == "threads") return do_threads(wd);
  if (op == "list-eq") { std::string r = "ok"; for (auto &kv : cases()) r += " " + kv.first; return r; }
  throw BadOp();
}

int main() {
  char tmpl[] = "/tmp/vcapiXXXXXX";
  const char *d = mkdtemp(tmpl);
  g_tmpdir = d ? d : "/tmp";
  register_functions();
  register_objects();
  register_training();
  int rc = vh::run_lines(exec);
  if (d) {
    for (const char *f : {"mech.bin", "pa.bin", "pb.bin", "ma.bin", "mb.bin", "oa.bin", "ob.bin"}) std::remove(tmp_path(f).c_str());
    rmdir(d);
  }
  return rc;
}
