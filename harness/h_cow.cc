// Harness of the `cow` family: real primitiv::Tensor objects (and the tensors
// held by Parameter objects) driven through the same line protocol as the Lean
// model lean/PrimitivModel/Driver/CowDrv.lean.  Every Tensor of the pool lives
// in its own heap cell (unique_ptr) so that "no object", "moved-from/invalid"
// and "valid" are distinct, explicit states.  The device is a subclass of
// devices::Naive / devices::Eigen whose new_handle counts live buffers.
#include "common.h"
#include <cmath>
#include <cstring>
#include <map>
#include <memory>
#include <primitiv/core/arithmetic.h>
#include <primitiv/core/basic_functions.h>
#include <primitiv/core/device.h>
#include <primitiv/core/parameter.h>
#include <primitiv/core/shape.h>
#include <primitiv/core/tensor.h>
#include <primitiv/devices/eigen/device.h>
#include <primitiv/devices/naive/device.h>

using namespace primitiv;
using vh::BadOp;

static long g_live = 0;
static long g_fail_allocs = 0;   // the next that many device allocations fail (op `failnext`)

// Same body as devices::{Naive,Eigen}::new_handle (malloc of 4*size bytes, freed
// by the last owner), plus the counter.
static std::shared_ptr<void> counted_handle(const Shape &shape, std::size_t *const allocated_size) {
  if (g_fail_allocs > 0) { --g_fail_allocs; PRIMITIV_THROW_ERROR("Memory allocation failed (injected)."); }
  const std::uint32_t mem_size = sizeof(float) * shape.size();
  void *data = std::malloc(mem_size);
  if (!data) PRIMITIV_THROW_ERROR("Memory allocation failed. Requested size: " << mem_size);
  if (allocated_size) *allocated_size = mem_size;
  ++g_live;
  return std::shared_ptr<void>(data, [](void *p) { std::free(p); --g_live; });
}

class CNaive : public devices::Naive {
  std::shared_ptr<void> new_handle(const Shape &shape, std::size_t *const allocated_size) override {
    return counted_handle(shape, allocated_size);
  }
};
class CEigen : public devices::Eigen {
  std::shared_ptr<void> new_handle(const Shape &shape, std::size_t *const allocated_size) override {
    return counted_handle(shape, allocated_size);
  }
};

struct ShapeTok { std::vector<std::uint32_t> dims; std::uint32_t batch; };

static ShapeTok parse_shape(const std::string &t) {
  if (t.size() < 2 || t[0] != 'S' || t[1] != ':') throw BadOp();
  std::vector<std::string> p = vh::split(t.substr(2), '/');
  if (p.size() != 2) throw BadOp();
  ShapeTok s;
  s.dims = vh::csv_u32(p[0]);
  s.batch = vh::to_u32(p[1]);
  return s;
}

static std::int64_t to_int(const std::string &s) {
  if (s.empty()) throw BadOp();
  std::size_t i = (s[0] == '-') ? 1 : 0;
  if (i == s.size()) throw BadOp();
  for (std::size_t j = i; j < s.size(); ++j) if (s[j] < '0' || s[j] > '9') throw BadOp();
  return std::strtoll(s.c_str(), nullptr, 10);
}

static std::vector<float> parse_vals(const std::string &t) {
  if (t.size() < 2 || t[0] != 'V' || t[1] != ':') throw BadOp();
  std::vector<float> v;
  const std::string body = t.substr(2);
  if (body.empty()) return v;
  for (const std::string &x : vh::split(body, ',')) v.push_back(static_cast<float>(to_int(x)));
  return v;
}

static void show_float(std::ostream &os, float f) {
  if (std::isfinite(f) && std::fabs(f) < 9e15 && static_cast<float>(static_cast<long long>(f)) == f) {
    os << static_cast<long long>(f);
  } else {
    std::uint32_t u;
    std::memcpy(&u, &f, 4);
    os << "f" << std::hex << u << std::dec;
  }
}

static std::string show_tensor(const Tensor &t) {
  if (!t.valid()) return "inv";
  std::ostringstream os;
  os << t.shape().to_string() << ":";
  const std::vector<float> v = t.to_vector();
  for (std::size_t i = 0; i < v.size(); ++i) {
    if (i) os << ",";
    show_float(os, v[i]);
  }
  return os.str();
}

struct World {
  CNaive naive;
  CEigen eigen;
  Device *dev;
  std::map<std::uint32_t, std::unique_ptr<Tensor>> ts;
  std::map<std::uint32_t, std::unique_ptr<Parameter>> ps;
  World() : dev(&naive) {}
  ~World() { clear(); }
  void clear() { ts.clear(); ps.clear(); }

  bool has(std::uint32_t h) const { return ts.count(h) != 0; }
  Tensor &T(std::uint32_t h) { return *ts.at(h); }
  Parameter &P(std::uint32_t p) {
    std::unique_ptr<Parameter> &q = ps[p];
    if (!q) q.reset(new Parameter());
    return *q;
  }
  // g = x (copy assignment onto an existing object, copy construction otherwise)
  void assign_copy(std::uint32_t g, const Tensor &x) {
    if (has(g)) T(g) = x; else ts[g].reset(new Tensor(x));
  }
  // g = std::move(x)
  void assign_move(std::uint32_t g, Tensor &&x) {
    if (has(g)) T(g) = std::move(x); else ts[g].reset(new Tensor(std::move(x)));
  }
};

static std::string exec(World &w, const std::vector<std::string> &a) {
  if (a.empty()) throw BadOp();
  const std::string &op = a[0];
  const std::size_t n = a.size();
  if (op == "reset" && n == 1) {
    w.clear();
    return g_live == 0 ? "ok" : "ok leaked " + std::to_string(g_live);
  }
  if (op == "dev" && n == 2) {
    if (a[1] != "naive" && a[1] != "eigen") throw BadOp();
    w.clear();
    w.dev = a[1] == "naive" ? static_cast<Device *>(&w.naive) : static_cast<Device *>(&w.eigen);
    return g_live == 0 ? "ok" : "ok leaked " + std::to_string(g_live);
  }
  if (op == "live" && n == 1) return "ok " + std::to_string(g_live);
  if (op == "failnext" && n == 2) { g_fail_allocs = static_cast<long>(vh::to_u32(a[1])); return "ok"; }   // 0 switches it off
  if (op == "readall" && n == 1) {
    std::uint32_t top = 0;
    bool any = false;
    for (auto &kv : w.ts) { top = std::max(top, kv.first); any = true; }
    for (auto &kv : w.ps) { top = std::max(top, kv.first); any = true; }
    std::ostringstream os;
    bool first = true;
    if (any) for (std::uint32_t i = 0; i <= top; ++i) {
      if (w.has(i)) {
        os << (first ? "" : ";") << "t" << i << "=" << show_tensor(w.T(i));
        first = false;
      }
      auto it = w.ps.find(i);
      if (it != w.ps.end() && it->second && it->second->valid()) {
        const Parameter &p = *it->second;
        os << (first ? "" : ";") << "v" << i << "=" << show_tensor(p.value());
        os << ";g" << i << "=" << show_tensor(p.gradient());
        first = false;
      }
    }
    return first ? "ok -" : "ok " + os.str();
  }
  if (op == "new" && n == 4) {
    const std::uint32_t h = vh::to_u32(a[1]);
    const ShapeTok st = parse_shape(a[2]);
    const std::vector<float> v = parse_vals(a[3]);
    const Shape s(st.dims, st.batch);
    w.assign_move(h, w.dev->new_tensor_by_vector(s, v));
    return "ok";
  }
  if ((op == "copy" || op == "copyctor" || op == "move" || op == "flatten" || op == "iadd" || op == "isub") && n == 3) {
    const std::uint32_t h = vh::to_u32(a[1]), g = vh::to_u32(a[2]);
    if (op == "iadd" || op == "isub") {
      if (!w.has(h) || !w.has(g)) return "noobj";
      if (op == "iadd") w.T(h) += w.T(g); else w.T(h) -= w.T(g);
      return "ok";
    }
    if (!w.has(h)) return "noobj";
    if (op == "copy") w.assign_copy(g, w.T(h));
    else if (op == "copyctor") {
      std::unique_ptr<Tensor> fresh(new Tensor(w.T(h)));
      w.ts[g] = std::move(fresh);
    }
    else if (op == "move") w.assign_move(g, std::move(w.T(h)));
    else w.assign_move(g, functions::flatten(w.T(h)));
    return "ok";
  }
  if (op == "reshape" && n == 4) {
    const std::uint32_t h = vh::to_u32(a[1]), g = vh::to_u32(a[2]);
    const ShapeTok st = parse_shape(a[3]);
    if (!w.has(h)) return "noobj";
    const Shape s(st.dims, st.batch);
    w.assign_move(g, functions::reshape(w.T(h), s));
    return "ok";
  }
  if ((op == "reset" || op == "imul") && n == 3) {
    const std::uint32_t h = vh::to_u32(a[1]);
    const float k = static_cast<float>(to_int(a[2]));
    if (!w.has(h)) return "noobj";
    if (op == "reset") w.T(h).reset(k); else w.T(h) *= k;
    return "ok";
  }
  if (op == "resetv" && n == 3) {
    const std::uint32_t h = vh::to_u32(a[1]);
    const std::vector<float> v = parse_vals(a[2]);
    if (!w.has(h)) return "noobj";
    w.T(h).reset_by_vector(v);
    return "ok";
  }
  if ((op == "invalidate" || op == "drop" || op == "read" || op == "shape" || op == "valid" || op == "device") && n == 2) {
    const std::uint32_t h = vh::to_u32(a[1]);
    if (!w.has(h)) return "noobj";
    if (op == "invalidate") { w.T(h).invalidate(); return "ok"; }
    if (op == "drop") { w.ts.erase(h); return "ok"; }
    if (op == "read") {
      const Tensor &t = w.T(h);
      const std::vector<float> v = t.to_vector();
      const Shape s = t.shape();
      std::ostringstream os;
      os << "ok " << s.to_string() << ":";
      for (std::size_t i = 0; i < v.size(); ++i) { if (i) os << ","; show_float(os, v[i]); }
      return os.str();
    }
    if (op == "shape") return "ok " + w.T(h).shape().to_string();
    if (op == "valid") return w.T(h).valid() ? "ok true" : "ok false";
    Device &d = w.T(h).device();
    return &d == w.dev ? "ok" : "ok other-device";
  }
  if (op == "param" && n == 4) {
    const std::uint32_t p = vh::to_u32(a[1]);
    const ShapeTok st = parse_shape(a[2]);
    const std::vector<float> v = parse_vals(a[3]);
    const Shape s(st.dims, st.batch);
    w.P(p).init(s, v, w.dev);
    return "ok";
  }
  if ((op == "pvalue" || op == "pgrad" || op == "ptensor" || op == "piadd_value") && n == 3) {
    const std::uint32_t p = vh::to_u32(a[1]), g = vh::to_u32(a[2]);
    if (op == "piadd_value") {
      if (!w.has(g)) return "noobj";
      w.P(p).value() += w.T(g);
      return "ok";
    }
    if (op == "pvalue") w.assign_copy(g, static_cast<const Parameter &>(w.P(p)).value());
    else if (op == "pgrad") w.assign_copy(g, static_cast<const Parameter &>(w.P(p)).gradient());
    else w.assign_move(g, functions::parameter<Tensor>(w.P(p)));
    return "ok";
  }
  // ---- the public Device entry points, called directly on pool tensors
  if ((op == "diadd" || op == "disub") && n == 3) {
    const std::uint32_t h = vh::to_u32(a[1]), g = vh::to_u32(a[2]);
    if (!w.has(h) || !w.has(g)) return "noobj";
    if (op == "diadd") w.dev->inplace_add(w.T(g), w.T(h)); else w.dev->inplace_subtract(w.T(g), w.T(h));
    return "ok";
  }
  if (op == "dimul" && n == 3) {
    const std::uint32_t h = vh::to_u32(a[1]);
    const float k = static_cast<float>(to_int(a[2]));
    if (!w.has(h)) return "noobj";
    w.dev->inplace_multiply_const(k, w.T(h));
    return "ok";
  }
  if (op == "dslice_bw" && n == 5) {
    const std::uint32_t gy = vh::to_u32(a[1]), dim = vh::to_u32(a[2]), off = vh::to_u32(a[3]), gx = vh::to_u32(a[4]);
    if (!w.has(gy) || !w.has(gx)) return "noobj";
    if (gy == gx) return "alias";
    w.dev->slice_bw(w.T(gy), dim, off, w.T(gx));
    return "ok";
  }
  if (op == "dpick_bw" && n == 5) {
    const std::uint32_t gy = vh::to_u32(a[1]), dim = vh::to_u32(a[2]), gx = vh::to_u32(a[4]);
    if (a[3].size() < 2 || a[3][0] != 'I' || a[3][1] != ':') throw BadOp();
    const std::vector<std::uint32_t> ids = vh::csv_u32(a[3].substr(2));
    if (!w.has(gy) || !w.has(gx)) return "noobj";
    if (gy == gx) return "alias";
    w.dev->pick_bw(w.T(gy), ids, dim, w.T(gx));
    return "ok";
  }
  if (op == "dflip_bw" && n == 4) {
    const std::uint32_t gy = vh::to_u32(a[1]), dim = vh::to_u32(a[2]), gx = vh::to_u32(a[3]);
    if (!w.has(gy) || !w.has(gx)) return "noobj";
    if (gy == gx) return "alias";
    w.dev->flip_bw(w.T(gy), dim, w.T(gx));
    return "ok";
  }
  if (op == "dtranspose_bw" && n == 3) {
    const std::uint32_t gy = vh::to_u32(a[1]), gx = vh::to_u32(a[2]);
    if (!w.has(gy) || !w.has(gx)) return "noobj";
    if (gy == gx) return "alias";
    // x and y only contribute their shapes: x := gx, y := gy
    w.dev->transpose_bw(w.T(gx), w.T(gy), w.T(gy), w.T(gx));
    return "ok";
  }
  if ((op == "dadd_bw" || op == "dsub_bw") && n == 4) {
    const std::uint32_t gy = vh::to_u32(a[1]), ga = vh::to_u32(a[2]), gb = vh::to_u32(a[3]);
    if (!w.has(gy) || !w.has(ga) || !w.has(gb)) return "noobj";
    if (gy == ga || gy == gb || ga == gb) return "alias";
    // a, b, y only contribute their shapes: a := ga, b := gb, y := gy
    if (op == "dadd_bw") w.dev->add_bw(w.T(ga), w.T(gb), w.T(gy), w.T(gy), w.T(ga), w.T(gb));
    else w.dev->subtract_bw(w.T(ga), w.T(gb), w.T(gy), w.T(gy), w.T(ga), w.T(gb));
    return "ok";
  }
  if (op == "piadd_grad" && n == 3) {
    const std::uint32_t p = vh::to_u32(a[1]), g = vh::to_u32(a[2]);
    if (!w.has(g)) return "noobj";
    w.dev->inplace_add(w.T(g), w.P(p).gradient());
    return "ok";
  }
  // ---- primitiv::functions on a single operand
  if ((op == "fcopy" || op == "fpositive" || op == "fbconcat1") && n == 3) {
    const std::uint32_t h = vh::to_u32(a[1]), g = vh::to_u32(a[2]);
    if (!w.has(h)) return "noobj";
    if (op == "fcopy") w.assign_move(g, functions::copy(w.T(h), w.dev));
    else if (op == "fpositive") w.assign_move(g, functions::positive(w.T(h)));
    else {
      const std::vector<const Tensor *> xs{&w.T(h)};
      w.assign_move(g, functions::batch::concat(xs));
    }
    return "ok";
  }
  if (op == "fconcat1" && n == 4) {
    const std::uint32_t h = vh::to_u32(a[1]), g = vh::to_u32(a[2]), dim = vh::to_u32(a[3]);
    if (!w.has(h)) return "noobj";
    const std::vector<const Tensor *> xs{&w.T(h)};
    w.assign_move(g, functions::concat(xs, dim));
    return "ok";
  }
  if (op == "probe" && n == 3) {
    const std::string &fn = a[1];
    const std::uint32_t h = vh::to_u32(a[2]);
    if (fn != "sum0" && fn != "add" && fn != "matmul" && fn != "bsum" && fn != "tofloat" && fn != "argmax0") throw BadOp();
    if (!w.has(h)) return "noobj";
    const Tensor &x = w.T(h);
    if (fn == "sum0") { Tensor r = functions::sum(x, 0); }
    else if (fn == "add") { Tensor r = x + x; }
    else if (fn == "matmul") { Tensor r = functions::matmul(x, x); }
    else if (fn == "bsum") { Tensor r = functions::batch::sum(x); }
    else if (fn == "tofloat") { volatile float r = x.to_float(); (void)r; }
    else { std::vector<std::uint32_t> r = x.argmax(0); }
    return "ok";
  }
  if (op == "pdrop" && n == 2) {
    w.ps.erase(vh::to_u32(a[1]));
    return "ok";
  }
  throw BadOp();
}

int main() {
  World w;
  return vh::run_lines([&w](const std::vector<std::string> &a) { return exec(w, a); });
}
