// Harness of the `files` family: Parameter / Model / Optimizer save and load on
// real files (in a per-process temporary directory) with a bitwise snapshot of
// every object after the call.  Line protocol: see
// lean/PrimitivModel/Driver/FilesDrv.lean.
#include "common.h"
#include <dlfcn.h>
#include <signal.h>
#include <sys/resource.h>
#include <sys/stat.h>
#include <unistd.h>
#include <dirent.h>
#include <ctime>
#include <algorithm>
#include <array>
#include <cmath>
#include <cstddef>
#include <cstring>
#include <fstream>
#include <functional>
#include <initializer_list>
#include <map>
#include <memory>
#include <mutex>
#include <random>
#include <set>
#include <unordered_map>
#include <unordered_set>

// The statistics of a Parameter cannot be enumerated and the fields of an
// Optimizer cannot be set to arbitrary bit patterns through the public API; the
// harness reads/writes those private fields directly.  Access specifiers do not
// change the layout or the symbol names, so this links against the unmodified
// library.
#define private public
#include <primitiv/core/parameter.h>
#include <primitiv/core/optimizer.h>
#include <primitiv/core/optimizer_impl.h>
#undef private
#include <primitiv/core/model.h>
#include <primitiv/core/functions.h>
#include <primitiv/core/arithmetic.h>
#include <primitiv/core/shape.h>
#include <primitiv/core/tensor.h>
#include <primitiv/devices/naive/device.h>
#include <primitiv/devices/eigen/device.h>

// Allocation cap (see h_msgpack.cc): a request above the cap throws
// std::bad_alloc, everything else goes to the sanitizer's operator new.
static const std::size_t ALLOC_CAP = std::size_t(256) << 20;
typedef void *(*new_fn)(std::size_t);
void *operator new(std::size_t n) {
  if (n > ALLOC_CAP) throw std::bad_alloc();
  static new_fn real = reinterpret_cast<new_fn>(dlsym(RTLD_NEXT, "_Znwm"));
  return real(n);
}
void *operator new[](std::size_t n) {
  if (n > ALLOC_CAP) throw std::bad_alloc();
  static new_fn real = reinterpret_cast<new_fn>(dlsym(RTLD_NEXT, "_Znam"));
  return real(n);
}

using namespace primitiv;
using vh::BadOp;

static Device *g_naive = nullptr, *g_eigen = nullptr, *g_naive2 = nullptr;
static std::string g_dir;

static void cleanup() {
  if (g_dir.empty()) return;
  for (const char *f : {"/in.bin", "/out.bin", "/adir"}) {
    std::string p = g_dir + f;
    ::unlink(p.c_str());
    ::rmdir(p.c_str());
  }
  ::rmdir(g_dir.c_str());
}

// A sanitizer abort skips atexit: remove directories left behind by earlier processes (older than 30 minutes).
static void sweep_stale(const std::string &base) {
  DIR *d = ::opendir(base.c_str());
  if (!d) return;
  std::time_t now = std::time(nullptr);
  while (struct dirent *e = ::readdir(d)) {
    std::string n = e->d_name;
    if (n.compare(0, 12, "verif_files_") != 0) continue;
    std::string p = base + "/" + n;
    struct stat st;
    if (::stat(p.c_str(), &st) != 0 || !S_ISDIR(st.st_mode) || now - st.st_mtime < 1800) continue;
    for (const char *f : {"/in.bin", "/out.bin", "/adir"}) {
      std::string q = p + f;
      ::unlink(q.c_str());
      ::rmdir(q.c_str());
    }
    ::rmdir(p.c_str());
  }
  ::closedir(d);
}

static int hv(char c) {
  if (c >= '0' && c <= '9') return c - '0';
  if (c >= 'a' && c <= 'f') return c - 'a' + 10;
  throw BadOp();
}
static std::string bytes_of(const std::string &h) {
  if (h == "-") return std::string();
  if (h.empty() || h.size() % 2) throw BadOp();
  std::string s(h.size() / 2, 0);
  for (std::size_t i = 0; i < s.size(); ++i) s[i] = static_cast<char>(hv(h[2 * i]) * 16 + hv(h[2 * i + 1]));
  return s;
}
static std::string name_of(const std::string &h) { return h.empty() ? std::string() : bytes_of(h); }
static std::string hex_of(const std::string &b) {
  static const char *d = "0123456789abcdef";
  std::string s(2 * b.size(), '0');
  for (std::size_t i = 0; i < b.size(); ++i) {
    unsigned char c = static_cast<unsigned char>(b[i]);
    s[2 * i] = d[c >> 4];
    s[2 * i + 1] = d[c & 15];
  }
  return s;
}
static std::vector<float> words_of(const std::string &h) {
  if (h.size() % 8) throw BadOp();
  std::vector<float> v(h.size() / 8);
  for (std::size_t i = 0; i < v.size(); ++i) {
    std::uint32_t w = 0;
    for (int k = 0; k < 8; ++k) w = w * 16 + static_cast<std::uint32_t>(hv(h[8 * i + k]));
    std::memcpy(&v[i], &w, 4);
  }
  return v;
}
static float word_of(const std::string &h) {
  if (h.size() != 8) throw BadOp();
  return words_of(h)[0];
}
static std::string hex_words(const std::vector<float> &v) {
  static const char *d = "0123456789abcdef";
  std::string s(8 * v.size(), '0');
  for (std::size_t i = 0; i < v.size(); ++i) {
    std::uint32_t w;
    std::memcpy(&w, &v[i], 4);
    for (int k = 0; k < 8; ++k) s[8 * i + 7 - k] = d[(w >> (4 * k)) & 15];
  }
  return s;
}
static std::string hex_word(float f) { return hex_words(std::vector<float>{f}); }

static Shape parse_shape(const std::string &t) {
  std::vector<std::string> p = vh::split(t, '/');
  if (p.size() != 2) throw BadOp();
  try {
    return Shape(vh::csv_u32(p[0]), vh::to_u32(p[1]));
  } catch (const Error &) { throw BadOp(); }
}
struct TTok { Shape shape; std::vector<float> data; };
static TTok parse_tensor(const std::string &t) {
  std::vector<std::string> p = vh::split(t, ':');
  if (p.size() != 2) throw BadOp();
  TTok r{parse_shape(p[0]), words_of(p[1])};
  if (r.data.size() != r.shape.size()) throw BadOp();
  return r;
}
static std::string show_shape(const Shape &s) {
  std::string r;
  for (std::uint32_t i = 0; i < s.depth(); ++i) { if (i) r += ','; r += std::to_string(s[i]); }
  return r + "/" + std::to_string(s.batch());
}
static std::string show_tensor(const Tensor &t) { return show_shape(t.shape()) + ":" + hex_words(t.to_vector()); }

static Device &dev_of(const std::string &d) {
  if (d == "n") return *g_naive;
  if (d == "e") return *g_eigen;
  if (d == "m") return *g_naive2;
  throw BadOp();
}

static std::unique_ptr<Parameter> make_param(const std::string &tok) {
  if (tok == "I") return std::unique_ptr<Parameter>(new Parameter());
  std::vector<std::string> f = vh::split(tok, ';');
  if (f.size() < 4 || f[0] != "V") throw BadOp();
  Device &dev = dev_of(f[1]);
  TTok v = parse_tensor(f[2]);
  std::vector<float> g = words_of(f[3]);
  if (g.size() != v.data.size()) throw BadOp();
  std::unique_ptr<Parameter> p;
  try {
    p.reset(new Parameter(v.shape, v.data, dev));
    p->gradient().reset_by_vector(g);
    for (std::size_t i = 4; i < f.size(); ++i) {
      std::vector<std::string> kv = vh::split(f[i], '=');
      if (kv.size() != 2) throw BadOp();
      std::string name = name_of(kv[0]);
      TTok t = parse_tensor(kv[1]);
      p->add_stats(name, t.shape);
      p->stats(name).reset_by_vector(t.data);
    }
  } catch (const Error &) { throw BadOp(); }
  return p;
}

static std::string show_param(const Parameter &p) {
  if (!p.valid()) return "I";
  const Tensor &v = p.value();
  const Tensor &g = p.gradient();
  bool ok = p.shape() == v.shape() && p.shape() == g.shape() && &v.device() == &p.device() && &g.device() == &p.device();
  std::vector<std::pair<std::string, std::string>> st;
  for (const auto &kv : p.stats_) {
    if (&kv.second.device() != &p.device()) ok = false;
    st.emplace_back(kv.first, show_tensor(kv.second));
  }
  std::sort(st.begin(), st.end(), [](const std::pair<std::string, std::string> &a, const std::pair<std::string, std::string> &b) {
    // unsigned byte order, shorter first on a common prefix
    return std::lexicographical_compare(a.first.begin(), a.first.end(), b.first.begin(), b.first.end(),
        [](char x, char y) { return static_cast<unsigned char>(x) < static_cast<unsigned char>(y); });
  });
  std::string s = ok ? "V;" : "MIXED;";
  // value and gradient must be usable together (operators throw "Device mismatched" otherwise)
  try {
    Tensor sum = g + v;
    if (&sum.device() != &p.device()) ok = false;
  } catch (const Error &) { ok = false; }
  if (ok) s = "V;";
  else s = "MIXED;";
  s += (&p.device() == g_naive ? "n" : (&p.device() == g_eigen ? "e" : (&p.device() == g_naive2 ? "m" : "?")));
  s += ";" + show_tensor(v) + ";" + hex_words(g.to_vector());
  for (const auto &e : st) s += ";" + hex_of(e.first) + "=" + e.second;
  return s;
}

struct Tree {
  Model model;
  std::map<std::string, std::unique_ptr<Tree>> sub;
};
struct ModelObj {
  Tree root;
  std::vector<std::unique_ptr<Parameter>> params;  // in the order of the description
};
static std::vector<std::string> parse_path(const std::string &t) {
  if (t.empty() || t[0] != '.') throw BadOp();
  std::vector<std::string> parts = vh::split(t.substr(1), '.');
  std::vector<std::string> names;
  for (const std::string &h : parts) names.push_back(name_of(h));
  return names;
}
// A model that is checkpointed while it is still growing (save / load of the root, then more
// layers, then the real save / load): the earlier calls must not fix what the later ones see.
// State-neutral: the partial tree is saved with statistics and loaded back onto the same device,
// and the gradient (which a load clears) is put back.
static void interim_checkpoint(ModelObj &m) {
  // every parameter registered so far must be valid and on one device (otherwise the interim calls would fail or move data)
  std::vector<Parameter *> ps;
  for (const auto &kv : m.root.model.get_all_parameters()) ps.push_back(kv.second);
  if (ps.empty()) return;
  for (Parameter *p : ps) if (!p->valid() || &p->device() != &ps[0]->device()) return;
  const std::string path = g_dir + "/interim.bin";
  try {
    std::vector<std::vector<float>> gs;
    for (Parameter *p : ps) gs.push_back(p->gradient().to_vector());
    m.root.model.save(path, true);
    m.root.model.load(path, true, ps[0]->device());
    for (std::size_t i = 0; i < ps.size(); ++i) ps[i]->gradient().reset_by_vector(gs[i]);
  } catch (const Error &) {}
  ::unlink(path.c_str());
}
static void build_model(ModelObj &m, const std::vector<std::string> &w, std::size_t i) {
  if (i >= w.size()) throw BadOp();
  std::uint32_t n = vh::to_u32(w[i++]);
  if (w.size() != i + 2 * static_cast<std::size_t>(n)) throw BadOp();
  std::vector<std::vector<std::string>> paths;
  for (std::uint32_t k = 0; k < n; ++k) {
    paths.push_back(parse_path(w[i + 2 * k]));
    m.params.push_back(make_param(w[i + 2 * k + 1]));
  }
  try {
    for (std::uint32_t k = 0; k < n; ++k) {
      Tree *cur = &m.root;
      for (std::size_t j = 0; j + 1 < paths[k].size(); ++j) {
        std::unique_ptr<Tree> &nx = cur->sub[paths[k][j]];
        if (!nx) {
          nx.reset(new Tree());
          cur->model.add(paths[k][j], nx->model);
        }
        cur = nx.get();
      }
      cur->model.add(paths[k].back(), *m.params[k]);
      if (k + 1 < n) interim_checkpoint(m);
    }
  } catch (const Error &) { throw BadOp(); }
}
static std::string show_model(const ModelObj &m) {
  std::string s;
  for (std::size_t k = 0; k < m.params.size(); ++k) { if (k) s += ' '; s += show_param(*m.params[k]); }
  return s;
}

struct OptObj {
  std::string kind;
  std::unique_ptr<Optimizer> opt;
};
static OptObj make_opt(const std::string &tok) {
  std::vector<std::string> f = vh::split(tok, ':');
  if (f.size() < 5) throw BadOp();
  OptObj o;
  o.kind = f[0];
  std::vector<float> h;
  for (std::size_t i = 5; i < f.size(); ++i) h.push_back(word_of(f[i]));
  std::size_t H = h.size();
  if (o.kind == "SGD" && H == 1) o.opt.reset(new optimizers::SGD(h[0]));
  else if (o.kind == "MomentumSGD" && H == 2) o.opt.reset(new optimizers::MomentumSGD(h[0], h[1]));
  else if (o.kind == "AdaGrad" && H == 2) o.opt.reset(new optimizers::AdaGrad(h[0], h[1]));
  else if (o.kind == "RMSProp" && H == 3) o.opt.reset(new optimizers::RMSProp(h[0], h[1], h[2]));
  else if (o.kind == "AdaDelta" && H == 2) o.opt.reset(new optimizers::AdaDelta(h[0], h[1]));
  else if (o.kind == "Adam" && H == 4) o.opt.reset(new optimizers::Adam(h[0], h[1], h[2], h[3]));
  else throw BadOp();
  o.opt->epoch_ = vh::to_u32(f[1]);
  o.opt->lr_scale_ = word_of(f[2]);
  o.opt->l2_strength_ = word_of(f[3]);
  o.opt->clip_threshold_ = word_of(f[4]);
  return o;
}
static std::string show_opt(const OptObj &o) {
  const Optimizer &b = *o.opt;
  std::string s = o.kind + ":" + std::to_string(b.get_epoch()) + ":" + hex_word(b.get_learning_rate_scaling()) + ":" +
      hex_word(b.get_weight_decay()) + ":" + hex_word(b.get_gradient_clipping());
  if (o.kind == "SGD") { auto &x = static_cast<const optimizers::SGD &>(b); s += ":" + hex_word(x.eta()); }
  else if (o.kind == "MomentumSGD") { auto &x = static_cast<const optimizers::MomentumSGD &>(b); s += ":" + hex_word(x.eta()) + ":" + hex_word(x.momentum()); }
  else if (o.kind == "AdaGrad") { auto &x = static_cast<const optimizers::AdaGrad &>(b); s += ":" + hex_word(x.eta()) + ":" + hex_word(x.eps()); }
  else if (o.kind == "RMSProp") { auto &x = static_cast<const optimizers::RMSProp &>(b); s += ":" + hex_word(x.eta()) + ":" + hex_word(x.alpha()) + ":" + hex_word(x.eps()); }
  else if (o.kind == "AdaDelta") { auto &x = static_cast<const optimizers::AdaDelta &>(b); s += ":" + hex_word(x.rho()) + ":" + hex_word(x.eps()); }
  else if (o.kind == "Adam") { auto &x = static_cast<const optimizers::Adam &>(b); s += ":" + hex_word(x.alpha()) + ":" + hex_word(x.beta1()) + ":" + hex_word(x.beta2()) + ":" + hex_word(x.eps()); }
  return s;
}

static bool parse_ws(const std::string &s) {
  if (s == "0") return false;
  if (s == "1") return true;
  throw BadOp();
}

static std::string read_file(const std::string &path) {
  std::ifstream f(path, std::ios::binary);
  std::stringstream ss;
  ss << f.rdbuf();
  return ss.str();
}
// writes the bytes of a `load` line to the input file; "missing" = no such file
static std::string input_file(const std::string &hex) {
  std::string path = g_dir + "/in.bin";
  ::unlink(path.c_str());
  if (hex == "missing") return path;
  std::string b = bytes_of(hex);
  std::ofstream f(path, std::ios::binary | std::ios::trunc);
  f.write(b.data(), static_cast<std::streamsize>(b.size()));
  f.close();
  if (!f) throw std::runtime_error("harness cannot write its input file");
  return path;
}

// runs `body`; primitiv::Error and std::bad_alloc are the clean rejections
template <class F> static bool guarded(F body) {
  try { body(); return true; }
  catch (const Error &) { return false; }
  catch (const std::bad_alloc &) { return false; }
  catch (const std::length_error &) { return false; }
}

struct SinkSpec {
  std::string path;
  bool limit;
  rlim_t cap;
};
static SinkSpec parse_sink(const std::string &s) {
  if (s == "full") return SinkSpec{"/dev/full", false, 0};
  if (s == "nodir") return SinkSpec{g_dir + "/no/such/dir/out.bin", false, 0};
  if (s == "isdir") { std::string d = g_dir + "/adir"; ::mkdir(d.c_str(), 0700); return SinkSpec{d, false, 0}; }
  if (s.compare(0, 3, "cap") == 0) return SinkSpec{g_dir + "/out.bin", true, static_cast<rlim_t>(vh::to_u64(s.substr(3)))};
  throw BadOp();
}

template <class F> static std::string run_save(bool failing, const std::string &sink, F save) {
  if (!failing) {
    std::string path = g_dir + "/out.bin";
    ::unlink(path.c_str());
    if (!guarded([&] { save(path); })) return "err";
    return "ok " + hex_of(read_file(path));
  }
  SinkSpec sp = parse_sink(sink);
  struct rlimit old;
  if (sp.limit) {
    ::unlink(sp.path.c_str());
    getrlimit(RLIMIT_FSIZE, &old);
    struct rlimit lim = old;
    lim.rlim_cur = sp.cap;
    setrlimit(RLIMIT_FSIZE, &lim);
  }
  bool ok = guarded([&] { save(sp.path); });
  if (sp.limit) setrlimit(RLIMIT_FSIZE, &old);
  return ok ? "ok" : "err";
}

static std::string exec(const std::vector<std::string> &w) {
  if (w.size() < 3) throw BadOp();
  const std::string &op = w[0];
  if (op == "save" || op == "savefail") {
    bool failing = op == "savefail";
    std::size_t i = failing ? 2 : 1;
    std::string sink = failing ? w[1] : "";
    if (failing) parse_sink(sink);
    if (w.size() <= i) throw BadOp();
    const std::string &kind = w[i];
    if (kind == "param" && w.size() == i + 3) {
      bool ws = parse_ws(w[i + 1]);
      std::unique_ptr<Parameter> p = make_param(w[i + 2]);
      return run_save(failing, sink, [&](const std::string &path) { p->save(path, ws); });
    }
    if (kind == "model" && w.size() >= i + 3) {
      bool ws = parse_ws(w[i + 1]);
      ModelObj m;
      build_model(m, w, i + 2);
      return run_save(failing, sink, [&](const std::string &path) { m.root.model.save(path, ws); });
    }
    if (kind == "opt" && w.size() == i + 2) {
      OptObj o = make_opt(w[i + 1]);
      // periodic checkpointing: the same object was saved before, in another state (every setting different)
      {
        const std::uint32_t e0 = o.opt->epoch_;
        const float a0 = o.opt->lr_scale_, b0 = o.opt->l2_strength_, c0 = o.opt->clip_threshold_;
        o.opt->epoch_ = e0 + 3; o.opt->lr_scale_ = 0.125f; o.opt->l2_strength_ = 0.375f; o.opt->clip_threshold_ = 5.5f;
        const std::string scratch = g_dir + "/interim_opt.bin";
        try { o.opt->save(scratch); } catch (const Error &) {}
        ::unlink(scratch.c_str());
        o.opt->epoch_ = e0; o.opt->lr_scale_ = a0; o.opt->l2_strength_ = b0; o.opt->clip_threshold_ = c0;
      }
      return run_save(failing, sink, [&](const std::string &path) { o.opt->save(path); });
    }
    throw BadOp();
  }
  if (op == "load") {
    const std::string &kind = w[1];
    if (kind == "param" && w.size() == 6) {
      bool ws = parse_ws(w[2]);
      Device &dev = dev_of(w[3]);
      std::unique_ptr<Parameter> p = make_param(w[5]);
      std::string path = input_file(w[4]);
      bool ok = guarded([&] { p->load(path, ws, dev); });
      return std::string(ok ? "ok " : "err ") + show_param(*p);
    }
    if (kind == "model" && w.size() >= 6) {
      bool ws = parse_ws(w[2]);
      Device &dev = dev_of(w[3]);
      ModelObj m;
      build_model(m, w, 5);
      std::string path = input_file(w[4]);
      bool ok = guarded([&] { m.root.model.load(path, ws, dev); });
      return std::string(ok ? "ok " : "err ") + show_model(m);
    }
    if (kind == "opt" && w.size() == 4) {
      OptObj o = make_opt(w[3]);
      std::string path = input_file(w[2]);
      bool ok = guarded([&] { o.opt->load(path); });
      return std::string(ok ? "ok " : "err ") + show_opt(o);
    }
    throw BadOp();
  }
  throw BadOp();
}

int main() {
  const char *base = std::getenv("TMPDIR");
  std::string basedir = base && *base ? base : "/tmp";
  sweep_stale(basedir);
  std::string tmpl = basedir + "/verif_files_XXXXXX";
  std::vector<char> buf(tmpl.begin(), tmpl.end());
  buf.push_back(0);
  if (!mkdtemp(buf.data())) { std::perror("mkdtemp"); return 2; }
  g_dir = buf.data();
  std::atexit(cleanup);
  ::signal(SIGXFSZ, SIG_IGN);  // a write beyond RLIMIT_FSIZE fails with EFBIG instead of killing the process
  int rc;
  {
    devices::Naive naive;
    devices::Eigen eigen;
    devices::Naive naive2;
    g_naive2 = &naive2;
    g_naive = &naive;
    g_eigen = &eigen;
    Device::set_default(naive);
    rc = vh::run_lines(exec);
  }
  return rc;
}
