// Harness of the `funcs` family: the public function layer primitiv::functions
// on BOTH variable types.  One PROGRAM per process (stateful): every `let`
// line is executed on the lazy Node API and on the eager Tensor API in
// lock-step by ONE template (so that both see the same call), and the line
// reports accept/reject on each API, the static Node shape, and — on `force` —
// the values of both, compared bit for bit.
//
//   dev naive|naive2|eigen        current (default) device
//   graph 0|1                     current (default) graph
//   param p S:2,2/1 D:1,2,3,4     new Parameter on the current device; p = parameter(p) on both APIs
//   let v = f args…               (see `apply` for the function set and the argument syntax)
//   force v | backward v | grad p | value p | resetgrad | nops
//
// Result of `let`:  ok <shape>            both APIs accept, same shape
//                   err                   both reject
//                   err graph             Node API rejects a call mixing nodes of two graphs
//                   err tensor-ok <shape> Node rejects, Tensor accepts
//                   ok <shape> devmix     Node accepts (error due at evaluation), Tensor rejects: devices mixed
//                   ok <shape> tensor-err Node accepts, Tensor rejects
//                   ok <shape> tensor-shape <shape>
//                   ok <shape> tensor-accepts-devmix   both accept although the operands live on different devices
#include "common.h"
#include <cmath>
#include <cstring>
#include <map>
#include <memory>
#include <primitiv/primitiv.h>

using namespace primitiv;
namespace F = primitiv::functions;
using vh::BadOp;

namespace {

struct NoValue {};   // the variable exists but has no value on this API

struct VarRec {
  bool has_t = false, has_n = false;
  std::vector<Tensor> t;
  std::vector<Node> n;
  int dev = 0;       // index of the device
  int graph = 0;     // index of the graph
  bool random = false;
  bool isvec = false;
};

struct World {
  devices::Naive naive{12345};
  devices::Naive naive2{777};
  devices::Eigen eigen{4242};
  Graph g0, g1;
  std::map<std::string, std::unique_ptr<Parameter>> params;
  std::map<std::string, VarRec> vars;
  int curdev = 0, curgraph = 0;

  Device &device(int i) { return i == 0 ? static_cast<Device &>(naive) : i == 1 ? static_cast<Device &>(naive2) : static_cast<Device &>(eigen); }
  Graph &graph(int i) { return i == 0 ? g0 : g1; }
  int dev_index(const std::string &s) {
    if (s == "naive") return 0;
    if (s == "naive2") return 1;
    if (s == "eigen") return 2;
    throw BadOp();
  }
};

Shape parse_shape(const std::string &t) {
  if (t.size() < 2 || t[0] != 'S' || t[1] != ':') throw BadOp();
  std::vector<std::string> p = vh::split(t.substr(2), '/');
  if (p.size() != 2) throw BadOp();
  return Shape(vh::csv_u32(p[0]), vh::to_u32(p[1]));
}

std::vector<std::uint32_t> parse_ids(const std::string &t) {
  if (t.size() < 2 || t[0] != 'I' || t[1] != ':') throw BadOp();
  return vh::csv_u32(t.substr(2));
}

float parse_float(const std::string &s) {
  if (s.empty()) throw BadOp();
  char *end = nullptr;
  const double v = std::strtod(s.c_str(), &end);
  if (*end != '\0') throw BadOp();
  return static_cast<float>(v);
}

std::vector<float> parse_data(const std::string &t) {
  if (t.size() < 2 || t[0] != 'D' || t[1] != ':') throw BadOp();
  std::vector<float> v;
  if (t.size() == 2) return v;
  for (const std::string &s : vh::split(t.substr(2), ',')) v.push_back(parse_float(s));
  return v;
}

std::string fmt(float v) {
  std::uint32_t bits;
  std::memcpy(&bits, &v, 4);
  if (std::fabs(v) <= 16777216.0f && v == std::floor(v) && !(v == 0 && bits != 0)) {
    return std::to_string(static_cast<long long>(v));
  }
  char buf[16];
  std::snprintf(buf, sizeof buf, "x%08x", bits);
  return buf;
}

std::string fmt(const std::vector<float> &v) {
  std::string s;
  for (std::size_t i = 0; i < v.size(); ++i) { if (i) s += ','; s += fmt(v[i]); }
  return s.empty() ? "-" : s;
}

// equal bit patterns; two NaNs are the same value whatever their sign and payload (sqrt(-1) * 0 carries the sign of
// whichever operand the compiled instruction happened to propagate: x7fc00000 on one path, xffc00000 on the other)
bool same_bits(const std::vector<float> &a, const std::vector<float> &b) {
  if (a.size() != b.size()) return false;
  for (std::size_t i = 0; i < a.size(); ++i) {
    if (a[i] != a[i] && b[i] != b[i]) continue;
    if (std::memcmp(&a[i], &b[i], 4) != 0) return false;
  }
  return true;
}

template <class V> struct Side;
template <> struct Side<Tensor> {
  static bool has(const VarRec &r) { return r.has_t; }
  static const std::vector<Tensor> &get(const VarRec &r) { return r.t; }
};
template <> struct Side<Node> {
  static bool has(const VarRec &r) { return r.has_n; }
  static const std::vector<Node> &get(const VarRec &r) { return r.n; }
};

// the record and the element index a variable token `v` / `v.2` refers to
const VarRec &lookup(World &w, const std::string &tok, std::size_t *index, bool *whole) {
  std::string name = tok;
  *whole = true; *index = 0;
  const std::size_t dot = tok.find('.');
  if (dot != std::string::npos) {
    name = tok.substr(0, dot);
    *index = vh::to_u32(tok.substr(dot + 1));
    *whole = false;
  }
  auto it = w.vars.find(name);
  if (it == w.vars.end()) throw BadOp();
  return it->second;
}

template <class V>
const V &var(World &w, const std::string &tok) {
  std::size_t ix; bool whole;
  const VarRec &r = lookup(w, tok, &ix, &whole);
  if (whole && r.isvec) throw BadOp();
  if (!whole && !r.isvec) throw BadOp();
  const std::size_t n = r.has_n ? r.n.size() : r.t.size();
  if (ix >= n) throw BadOp();
  if (!Side<V>::has(r)) throw NoValue();
  return Side<V>::get(r)[ix];
}

std::vector<std::string> var_list(const std::string &tok) {
  if (tok.size() < 2 || tok[0] != 'V' || tok[1] != ':') throw BadOp();
  if (tok.size() == 2) return {};
  return vh::split(tok.substr(2), ',');
}

bool is_number(const std::string &s) {
  return !s.empty() && (std::isdigit(static_cast<unsigned char>(s[0])) || s[0] == '-' || s[0] == '.');
}

// all variable tokens of a call (for the graph / device bookkeeping)
std::vector<std::string> var_tokens(const std::vector<std::string> &a) {
  std::vector<std::string> out;
  for (const std::string &t : a) {
    if (t.size() >= 2 && t[1] == ':' && (t[0] == 'S' || t[0] == 'I' || t[0] == 'D')) continue;
    if (t.size() >= 2 && t[0] == 'V' && t[1] == ':') { for (const std::string &x : var_list(t)) out.push_back(x); continue; }
    if (is_number(t)) continue;
    if (t == "naive" || t == "naive2" || t == "eigen") continue;
    out.push_back(t);
  }
  return out;
}

// One call of a function of primitiv::functions on the variable type V.
template <class V>
std::vector<V> apply(World &w, const std::string &f, const std::vector<std::string> &a) {
  const std::size_t n = a.size();
  Device &dev = w.device(w.curdev);
  auto X = [&](std::size_t i) -> const V & { if (i >= n) throw BadOp(); return var<V>(w, a[i]); };
  auto U = [&](std::size_t i) -> std::uint32_t { if (i >= n) throw BadOp(); return vh::to_u32(a[i]); };
  auto Fl = [&](std::size_t i) -> float { if (i >= n) throw BadOp(); return parse_float(a[i]); };
  auto need = [&](std::size_t k) { if (n != k) throw BadOp(); };
  auto one = [](const V &v) { return std::vector<V>{v}; };

#define UNARY(name) if (f == #name) { need(1); return one(F::name(X(0))); }
  UNARY(positive) UNARY(negative) UNARY(abs) UNARY(sqrt) UNARY(exp) UNARY(log) UNARY(tanh) UNARY(sigmoid)
  UNARY(softplus) UNARY(sin) UNARY(cos) UNARY(tan) UNARY(relu) UNARY(lrelu) UNARY(flatten) UNARY(transpose)
  UNARY(stop_gradient) UNARY(selu)
#undef UNARY
#define ARITH(name) if (f == #name) { need(2); \
    if (is_number(a[0]) && is_number(a[1])) throw BadOp(); \
    if (is_number(a[1])) return one(F::name(X(0), Fl(1))); \
    if (is_number(a[0])) return one(F::name(Fl(0), X(1))); \
    return one(F::name(X(0), X(1))); }
  ARITH(add) ARITH(subtract) ARITH(multiply) ARITH(divide) ARITH(pow)
#undef ARITH
  // the operators of arithmetic.h
  if (f == "op+" || f == "op-" || f == "op*" || f == "op/") {
    need(2);
    if (is_number(a[0]) && is_number(a[1])) throw BadOp();
    const char o = f[2];
    if (is_number(a[1])) { const V &x = X(0); const float k = Fl(1); return one(o == '+' ? x + k : o == '-' ? x - k : o == '*' ? x * k : x / k); }
    if (is_number(a[0])) { const float k = Fl(0); const V &x = X(1); return one(o == '+' ? k + x : o == '-' ? k - x : o == '*' ? k * x : k / x); }
    const V &x = X(0); const V &y = X(1);
    return one(o == '+' ? x + y : o == '-' ? x - y : o == '*' ? x * y : x / y);
  }
  if (f == "neg") { need(1); return one(-X(0)); }
  if (f == "pos") { need(1); return one(+X(0)); }
  if (f == "pown") { need(2); const std::int64_t k = vh::to_i64(a[1]); if (k < -2147483647 || k > 2147483647) throw BadOp(); return one(F::pown(X(0), static_cast<std::int32_t>(k))); }
  if (f == "prelu") { need(2); return one(F::prelu(X(0), Fl(1))); }
  if (f == "elu") { need(2); return one(F::elu(X(0), Fl(1))); }
  if (f == "selu2") { need(3); return one(F::selu(X(0), Fl(1), Fl(2))); }
  if (f == "input") { need(2); return one(F::input<V>(parse_shape(a[0]), parse_data(a[1]), dev)); }
  if (f == "copy") {
    if (n == 1) return one(F::copy(X(0)));      // device argument omitted: the default device
    need(2); return one(F::copy(X(0), w.device(w.dev_index(a[1]))));
  }
  if (f == "pick") { need(3); return one(F::pick(X(0), parse_ids(a[1]), U(2))); }
  if (f == "slice") { need(4); return one(F::slice(X(0), U(1), U(2), U(3))); }
  if (f == "split") { need(3); return F::split(X(0), U(1), U(2)); }
  if (f == "concat" || f == "concat_ptr") {
    need(2);
    std::vector<V> xs;
    for (const std::string &t : var_list(a[0])) xs.push_back(var<V>(w, t));
    if (f == "concat") return one(F::concat(xs, U(1)));
    std::vector<const V *> ps;
    for (const V &x : xs) ps.push_back(&x);
    return one(F::concat(ps, U(1)));
  }
  if (f == "reshape") { need(2); return one(F::reshape(X(0), parse_shape(a[1]))); }
  if (f == "flip") { need(2); return one(F::flip(X(0), U(1))); }
  if (f == "permute_dims") { need(2); return one(F::permute_dims(X(0), parse_ids(a[1]))); }
  if (f == "matmul") { need(2); return one(F::matmul(X(0), X(1))); }
  if (f == "max") { need(2); return one(F::max(X(0), U(1))); }
  if (f == "min") { need(2); return one(F::min(X(0), U(1))); }
  if (f == "sum") { need(2); return one(F::sum(X(0), U(1))); }
  if (f == "mean") { need(2); return one(F::mean(X(0), U(1))); }
  if (f == "logsumexp") { need(2); return one(F::logsumexp(X(0), U(1))); }
  if (f == "log_softmax") { need(2); return one(F::log_softmax(X(0), U(1))); }
  if (f == "softmax") { need(2); return one(F::softmax(X(0), U(1))); }
  if (f == "broadcast") { need(3); return one(F::broadcast(X(0), U(1), U(2))); }
  if (f == "softmax_cross_entropy") {
    need(3);
    if (a[1].compare(0, 2, "I:") == 0) return one(F::softmax_cross_entropy(X(0), parse_ids(a[1]), U(2)));
    return one(F::softmax_cross_entropy(X(0), X(1), U(2)));
  }
  if (f == "conv2d") { need(8); return one(F::conv2d(X(0), X(1), U(2), U(3), U(4), U(5), U(6), U(7))); }
  if (f == "max_pool2d") { need(7); return one(F::max_pool2d(X(0), U(1), U(2), U(3), U(4), U(5), U(6))); }
  if (f == "batch::pick") { need(2); return one(F::batch::pick(X(0), parse_ids(a[1]))); }
  if (f == "batch::slice") { need(3); return one(F::batch::slice(X(0), U(1), U(2))); }
  if (f == "batch::split") { need(2); return F::batch::split(X(0), U(1)); }
  if (f == "batch::concat" || f == "batch::concat_ptr") {
    need(1);
    std::vector<V> xs;
    for (const std::string &t : var_list(a[0])) xs.push_back(var<V>(w, t));
    if (f == "batch::concat") return one(F::batch::concat(xs));
    std::vector<const V *> ps;
    for (const V &x : xs) ps.push_back(&x);
    return one(F::batch::concat(ps));
  }
  if (f == "batch::sum") { need(1); return one(F::batch::sum(X(0))); }
  if (f == "batch::mean") { need(1); return one(F::batch::mean(X(0))); }
  if (f == "batch::normalize") { need(1); return one(F::batch::normalize(X(0))); }
  if (f == "constant") { need(2); return one(F::constant<V>(parse_shape(a[0]), Fl(1), dev)); }
  if (f == "zeros") { need(1); return one(F::zeros<V>(parse_shape(a[0]), dev)); }
  if (f == "ones") { need(1); return one(F::ones<V>(parse_shape(a[0]), dev)); }
  if (f == "identity") { need(1); return one(F::identity<V>(U(0), dev)); }
  if (f == "dropout") { need(3); return one(F::dropout(X(0), Fl(1), U(2) != 0)); }
  if (f == "random::bernoulli") { need(2); return one(F::random::bernoulli<V>(parse_shape(a[0]), Fl(1), dev)); }
  if (f == "random::uniform") { need(3); return one(F::random::uniform<V>(parse_shape(a[0]), Fl(1), Fl(2), dev)); }
  if (f == "random::normal") { need(3); return one(F::random::normal<V>(parse_shape(a[0]), Fl(1), Fl(2), dev)); }
  if (f == "random::log_normal") { need(3); return one(F::random::log_normal<V>(parse_shape(a[0]), Fl(1), Fl(2), dev)); }
  if (f == "random::gumbel") { need(3); return one(F::random::gumbel<V>(parse_shape(a[0]), Fl(1), Fl(2), dev)); }
  throw BadOp();
}

bool is_random(const std::string &f, const std::vector<std::string> &a) {
  if (f.compare(0, 8, "random::") == 0) return true;
  if (f == "dropout" && a.size() == 3) {
    const float r = parse_float(a[1]);
    return a[2] != "0" && r != 0.0f && r != 1.0f;
  }
  return false;
}

std::string shapes_str(const std::vector<Shape> &ss, bool isvec) {
  if (!isvec) return ss[0].to_string();
  std::string s = std::to_string(ss.size()) + "*";
  if (ss.empty()) return s + "none";
  for (const Shape &x : ss) if (x != ss[0]) return s + "mixed";
  return s + ss[0].to_string();
}

std::string do_let(World &w, const std::string &name, const std::string &f, const std::vector<std::string> &a) {
  // bookkeeping that does not depend on the library
  const std::vector<std::string> vts = var_tokens(a);
  std::vector<const VarRec *> recs;
  for (const std::string &t : vts) {
    // undefined variables / bad element references are `bad-op` before anything is executed
    std::size_t ix; bool whole;
    const VarRec &r = lookup(w, t, &ix, &whole);
    if ((whole && r.isvec) || (!whole && !r.isvec) || ix >= r.n.size()) throw BadOp();
    recs.push_back(&r);
  }
  const bool creator = recs.empty();
  int graph = creator ? w.curgraph : recs[0]->graph;
  int dev = creator ? w.curdev : recs[0]->dev;
  bool mixed_graph = false, mixed_dev = false, random = is_random(f, a);
  for (const VarRec *r : recs) {
    if (r->graph != graph) mixed_graph = true;
    if (r->dev != dev) mixed_dev = true;
    if (r->random) random = true;
  }
  if (f == "copy" && a.size() == 2) { dev = w.dev_index(a[1]); mixed_dev = false; }
  if (f == "copy" && a.size() == 1) { dev = w.curdev; mixed_dev = false; }
  if (f == "input" || f == "constant" || f == "zeros" || f == "ones" || f == "identity" || f.compare(0, 8, "random::") == 0) dev = w.curdev;
  Device::set_default(w.device(w.curdev));
  Graph::set_default(w.graph(w.curgraph));

  const bool isvec = (f == "split" || f == "batch::split");
  std::vector<Node> rn; std::vector<Tensor> rt;
  bool nerr = false, terr = false;
  // shape() of the new nodes is read BEFORE any evaluation
  std::vector<Shape> ns, ts;
  try { rn = apply<Node>(w, f, a); for (const Node &x : rn) ns.push_back(x.shape()); }
  catch (const Error &) { nerr = true; }
  catch (const NoValue &) { throw BadOp(); }
  try { rt = apply<Tensor>(w, f, a); for (const Tensor &x : rt) ts.push_back(x.shape()); }
  catch (const Error &) { terr = true; }
  catch (const NoValue &) { terr = true; }

  if (nerr) {
    if (mixed_graph) return "err graph";
    if (terr) return "err";
    return "err tensor-ok " + shapes_str(ts, isvec);
  }
  VarRec r;
  // the handles are kept through copy construction + move assignment into existing (default) handles —
  // what std::reverse / rotate / erase on a vector<Node>, or `acc = std::move(parts[1])`, do
  r.has_n = true; r.dev = dev; r.graph = graph; r.random = random; r.isvec = isvec;
  r.n.resize(rn.size());
  for (std::size_t i = 0; i < rn.size(); ++i) { Node tmp(rn[i]); r.n[i] = std::move(tmp); }
  std::string out = "ok " + shapes_str(ns, isvec);
  if (terr) {
    out += mixed_dev ? " devmix" : " tensor-err";
  } else {
    r.has_t = true; r.t = rt;
    bool same = ns.size() == ts.size();
    for (std::size_t i = 0; same && i < ns.size(); ++i) same = ns[i] == ts[i];
    if (!same) out += " tensor-shape " + shapes_str(ts, isvec);
    else if (mixed_dev) out += " tensor-accepts-devmix";   // operands on different devices, yet accepted
  }
  w.vars[name] = r;
  return out;
}

std::string do_force(World &w, const std::string &tok) {
  std::size_t ix; bool whole;
  const VarRec &r = lookup(w, tok, &ix, &whole);
  if ((whole && r.isvec) || (!whole && !r.isvec) || ix >= r.n.size()) throw BadOp();
  const Node &n = r.n[ix];
  const Shape stat = n.shape();
  const Tensor &val = n.graph().forward(n);   // may throw Error: reported as `err`
  const Shape comp = val.shape();
  const std::vector<float> nv = val.to_vector();
  if (!r.has_t) return "ok node-only " + comp.to_string() + " " + fmt(nv);
  const Tensor &t = r.t[ix];
  const std::vector<float> tv = t.to_vector();
  if (stat != comp || comp != t.shape()) {
    return "ok differ static=" + stat.to_string() + " computed=" + comp.to_string() + " tensor=" + t.shape().to_string();
  }
  if (r.random) return "ok random " + comp.to_string();
  if (same_bits(nv, tv)) return "ok same " + comp.to_string() + " " + fmt(nv);
  return "ok differ " + comp.to_string() + " node=" + fmt(nv) + " tensor=" + fmt(tv);
}

std::string exec(World &w, const std::vector<std::string> &t) {
  if (t.empty()) throw BadOp();
  const std::string &op = t[0];
  if (op == "dev" && t.size() == 2) { w.curdev = w.dev_index(t[1]); Device::set_default(w.device(w.curdev)); return "ok"; }
  if (op == "graph" && t.size() == 2) {
    if (t[1] != "0" && t[1] != "1") throw BadOp();
    w.curgraph = t[1] == "1"; Graph::set_default(w.graph(w.curgraph)); return "ok";
  }
  if (op == "param" && t.size() == 4) {
    const Shape s = parse_shape(t[2]);
    const std::vector<float> d = parse_data(t[3]);
    if (w.params.count(t[1]) || w.vars.count(t[1])) throw BadOp();
    std::unique_ptr<Parameter> p(new Parameter(s, d, w.device(w.curdev)));
    p->reset_gradient();
    Graph::set_default(w.graph(w.curgraph));
    VarRec r;
    r.has_n = r.has_t = true;
    r.n.push_back(F::parameter<Node>(*p));
    r.t.push_back(F::parameter<Tensor>(*p));
    r.dev = w.curdev; r.graph = w.curgraph;
    const Shape ns = r.n[0].shape();
    std::string out = "ok " + ns.to_string();
    if (ns != r.t[0].shape()) out += " tensor-shape " + r.t[0].shape().to_string();
    w.params[t[1]] = std::move(p);
    w.vars[t[1]] = r;
    return out;
  }
  if (op == "let" && t.size() >= 4 && t[2] == "=") {
    return do_let(w, t[1], t[3], std::vector<std::string>(t.begin() + 4, t.end()));
  }
  if (op == "force" && t.size() == 2) return do_force(w, t[1]);
  if (op == "backward" && t.size() == 2) {
    std::size_t ix; bool whole;
    const VarRec &r = lookup(w, t[1], &ix, &whole);
    if ((whole && r.isvec) || (!whole && !r.isvec) || ix >= r.n.size()) throw BadOp();
    r.n[ix].backward();
    return "ok";
  }
  if ((op == "grad" || op == "value") && t.size() == 2) {
    auto it = w.params.find(t[1]);
    if (it == w.params.end()) throw BadOp();
    const Tensor &g = op == "grad" ? it->second->gradient() : it->second->value();
    return "ok " + g.shape().to_string() + " " + fmt(g.to_vector());
  }
  if (op == "resetgrad" && t.size() == 1) {
    for (auto &kv : w.params) kv.second->reset_gradient();
    return "ok";
  }
  if (op == "nops" && t.size() == 1) {
    return "ok " + std::to_string(w.g0.num_operators()) + " " + std::to_string(w.g1.num_operators());
  }
  throw BadOp();
}

}  // namespace

int main() {
  World w;
  Device::set_default(w.naive);
  Graph::set_default(w.g0);
  const int rc = vh::run_lines([&](const std::vector<std::string> &t) { return exec(w, t); });
  // values hold device memory: drop them before the devices go away
  w.vars.clear();
  w.params.clear();
  w.g0.clear();
  w.g1.clear();
  return rc;
}
