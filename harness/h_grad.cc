// Gradient oracle on the implementation alone (property C01, "implementation
// leg"): for a generated program y = f(parameters) the gradient that
// Node::backward() leaves in each Parameter is compared with central finite
// differences of F(theta) = sum_all (y * W) computed by fresh forward
// evaluations of the same program (W a random constant weight, so that the
// upstream gradient is not uniform).  Inputs are distinct multiples of 1/8,
// |x| >= 1/8, h = 1/64, so no kink (relu, abs, max, pooling) is straddled.
//
// line:  <naive|eigen> <case> <seed>      ->  ok pass <#elements> | ok FAIL … | err
//        alloc <naive|eigen> <case> <seed> -> the same program on a device whose new_handle counts, poisons and
//        fails at the k-th allocation, for every k: the failure must surface as an Error, the retried request must
//        equal a run that never failed, every function result must be fully written, backward() must release every
//        intermediate gradient, and no buffer may outlive graph, tensors and parameters (properties C10, C11)
#include "common.h"
#include <algorithm>
#include <cstring>
#include <cmath>
#include <functional>
#include <memory>
#include <random>
#include <primitiv/core/device.h>
#include <primitiv/core/functions.h>
#include <primitiv/contrib/functions.h>
#include <primitiv/core/graph.h>
#include <primitiv/core/parameter.h>
#include <primitiv/devices/naive/device.h>
#include <primitiv/devices/eigen/device.h>

using namespace primitiv;
namespace F = primitiv::functions;
using vh::BadOp;
typedef std::vector<Node> NV;

enum Dom { ANY, POS, UNIT, MID, POSM };  // nonzero / positive / |x| <= 1 / 1/2 <= |x| <= 3/2 / 1/2 <= x <= 2

static Device *g_other = nullptr;  // a second device object of the other backend
static bool g_cross_last = false;  // the node backward() is called on lives on the other device (a final functions::copy)

// ---- `alloc` mode: devices whose new_handle counts, poisons and can be made to fail ----
static long g_live = 0, g_allocs = 0, g_fail_at = -1;
static bool g_failed = false;
static const std::uint32_t POISON = 0x7fc0deadu;   // a NaN with a payload no kernel produces

static std::shared_ptr<void> instrumented_handle(const Shape &shape, std::size_t *const allocated_size) {
  if (g_fail_at >= 0 && g_allocs == g_fail_at) {
    g_fail_at = -1;
    g_failed = true;
    PRIMITIV_THROW_ERROR("Memory allocation failed (injected).");
  }
  ++g_allocs;
  const std::size_t n = shape.size();
  const std::size_t mem_size = sizeof(float) * n;
  void *data = std::malloc(mem_size ? mem_size : 1);
  if (!data) PRIMITIV_THROW_ERROR("Memory allocation failed. Requested size: " << mem_size);
  std::uint32_t *w = static_cast<std::uint32_t *>(data);
  for (std::size_t i = 0; i < n; ++i) w[i] = POISON;
  if (allocated_size) *allocated_size = mem_size;
  ++g_live;
  return std::shared_ptr<void>(data, [](void *p) { std::free(p); --g_live; });
}
class INaive : public devices::Naive {
  std::shared_ptr<void> new_handle(const Shape &shape, std::size_t *const allocated_size) override {
    return instrumented_handle(shape, allocated_size);
  }
};
class IEigen : public devices::Eigen {
  std::shared_ptr<void> new_handle(const Shape &shape, std::size_t *const allocated_size) override {
    return instrumented_handle(shape, allocated_size);
  }
};

struct Case {
  std::vector<Shape> ps;
  std::vector<Dom> dom;
  std::function<Node(const NV &)> f;
  bool expect_zero = false;
};

struct Rng {
  std::mt19937 g;
  explicit Rng(std::uint32_t s) : g(s) {}
  std::uint32_t n(std::uint32_t k) { return k ? static_cast<std::uint32_t>(g() % k) : 0; }
  std::uint32_t in(std::uint32_t lo, std::uint32_t hi) { return lo + n(hi - lo + 1); }
  bool coin() { return g() & 1; }
};

static Shape rshape(Rng &r, std::uint32_t maxdepth = 3, std::uint32_t batch = 1) {
  std::uint32_t depth = r.n(maxdepth + 1);
  std::vector<std::uint32_t> d;
  for (std::uint32_t i = 0; i < depth; ++i) d.push_back(r.in(1, 3));
  return Shape(d, batch);
}

static std::vector<float> values(Rng &r, std::uint32_t n, Dom dom) {
  // distinct multiples of 1/8
  std::vector<int> pool;
  if (dom == POS) for (int k = 2; k <= 40; ++k) pool.push_back(k);
  else if (dom == UNIT) for (int k = 1; k <= 8; ++k) { pool.push_back(k); pool.push_back(-k); }
  else if (dom == MID) for (int k = 4; k <= 12; ++k) { pool.push_back(k); pool.push_back(-k); }
  else if (dom == POSM) for (int k = 4; k <= 16; ++k) pool.push_back(k);
  else for (int k = 1; k <= 20; ++k) { pool.push_back(k); pool.push_back(-k); }
  std::shuffle(pool.begin(), pool.end(), r.g);
  std::vector<float> v(n);
  for (std::uint32_t i = 0; i < n; ++i) {
    int k = pool[i % pool.size()];
    // when more elements than pool entries are needed, shift by 1/16 steps to keep them distinct
    v[i] = k / 8.0f + (i / pool.size()) * (1.0f / 64.0f) * 3;
  }
  return v;
}

static Case make_case(const std::string &name, Rng &r) {
  Case c;
  const std::uint32_t B = r.in(2, 3);
  auto batch_of = [&](int pat, int which) -> std::uint32_t {  // pat: 0=11 1=1N 2=N1 3=NN
    if (pat == 0) return 1;
    if (pat == 3) return B;
    return ((pat == 1) == (which == 1)) ? B : 1;
  };
  std::vector<std::string> p = vh::split(name, ':');
  const std::string &k = p[0];
  if (k == "unary" && p.size() == 2) {
    const std::string fn = p[1];
    Shape s = rshape(r, 3, r.coin() ? 1 : B);
    if (fn == "transpose") s = rshape(r, 2, r.coin() ? 1 : B);
    c.ps = {s};
    Dom d = ANY;
    if (fn == "sqrt" || fn == "log") d = POS;
    if (fn == "tan") d = UNIT;
    c.dom = {d};
    c.expect_zero = (fn == "stop_gradient");
    c.f = [fn](const NV &x) -> Node {
      if (fn == "positive") return F::positive(x[0]);
      if (fn == "negative") return F::negative(x[0]);
      if (fn == "abs") return F::abs(x[0]);
      if (fn == "sqrt") return F::sqrt(x[0]);
      if (fn == "exp") return F::exp(x[0]);
      if (fn == "log") return F::log(x[0]);
      if (fn == "tanh") return F::tanh(x[0]);
      if (fn == "sigmoid") return F::sigmoid(x[0]);
      if (fn == "softplus") return F::softplus(x[0]);
      if (fn == "sin") return F::sin(x[0]);
      if (fn == "cos") return F::cos(x[0]);
      if (fn == "tan") return F::tan(x[0]);
      if (fn == "relu") return F::relu(x[0]);
      if (fn == "lrelu") return F::lrelu(x[0]);
      if (fn == "prelu") return F::prelu(x[0], 0.25f);
      if (fn == "elu") return F::elu(x[0], 0.5f);
      if (fn == "selu") return F::selu(x[0]);
      if (fn == "flatten") return F::flatten(x[0]);
      if (fn == "transpose") return F::transpose(x[0]);
      if (fn == "stop_gradient") return F::stop_gradient(x[0]) * 2.0f;
      if (fn == "copy") return F::copy(x[0], x[0].device());
      if (fn == "copy_cross") return F::copy(F::tanh(F::copy(x[0], *g_other)), x[0].device());
      if (fn == "dropout_off") return F::dropout(x[0], 0.5f, false);
      if (fn == "square") return x[0] * x[0];
      if (fn == "fanout") return F::tanh(x[0]) * x[0] + F::sigmoid(x[0]) - x[0];
      throw BadOp();
    };
    return c;
  }
  if (k == "const" && p.size() == 2) {
    const std::string fn = p[1];
    c.ps = {rshape(r, 3, r.coin() ? 1 : B)};
    c.dom = {(fn == "powr" || fn == "powl" || fn == "divl") ? POS : ANY};
    const int kk = static_cast<int>(r.in(0, 6)) - 3;
    c.f = [fn, kk](const NV &x) -> Node {
      if (fn == "addr") return F::add(x[0], 1.5f);
      if (fn == "addl") return F::add(1.5f, x[0]);
      if (fn == "subr") return F::subtract(x[0], 1.5f);
      if (fn == "subl") return F::subtract(1.5f, x[0]);
      if (fn == "mulr") return F::multiply(x[0], -1.5f);
      if (fn == "mull") return F::multiply(-1.5f, x[0]);
      if (fn == "divr") return F::divide(x[0], 1.5f);
      if (fn == "divl") return F::divide(1.5f, x[0]);
      if (fn == "powr") return F::pow(x[0], 1.5f);
      if (fn == "powl") return F::pow(1.5f, x[0]);
      if (fn == "pown") return F::pown(x[0], kk);
      throw BadOp();
    };
    if (fn == "pown") c.dom = {MID};
    return c;
  }
  if (k == "binary" && p.size() == 3) {
    const std::string fn = p[1];
    const std::string var = p[2];  // 11 1N N1 NN sl sr  (sl: a scalar, sr: b scalar)
    int pat = var == "11" ? 0 : var == "1N" ? 1 : var == "N1" ? 2 : 3;
    Shape s = rshape(r, 3, 1);
    if (s.depth() == 0 && (var == "sl" || var == "sr")) s = Shape({2, 2});
    Shape sa = s, sb = s;
    if (var == "sl") { pat = r.n(4); sa = Shape(); }
    if (var == "sr") { pat = r.n(4); sb = Shape(); }
    sa.update_batch(batch_of(pat, 0));
    sb.update_batch(batch_of(pat, 1));
    c.ps = {sa, sb};
    // pow: base and exponent in [1/2, 2] (values up to 5^5 drown a float32 difference quotient in rounding noise);
    // divide: denominators in 1/2 <= |b| <= 3/2 (the truncation error of the quotient grows like h^2 / b^4)
    Dom d = (fn == "pow") ? POSM : ANY;
    c.dom = {d, (fn == "divide") ? MID : d};
    c.f = [fn](const NV &x) -> Node {
      if (fn == "add") return x[0] + x[1];
      if (fn == "subtract") return x[0] - x[1];
      if (fn == "multiply") return x[0] * x[1];
      if (fn == "divide") return x[0] / x[1];
      if (fn == "pow") return F::pow(x[0], x[1]);
      throw BadOp();
    };
    return c;
  }
  if (k == "matmul") {
    const int pat = r.n(4);
    std::uint32_t a = r.in(1, 3), b = r.in(1, 3), d = r.in(1, 3);
    c.ps = {Shape({a, b}, batch_of(pat, 0)), Shape({b, d}, batch_of(pat, 1))};
    c.dom = {ANY, ANY};
    c.f = [](const NV &x) { return F::matmul(x[0], x[1]); };
    return c;
  }
  if (k == "axis" && p.size() == 2) {
    const std::string fn = p[1];
    Shape s = rshape(r, 3, r.coin() ? 1 : B);
    const std::uint32_t dim = r.n(s.depth() + 2);
    c.ps = {s};
    c.dom = {ANY};
    c.f = [fn, dim](const NV &x) -> Node {
      if (fn == "sum") return F::sum(x[0], dim);
      if (fn == "mean") return F::mean(x[0], dim);
      if (fn == "max") return F::max(x[0], dim);
      if (fn == "min") return F::min(x[0], dim);
      if (fn == "logsumexp") return F::logsumexp(x[0], dim);
      if (fn == "softmax") return F::softmax(x[0], dim);
      if (fn == "log_softmax") return F::log_softmax(x[0], dim);
      if (fn == "flip") return F::flip(x[0], dim);
      throw BadOp();
    };
    return c;
  }
  if (k == "broadcast") {
    Shape s = rshape(r, 3, r.coin() ? 1 : B);
    const std::uint32_t dim = r.n(s.depth() + 2);
    if (dim < s.depth()) s.update_dim(dim, 1);
    const std::uint32_t n = r.in(1, 3);
    c.ps = {s}; c.dom = {ANY};
    c.f = [dim, n](const NV &x) { return F::broadcast(x[0], dim, n); };
    return c;
  }
  if (k == "pick") {
    const int pat = r.n(3);  // 0: x batch 1, ids 1..N ; 1: x batch B, ids 1 ; 2: x batch B ids B
    Shape s = rshape(r, 3, pat == 0 ? 1 : B);
    const std::uint32_t dim = r.n(s.depth() + 1);
    std::uint32_t ni = pat == 0 ? r.in(1, 3) : (pat == 1 ? 1 : B);
    std::vector<std::uint32_t> ids;
    for (std::uint32_t i = 0; i < ni; ++i) ids.push_back(r.n(s[dim]));
    c.ps = {s}; c.dom = {ANY};
    c.f = [ids, dim](const NV &x) { return F::pick(x[0], ids, dim); };
    return c;
  }
  if (k == "slice") {
    Shape s = rshape(r, 3, r.coin() ? 1 : B);
    const std::uint32_t dim = r.n(s.depth() + 1);
    const std::uint32_t lo = r.n(s[dim]), up = r.in(lo + 1, s[dim]);
    c.ps = {s}; c.dom = {ANY};
    c.f = [dim, lo, up](const NV &x) { return F::slice(x[0], dim, lo, up); };
    return c;
  }
  if (k == "split") {
    Shape s = rshape(r, 3, r.coin() ? 1 : B);
    const std::uint32_t dim = r.n(s.depth() + 1);
    const std::uint32_t n = r.in(1, 3);
    s.update_dim(dim, s[dim] * n);
    const std::uint32_t use = r.n(n), use2 = r.n(n);
    const bool two = r.coin();
    c.ps = {s}; c.dom = {ANY};
    c.f = [dim, n, use, use2, two](const NV &x) {
      std::vector<Node> ys = F::split(x[0], dim, n);
      return two ? ys[use] + 2.0f * ys[use2] : ys[use];   // only some outputs are used
    };
    return c;
  }
  if (k == "concat") {
    Shape s = rshape(r, 3, 1);
    const std::uint32_t dim = r.n(s.depth() + 2);
    const int pat = r.n(4);
    Shape a = s, b = s;
    a.update_dim(dim, r.in(1, 2)); b.update_dim(dim, r.in(1, 3));
    a.update_batch(batch_of(pat, 0)); b.update_batch(batch_of(pat, 1));
    const bool twice = r.coin();
    c.ps = {a, b}; c.dom = {ANY, ANY};
    c.f = [dim, twice](const NV &x) {
      return twice ? F::concat({x[0], x[1], x[0]}, dim) : F::concat({x[0], x[1]}, dim);
    };
    return c;
  }
  if (k == "permute") {
    Shape s = rshape(r, 3, r.coin() ? 1 : B);
    std::vector<std::uint32_t> perm;
    const std::uint32_t n = s.depth() + r.n(2);
    for (std::uint32_t i = 0; i < n; ++i) perm.push_back(i);
    std::shuffle(perm.begin(), perm.end(), r.g);
    c.ps = {s}; c.dom = {ANY};
    c.f = [perm](const NV &x) { return F::permute_dims(x[0], perm); };
    return c;
  }
  if (k == "reshape") {
    const std::uint32_t a = r.in(1, 3), b = r.in(1, 3), bb = r.coin() ? 1 : B;
    c.ps = {Shape({a, b}, bb)}; c.dom = {ANY};
    c.f = [a, b](const NV &x) { return F::reshape(x[0], Shape({b, 1, a})); };
    return c;
  }
  if (k == "conv2d") {
    const int pat = r.n(4);
    const std::uint32_t c1 = r.in(1, 2), c2 = r.in(1, 2);
    const std::uint32_t u0 = r.in(1, 2), u1 = r.in(1, 2);
    const std::uint32_t p0 = r.n(2), p1 = r.n(2), s0 = r.in(1, 2), s1 = r.in(1, 2), d0 = r.in(1, 2), d1 = r.in(1, 2);
    const std::uint32_t x0 = r.in((u0 - 1) * d0 + 1, 4), x1 = r.in((u1 - 1) * d1 + 1, 4);
    c.ps = {Shape({x0, x1, c1}, batch_of(pat, 0)), Shape({u0, u1, c1, c2}, batch_of(pat, 1))};
    c.dom = {ANY, ANY};
    c.f = [=](const NV &x) { return F::conv2d(x[0], x[1], p0, p1, s0, s1, d0, d1); };
    return c;
  }
  if (k == "max_pool2d") {
    const std::uint32_t ch = r.in(1, 2);
    const std::uint32_t w0 = r.in(1, 2), w1 = r.in(1, 2), p0 = r.n(2) && w0 > 1, p1 = r.n(2) && w1 > 1, s0 = r.in(1, 2), s1 = r.in(1, 2);
    const std::uint32_t x0 = r.in(w0, 4), x1 = r.in(w1, 4);
    c.ps = {Shape({x0, x1, ch}, r.coin() ? 1 : B)}; c.dom = {ANY};
    c.f = [=](const NV &x) { return F::max_pool2d(x[0], w0, w1, p0, p1, s0, s1); };
    return c;
  }
  if (k == "batch" && p.size() == 2) {
    const std::string fn = p[1];
    Shape s = rshape(r, 2, B);
    c.ps = {s}; c.dom = {ANY};
    if (fn == "pick") {
      std::vector<std::uint32_t> ids;
      const std::uint32_t ni = r.in(1, 3);
      for (std::uint32_t i = 0; i < ni; ++i) ids.push_back(r.n(B));
      c.f = [ids](const NV &x) { return F::batch::pick(x[0], ids); };
    } else if (fn == "slice") {
      const std::uint32_t lo = r.n(B), up = r.in(lo + 1, B);
      c.f = [lo, up](const NV &x) { return F::batch::slice(x[0], lo, up); };
    } else if (fn == "split") {
      const std::uint32_t n = B, use = r.n(B);
      c.f = [n, use](const NV &x) { return F::batch::split(x[0], n)[use]; };
    } else if (fn == "concat") {
      Shape t = s; t.update_batch(r.in(1, 2));
      c.ps = {s, t}; c.dom = {ANY, ANY};
      c.f = [](const NV &x) { return F::batch::concat({x[0], x[1], x[0]}); };
    } else if (fn == "sum") {
      c.f = [](const NV &x) { return F::batch::sum(x[0]); };
    } else if (fn == "mean") {
      c.f = [](const NV &x) { return F::batch::mean(x[0]); };
    } else if (fn == "normalize") {
      // samples with a real spread: the batch is a concatenation of separate parameters
      Shape one = s.resize_batch(1);
      c.ps = {one, one, one}; c.dom = {ANY, POS, UNIT};
      c.f = [](const NV &x) { return F::batch::normalize(F::batch::concat({x[0], x[1], x[2]})); };
    } else throw BadOp();
    return c;
  }
  if (k == "sce_sparse") {
    const int pat = r.n(3);
    Shape s = rshape(r, 2, pat == 0 ? 1 : B);
    const std::uint32_t dim = r.n(s.depth() + 1);
    if (s[dim] == 1) s.update_dim(dim, 3);
    std::uint32_t ni = pat == 0 ? r.in(1, 3) : (pat == 1 ? 1 : B);
    std::vector<std::uint32_t> ids;
    for (std::uint32_t i = 0; i < ni; ++i) ids.push_back(r.n(s[dim]));
    c.ps = {s}; c.dom = {ANY};
    c.f = [ids, dim](const NV &x) { return F::softmax_cross_entropy(x[0], ids, dim); };
    return c;
  }
  if (k == "sce_dense") {
    const int pat = r.n(4);
    Shape s = rshape(r, 2, 1);
    const std::uint32_t dim = r.n(s.depth() + 1);
    if (s[dim] == 1) s.update_dim(dim, 3);
    Shape a = s, b = s;
    a.update_batch(batch_of(pat, 0)); b.update_batch(batch_of(pat, 1));
    c.ps = {a, b}; c.dom = {ANY, UNIT};
    // the documented domain: t is a distribution along `dim`
    c.f = [dim](const NV &x) { return F::softmax_cross_entropy(x[0], F::softmax(x[1], dim), dim); };
    return c;
  }
  if (k == "dag") {
    // random composition with fan-out and parameter reuse
    Shape s = rshape(r, 2, r.coin() ? 1 : B);
    Shape t = s; t.update_batch(1);
    c.ps = {s, t}; c.dom = {UNIT, UNIT};
    std::vector<int> ops;
    for (int i = 0; i < 6; ++i) ops.push_back(r.n(6));
    c.f = [ops](const NV &x) {
      std::vector<Node> pool{x[0], x[1]};
      std::uint32_t h = 12345;
      for (int o : ops) {
        h = h * 1103515245u + 12345u;
        const Node &a = pool[(h >> 8) % pool.size()];
        const Node &b = pool[(h >> 16) % pool.size()];
        Node y;
        switch (o) {
          case 0: y = F::tanh(a) * b; break;
          case 1: y = a + b; break;
          case 2: y = F::sigmoid(a) - 0.5f * b; break;
          case 3: y = a * a; break;
          case 4: y = F::sin(a) + 0.5f * b; break;
          default: y = F::softplus(a) * 0.5f; break;
        }
        pool.push_back(y);
      }
      return pool.back() + pool[pool.size() - 2] * pool[2];
    };
    return c;
  }
  throw BadOp();
}

// A Parameter cannot carry a minibatch: a batched operand is built as
// parameter (batch 1) + batched constant offsets in {-1/32, 0, 1/32}.
static double eval_total(Device &dev, const Case &c, const std::vector<std::vector<float>> &theta,
                         const std::vector<std::vector<float>> &offs,
                         const std::vector<float> &W, std::vector<std::vector<float>> *grads, Shape *yshape,
                         double *mag = nullptr) {
  std::vector<std::unique_ptr<Parameter>> ps;
  for (std::size_t i = 0; i < c.ps.size(); ++i) ps.emplace_back(new Parameter(c.ps[i].resize_batch(1), theta[i], dev));
  Graph g;
  Graph::set_default(g);
  NV xs;
  for (std::size_t i = 0; i < ps.size(); ++i) {
    Node x = F::parameter<Node>(*ps[i]);
    if (c.ps[i].has_batch()) x = x + F::input<Node>(c.ps[i], offs[i], dev);
    xs.push_back(x);
  }
  Node y = c.f(xs);
  if (yshape) *yshape = y.shape();
  Node total = W.empty() ? y : y * F::input<Node>(y.shape(), W, dev);
  if (mag) {
    // sum of the magnitudes of the summed terms: the float32 rounding noise of the total is proportional to it
    *mag = 0;
    for (float e : total.to_vector()) *mag += std::fabs(e);
    for (const Node &x : xs) *mag += 2.75 * x.shape().size();
  }
  if (!W.empty() && !c.expect_zero) {
    // Every operand gets a second consumer that is created AFTER f, so that the
    // reverse sweep reaches f's backward rule with non-zero argument gradients
    // already accumulated (a rule that assigns instead of adding loses them).
    total = F::batch::sum(F::sum(F::flatten(total), 0));
    for (std::size_t i = 0; i < xs.size(); ++i) {
      std::vector<float> V(xs[i].shape().size());
      for (std::size_t j = 0; j < V.size(); ++j) V[j] = ((static_cast<int>((j * 7 + i * 3) % 5)) - 2) / 2.0f + 0.25f;
      Node extra = F::sin(xs[i]) * F::input<Node>(xs[i].shape(), V, dev);
      total = total + F::batch::sum(F::sum(F::flatten(extra), 0));
    }
  }
  if (g_cross_last && g_other && !W.empty()) total = F::copy(total, *g_other);
  std::vector<float> v = total.to_vector();
  double s = 0;
  for (float e : v) s += e;
  if (grads) {
    total.backward();
    grads->clear();
    for (auto &p : ps) grads->push_back(p->gradient().to_vector());
  }
  return s;
}

static std::vector<std::uint32_t> bits_of(const std::vector<float> &v) {
  std::vector<std::uint32_t> b(v.size());
  for (std::size_t i = 0; i < v.size(); ++i) std::memcpy(&b[i], &v[i], 4);
  return b;
}

struct ProgRun {
  bool threw = false;            // the armed failure surfaced as a primitiv::Error
  bool fired = false;            // the armed allocation was reached
  std::string problem;           // non-empty: a violation observed inside the run
  std::vector<std::uint32_t> value, value2;
  long allocs = 0;
};

// Builds the program on `dev`, arms a failure at the `fail_at`-th allocation of the request (-1: none),
// requests the result, then (failure or not) requests it again with memory available.
static ProgRun run_prog(Device &dev, const Case &c, const std::vector<std::vector<float>> &theta,
                        const std::vector<std::vector<float>> &offs, const std::vector<float> &W, long fail_at, bool accounting) {
  ProgRun r;
  const long base_live = g_live;
  {
    std::vector<std::unique_ptr<Parameter>> ps;
    for (std::size_t i = 0; i < c.ps.size(); ++i) ps.emplace_back(new Parameter(c.ps[i].resize_batch(1), theta[i], dev));
    Graph g;
    Graph::set_default(g);
    NV xs;
    const long allocs_before_construction = g_allocs, live_before_construction = g_live;
    for (std::size_t i = 0; i < ps.size(); ++i) {
      Node x = F::parameter<Node>(*ps[i]);
      if (c.ps[i].has_batch()) x = x + F::input<Node>(c.ps[i], offs[i], dev);
      xs.push_back(x);
    }
    Node y = c.f(xs);
    Node total = y * F::input<Node>(y.shape(), W, dev);
    // creating nodes computes nothing: no device buffer is requested before the first value is asked for
    if (accounting && (g_allocs != allocs_before_construction || g_live != live_before_construction)) {
      r.problem = "building the graph (no value requested yet) made " + std::to_string(g_allocs - allocs_before_construction) +
                  " device allocation(s): node creation computed something";
      return r;
    }
    g_allocs = 0; g_failed = false; g_fail_at = fail_at;
    try {
      r.value = bits_of(total.to_vector());
    } catch (const Error &) {
      r.threw = true;
    }
    r.fired = g_failed;
    r.allocs = g_allocs;
    g_fail_at = -1;
    if (fail_at >= 0 && r.fired && !r.threw && r.problem.empty()) r.problem = "an allocation failure did not surface as an exception";
    try {
      r.value2 = bits_of(total.to_vector());
      const std::vector<std::uint32_t> yb = bits_of(y.to_vector());
      for (std::uint32_t b : r.value2) if (b == POISON) r.problem = "the result contains elements that were never written (allocator poison)";
      for (std::uint32_t b : yb) if (b == POISON) r.problem = "a function result contains elements that were never written (allocator poison)";
    } catch (const std::exception &e) {
      r.problem = std::string("requesting the value again after the failure raised: ") + e.what();
    }
    if (accounting && r.problem.empty() && !c.expect_zero) {
      // backward() must release every intermediate gradient: live buffers before == after
      const long before = g_live;
      total.backward();
      if (g_live != before) {
        r.problem = "backward() left " + std::to_string(g_live - before) + " device buffer(s) alive (intermediate gradients not released)";
      }
    }
  }
  if (g_live != base_live && r.problem.empty()) {
    r.problem = std::to_string(g_live - base_live) + " device buffer(s) still alive after graph, tensors and parameters are gone";
  }
  return r;
}

static std::string exec_alloc(const std::vector<std::string> &w) {
  // alloc <naive|eigen> <case> <seed>
  std::unique_ptr<Device> dev, other;
  if (w[1] == "eigen") { dev.reset(new IEigen()); other.reset(new devices::Naive()); }
  else if (w[1] == "naive") { dev.reset(new INaive()); other.reset(new devices::Eigen()); }
  else throw BadOp();
  g_other = other.get();
  g_cross_last = false;
  Device::set_default(*dev);
  Rng r(vh::to_u32(w[3]) * 2654435761u + 17);
  Case c = make_case(w[2], r);
  std::vector<std::vector<float>> theta, offs;
  for (std::size_t i = 0; i < c.ps.size(); ++i) {
    theta.push_back(values(r, c.ps[i].volume(), c.dom[i]));
    std::vector<float> o(c.ps[i].size());
    for (float &e : o) e = (static_cast<int>(r.n(3)) - 1) / 32.0f;
    offs.push_back(o);
  }
  Shape ys;
  {
    devices::Naive plain;
    Device::set_default(plain);
    eval_total(plain, c, theta, offs, std::vector<float>(), nullptr, &ys);
    Device::set_default(*dev);
  }
  std::vector<float> W(ys.size());
  for (float &e : W) { int k = static_cast<int>(r.in(1, 4)); e = (r.coin() ? k : -k) / 4.0f; }
  ProgRun clean = run_prog(*dev, c, theta, offs, W, -1, true);
  if (!clean.problem.empty()) return "ok FAIL case=" + w[2] + " clean-run: " + clean.problem;
  if (clean.threw) return "err";
  const long N = clean.allocs;
  long tried = 0;
  if (w[0] == "lazy") return "ok pass allocs=" + std::to_string(N) + " failures-injected=0";
  for (long k = 0; k < N; ++k) {
    if (N > 48 && (k % (N / 48 + 1)) != 0) continue;
    ProgRun f = run_prog(*dev, c, theta, offs, W, k, false);
    ++tried;
    if (!f.problem.empty()) return "ok FAIL case=" + w[2] + " allocation " + std::to_string(k) + " of " + std::to_string(N) + ": " + f.problem;
    if (f.value2 != clean.value) {
      return "ok FAIL case=" + w[2] + " allocation " + std::to_string(k) + " of " + std::to_string(N)
           + ": after the failure the retried request differs from a run that never failed";
    }
  }
  return "ok pass allocs=" + std::to_string(N) + " failures-injected=" + std::to_string(tried);
}

static std::string exec(const std::vector<std::string> &w) {
  if (w.size() == 4 && (w[0] == "alloc" || w[0] == "lazy")) return exec_alloc(w);   // lazy: the accounting run only, no failures injected
  if (w.size() != 3) throw BadOp();
  std::unique_ptr<Device> dev;
  if (w[0] == "eigen") dev.reset(new devices::Eigen());
  else if (w[0] == "naive") dev.reset(new devices::Naive());
  else throw BadOp();
  std::unique_ptr<Device> other;
  if (w[0] == "eigen") other.reset(new devices::Naive()); else other.reset(new devices::Eigen());
  g_other = other.get();
  Device::set_default(*dev);
  Rng r(vh::to_u32(w[2]) * 2654435761u + 17);
  Case c = make_case(w[1], r);
  // every third seed: the whole program runs on one device but backward() starts on the other one
  g_cross_last = (vh::to_u32(w[2]) % 3 == 0);
  std::vector<std::vector<float>> theta;
  std::uint32_t total_elems = 0;
  std::vector<std::vector<float>> offs;
  for (std::size_t i = 0; i < c.ps.size(); ++i) {
    theta.push_back(values(r, c.ps[i].volume(), c.dom[i]));
    total_elems += c.ps[i].volume();
    std::vector<float> o(c.ps[i].size());
    for (float &e : o) e = (static_cast<int>(r.n(3)) - 1) / 32.0f;
    offs.push_back(o);
  }
  // first evaluation to learn the result shape
  Shape ys;
  eval_total(*dev, c, theta, offs, std::vector<float>(), nullptr, &ys);
  std::vector<float> W(ys.size());
  for (float &e : W) { int k = static_cast<int>(r.in(1, 4)); e = (r.coin() ? k : -k) / 4.0f; }
  std::vector<std::vector<float>> grads;
  double mag = 0;
  eval_total(*dev, c, theta, offs, W, &grads, nullptr, &mag);
  const float h = 1.0f / 64.0f;
  // rounding noise of a central difference of a float32 total whose terms sum to `mag` in magnitude
  auto noise = [&](double hh) { return 8.0 * 6e-8 * mag / (2.0 * hh); };
  auto central = [&](std::size_t i, std::size_t j, float hh) {
    const float keep = theta[i][j];
    theta[i][j] = keep + hh;
    const double fp = eval_total(*dev, c, theta, offs, W, nullptr, nullptr);
    theta[i][j] = keep - hh;
    const double fm = eval_total(*dev, c, theta, offs, W, nullptr, nullptr);
    theta[i][j] = keep;
    return (fp - fm) / (2.0 * hh);
  };
  for (std::size_t i = 0; i < theta.size(); ++i) {
    for (std::size_t j = 0; j < theta[i].size(); ++j) {
      double num = c.expect_zero ? 0.0 : central(i, j, h);
      const double ana = grads[i][j];
      double scale = std::max(1.0, std::max(std::fabs(num), std::fabs(ana)));
      bool good = std::fabs(num - ana) <= 2e-2 * scale + noise(h);
      if (!good && !c.expect_zero) {
        // second opinion before reporting: halve the step; |num(h/2) - num(h)| measures the truncation error
        // (about 3/4 of C h^2), the Richardson value (4 num(h/2) - num(h)) / 3 removes its leading term
        const double num2 = central(i, j, h / 2);
        const double rich = (4.0 * num2 - num) / 3.0;
        const double trunc = std::fabs(num2 - num);
        scale = std::max(1.0, std::max(std::fabs(rich), std::fabs(ana)));
        good = std::fabs(rich - ana) <= 2e-2 * scale + 0.5 * trunc + 2.0 * noise(h / 2);
        num = rich;
      }
      if (!good) {
        std::ostringstream os;
        os << "ok FAIL case=" << w[1] << " shapes=";
        for (const Shape &s : c.ps) os << s.to_string() << ";";
        os << " param=" << i << " index=" << j << " analytic=" << ana << " numeric=" << num;
        return os.str();
      }
    }
  }
  return "ok pass " + std::to_string(total_elems);
}

int main() { return vh::run_lines(exec); }
