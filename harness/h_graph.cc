// Harness of the `graph` family: the real primitiv::Graph driven through
// user-defined operators (Graph::add_operator), the library's own Parameter and
// StopGradient operators, Node::to_vector / Node::backward.  Protocol: see
// lean/PrimitivModel/Driver/GraphDrv.lean.
#include "common.h"
#include <map>
#include <cstring>
#include <memory>
#include <primitiv/core/device.h>
#include <primitiv/core/functions.h>
#include <primitiv/core/graph.h>
#include <primitiv/core/initializer_impl.h>
#include <primitiv/core/operator.h>
#include <primitiv/core/operator_impl.h>
#include <primitiv/core/parameter.h>
#include <primitiv/devices/naive/device.h>
#include <primitiv/devices/eigen/device.h>

using namespace primitiv;
using vh::BadOp;
typedef long long i64;

static std::uint32_t D = 1;
static Device *g_dev = nullptr;
static Device *g_dev2 = nullptr;  // a second device object of the same backend (pinit)
static std::vector<std::pair<int, std::uint32_t>> g_log;  // (graph, oid) of user forwards
static i64 g_rnd_pos = 0;
static i64 g_fail_in = -1;

static i64 sat(i64 c) { return (c > 65536 || c < -65536) ? c % 7 : c; }

static std::vector<i64> ints(const Tensor &t) {
  std::vector<float> f = t.to_vector();
  std::vector<i64> r(f.size());
  for (std::size_t i = 0; i < f.size(); ++i) r[i] = static_cast<i64>(f[i]);
  return r;
}
static Tensor tens(const std::vector<i64> &v, Device &dev) {
  std::vector<float> f(v.begin(), v.end());
  return dev.new_tensor_by_vector(Shape({static_cast<std::uint32_t>(v.size())}), f);
}
static std::string csv(const std::vector<i64> &v) {
  std::string s;
  for (std::size_t i = 0; i < v.size(); ++i) { if (i) s += ","; s += std::to_string(v[i]); }
  return s;
}
static std::vector<i64> parse_vec(const std::string &t) {
  std::vector<i64> v;
  if (!t.empty()) for (const std::string &x : vh::split(t, ',')) v.push_back(vh::to_i64(x));
  if (v.size() != D) throw BadOp();
  return v;
}

class UserOp : public Operator {
public:
  enum K { LIN, MUL, IDNOP, INPUT, RND };
  UserOp(K k, int gid, std::uint32_t oid) : k_(k), gid_(gid), oid_(oid) {}
  K k_;
  int gid_;
  std::uint32_t oid_;
  std::vector<std::vector<i64>> rows_;  // LIN
  std::vector<i64> data_;               // INPUT
  std::uint32_t argn_ = 0;

  std::string name() const override { return "UserOp"; }
  std::uint32_t num_arguments() const override { return argn_; }
  std::uint32_t num_returns() const override { return k_ == LIN ? rows_.size() : 1; }
  bool has_inner_values() const override { return false; }
  Device *get_device() const override { return (k_ == INPUT || k_ == RND) ? g_dev : nullptr; }
  void forward_shape(const std::vector<const Shape *> &, const std::vector<Shape *> &rets) const override {
    for (Shape *r : rets) *r = Shape({D});
  }
  void forward(const std::vector<const Tensor *> &args, const std::vector<Tensor *> &rets) const override {
    if (g_fail_in == 0) { g_fail_in = -1; PRIMITIV_THROW_ERROR("injected failure"); }
    if (g_fail_in > 0) --g_fail_in;
    Device &dev = args.empty() ? *g_dev : args[0]->device();
    std::vector<std::vector<i64>> xs;
    for (const Tensor *a : args) xs.push_back(ints(*a));
    std::vector<std::vector<i64>> ys;
    switch (k_) {
      case LIN:
        for (const std::vector<i64> &row : rows_) {
          std::vector<i64> y(D, 0);
          for (std::size_t i = 0; i < row.size(); ++i)
            for (std::uint32_t e = 0; e < D; ++e) y[e] += row[i] * xs[i][e];
          for (i64 &e : y) e = sat(e);
          ys.push_back(y);
        }
        break;
      case MUL: {
        std::vector<i64> y(D);
        for (std::uint32_t e = 0; e < D; ++e) y[e] = sat(xs[0][e] * xs[1][e]);
        ys.push_back(y);
        break;
      }
      case IDNOP: ys.push_back(xs[0]); break;
      case INPUT: ys.push_back(data_); break;
      case RND: {
        std::vector<i64> y(D);
        for (std::uint32_t e = 0; e < D; ++e) y[e] = ((g_rnd_pos * D + e) % 7) - 3;
        ++g_rnd_pos;
        ys.push_back(y);
        break;
      }
    }
    g_log.push_back(std::make_pair(gid_, oid_));
    for (std::size_t j = 0; j < rets.size(); ++j) *rets[j] = tens(ys[j], dev);
  }
  void backward(const std::vector<const Tensor *> &args_v, const std::vector<const Tensor *> &,
                const std::vector<const Tensor *> &rets_g, const std::vector<Tensor *> &args_g) const override {
    std::vector<std::vector<i64>> gys;
    for (const Tensor *g : rets_g) gys.push_back(ints(*g));
    switch (k_) {
      case LIN:
        for (std::size_t i = 0; i < args_g.size(); ++i) {
          std::vector<i64> c(D, 0);
          for (std::size_t j = 0; j < rows_.size(); ++j)
            for (std::uint32_t e = 0; e < D; ++e) c[e] += rows_[j][i] * gys[j][e];
          for (i64 &e : c) e = sat(e);
          *args_g[i] += tens(c, args_g[i]->device());
        }
        break;
      case MUL: {
        std::vector<i64> a = ints(*args_v[0]), b = ints(*args_v[1]);
        std::vector<i64> ca(D), cb(D);
        for (std::uint32_t e = 0; e < D; ++e) { ca[e] = sat(gys[0][e] * b[e]); cb[e] = sat(gys[0][e] * a[e]); }
        *args_g[0] += tens(ca, args_g[0]->device());
        *args_g[1] += tens(cb, args_g[1]->device());
        break;
      }
      default: break;  // IDNOP, INPUT, RND: no gradient
    }
  }
};

struct NodeRef { int g; Node n; };
static std::vector<std::unique_ptr<Parameter>> params;
static std::vector<std::unique_ptr<Graph>> graphs;
static std::vector<NodeRef> nodes;
static std::vector<std::vector<bool>> silent;  // per graph: operator is a library operator (not logged)

static Node &node_of(const std::string &t) {
  if (t.size() < 2 || t[0] != 'n') throw BadOp();
  std::uint64_t k = vh::to_u64(t.substr(1));
  if (k >= nodes.size()) throw BadOp();
  return nodes[k].n;
}
static int gidx(const std::string &t) {
  std::uint64_t g = vh::to_u64(t);
  if (g >= graphs.size()) throw BadOp();
  return static_cast<int>(g);
}
static std::string reg(int g, const std::vector<Node> &ns, bool lib) {
  std::string out = "ok";
  for (const Node &n : ns) {
    out += " n" + std::to_string(nodes.size());
    // kept through copy construction + move assignment into an existing handle (as a container of Nodes does)
    Node tmp(n);
    NodeRef r{g, Node()};
    r.n = std::move(tmp);
    nodes.push_back(std::move(r));
  }
  silent[g].push_back(lib);
  return out;
}
static std::string log_since(std::size_t mark) {
  std::string s;
  for (std::size_t i = mark; i < g_log.size(); ++i) { if (i > mark) s += " "; s += std::to_string(g_log[i].second); }
  return s;
}

static std::string exec(const std::vector<std::string> &w) {
  if (w.empty()) throw BadOp();
  const std::string &op = w[0];
  if (op == "D" && w.size() == 2) { D = vh::to_u32(w[1]); if (D == 0 || D > 64) throw BadOp(); return "ok"; }
  if (op == "param" && w.size() == 2) {
    std::vector<i64> v = parse_vec(w[1]);
    std::vector<float> f(v.begin(), v.end());
    params.emplace_back(new Parameter(Shape({D}), f, *g_dev));
    return "ok p" + std::to_string(params.size() - 1);
  }
  if ((op == "pgrad" || op == "padd") && w.size() == 3) {
    std::uint64_t p = vh::to_u64(w[1]);
    if (p >= params.size()) throw BadOp();
    std::vector<i64> v = parse_vec(w[2]);
    std::vector<float> f(v.begin(), v.end());
    if (op == "pgrad") params[p]->gradient().reset_by_vector(f);
    else params[p]->value() += params[p]->device().new_tensor_by_vector(Shape({D}), f);
    return "ok";
  }
  if (op == "pinit" && w.size() == 4) {
    // Parameter::init(shape, Initializer, device): value = constant k, gradient = 0, both on device d
    std::uint64_t p = vh::to_u64(w[1]);
    std::uint32_t d = vh::to_u32(w[2]);
    if (p >= params.size() || d > 1) throw BadOp();
    i64 k = vh::to_i64(w[3]);
    if (k < -1000 || k > 1000) throw BadOp();
    params[p]->init(Shape({D}), initializers::Constant(static_cast<float>(k)), d ? *g_dev2 : *g_dev);
    return "ok";
  }
  if (op == "pgradbits" && w.size() == 3) {
    // raw float32 bit patterns (hex) into the gradient: -0.0, NaN payloads, denormals
    std::uint64_t p = vh::to_u64(w[1]);
    if (p >= params.size()) throw BadOp();
    std::vector<float> f;
    for (const std::string &h : vh::split(w[2], ',')) {
      std::uint32_t bits = static_cast<std::uint32_t>(std::strtoul(h.c_str(), nullptr, 16));
      float x; std::memcpy(&x, &bits, 4); f.push_back(x);
    }
    if (f.size() != D) throw BadOp();
    params[p]->gradient().reset_by_vector(f);
    return "ok";
  }
  if (op == "gradbits" && w.size() == 2) {
    std::uint64_t p = vh::to_u64(w[1]);
    if (p >= params.size()) throw BadOp();
    std::vector<float> f = params[p]->gradient().to_vector();
    std::string out = "ok ";
    for (std::size_t i = 0; i < f.size(); ++i) {
      std::uint32_t bits; std::memcpy(&bits, &f[i], 4);
      char buf[16]; std::snprintf(buf, sizeof buf, "%08x", bits);
      if (i) out += ","; out += buf;
    }
    return out;
  }
  if (op == "reset" && w.size() == 2) {
    std::uint64_t p = vh::to_u64(w[1]);
    if (p >= params.size()) throw BadOp();
    params[p]->reset_gradient();
    return "ok";
  }
  if (op == "graph" && w.size() == 1) {
    graphs.emplace_back(new Graph());
    silent.emplace_back();
    return "ok g" + std::to_string(graphs.size() - 1);
  }
  if (op == "P" && w.size() == 3) {
    int g = gidx(w[1]);
    std::uint64_t p = vh::to_u64(w[2]);
    if (p >= params.size()) throw BadOp();
    return reg(g, graphs[g]->add_operator(std::unique_ptr<Operator>(new operators::Parameter(*params[p])), {}), true);
  }
  if (op == "I" && w.size() == 3) {
    int g = gidx(w[1]);
    std::unique_ptr<UserOp> u(new UserOp(UserOp::INPUT, g, graphs[g]->num_operators()));
    u->data_ = parse_vec(w[2]);
    return reg(g, graphs[g]->add_operator(std::move(u), {}), false);
  }
  if (op == "L" && w.size() >= 5 && w[3] == ";") {
    int g = gidx(w[1]);
    std::vector<std::vector<i64>> rows;
    for (const std::string &r : vh::split(w[2], ';')) {
      std::vector<i64> row;
      if (!r.empty()) for (const std::string &x : vh::split(r, ',')) row.push_back(vh::to_i64(x));
      rows.push_back(row);
    }
    std::vector<Node> args;
    for (std::size_t i = 4; i < w.size(); ++i) args.push_back(node_of(w[i]));
    for (const std::vector<i64> &r : rows) if (r.size() != args.size()) throw BadOp();
    if (args.empty()) throw BadOp();
    std::unique_ptr<UserOp> u(new UserOp(UserOp::LIN, g, graphs[g]->num_operators()));
    u->rows_ = rows;
    u->argn_ = args.size();
    return reg(g, graphs[g]->add_operator(std::move(u), args), false);
  }
  if (op == "M" && w.size() == 4) {
    int g = gidx(w[1]);
    std::vector<Node> args{node_of(w[2]), node_of(w[3])};
    std::unique_ptr<UserOp> u(new UserOp(UserOp::MUL, g, graphs[g]->num_operators()));
    u->argn_ = 2;
    return reg(g, graphs[g]->add_operator(std::move(u), args), false);
  }
  if (op == "N" && w.size() == 3) {
    int g = gidx(w[1]);
    std::vector<Node> args{node_of(w[2])};
    std::unique_ptr<UserOp> u(new UserOp(UserOp::IDNOP, g, graphs[g]->num_operators()));
    u->argn_ = 1;
    return reg(g, graphs[g]->add_operator(std::move(u), args), false);
  }
  if (op == "S" && w.size() == 3) {
    int g = gidx(w[1]);
    Node a = node_of(w[2]);
    // the library's own operator, registered on graph g (functions::stop_gradient would use a's graph)
    return reg(g, graphs[g]->add_operator(std::unique_ptr<Operator>(new operators::StopGradient()), {a}), true);
  }
  if (op == "F" && w.size() == 3) {
    int g = gidx(w[1]);
    Node a = node_of(w[2]);
    // the library's Flatten operator: forward returns a view sharing the argument's memory (copy-on-write must protect it)
    return reg(g, graphs[g]->add_operator(std::unique_ptr<Operator>(new operators::Flatten()), {a}), true);
  }
  if (op == "R" && w.size() == 2) {
    int g = gidx(w[1]);
    std::unique_ptr<UserOp> u(new UserOp(UserOp::RND, g, graphs[g]->num_operators()));
    return reg(g, graphs[g]->add_operator(std::move(u), {}), false);
  }
  if (op == "failin" && w.size() == 2) { g_fail_in = static_cast<i64>(vh::to_u64(w[1])); return "ok"; }
  if ((op == "force" || op == "backward" || op == "gforce" || op == "gbackward") && w.size() == 2) {
    Node &n = node_of(w[1]);
    Graph &own = *graphs[nodes[vh::to_u64(w[1].substr(1))].g];   // the g-variants enter through the Graph, as the C API does
    std::size_t mark = g_log.size();
    try {
      if (op == "gforce") {
        std::vector<float> f = own.forward(n).to_vector();
        std::vector<i64> v(f.begin(), f.end());
        return "ok " + csv(v) + " | " + log_since(mark);
      }
      if (op == "gbackward") {
        own.backward(n);
        return "ok | " + log_since(mark);
      }
      if (op == "force") {
        std::vector<float> f = n.to_vector();
        std::vector<i64> v(f.begin(), f.end());
        return "ok " + csv(v) + " | " + log_since(mark);
      }
      n.backward();
      return "ok | " + log_since(mark);
    } catch (const Error &) {
      return "err | " + log_since(mark);
    }
  }
  if ((op == "grad" || op == "pval") && w.size() == 2) {
    std::uint64_t p = vh::to_u64(w[1]);
    if (p >= params.size()) throw BadOp();
    return "ok " + csv(ints(op == "grad" ? params[p]->gradient() : params[p]->value()));
  }
  if (op == "rndpos" && w.size() == 1) return "ok " + std::to_string(g_rnd_pos);
  if (op == "counters" && w.size() == 2) {
    int g = gidx(w[1]);
    std::vector<i64> c(graphs[g]->num_operators(), 0);
    for (const std::pair<int, std::uint32_t> &e : g_log) if (e.first == g && e.second < c.size()) ++c[e.second];
    return "ok " + csv(c);
  }
  throw BadOp();
}

int main(int argc, char **argv) {
  std::unique_ptr<Device> dev;
  if (argc > 1 && std::string(argv[1]) == "eigen") dev.reset(new devices::Eigen());
  else dev.reset(new devices::Naive());
  g_dev = dev.get();
  std::unique_ptr<Device> dev2;
  if (argc > 1 && std::string(argv[1]) == "eigen") dev2.reset(new devices::Eigen());
  else dev2.reset(new devices::Naive());
  g_dev2 = dev2.get();
  int rc = vh::run_lines(exec);
  nodes.clear();
  graphs.clear();
  params.clear();
  return rc;
}
