// Harness of the `karith` family: the arithmetic kernels of primitiv::Device
// (elementwise, const/scalar/broadcasting binary, pown, matmul, conv2d,
// max_pool2d, logsumexp, in-place updates), forward and backward, called
// through the PUBLIC Device entry points on devices::Naive and devices::Eigen.
//
//   <dev> <kernel> <tensor>... <arg>...
//
// dev     naive | eigen : subclasses whose new_handle() fills every fresh
//         buffer with a canary (a NaN with a payload).  A canary that survives
//         in the result of a forward kernel is printed as `C`.
// tensor  T:<d0,d1,...>/<batch>:<v0,v1,...>   on <dev>
//         O:<d0,d1,...>/<batch>:<v0,v1,...>   on the OTHER backend's device (every entry point must throw)
// value   decimal integer | x<16 hex digits> (bits of a double; converted to float)
// arg     K:<value> (float argument) | decimal integer
// result  ok [dims]xB h<8 hex>,...( | [dims]xB h<8 hex>,...) | err | bad-op
//         (h<8 hex> = bits of the float32 element)
//         a `_bw` call that throws although it already changed an accumulator answers `err modified`
// <name>_grad lines: y = <name>_fw(x...); g = zeros; <name>_bw(x..., y, gy, g); print g.
#include "common.h"
#include <cmath>
#include <cstring>
#include <memory>
#include <primitiv/config.h>
#include <primitiv/core/device.h>
#include <primitiv/core/shape.h>
#include <primitiv/core/tensor.h>
#include <primitiv/devices/naive/device.h>
#include <primitiv/devices/eigen/device.h>

using namespace primitiv;
using vh::BadOp;

static const std::uint32_t CANARY = 0x7fc5a5a5u;  // quiet NaN with a payload

static std::shared_ptr<void> canary_handle(const Shape &shape, std::size_t *const allocated_size) {
  const std::size_t n = shape.size();
  const std::size_t bytes = sizeof(float) * n;
  void *data = std::malloc(bytes ? bytes : 1);
  if (!data) throw std::bad_alloc();
  std::uint32_t *p = static_cast<std::uint32_t *>(data);
  for (std::size_t i = 0; i < n; ++i) p[i] = CANARY;
  if (allocated_size) *allocated_size = bytes;
  return std::shared_ptr<void>(data, std::free);
}

// new_handle is a private virtual of Naive/Eigen: it can be overridden.
class CanaryNaive : public devices::Naive {
  std::shared_ptr<void> new_handle(const Shape &shape, std::size_t *const allocated_size) override {
    return canary_handle(shape, allocated_size);
  }
};
class CanaryEigen : public devices::Eigen {
  std::shared_ptr<void> new_handle(const Shape &shape, std::size_t *const allocated_size) override {
    return canary_handle(shape, allocated_size);
  }
};

// ---------------------------------------------------------------- parsing
static bool is_int_tok(const std::string &t) {
  std::size_t i = (!t.empty() && t[0] == '-') ? 1 : 0;
  if (i >= t.size()) return false;
  for (std::size_t k = i; k < t.size(); ++k) if (t[k] < '0' || t[k] > '9') return false;
  return true;
}

static float parse_value(const std::string &t) {
  if (is_int_tok(t)) {
    if (t.size() > 18) throw BadOp();
    return static_cast<float>(std::strtoll(t.c_str(), nullptr, 10));
  }
  if (t.size() == 17 && t[0] == 'x') {
    std::uint64_t bits = 0;
    for (std::size_t k = 1; k < 17; ++k) {
      char c = t[k];
      int d;
      if (c >= '0' && c <= '9') d = c - '0';
      else if (c >= 'a' && c <= 'f') d = c - 'a' + 10;
      else throw BadOp();
      bits = bits * 16 + static_cast<std::uint64_t>(d);
    }
    double dv;
    std::memcpy(&dv, &bits, sizeof dv);
    return static_cast<float>(dv);
  }
  throw BadOp();
}

struct RawT { std::vector<std::uint32_t> dims; std::uint32_t batch; std::vector<float> vals; bool other; };

static RawT parse_tensor(const std::string &t) {
  std::vector<std::string> p = vh::split(t.substr(2), ':');
  if (p.size() != 2) throw BadOp();
  std::vector<std::string> sh = vh::split(p[0], '/');
  if (sh.size() != 2) throw BadOp();
  RawT r;
  r.other = t[0] == 'O';
  r.dims = vh::csv_u32(sh[0]);
  r.batch = vh::to_u32(sh[1]);
  if (!p[1].empty()) for (const std::string &v : vh::split(p[1], ',')) r.vals.push_back(parse_value(v));
  return r;
}

static std::string show(const Tensor &t, bool fresh) {
  std::ostringstream os;
  os << t.shape().to_string() << ' ';
  const std::vector<float> v = t.to_vector();
  char buf[16];
  for (std::size_t i = 0; i < v.size(); ++i) {
    std::uint32_t bits;
    std::memcpy(&bits, &v[i], sizeof bits);
    if (i) os << ',';
    if (fresh && bits == CANARY) os << 'C';
    else { std::snprintf(buf, sizeof buf, "h%08x", bits); os << buf; }
  }
  return os.str();
}

static std::uint32_t u32arg(std::int64_t v) {
  if (v < 0 || v > 0xffffffffll) throw BadOp();
  return static_cast<std::uint32_t>(v);
}

static bool ends_with(const std::string &s, const std::string &suf) {
  return s.size() >= suf.size() && s.compare(s.size() - suf.size(), suf.size(), suf) == 0;
}

typedef Tensor (Device::*FwX)(const Tensor &);
typedef void (Device::*BwX)(const Tensor &, const Tensor &, const Tensor &, Tensor &);
typedef Tensor (Device::*FwC)(const Tensor &, float);
typedef void (Device::*BwC)(const Tensor &, const Tensor &, const Tensor &, float, Tensor &);
typedef Tensor (Device::*FwAB)(const Tensor &, const Tensor &);
typedef void (Device::*BwAB)(const Tensor &, const Tensor &, const Tensor &, const Tensor &, Tensor &, Tensor &);

#define ENT(n) {#n, &Device::n##_fw}
#define ENTB(n) {#n, &Device::n##_bw}
static const struct { const char *name; FwX f; } FWX[] = {
  ENT(negate), ENT(abs), ENT(sqrt), ENT(exp), ENT(log), ENT(tanh), ENT(sigmoid), ENT(softplus), ENT(sin), ENT(cos), ENT(tan)};
static const struct { const char *name; BwX f; } BWX[] = {
  ENTB(abs), ENTB(sqrt), ENTB(exp), ENTB(log), ENTB(tanh), ENTB(sigmoid), ENTB(softplus), ENTB(sin), ENTB(cos), ENTB(tan)};
static const struct { const char *name; FwC f; } FWC[] = {
  ENT(add_const), ENT(subtract_const_r), ENT(subtract_const_l), ENT(multiply_const), ENT(divide_const_r),
  ENT(divide_const_l), ENT(pow_const_r), ENT(pow_const_l), ENT(prelu), ENT(elu)};
static const struct { const char *name; BwC f; } BWC[] = {
  ENTB(add_const), ENTB(subtract_const_r), ENTB(subtract_const_l), ENTB(multiply_const), ENTB(divide_const_r),
  ENTB(divide_const_l), ENTB(pow_const_r), ENTB(pow_const_l), ENTB(prelu), ENTB(elu)};
static const struct { const char *name; FwAB f; } FWAB[] = {
  ENT(add_scalar), ENT(subtract_scalar_r), ENT(subtract_scalar_l), ENT(multiply_scalar), ENT(divide_scalar_r),
  ENT(divide_scalar_l), ENT(pow_scalar_r), ENT(pow_scalar_l),
  ENT(add), ENT(subtract), ENT(multiply), ENT(divide), ENT(pow), ENT(matmul)};
static const struct { const char *name; BwAB f; } BWAB[] = {
  ENTB(add), ENTB(subtract), ENTB(multiply), ENTB(divide), ENTB(pow), ENTB(matmul)};

template <class T, std::size_t N, class F>
static bool lookup(const T (&tbl)[N], const std::string &name, F &out) {
  for (std::size_t i = 0; i < N; ++i) if (name == tbl[i].name) { out = tbl[i].f; return true; }
  return false;
}

struct Devs { CanaryNaive n; CanaryEigen e; };

static std::string exec(Devs &D, const std::vector<std::string> &w) {
  if (w.size() < 2) throw BadOp();
  Device *dev;
  if (w[0] == "naive") dev = &D.n;
  else if (w[0] == "eigen") dev = &D.e;
  else throw BadOp();
  const std::string &kern = w[1];
  std::size_t i = 2;
  std::vector<RawT> raws;
  for (; i < w.size() && (w[i].compare(0, 2, "T:") == 0 || w[i].compare(0, 2, "O:") == 0); ++i)
    raws.push_back(parse_tensor(w[i]));
  Device *other = (dev == static_cast<Device *>(&D.n)) ? static_cast<Device *>(&D.e) : static_cast<Device *>(&D.n);
  std::vector<float> ks;
  for (; i < w.size() && w[i].compare(0, 2, "K:") == 0; ++i) ks.push_back(parse_value(w[i].substr(2)));
  std::vector<std::int64_t> ns;
  for (; i < w.size(); ++i) {
    if (!is_int_tok(w[i]) || w[i].size() > 18) throw BadOp();
    ns.push_back(std::strtoll(w[i].c_str(), nullptr, 10));
  }
  // shapes first (Error -> err), then the number of values (bad-op)
  std::vector<Shape> shapes;
  for (const RawT &r : raws) shapes.push_back(Shape(r.dims, r.batch));
  for (std::size_t k = 0; k < raws.size(); ++k) if (shapes[k].size() != raws[k].vals.size()) throw BadOp();
  std::vector<Tensor> t;
  for (std::size_t k = 0; k < raws.size(); ++k)
    t.push_back((raws[k].other ? other : dev)->new_tensor_by_vector(shapes[k], raws[k].vals));
  const std::size_t T = t.size(), K = ks.size(), N = ns.size();

  if (ends_with(kern, "_fw")) {
    const std::string base = kern.substr(0, kern.size() - 3);
    FwX fx; FwC fc; FwAB fab;
    if (T == 1 && K == 0 && N == 0 && lookup(FWX, base, fx)) return "ok " + show((dev->*fx)(t[0]), true);
    if (T == 1 && K == 1 && N == 0 && lookup(FWC, base, fc)) return "ok " + show((dev->*fc)(t[0], ks[0]), true);
    if (T == 1 && K == 0 && N == 1 && base == "pown") {
      if (ns[0] < -2147483648ll || ns[0] > 2147483647ll) throw BadOp();
      return "ok " + show(dev->pown_fw(t[0], static_cast<std::int32_t>(ns[0])), true);
    }
    if (T == 1 && K == 0 && N == 1 && base == "logsumexp") return "ok " + show(dev->logsumexp_fw(t[0], u32arg(ns[0])), true);
    if (T == 2 && K == 0 && N == 0 && lookup(FWAB, base, fab)) return "ok " + show((dev->*fab)(t[0], t[1]), true);
    if (T == 2 && K == 0 && N == 6 && base == "conv2d")
      return "ok " + show(dev->conv2d_fw(t[0], t[1], u32arg(ns[0]), u32arg(ns[1]), u32arg(ns[2]), u32arg(ns[3]),
                                         u32arg(ns[4]), u32arg(ns[5])), true);
    if (T == 1 && K == 0 && N == 6 && base == "max_pool2d")
      return "ok " + show(dev->max_pool2d_fw(t[0], u32arg(ns[0]), u32arg(ns[1]), u32arg(ns[2]), u32arg(ns[3]),
                                             u32arg(ns[4]), u32arg(ns[5])), true);
    throw BadOp();
  }
  if (ends_with(kern, "_bw")) {
    try {
      const std::string base = kern.substr(0, kern.size() - 3);
      BwX bx; BwC bc; BwAB bab;
      if (T == 4 && K == 0 && N == 0 && lookup(BWX, base, bx)) { (dev->*bx)(t[0], t[1], t[2], t[3]); return "ok " + show(t[3], false); }
      if (T == 4 && K == 1 && N == 0 && lookup(BWC, base, bc)) { (dev->*bc)(t[0], t[1], t[2], ks[0], t[3]); return "ok " + show(t[3], false); }
      if (T == 4 && K == 0 && N == 1 && base == "pown") {
        if (ns[0] < -2147483648ll || ns[0] > 2147483647ll) throw BadOp();
        dev->pown_bw(t[0], t[1], t[2], static_cast<std::int32_t>(ns[0]), t[3]);
        return "ok " + show(t[3], false);
      }
      if (T == 6 && K == 0 && N == 0 && lookup(BWAB, base, bab)) {
        (dev->*bab)(t[0], t[1], t[2], t[3], t[4], t[5]);
        return "ok " + show(t[4], false) + " | " + show(t[5], false);
      }
      if (T == 6 && K == 0 && N == 6 && base == "conv2d") {
        dev->conv2d_bw(t[0], t[1], t[2], t[3], u32arg(ns[0]), u32arg(ns[1]), u32arg(ns[2]), u32arg(ns[3]),
                       u32arg(ns[4]), u32arg(ns[5]), t[4], t[5]);
        return "ok " + show(t[4], false) + " | " + show(t[5], false);
      }
      if (T == 4 && K == 0 && N == 6 && base == "max_pool2d") {
        dev->max_pool2d_bw(t[0], t[1], t[2], u32arg(ns[0]), u32arg(ns[1]), u32arg(ns[2]), u32arg(ns[3]),
                           u32arg(ns[4]), u32arg(ns[5]), t[3]);
        return "ok " + show(t[3], false);
      }
      throw BadOp();
    } catch (const primitiv::Error &) {
      // a rejected call must leave the accumulators untouched
      std::vector<std::size_t> acc;
      if (T == 4) acc.push_back(3);
      if (T == 6) { acc.push_back(4); acc.push_back(5); }
      for (std::size_t a : acc) {
        const std::vector<float> now = t[a].to_vector();
        if (now.size() != raws[a].vals.size() ||
            std::memcmp(now.data(), raws[a].vals.data(), now.size() * sizeof(float)) != 0) return "err modified";
      }
      throw;
    }
  }
  if (ends_with(kern, "_grad")) {
    const std::string base = kern.substr(0, kern.size() - 5);
    FwX fx; BwX bx; FwC fc; BwC bc; FwAB fab; BwAB bab;
    if (T == 2 && K == 0 && N == 0 && lookup(FWX, base, fx)) {
      if (base == "negate") throw BadOp();
      if (!lookup(BWX, base, bx)) throw BadOp();
      if (t[0].shape() != t[1].shape()) return "err";
      Tensor y = (dev->*fx)(t[0]);
      Tensor g = dev->new_tensor_by_constant(t[0].shape(), 0);
      (dev->*bx)(t[0], y, t[1], g);
      return "ok " + show(g, false);
    }
    if (T == 2 && K == 1 && N == 0 && lookup(FWC, base, fc) && lookup(BWC, base, bc)) {
      if (t[0].shape() != t[1].shape()) return "err";
      Tensor y = (dev->*fc)(t[0], ks[0]);
      Tensor g = dev->new_tensor_by_constant(t[0].shape(), 0);
      (dev->*bc)(t[0], y, t[1], ks[0], g);
      return "ok " + show(g, false);
    }
    if (T == 2 && K == 0 && N == 1 && base == "pown") {
      if (ns[0] < -2147483648ll || ns[0] > 2147483647ll) throw BadOp();
      if (t[0].shape() != t[1].shape()) return "err";
      const std::int32_t k = static_cast<std::int32_t>(ns[0]);
      Tensor y = dev->pown_fw(t[0], k);
      Tensor g = dev->new_tensor_by_constant(t[0].shape(), 0);
      dev->pown_bw(t[0], y, t[1], k, g);
      return "ok " + show(g, false);
    }
    if (T == 3 && K == 0 && N == 0 && lookup(FWAB, base, fab) && lookup(BWAB, base, bab) && base != "matmul") {
      Tensor y = (dev->*fab)(t[0], t[1]);
      if (y.shape() != t[2].shape()) return "err";
      Tensor ga = dev->new_tensor_by_constant(t[0].shape(), 0);
      Tensor gb = dev->new_tensor_by_constant(t[1].shape(), 0);
      (dev->*bab)(t[0], t[1], y, t[2], ga, gb);
      return "ok " + show(ga, false) + " | " + show(gb, false);
    }
    throw BadOp();
  }
  if (kern == "inplace_multiply_const" && T == 1 && K == 1 && N == 0) { dev->inplace_multiply_const(ks[0], t[0]); return "ok " + show(t[0], false); }
  if (kern == "inplace_add" && T == 2 && K == 0 && N == 0) { dev->inplace_add(t[0], t[1]); return "ok " + show(t[1], false); }
  if (kern == "inplace_subtract" && T == 2 && K == 0 && N == 0) { dev->inplace_subtract(t[0], t[1]); return "ok " + show(t[1], false); }
  throw BadOp();
}

int main() {
  Devs D;
  return vh::run_lines([&D](const std::vector<std::string> &w) { return exec(D, w); });
}
