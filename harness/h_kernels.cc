// Harness of the `kernels` family: the data-movement, axis-wise reduction and
// selection kernels of primitiv::Device, called through the PUBLIC entry points
// on devices::Naive and devices::Eigen.
//
//   <dev> <kernel> <tensor tokens...> <natural arguments...>
//
// dev: naive | eigen   -- subclasses whose new_handle() fills every fresh buffer
//                         with a canary (a NaN with a payload); a canary that
//                         survives in the output of a forward kernel is printed
//                         as `C` and the line ends in ` canary@<index>`.
//      naive0 | eigen0 -- the plain library devices (the real new_handle()).
// Tokens: T:<dims>/<batch>:<values>  tensor on <dev> (new_tensor_by_vector)
//         O:<dims>/<batch>:<values>  tensor on the other backend's device
//         I                          default-constructed (invalid) Tensor
//         S:<dims>/<batch>           Shape
//         V:<values>                 list of values
// Results: ok T:<dims>/<batch>:<values> | ok ids:<...> | ok vec:<...> | err | bad-op
#include "common.h"
#include <cmath>
#include <cstring>
#include <memory>
#include <primitiv/config.h>
#include <primitiv/core/device.h>
#include <primitiv/core/shape.h>
#include <primitiv/core/tensor.h>
#include <primitiv/devices/naive/device.h>
#include <primitiv/devices/eigen/device.h>

using namespace primitiv;
using vh::BadOp;

static const std::uint32_t CANARY = 0x7fc5a5a5u;  // quiet NaN with a payload

static std::shared_ptr<void> canary_handle(const Shape &shape, std::size_t *const allocated_size) {
  const std::size_t n = shape.size();
  const std::size_t bytes = sizeof(float) * n;
  void *data = std::malloc(bytes ? bytes : 1);
  if (!data) throw std::bad_alloc();
  std::uint32_t *p = static_cast<std::uint32_t *>(data);
  for (std::size_t i = 0; i < n; ++i) p[i] = CANARY;
  if (allocated_size) *allocated_size = bytes;
  return std::shared_ptr<void>(data, std::free);
}

// `new_handle` is declared `virtual` and private in Device/Naive/Eigen: a
// private virtual can be overridden.
class CanaryNaive : public devices::Naive {
  std::shared_ptr<void> new_handle(const Shape &shape, std::size_t *const allocated_size) override {
    return canary_handle(shape, allocated_size);
  }
};
class CanaryEigen : public devices::Eigen {
  std::shared_ptr<void> new_handle(const Shape &shape, std::size_t *const allocated_size) override {
    return canary_handle(shape, allocated_size);
  }
};

struct Devs {
  CanaryNaive cn;
  CanaryEigen ce;
  devices::Naive n0;
  devices::Eigen e0;
};

// ---------------------------------------------------------------- parsing
struct TTok { char kind; std::vector<std::uint32_t> dims; std::uint32_t batch; std::vector<float> vals; };
struct STok { std::vector<std::uint32_t> dims; std::uint32_t batch; };

static std::vector<float> csv_vals(const std::string &s) {
  std::vector<float> v;
  if (s.empty()) return v;
  for (const std::string &t : vh::split(s, ',')) {
    if (t.empty()) throw BadOp();
    std::size_t i = (t[0] == '-') ? 1 : 0;
    if (i >= t.size()) throw BadOp();
    for (std::size_t k = i; k < t.size(); ++k) if (t[k] < '0' || t[k] > '9') throw BadOp();
    v.push_back(static_cast<float>(std::strtoll(t.c_str(), nullptr, 10)));
  }
  return v;
}

static void parse_shape(const std::string &s, std::vector<std::uint32_t> &dims, std::uint32_t &batch) {
  std::vector<std::string> p = vh::split(s, '/');
  if (p.size() != 2) throw BadOp();
  dims = vh::csv_u32(p[0]);
  batch = vh::to_u32(p[1]);
}

struct Parsed {
  std::vector<TTok> ts;
  std::vector<STok> ss;
  std::vector<std::vector<float>> vs;
  std::vector<std::uint32_t> ns;
};

static Parsed parse(const std::vector<std::string> &w) {
  Parsed a;
  for (std::size_t i = 2; i < w.size(); ++i) {
    const std::string &t = w[i];
    if (t == "I" || t.find(':') != std::string::npos) {
      if (!a.ns.empty()) throw BadOp();
      if (t == "I") { TTok k; k.kind = 'I'; k.batch = 1; a.ts.push_back(k); continue; }
      std::vector<std::string> p = vh::split(t, ':');
      if (p.size() == 3 && (p[0] == "T" || p[0] == "O")) {
        TTok k; k.kind = p[0][0];
        parse_shape(p[1], k.dims, k.batch);
        k.vals = csv_vals(p[2]);
        a.ts.push_back(k);
      } else if (p.size() == 2 && p[0] == "S") {
        STok k; parse_shape(p[1], k.dims, k.batch); a.ss.push_back(k);
      } else if (p.size() == 2 && p[0] == "V") {
        a.vs.push_back(csv_vals(p[1]));
      } else {
        throw BadOp();
      }
    } else {
      a.ns.push_back(vh::to_u32(t));
    }
  }
  return a;
}

// ---------------------------------------------------------------- printing
static std::string show_vals(const std::vector<float> &v, long *canary_at) {
  std::ostringstream os;
  for (std::size_t i = 0; i < v.size(); ++i) {
    if (i) os << ",";
    std::uint32_t bits;
    std::memcpy(&bits, &v[i], 4);
    if (bits == CANARY) {
      os << "C";
      if (canary_at && *canary_at < 0) *canary_at = static_cast<long>(i);
    } else if (v[i] == std::floor(v[i]) && std::fabs(v[i]) < 2147483648.0f) {
      os << static_cast<long long>(v[i]);
    } else {
      os << "x" << std::hex << bits << std::dec;
    }
  }
  return os.str();
}

static std::string show(const Tensor &t) {
  const Shape s = t.shape();
  std::ostringstream os;
  os << "ok T:";
  for (std::uint32_t i = 0; i < s.depth(); ++i) { if (i) os << ","; os << s[i]; }
  os << "/" << s.batch() << ":";
  long c = -1;
  os << show_vals(t.to_vector(), &c);
  if (c >= 0) os << " canary@" << c;
  return os.str();
}

static std::string show_ids(const std::vector<std::uint32_t> &v) {
  std::ostringstream os;
  os << "ok ids:";
  for (std::size_t i = 0; i < v.size(); ++i) { if (i) os << ","; os << v[i]; }
  return os.str();
}

// ---------------------------------------------------------------- execution
static std::string exec(Devs &D, const std::vector<std::string> &w) {
  if (w.size() < 2) throw BadOp();
  Device *dev, *oth;
  if (w[0] == "naive") { dev = &D.cn; oth = &D.ce; }
  else if (w[0] == "eigen") { dev = &D.ce; oth = &D.cn; }
  else if (w[0] == "naive0") { dev = &D.n0; oth = &D.e0; }
  else if (w[0] == "eigen0") { dev = &D.e0; oth = &D.n0; }
  else throw BadOp();
  const std::string &op = w[1];
  Parsed a = parse(w);
  std::vector<Tensor> ts;
  for (const TTok &k : a.ts) {
    if (k.kind == 'I') { ts.emplace_back(); continue; }
    Shape s(k.dims, k.batch);
    ts.push_back((k.kind == 'T' ? dev : oth)->new_tensor_by_vector(s, k.vals));
  }
  std::vector<Shape> ss;
  for (const STok &k : a.ss) ss.emplace_back(k.dims, k.batch);
  const std::vector<std::uint32_t> &ns = a.ns;
  const std::size_t T = ts.size(), S = ss.size(), V = a.vs.size(), N = ns.size();
  auto tail = [&](std::size_t from) { return std::vector<std::uint32_t>(ns.begin() + from, ns.end()); };
  const bool only_t = (S == 0 && V == 0);

  if (op == "pick_fw" && T == 1 && only_t && N >= 1) return show(dev->pick_fw(ts[0], tail(1), ns[0]));
  if (op == "pick_bw" && T == 2 && only_t && N >= 1) { dev->pick_bw(ts[0], tail(1), ns[0], ts[1]); return show(ts[1]); }
  if (op == "slice_fw" && T == 1 && only_t && N == 3) return show(dev->slice_fw(ts[0], ns[0], ns[1], ns[2]));
  if (op == "slice_bw" && T == 2 && only_t && N == 2) { dev->slice_bw(ts[0], ns[0], ns[1], ts[1]); return show(ts[1]); }
  if (op == "concat_fw" && only_t && N == 1) {
    std::vector<const Tensor *> ps;
    for (const Tensor &t : ts) ps.push_back(&t);
    return show(dev->concat_fw(ps, ns[0]));
  }
  if (op == "transpose_fw" && T == 1 && only_t && N == 0) return show(dev->transpose_fw(ts[0]));
  if (op == "transpose_bw" && T == 4 && only_t && N == 0) { dev->transpose_bw(ts[0], ts[1], ts[2], ts[3]); return show(ts[3]); }
  if (op == "permute_dims_fw" && T == 1 && only_t) return show(dev->permute_dims_fw(ts[0], ns));
  if (op == "permute_dims_bw" && T == 4 && only_t) { dev->permute_dims_bw(ts[0], ts[1], ts[2], ns, ts[3]); return show(ts[3]); }
  if (op == "flip_fw" && T == 1 && only_t && N == 1) return show(dev->flip_fw(ts[0], ns[0]));
  if (op == "flip_bw" && T == 2 && only_t && N == 1) { dev->flip_bw(ts[0], ns[0], ts[1]); return show(ts[1]); }
  if (op == "sum_fw" && T == 1 && only_t && N == 1) return show(dev->sum_fw(ts[0], ns[0]));
  if (op == "broadcast_fw" && T == 1 && only_t && N == 2) return show(dev->broadcast_fw(ts[0], ns[0], ns[1]));
  if (op == "max_fw" && T == 1 && only_t && N == 1) return show(dev->max_fw(ts[0], ns[0]));
  if (op == "min_fw" && T == 1 && only_t && N == 1) return show(dev->min_fw(ts[0], ns[0]));
  if (op == "max_bw" && T == 4 && only_t && N == 1) { dev->max_bw(ts[0], ts[1], ts[2], ns[0], ts[3]); return show(ts[3]); }
  if (op == "min_bw" && T == 4 && only_t && N == 1) { dev->min_bw(ts[0], ts[1], ts[2], ns[0], ts[3]); return show(ts[3]); }
  if (op == "argmax" && T == 1 && only_t && N == 1) return show_ids(ts[0].argmax(ns[0]));
  if (op == "argmin" && T == 1 && only_t && N == 1) return show_ids(ts[0].argmin(ns[0]));
  if (op == "batch_pick_fw" && T == 1 && only_t) return show(dev->batch_pick_fw(ts[0], ns));
  if (op == "batch_pick_bw" && T == 2 && only_t) { dev->batch_pick_bw(ts[0], ns, ts[1]); return show(ts[1]); }
  if (op == "batch_slice_fw" && T == 1 && only_t && N == 2) return show(dev->batch_slice_fw(ts[0], ns[0], ns[1]));
  if (op == "batch_slice_bw" && T == 2 && only_t && N == 1) { dev->batch_slice_bw(ts[0], ns[0], ts[1]); return show(ts[1]); }
  if (op == "batch_concat_fw" && only_t && N == 0) {
    std::vector<const Tensor *> ps;
    for (const Tensor &t : ts) ps.push_back(&t);
    return show(dev->batch_concat_fw(ps));
  }
  if (op == "batch_sum_fw" && T == 1 && only_t && N == 0) return show(dev->batch_sum_fw(ts[0]));
  if (op == "copy" && T == 1 && only_t && N == 0) return show(dev->copy_tensor(ts[0]));
  if (op == "identity" && T == 0 && only_t && N == 1) return show(dev->identity(ns[0]));
  if (op == "new_const" && T == 0 && S == 1 && V == 0 && N == 1)
    return show(dev->new_tensor_by_constant(ss[0], static_cast<float>(ns[0])));
  if (op == "new_array" && T == 0 && S == 1 && V == 1 && N == 0) {
    if (a.vs[0].size() != ss[0].size()) throw BadOp();  // the API cannot check the length of a raw array
    std::vector<float> buf(a.vs[0]);
    buf.push_back(0);
    return show(dev->new_tensor_by_array(ss[0], buf.data()));
  }
  if (op == "new_vector" && T == 0 && S == 1 && V == 1 && N == 0) return show(dev->new_tensor_by_vector(ss[0], a.vs[0]));
  if (op == "reset" && T == 1 && S == 0 && V == 0 && N == 1) { ts[0].reset(static_cast<float>(ns[0])); return show(ts[0]); }
  if (op == "reset_array" && T == 1 && S == 0 && V == 1 && N == 0) {
    if (a.vs[0].size() != ts[0].shape().size()) throw BadOp();
    std::vector<float> buf(a.vs[0]);
    buf.push_back(0);
    ts[0].reset_by_array(buf.data());
    return show(ts[0]);
  }
  if (op == "reset_vector" && T == 1 && S == 0 && V == 1 && N == 0) { ts[0].reset_by_vector(a.vs[0]); return show(ts[0]); }
  if (op == "to_vector" && T == 1 && only_t && N == 0) return "ok vec:" + show_vals(ts[0].to_vector(), nullptr);
  throw BadOp();
}

int main() {
  Devs D;
  return vh::run_lines([&](const std::vector<std::string> &w) { return exec(D, w); });
}
