// Harness of the `msgpack` family: primitiv::msgpack::Writer / Reader over a
// std::stringstream and the move operations of objects::Binary / Extension.
// Line protocol: see lean/PrimitivModel/Driver/MsgpackDrv.lean.
#include "common.h"
#include <dlfcn.h>
#include <algorithm>
#include <cstring>
#include <deque>
#include <unordered_map>
#include <primitiv/msgpack/objects.h>
#include <primitiv/msgpack/reader.h>
#include <primitiv/msgpack/writer.h>

// Allocation cap: a request above the cap fails the way it does on a machine
// that has no such block (std::bad_alloc) instead of reserving gigabytes per
// damaged length field.  Everything else is forwarded to the sanitizer's
// operator new, so that new/new[]/delete mismatches are still detected.
static const std::size_t ALLOC_CAP = std::size_t(256) << 20;
typedef void *(*new_fn)(std::size_t);
void *operator new(std::size_t n) {
  if (n > ALLOC_CAP) throw std::bad_alloc();
  static new_fn real = reinterpret_cast<new_fn>(dlsym(RTLD_NEXT, "_Znwm"));
  return real(n);
}
void *operator new[](std::size_t n) {
  if (n > ALLOC_CAP) throw std::bad_alloc();
  static new_fn real = reinterpret_cast<new_fn>(dlsym(RTLD_NEXT, "_Znam"));
  return real(n);
}

using namespace primitiv;
using primitiv::msgpack::objects::Binary;
using primitiv::msgpack::objects::Extension;
using vh::BadOp;

static std::deque<std::string> g_store;  // payloads of Binary/Extension values being written

static std::string hex_of(const char *p, std::size_t n) {
  if (n == 0) return "-";
  static const char *d = "0123456789abcdef";
  std::string s(2 * n, '0');
  for (std::size_t i = 0; i < n; ++i) {
    unsigned char c = static_cast<unsigned char>(p[i]);
    s[2 * i] = d[c >> 4];
    s[2 * i + 1] = d[c & 15];
  }
  return s;
}
static int hv(char c) {
  if (c >= '0' && c <= '9') return c - '0';
  if (c >= 'a' && c <= 'f') return c - 'a' + 10;
  throw BadOp();
}
static std::string bytes_of(const std::string &h) {
  if (h == "-") return std::string();
  if (h.empty() || h.size() % 2) throw BadOp();
  std::string s(h.size() / 2, 0);
  for (std::size_t i = 0; i < s.size(); ++i) s[i] = static_cast<char>(hv(h[2 * i]) * 16 + hv(h[2 * i + 1]));
  return s;
}
static std::uint64_t word_of(const std::string &h, std::size_t digits) {
  if (h.size() != digits) throw BadOp();
  std::uint64_t v = 0;
  for (char c : h) v = v * 16 + hv(c);
  return v;
}
static std::string hex_word(std::uint64_t v, std::size_t digits) {
  static const char *d = "0123456789abcdef";
  std::string s(digits, '0');
  for (std::size_t i = 0; i < digits; ++i) s[digits - 1 - i] = d[(v >> (4 * i)) & 15];
  return s;
}

struct Cur {
  const std::vector<std::string> &w;
  std::size_t i;
  const std::string &next() {
    if (i >= w.size()) throw BadOp();
    return w[i++];
  }
};
typedef std::vector<std::string> Out;

static std::int64_t parse_signed(const std::string &s, int bits) {
  if (s.empty()) throw BadOp();
  std::size_t k = (s[0] == '-') ? 1 : 0;
  if (k == s.size() || s.size() - k > 19) throw BadOp();
  for (std::size_t i = k; i < s.size(); ++i) if (s[i] < '0' || s[i] > '9') throw BadOp();
  errno = 0;
  long long v = std::strtoll(s.c_str(), nullptr, 10);
  if (errno) throw BadOp();
  if (bits < 64) {
    long long lim = 1ll << (bits - 1);
    if (v < -lim || v >= lim) throw BadOp();
  }
  return v;
}
static std::uint64_t parse_unsigned(const std::string &s, int bits) {
  if (s.empty() || s.size() > 20) throw BadOp();
  for (char c : s) if (c < '0' || c > '9') throw BadOp();
  errno = 0;
  unsigned long long v = std::strtoull(s.c_str(), nullptr, 10);
  if (errno) throw BadOp();
  if (bits < 64 && (v >> bits)) throw BadOp();
  return v;
}

template <class T> struct Io;
#define IO_UNSIGNED(T, BITS) \
  template <> struct Io<T> { \
    static T parse(Cur &c) { return static_cast<T>(parse_unsigned(c.next(), BITS)); } \
    static void print(const T &v, Out &o) { o.push_back(std::to_string(static_cast<unsigned long long>(v))); } };
#define IO_SIGNED(T, BITS) \
  template <> struct Io<T> { \
    static T parse(Cur &c) { return static_cast<T>(parse_signed(c.next(), BITS)); } \
    static void print(const T &v, Out &o) { o.push_back(std::to_string(static_cast<long long>(v))); } };
IO_UNSIGNED(std::uint8_t, 8)
IO_UNSIGNED(std::uint16_t, 16)
IO_UNSIGNED(std::uint32_t, 32)
IO_UNSIGNED(std::uint64_t, 64)
IO_SIGNED(std::int8_t, 8)
IO_SIGNED(std::int16_t, 16)
IO_SIGNED(std::int32_t, 32)
IO_SIGNED(std::int64_t, 64)
template <> struct Io<bool> {
  static bool parse(Cur &c) {
    const std::string &s = c.next();
    if (s == "true") return true;
    if (s == "false") return false;
    throw BadOp();
  }
  static void print(const bool &v, Out &o) { o.push_back(v ? "true" : "false"); }
};
template <> struct Io<float> {
  static float parse(Cur &c) {
    std::uint32_t w = static_cast<std::uint32_t>(word_of(c.next(), 8));
    float f; std::memcpy(&f, &w, 4); return f;
  }
  static void print(const float &v, Out &o) { std::uint32_t w; std::memcpy(&w, &v, 4); o.push_back(hex_word(w, 8)); }
};
template <> struct Io<double> {
  static double parse(Cur &c) {
    std::uint64_t w = word_of(c.next(), 16);
    double f; std::memcpy(&f, &w, 8); return f;
  }
  static void print(const double &v, Out &o) { std::uint64_t w; std::memcpy(&w, &v, 8); o.push_back(hex_word(w, 16)); }
};
template <> struct Io<std::string> {
  static std::string parse(Cur &c) { return bytes_of(c.next()); }
  static void print(const std::string &v, Out &o) { o.push_back(hex_of(v.data(), v.size())); }
};
template <> struct Io<Binary> {
  static Binary parse(Cur &c) {
    g_store.push_back(bytes_of(c.next()));
    const std::string &s = g_store.back();
    return Binary(s.size(), s.empty() ? "" : s.data());
  }
  static void print(const Binary &v, Out &o) { o.push_back(hex_of(v.data(), v.size())); }
};
template <> struct Io<Extension> {
  static Extension parse(Cur &c) {
    std::int8_t t = static_cast<std::int8_t>(parse_signed(c.next(), 8));
    g_store.push_back(bytes_of(c.next()));
    const std::string &s = g_store.back();
    return Extension(t, s.size(), s.empty() ? "" : s.data());
  }
  static void print(const Extension &v, Out &o) {
    o.push_back(std::to_string(static_cast<int>(v.type())));
    o.push_back(hex_of(v.data(), v.size()));
  }
};
template <class T> struct Io<std::vector<T>> {
  static std::vector<T> parse(Cur &c) {
    std::uint64_t n = parse_unsigned(c.next(), 32);
    std::vector<T> v;
    for (std::uint64_t i = 0; i < n; ++i) v.push_back(Io<T>::parse(c));
    return v;
  }
  static void print(const std::vector<T> &v, Out &o) {
    o.push_back(std::to_string(v.size()));
    for (const T &x : v) Io<T>::print(x, o);
  }
};
template <class K, class V> struct Io<std::unordered_map<K, V>> {
  static std::unordered_map<K, V> parse(Cur &c) {
    std::uint64_t n = parse_unsigned(c.next(), 32);
    std::unordered_map<K, V> m;
    for (std::uint64_t i = 0; i < n; ++i) {
      K k = Io<K>::parse(c);
      V v = Io<V>::parse(c);
      m.emplace(std::move(k), std::move(v));
    }
    return m;
  }
  static void print(const std::unordered_map<K, V> &m, Out &o) {
    o.push_back(std::to_string(m.size()));
    std::vector<std::pair<std::string, Out>> es;
    for (const auto &kv : m) {
      Out ko, all;
      Io<K>::print(kv.first, ko);
      std::string key;
      for (std::size_t i = 0; i < ko.size(); ++i) { if (i) key += ' '; key += ko[i]; }
      all = ko;
      Io<V>::print(kv.second, all);
      es.emplace_back(key, all);
    }
    std::sort(es.begin(), es.end(), [](const std::pair<std::string, Out> &a, const std::pair<std::string, Out> &b) { return a.first < b.first; });
    for (const auto &e : es) for (const std::string &s : e.second) o.push_back(s);
  }
};

static std::string join(const Out &o) {
  std::string s;
  for (std::size_t i = 0; i < o.size(); ++i) { if (i) s += ' '; s += o[i]; }
  return s;
}

static std::string classify(const Error &e) {
  std::string m = e.what();
  if (m.find("reached EOF") != std::string::npos) return "err eof";
  if (m.find("does not have") != std::string::npos) return "err type";
  return "err other";
}

template <class T> static std::string do_write(Cur &c) {
  T v = Io<T>::parse(c);
  if (c.i != c.w.size()) throw BadOp();
  std::stringstream ss;
  msgpack::Writer w(ss);
  try { w << v; } catch (const Error &) { return "err"; }
  std::string s = ss.str();
  return "ok " + hex_of(s.data(), s.size());
}
// A second opinion for the object types: the same bytes read into an object that already wraps
// external memory (as the objects used for writing do) and into one that already owns a buffer
// must give the same value as the read into a fresh object.
template <class T> static bool reread_same(const std::string &, const std::string &) { return true; }
template <> bool reread_same<Binary>(const std::string &bytes, const std::string &expected) {
  static const char other[12] = {'\x5a', '\x5a', '\x5a', '\x5a', '\x5a', '\x5a', '\x5a', '\x5a', '\x5a', '\x5a', '\x5a', '\x5a'};
  for (int mode = 0; mode < 2; ++mode) {
    std::stringstream ss(bytes);
    msgpack::Reader r(ss);
    Binary ext(sizeof other, other), own;
    std::memset(own.allocate(5), 0x33, 5);
    Binary &b = mode ? own : ext;
    r >> b;
    Out o;
    Io<Binary>::print(b, o);
    if (join(o) != expected) return false;
  }
  return true;
}
template <> bool reread_same<Extension>(const std::string &bytes, const std::string &expected) {
  static const char other[12] = {'\x5a', '\x5a', '\x5a', '\x5a', '\x5a', '\x5a', '\x5a', '\x5a', '\x5a', '\x5a', '\x5a', '\x5a'};
  for (int mode = 0; mode < 2; ++mode) {
    std::stringstream ss(bytes);
    msgpack::Reader r(ss);
    Extension ext(77, sizeof other, other), own;
    std::memset(own.allocate(-5, 5), 0x33, 5);
    Extension &b = mode ? own : ext;
    r >> b;
    Out o;
    Io<Extension>::print(b, o);
    if (join(o) != expected) return false;
  }
  return true;
}

template <class T> static std::string do_read(const std::string &bytes) {
  std::stringstream ss(bytes);
  msgpack::Reader r(ss);
  T v = T();
  try { r >> v; }
  catch (const Error &e) { return classify(e); }
  catch (const std::bad_alloc &) { return "err alloc"; }
  catch (const std::length_error &) { return "err alloc"; }
  Out o;
  Io<T>::print(v, o);
  if (!reread_same<T>(bytes, join(o))) return "ok inconsistent: the value read depends on what the destination object held before";
  std::streamoff pos = ss.tellg();
  if (pos < 0) return "ok " + join(o) + " rest=?";
  return "ok " + join(o) + " rest=" + std::to_string(bytes.size() - static_cast<std::size_t>(pos));
}
// reads two consecutive objects into the same variable (the second read move-assigns
// over the first value) and prints the second
template <class T> static std::string do_read2(const std::string &bytes) {
  std::stringstream ss(bytes);
  msgpack::Reader r(ss);
  T v = T();
  try { r >> v; r >> v; }
  catch (const Error &e) { return classify(e); }
  catch (const std::bad_alloc &) { return "err alloc"; }
  Out o;
  Io<T>::print(v, o);
  return "ok " + join(o);
}

typedef std::vector<std::uint32_t> VU32;
typedef std::vector<std::string> VStr;
typedef std::unordered_map<std::string, std::uint32_t> MSU;
typedef std::unordered_map<std::string, float> MSF;
typedef std::unordered_map<std::string, std::string> MSS;
typedef std::unordered_map<std::uint32_t, std::string> MUS;
typedef std::unordered_map<std::uint8_t, std::uint8_t> M88;
typedef std::unordered_map<std::int32_t, std::uint64_t> MIU;
typedef std::unordered_map<std::uint64_t, double> MUD;
typedef std::unordered_map<std::string, VU32> MSV;
typedef std::unordered_map<std::string, MSF> MSM;

#define TYPES(X) \
  X("bool", bool) X("u8", std::uint8_t) X("u16", std::uint16_t) X("u32", std::uint32_t) X("u64", std::uint64_t) \
  X("i8", std::int8_t) X("i16", std::int16_t) X("i32", std::int32_t) X("i64", std::int64_t) \
  X("f32", float) X("f64", double) X("str", std::string) X("bin", Binary) X("ext", Extension) \
  X("arr:u8", std::vector<std::uint8_t>) X("arr:u16", std::vector<std::uint16_t>) X("arr:u32", VU32) \
  X("arr:u64", std::vector<std::uint64_t>) X("arr:i8", std::vector<std::int8_t>) X("arr:i16", std::vector<std::int16_t>) \
  X("arr:i32", std::vector<std::int32_t>) X("arr:i64", std::vector<std::int64_t>) X("arr:f32", std::vector<float>) \
  X("arr:f64", std::vector<double>) X("arr:str", VStr) X("arr:bin", std::vector<Binary>) X("arr:ext", std::vector<Extension>) \
  X("arr:arr:u32", std::vector<VU32>) X("arr:arr:str", std::vector<VStr>) X("arr:arr:arr:u8", std::vector<std::vector<std::vector<std::uint8_t>>>) \
  X("arr:map:str:u32", std::vector<MSU>) \
  X("map:str:u32", MSU) X("map:str:f32", MSF) \
  X("map:str:str", MSS) \
  X("map:u32:str", MUS) \
  X("map:u8:u8", M88) \
  X("map:i32:u64", MIU) \
  X("map:u64:f64", MUD) \
  X("map:str:arr:u32", MSV) \
  X("map:str:map:str:f32", MSM)

static std::string exec(const std::vector<std::string> &w) {
  g_store.clear();
  if (w.size() < 2) throw BadOp();
  const std::string &op = w[0];
  if (op == "w") {
    if (w.size() < 3) throw BadOp();
    const std::string &ty = w[1];
    Cur c{w, 2};
    if (ty == "nil") {
      if (w.size() != 3 || w[2] != "nil") throw BadOp();
      std::stringstream ss;
      msgpack::Writer wr(ss);
      wr << nullptr;
      std::string s = ss.str();
      return "ok " + hex_of(s.data(), s.size());
    }
#define X(NAME, T) if (ty == NAME) return do_write<T>(c);
    TYPES(X)
#undef X
    throw BadOp();
  }
  if (op == "r" || op == "rr") {
    if (w.size() != 3) throw BadOp();
    const std::string &ty = w[1];
    std::string bytes = bytes_of(w[2]);
    if (op == "rr") {
      if (ty == "bin") return do_read2<Binary>(bytes);
      if (ty == "ext") return do_read2<Extension>(bytes);
      if (ty == "str") return do_read2<std::string>(bytes);
      throw BadOp();
    }
    if (ty == "nil") {
      std::stringstream ss(bytes);
      msgpack::Reader r(ss);
      try { r >> nullptr; } catch (const Error &e) { return classify(e); }
      std::streamoff pos = ss.tellg();
      return "ok nil rest=" + std::to_string(bytes.size() - static_cast<std::size_t>(pos));
    }
#define X(NAME, T) if (ty == NAME) return do_read<T>(bytes);
    TYPES(X)
#undef X
    throw BadOp();
  }
  if (op == "mv") {
    // a.allocate(..) = first value; b.allocate(..) = second value; a = std::move(b);
    if (w[1] == "bin" && w.size() == 4) {
      std::string x = bytes_of(w[2]), y = bytes_of(w[3]);
      Binary a, b;
      std::memcpy(a.allocate(x.size()), x.data(), x.size());
      std::memcpy(b.allocate(y.size()), y.data(), y.size());
      a = std::move(b);
      return "ok " + hex_of(a.data(), a.size()) + (b.valid() ? " true" : " false");
    }
    if (w[1] == "ext" && w.size() == 6) {
      std::int8_t ta = static_cast<std::int8_t>(parse_signed(w[2], 8)), tb = static_cast<std::int8_t>(parse_signed(w[4], 8));
      std::string x = bytes_of(w[3]), y = bytes_of(w[5]);
      Extension a, b;
      std::memcpy(a.allocate(ta, x.size()), x.data(), x.size());
      std::memcpy(b.allocate(tb, y.size()), y.data(), y.size());
      a = std::move(b);
      return "ok " + std::to_string(static_cast<int>(a.type())) + " " + hex_of(a.data(), a.size()) + (b.valid() ? " true" : " false");
    }
    throw BadOp();
  }
  throw BadOp();
}

int main() { return vh::run_lines(exec); }
