// Harness of the `optim` family (C12, C15): real optimizers on tiny
// parameters, in-process.  Same stateful line protocol as
// lean/PrimitivModel/Driver/OptimDrv.lean (see the comment there).
// Numbers travel as float32 bit patterns `x3f800000`, unsigned as `u7`.
#include "common.h"
#include <algorithm>
#include <cmath>
#include <cstring>
#include <map>
#include <memory>
#include <unordered_map>
#include <unistd.h>
#include <primitiv/core/device.h>
#include <primitiv/core/functions.h>
#include <primitiv/core/graph.h>
#include <primitiv/core/model.h>
#include <primitiv/core/optimizer_impl.h>
#include <primitiv/core/parameter.h>
#include <primitiv/core/shape.h>
#include <primitiv/devices/eigen/device.h>
#include <primitiv/devices/naive/device.h>

using namespace primitiv;
using vh::BadOp;

namespace {

// devices first: they must outlive every tensor
devices::Naive g_naive;
devices::Naive g_naive2;
devices::Eigen g_eigen;
Device *g_dev = &g_naive;

std::vector<std::unique_ptr<Parameter>> g_params;
std::vector<std::unique_ptr<Optimizer>> g_opts;
std::vector<std::unique_ptr<Model>> g_models;   // persistent models (ops model / madd / msub / oaddm)
struct Ckpt { std::vector<std::string> paths; std::vector<Shape> shapes; };
std::map<std::string, Ckpt> g_ckpts;
std::string g_tmp;
std::vector<std::string> g_files;

void cleanup() {
  for (const std::string &f : g_files) ::unlink(f.c_str());
  if (!g_tmp.empty()) ::rmdir(g_tmp.c_str());
}

const std::string &tmpdir() {
  if (g_tmp.empty()) {
    char buf[] = "/tmp/verif_optim_XXXXXX";
    if (!::mkdtemp(buf)) throw std::runtime_error("mkdtemp");
    g_tmp = buf;
    std::atexit(cleanup);
  }
  return g_tmp;
}

Device &device_of(const std::string &n) {
  if (n == "naive") return g_naive;
  if (n == "naive2") return g_naive2;
  if (n == "eigen") return g_eigen;
  throw BadOp();
}

float num(const std::string &t) {
  if (t.size() != 9 || t[0] != 'x') throw BadOp();
  std::uint32_t b = 0;
  for (std::size_t i = 1; i < 9; ++i) {
    char c = t[i];
    std::uint32_t d;
    if (c >= '0' && c <= '9') d = c - '0';
    else if (c >= 'a' && c <= 'f') d = c - 'a' + 10;
    else throw BadOp();
    b = b * 16 + d;
  }
  float f;
  std::memcpy(&f, &b, 4);
  return f;
}

std::vector<float> nums(const std::string &t) {
  std::vector<float> v;
  if (t == "-") return v;
  for (const std::string &s : vh::split(t, ',')) v.push_back(num(s));
  return v;
}

bool is_u(const std::string &t) { return t.size() >= 2 && t[0] == 'u'; }
std::uint32_t unum(const std::string &t) {
  if (!is_u(t)) throw BadOp();
  return vh::to_u32(t.substr(1));
}

std::uint32_t bits(float f) { std::uint32_t b; std::memcpy(&b, &f, 4); return b; }

std::string show(float f) {
  char buf[16];
  std::uint32_t b = bits(f);
  if (f != f) b = 0x7fc00000u;  // canonical NaN, as the model prints
  std::snprintf(buf, sizeof buf, "x%08x", b);
  return buf;
}

std::string shows(const std::vector<float> &v) {
  if (v.empty()) return "-";
  std::string s;
  for (std::size_t i = 0; i < v.size(); ++i) { if (i) s += ","; s += show(v[i]); }
  return s;
}

std::size_t idx(const std::string &t, std::size_t n) {
  std::uint64_t v = vh::to_u64(t);
  if (v >= n) throw BadOp();
  return static_cast<std::size_t>(v);
}

const char *KINDS[] = {"SGD", "MomentumSGD", "AdaGrad", "RMSProp", "AdaDelta", "Adam"};
const std::size_t ARITY[] = {1, 2, 2, 3, 2, 4};

std::unique_ptr<Optimizer> make(const std::string &kind, const std::vector<float> &h) {
  std::size_t k = 0;
  for (; k < 6; ++k) if (kind == KINDS[k]) break;
  if (k == 6) throw BadOp();
  if (!h.empty() && h.size() != ARITY[k]) throw BadOp();
  using namespace optimizers;
  const bool d = h.empty();
  switch (k) {
    case 0: return std::unique_ptr<Optimizer>(d ? new SGD() : new SGD(h[0]));
    case 1: return std::unique_ptr<Optimizer>(d ? new MomentumSGD() : new MomentumSGD(h[0], h[1]));
    case 2: return std::unique_ptr<Optimizer>(d ? new AdaGrad() : new AdaGrad(h[0], h[1]));
    case 3: return std::unique_ptr<Optimizer>(d ? new RMSProp() : new RMSProp(h[0], h[1], h[2]));
    case 4: return std::unique_ptr<Optimizer>(d ? new AdaDelta() : new AdaDelta(h[0], h[1]));
    default: return std::unique_ptr<Optimizer>(d ? new Adam() : new Adam(h[0], h[1], h[2], h[3]));
  }
}

std::string state_of(const Optimizer &o) {
  std::unordered_map<std::string, std::uint32_t> u;
  std::unordered_map<std::string, float> f;
  o.get_configs(u, f);
  std::map<std::string, std::string> all;
  for (const auto &kv : f) all[kv.first] = show(kv.second);
  for (const auto &kv : u) all[kv.first] = "u" + std::to_string(kv.second);
  std::string s = "ok";
  for (const auto &kv : all) s += " " + kv.first + "=" + kv.second;
  return s;
}

bool near(float a, float b) {
  if (bits(a) == bits(b) || (a != a && b != b)) return true;
  const double m = std::max(std::max(std::fabs(double(a)), std::fabs(double(b))), 1.0);
  return std::fabs(double(a) - double(b)) <= 0.000003814697265625 * m;
}

std::string first_diff(bool exact, const std::string &what, const std::vector<float> &a, const std::vector<float> &b) {
  if (a.size() != b.size()) return what + ".size";
  for (std::size_t i = 0; i < a.size(); ++i) {
    const bool same = exact ? (show(a[i]) == show(b[i])) : near(a[i], b[i]);
    if (!same) return what + "[" + std::to_string(i) + "]";
  }
  return "";
}

// Model tree from dotted paths; the Model objects live as long as `nodes`.
struct Tree {
  Model root;
  std::map<std::string, std::unique_ptr<Model>> nodes;
  void add(const std::string &path, Parameter &p) {
    // hierarchy separator: '/' when the path has one (then the names may contain dots), else '.'
    std::vector<std::string> parts = vh::split(path, path.find('/') != std::string::npos ? '/' : '.');
    if (parts.empty()) throw BadOp();
    Model *cur = &root;
    std::string prefix;
    for (std::size_t i = 0; i + 1 < parts.size(); ++i) {
      prefix += parts[i] + ".";
      auto it = nodes.find(prefix);
      if (it == nodes.end()) {
        it = nodes.emplace(prefix, std::unique_ptr<Model>(new Model())).first;
        cur->add(parts[i], *it->second);
      }
      cur = it->second.get();
    }
    cur->add(parts.back(), p);
    // a tree that grows after its root was enumerated (optimizer.add(root) early, layers
    // created later): a no-op for the registry, but anything derived from an enumeration
    // and kept must follow the growth
    (void)root.get_all_parameters();
    (void)root.get_trainable_parameters();
  }
};

std::string exec(const std::vector<std::string> &w);

std::string exec(const std::vector<std::string> &w) {
  if (w.empty()) throw BadOp();
  const std::string &op = w[0];
  const std::size_t n = w.size();
  if (op == "mode" && n == 2 && (w[1] == "float" || w[1] == "exact")) {
    g_opts.clear(); g_models.clear(); g_params.clear(); g_ckpts.clear();
    return "ok";
  }
  if (op == "engine" && n == 2 && (w[1] == "model" || w[1] == "spec")) return "ok";
  if (op == "device" && n == 2 && (w[1] == "naive" || w[1] == "eigen")) {
    g_dev = &device_of(w[1]);
    Device::set_default(*g_dev);
    return "ok";
  }
  if (op == "opt" && n >= 3) {
    if (vh::to_u64(w[1]) != g_opts.size()) throw BadOp();
    std::vector<float> h;
    for (std::size_t i = 3; i < n; ++i) h.push_back(num(w[i]));
    g_opts.push_back(make(w[2], h));
    return "ok";
  }
  if (op == "set" && n == 4) {
    Optimizer &o = *g_opts.at(idx(w[1], g_opts.size()));
    if (w[2] == "epoch") { o.set_epoch(unum(w[3])); return "ok"; }
    const float v = num(w[3]);
    if (w[2] == "lr_scale") o.set_learning_rate_scaling(v);
    else if (w[2] == "l2_strength") o.set_weight_decay(v);
    else if (w[2] == "clip_threshold") o.set_gradient_clipping(v);
    else throw BadOp();
    return "ok";
  }
  if (op == "cfg" && n == 4) {
    Optimizer &o = *g_opts.at(idx(w[1], g_opts.size()));
    std::unordered_map<std::string, std::uint32_t> u;
    std::unordered_map<std::string, float> f;
    if (is_u(w[3])) u[w[2]] = unum(w[3]); else f[w[2]] = num(w[3]);
    o.set_configs(u, f);
    return "ok";
  }
  if (op == "param" && n == 3 && w[2] == "invalid") {
    if (vh::to_u64(w[1]) != g_params.size()) throw BadOp();
    g_params.emplace_back(new Parameter());
    return "ok";
  }
  if (op == "param" && n == 4) {
    if (vh::to_u64(w[1]) != g_params.size()) throw BadOp();
    std::vector<std::uint32_t> dims = vh::csv_u32(w[2] == "-" ? std::string() : w[2]);
    std::vector<float> vals = nums(w[3]);
    std::uint64_t prod = 1;
    if (dims.size() > 8) throw BadOp();
    for (std::uint32_t d : dims) { if (d == 0) throw BadOp(); prod *= d; }
    if (prod != vals.size()) throw BadOp();
    g_params.emplace_back(new Parameter(Shape(dims), vals, *g_dev));
    return "ok";
  }
  if (op == "init" && n == 4) {
    // Parameter::init on an existing object (e.g. one that was invalid when add() was tried)
    Parameter &p = *g_params.at(idx(w[1], g_params.size()));
    std::vector<std::uint32_t> dims = vh::csv_u32(w[2] == "-" ? std::string() : w[2]);
    std::vector<float> vals = nums(w[3]);
    std::uint64_t prod = 1;
    if (dims.size() > 8) throw BadOp();
    for (std::uint32_t d : dims) { if (d == 0) throw BadOp(); prod *= d; }
    if (prod != vals.size()) throw BadOp();
    p.init(Shape(dims), vals, *g_dev);
    return "ok";
  }
  if (op == "grad" && n == 3) {
    Parameter &p = *g_params.at(idx(w[1], g_params.size()));
    std::vector<float> vals = nums(w[2]);
    p.gradient().reset_by_vector(vals);
    return "ok";
  }
  if (op == "lgrad" && n == 4) {
    Parameter &p = *g_params.at(idx(w[1], g_params.size()));
    std::vector<float> a = nums(w[2]), b = nums(w[3]);
    if (!p.valid()) return "err";
    if (a.size() != p.shape().size() || b.size() != a.size()) throw BadOp();
    Device &dev = p.device();
    Graph g;
    Graph::set_default(g);
    namespace F = functions;
    Node wn = F::parameter<Node>(p);
    Node an = F::input<Node>(p.shape(), a, dev);
    Node bn = F::input<Node>(p.shape(), b, dev);
    Node loss = F::sum(F::flatten(0.5f * an * wn * wn + bn * wn), 0);
    p.reset_gradient();
    loss.backward();
    return "ok";
  }
  if (op == "add" && n == 3) {
    Optimizer &o = *g_opts.at(idx(w[1], g_opts.size()));
    Parameter &p = *g_params.at(idx(w[2], g_params.size()));
    o.add(p);
    return "ok";
  }
  if (op == "addm" && n >= 2) {
    Optimizer &o = *g_opts.at(idx(w[1], g_opts.size()));
    Model m;
    for (std::size_t i = 2; i < n; ++i) {
      char name[16];
      std::snprintf(name, sizeof name, "a%04zu", i);
      m.add(name, *g_params.at(idx(w[i], g_params.size())));
    }
    o.add(m);
    return "ok";
  }
  // persistent models: a model that keeps growing after it was registered with an optimizer
  if (op == "model" && n == 2) {
    if (vh::to_u64(w[1]) != g_models.size()) throw BadOp();
    g_models.emplace_back(new Model());
    return "ok";
  }
  if (op == "madd" && n == 4) {
    g_models.at(idx(w[1], g_models.size()))->add(w[2], *g_params.at(idx(w[3], g_params.size())));
    return "ok";
  }
  if (op == "msub" && n == 4) {
    g_models.at(idx(w[1], g_models.size()))->add(w[2], *g_models.at(idx(w[3], g_models.size())));
    return "ok";
  }
  if (op == "oaddm" && n == 3) {
    g_opts.at(idx(w[1], g_opts.size()))->add(*g_models.at(idx(w[2], g_models.size())));
    return "ok";
  }
  if (op == "update" && n == 2) { g_opts.at(idx(w[1], g_opts.size()))->update(); return "ok"; }
  if (op == "reset" && n == 2) { g_opts.at(idx(w[1], g_opts.size()))->reset_gradients(); return "ok"; }
  if (op == "state" && n == 2) return state_of(*g_opts.at(idx(w[1], g_opts.size())));
  if (op == "pstate" && n >= 2) {
    const Parameter &p = *g_params.at(idx(w[1], g_params.size()));
    std::string s = "ok v=" + shows(p.value().to_vector()) + " g=" + shows(p.gradient().to_vector());
    std::vector<std::string> names(w.begin() + 2, w.end());
    std::sort(names.begin(), names.end());
    for (const std::string &nm : names) {
      if (p.has_stats(nm)) s += " s:" + nm + "=" + shows(p.stats(nm).to_vector());
    }
    return s;
  }
  if (op == "checkpoint" && n >= 3) {
    const Optimizer &o = *g_opts.at(idx(w[1], g_opts.size()));
    Tree t;
    Ckpt c;
    std::vector<Parameter *> sel;
    for (std::size_t i = 3; i < n; ++i) {
      std::vector<std::string> kv = vh::split(w[i], ':');
      if (kv.size() != 2) throw BadOp();
      sel.push_back(g_params.at(idx(kv[0], g_params.size())).get());
      c.paths.push_back(kv[1]);
    }
    for (Parameter *p : sel) if (!p->valid()) return "err";
    for (std::size_t i = 0; i < sel.size(); ++i) t.add(c.paths[i], *sel[i]);
    for (Parameter *p : sel) c.shapes.push_back(p->shape());
    const std::string base = tmpdir() + "/" + w[2];
    g_files.push_back(base + ".opt");
    g_files.push_back(base + ".model");
    o.save(base + ".opt");
    t.root.save(base + ".model", true);
    g_ckpts[w[2]] = c;
    return "ok";
  }
  if (op == "restore" && n >= 5) {
    auto it = g_ckpts.find(w[1]);
    if (it == g_ckpts.end()) throw BadOp();
    const Ckpt &c = it->second;
    if (vh::to_u64(w[2]) != g_opts.size()) throw BadOp();
    // "<device>+addfirst": the other common resume order — the fresh model is built with valid
    // (zero) parameters, registered with the fresh optimizer first (which creates zero
    // statistics), and only then loaded
    std::string devname = w[4];
    bool addfirst = false;
    if (devname.size() > 9 && devname.compare(devname.size() - 9, 9, "+addfirst") == 0) {
      addfirst = true;
      devname = devname.substr(0, devname.size() - 9);
    }
    Device &dev = device_of(devname);
    if (n - 5 != c.paths.size()) throw BadOp();
    for (std::size_t i = 5; i < n; ++i) if (vh::to_u64(w[i]) != g_params.size() + (i - 5)) throw BadOp();
    std::unique_ptr<Optimizer> o = make(w[3], {});
    // fresh objects exist from here on, whatever happens below
    const std::size_t first = g_params.size();
    for (std::size_t i = 0; i < c.paths.size(); ++i) {
      if (addfirst) g_params.emplace_back(new Parameter(c.shapes[i], std::vector<float>(c.shapes[i].size(), 0.0f), dev));
      else g_params.emplace_back(new Parameter());
    }
    g_opts.push_back(std::move(o));
    Optimizer &opt = *g_opts.back();
    Tree t;
    for (std::size_t i = 0; i < c.paths.size(); ++i) t.add(c.paths[i], *g_params[first + i]);
    const std::string base = tmpdir() + "/" + w[1];
    if (addfirst) {
      opt.add(t.root);
      t.root.load(base + ".model", true, dev);
      opt.load(base + ".opt");
      return "ok";
    }
    opt.load(base + ".opt");
    t.root.load(base + ".model", true, dev);
    opt.add(t.root);
    return "ok";
  }
  if (op == "same" && n >= 4) {
    const Parameter &p = *g_params.at(idx(w[1], g_params.size()));
    const Parameter &q = *g_params.at(idx(w[2], g_params.size()));
    if (w[3] != "bits" && w[3] != "near") throw BadOp();
    const bool exact = w[3] == "bits";
    if (!p.valid() || !q.valid()) return "err";
    std::string d = first_diff(exact, "value", p.value().to_vector(), q.value().to_vector());
    if (!d.empty()) return "ok differ " + d;
    std::vector<std::string> names(w.begin() + 4, w.end());
    std::sort(names.begin(), names.end());
    for (const std::string &nm : names) {
      if (p.has_stats(nm) != q.has_stats(nm)) return "ok differ stats:" + nm;
      if (!p.has_stats(nm)) continue;
      d = first_diff(exact, nm, p.stats(nm).to_vector(), q.stats(nm).to_vector());
      if (!d.empty()) return "ok differ " + d;
    }
    return "ok same";
  }
  if (op == "osame" && n == 3) {
    const std::string a = state_of(*g_opts.at(idx(w[1], g_opts.size())));
    const std::string b = state_of(*g_opts.at(idx(w[2], g_opts.size())));
    if (a == b) return "ok same";
    std::vector<std::string> wa = vh::words(a), wb = vh::words(b);
    for (std::size_t i = 0; i < wa.size(); ++i) {
      if (i >= wb.size() || wa[i] != wb[i]) return "ok differ " + vh::split(wa[i], '=')[0];
    }
    return "ok differ keys";
  }
  if (op == "resume" && n >= 14 && (n - 12) % 2 == 0) {
    // the statement of Resume.equiv on the real library: train m+n steps vs
    // train m | save | load into fresh objects | train n, same data
    std::size_t k = 0;
    for (; k < 6; ++k) if (w[1] == KINDS[k]) break;
    if (k == 6) throw BadOp();
    const std::uint64_t m = vh::to_u64(w[2]), cont = vh::to_u64(w[3]);
    if (m + cont > 64) throw BadOp();
    const std::vector<float> h = nums(w[4]);
    if (!h.empty() && h.size() != ARITY[k]) throw BadOp();
    const float lr = num(w[5]), l2 = num(w[6]), clip = num(w[7]);
    const std::uint32_t ep = unum(w[8]);
    const std::vector<float> as = nums(w[9]), bs = nums(w[10]);
    if (as.empty() || bs.empty()) throw BadOp();
    const std::string names = w[11] == "-" ? std::string() : w[11];
    std::string names_sp = names;
    std::replace(names_sp.begin(), names_sp.end(), ',', ' ');
    const std::size_t P = (n - 12) / 2;
    for (std::size_t i = 0; i < P; ++i) {
      std::uint64_t prod = 1;
      std::vector<std::uint32_t> dims = vh::csv_u32(w[12 + 2 * i] == "-" ? std::string() : w[12 + 2 * i]);
      if (dims.size() > 8) throw BadOp();
      for (std::uint32_t d : dims) { if (d == 0) throw BadOp(); prod *= d; }
      if (prod != nums(w[13 + 2 * i]).size()) throw BadOp();
    }
    g_opts.clear(); g_models.clear(); g_params.clear(); g_ckpts.clear();
    auto run = [&](const std::string &line) {
      const std::string r = exec(vh::words(line));
      if (r.compare(0, 2, "ok") != 0) throw Error(__FILE__, __LINE__, "resume: `" + line + "` -> " + r);
      return r;
    };
    std::string hs;
    for (float v : h) hs += " " + show(v);
    run("opt 0 " + w[1] + hs);
    g_opts[0]->set_learning_rate_scaling(lr);
    g_opts[0]->set_weight_decay(l2);
    g_opts[0]->set_gradient_clipping(clip);
    g_opts[0]->set_epoch(ep);
    std::string all, tree, fresh;
    for (std::size_t i = 0; i < P; ++i) {
      run("param " + std::to_string(i) + " " + w[12 + 2 * i] + " " + w[13 + 2 * i]);
      all += " " + std::to_string(i);
      tree += " " + std::to_string(i) + ":m" + std::to_string(i % 2) + ".p" + std::to_string(i);
      fresh += " " + std::to_string(P + i);
    }
    run("addm 0" + all);
    const std::string how = clip > 0 ? "near" : "bits";
    bool resumed = false;
    auto step = [&](std::size_t t, std::size_t base, const std::string &o) {
      for (std::size_t i = 0; i < P; ++i) {
        const std::size_t sz = g_params[base + i]->shape().size();
        run("lgrad " + std::to_string(base + i) + " " + shows(std::vector<float>(sz, as[t % as.size()])) + " " +
            shows(std::vector<float>(sz, bs[t % bs.size()])));
      }
      run("update " + o);
    };
    for (std::size_t t = 0; t <= m + cont; ++t) {
      if (t == m) {
        run("checkpoint 0 R" + tree);
        run("restore R 1 " + w[1] + " naive2" + fresh);
        resumed = true;
      }
      if (t == m + cont) break;
      step(t, 0, "0");
      if (resumed) step(t, P, "1");
    }
    std::string verdict = "ok same";
    for (std::size_t i = 0; i < P && verdict == "ok same"; ++i) {
      const std::string r = run("same " + std::to_string(i) + " " + std::to_string(P + i) + " " + how + " " + names_sp);
      if (r != "ok same") verdict = r;
    }
    if (verdict == "ok same") {
      const std::string r = run("osame 0 1");
      if (r != "ok same") verdict = r;
    }
    std::vector<std::string> nv = names.empty() ? std::vector<std::string>() : vh::split(names, ',');
    std::sort(nv.begin(), nv.end());
    for (std::size_t i = 0; i < P; ++i) {
      const Parameter &p = *g_params[i];
      verdict += " p" + std::to_string(i) + ":v=" + shows(p.value().to_vector());
      for (const std::string &nm : nv) {
        if (p.has_stats(nm)) verdict += " p" + std::to_string(i) + ":" + nm + "=" + shows(p.stats(nm).to_vector());
      }
    }
    verdict += " " + state_of(*g_opts[0]).substr(3);
    return verdict;
  }
  throw BadOp();
}

}  // namespace

int main() {
  Device::set_default(g_naive);
  int rc = vh::run_lines(exec);
  // objects before devices
  g_opts.clear();
  g_params.clear();
  return rc;
}
