// Harness of the `pool` family (stateful): primitiv::MemoryPool driven through
// its public interface with logging allocator/deleter functors.  The protocol
// is described in lean/PrimitivModel/Driver/PoolDrv.lean.
//
// The allocator hands out fake, pairwise distinct addresses (the pool never
// dereferences a block: it only stores the pointer, gives it to the client
// and to the deleter), so requests of 2^63 bytes cost nothing.  Addresses are
// printed as `ptr#n`, n = the order in which they were first handed out.
// "The allocator fails" = the functor throws (memory_pool.cc reacts to a
// failure only in `catch (...)`); the injected failure is a primitiv::Error,
// as the CUDA allocator's CUDA_CALL raises.
#include "common.h"
#include <new>
#include <stdexcept>
#include <algorithm>
#include <map>
#include <memory>
#include <set>
#include <primitiv/core/memory_pool.h>
#include <primitiv/core/numeric_utils.h>

using namespace primitiv;
using vh::BadOp;

namespace {

struct Call {
  char kind;            // 'A' or 'D'
  std::uint64_t size;   // A: requested size
  bool failed;          // A: the functor threw
  bool known;           // the address is one of ours
  std::uint64_t ord;    // ordinal of the address (raw value when !known)
};

const std::uintptr_t BASE = 0x100000;

struct Env {
  std::vector<Call> calls;          // since the previous line
  std::uint64_t fail = 0;           // allocator calls that still have to throw
  int fail_kind = 0;                // 0 primitiv::Error, 1 std::bad_alloc, 2 std::runtime_error
  bool reuse = true;
  std::set<std::uint64_t> freed;    // deleted addresses not handed out again
  std::uint64_t next = 0;           // next never-used ordinal

  void *allocate(std::size_t size) {
    if (fail > 0) {
      --fail;
      calls.push_back(Call{'A', size, true, true, 0});
      // what real allocators throw: primitiv::Error (the CPU devices), std::bad_alloc, or another
      // std::exception (cl::Error of the OpenCL backend); the pool's reaction must not depend on the type
      if (fail_kind == 1) throw std::bad_alloc();
      if (fail_kind == 2) throw std::runtime_error("injected allocation failure");
      PRIMITIV_THROW_ERROR("injected allocation failure");
    }
    std::uint64_t ord;
    if (reuse && !freed.empty()) {
      ord = *freed.rbegin();
      freed.erase(ord);
    } else {
      ord = next++;
    }
    calls.push_back(Call{'A', size, false, true, ord});
    return reinterpret_cast<void *>(BASE + 16 * (ord + 1));
  }

  void release(void *p) {
    const std::uintptr_t v = reinterpret_cast<std::uintptr_t>(p);
    if (v <= BASE || (v - BASE) % 16 != 0 || (v - BASE) / 16 - 1 >= next) {
      calls.push_back(Call{'D', 0, false, false, static_cast<std::uint64_t>(v)});
      return;
    }
    const std::uint64_t ord = (v - BASE) / 16 - 1;
    calls.push_back(Call{'D', 0, false, true, ord});
    freed.insert(ord);
  }

  std::string ptr_name(void *p) const {
    const std::uintptr_t v = reinterpret_cast<std::uintptr_t>(p);
    if (v <= BASE || (v - BASE) % 16 != 0 || (v - BASE) / 16 - 1 >= next) {
      return "unknown:" + std::to_string(static_cast<std::uint64_t>(v));
    }
    return "ptr#" + std::to_string((v - BASE) / 16 - 1);
  }

  // the calls since the previous line; `sorted`: destructor lines
  std::string take_log(bool sorted) {
    std::vector<Call> cs;
    cs.swap(calls);
    if (sorted) {
      std::stable_sort(cs.begin(), cs.end(), [](const Call &a, const Call &b) {
        const std::uint64_t ka = a.kind == 'D' ? a.ord : 0, kb = b.kind == 'D' ? b.ord : 0;
        return ka < kb;
      });
    }
    std::string s = "[";
    bool first = true;
    for (const Call &c : cs) {
      if (!first) s += "; ";
      first = false;
      if (c.kind == 'A') {
        s += "A " + std::to_string(c.size) + " -> " + (c.failed ? std::string("fail") : "ptr#" + std::to_string(c.ord));
      } else {
        s += c.known ? "D ptr#" + std::to_string(c.ord) : "D unknown:" + std::to_string(c.ord);
      }
    }
    return s + "]";
  }
};

std::uint64_t parse_u64(const std::string &s) {
  if (s.empty() || s.size() > 20) throw BadOp();
  unsigned __int128 v = 0;
  for (char c : s) {
    if (c < '0' || c > '9') throw BadOp();
    v = v * 10 + static_cast<unsigned>(c - '0');
  }
  if (v > static_cast<unsigned __int128>(0xffffffffffffffffull)) throw BadOp();
  return static_cast<std::uint64_t>(v);
}

struct State {
  Env env;
  // creation order is kept for `reset`
  std::vector<std::string> pool_order;
  std::map<std::string, std::unique_ptr<MemoryPool>> pools;
  std::map<std::string, std::shared_ptr<void>> handles;

  std::string exec(const std::vector<std::string> &w) {
    if (w.empty()) throw BadOp();
    const std::string &op = w[0];
    if (op == "pool" && (w.size() == 2 || w.size() == 3)) {
      const std::uint64_t min = w.size() == 3 ? parse_u64(w[2]) : 0;
      if (pools.count(w[1])) throw BadOp();
      Env *e = &env;
      std::unique_ptr<MemoryPool> p(new MemoryPool(
          [e](std::size_t size) -> void * { return e->allocate(size); },
          [e](void *ptr) -> void { e->release(ptr); },
          static_cast<std::size_t>(min)));
      const std::uint64_t id = p->id();
      pools[w[1]] = std::move(p);
      pool_order.push_back(w[1]);
      return "ok id=" + std::to_string(id);
    }
    if (op == "alloc" && w.size() == 4) {
      auto it = pools.find(w[1]);
      if (it == pools.end()) throw BadOp();
      const std::uint64_t size = parse_u64(w[3]);
      if (handles.count(w[2])) throw BadOp();
      MemoryPool &pool = *it->second;
      std::size_t as = 12345;
      std::shared_ptr<void> sp;
      const std::string tail = " id=" + std::to_string(pool.id());
      try {
        sp = pool.allocate(static_cast<std::size_t>(size), &as);
      } catch (const Error &) {
        return "err " + env.take_log(false) + " as=" + std::to_string(as) + tail;
      } catch (const std::exception &) {
        if (env.fail_kind == 0) throw;
        return "err " + env.take_log(false) + " as=" + std::to_string(as) + tail;   // the allocator's own exception, passed on
      }
      std::string h = "null";
      if (sp) {
        h = env.ptr_name(sp.get());
        handles[w[2]] = sp;
      }
      sp.reset();
      return "ok " + env.take_log(false) + " h=" + h + " as=" + std::to_string(as) + tail;
    }
    if (op == "drop" && w.size() == 2) {
      auto it = handles.find(w[1]);
      if (it == handles.end()) throw BadOp();
      handles.erase(it);  // last reference: Deleter::operator()
      return "ok " + env.take_log(false);
    }
    if (op == "destroy" && w.size() == 2) {
      auto it = pools.find(w[1]);
      if (it == pools.end()) throw BadOp();
      pools.erase(it);
      pool_order.erase(std::find(pool_order.begin(), pool_order.end(), w[1]));
      return "ok " + env.take_log(true);
    }
    if (op == "fail_kind" && w.size() == 2) {
      if (w[1] == "error") env.fail_kind = 0; else if (w[1] == "bad_alloc") env.fail_kind = 1;
      else if (w[1] == "runtime") env.fail_kind = 2; else throw BadOp();
      return "ok";
    }
    if (op == "fail_next" && w.size() == 2) {
      env.fail = parse_u64(w[1]);
      return "ok";
    }
    if (op == "reuse" && w.size() == 2 && (w[1] == "0" || w[1] == "1")) {
      env.reuse = w[1] == "1";
      return "ok";
    }
    if (op == "shifts" && w.size() == 2) {
      return "ok " + std::to_string(numeric_utils::calculate_shifts(parse_u64(w[1])));
    }
    if (op == "reset" && w.size() == 1) {
      handles.clear();
      for (const std::string &n : pool_order) pools.erase(n);
      pool_order.clear();
      const std::string log = env.take_log(true);
      env = Env();
      return "ok " + log;
    }
    throw BadOp();
  }
};

}  // namespace

int main() {
  State st;
  const int rc = vh::run_lines([&st](const std::vector<std::string> &w) { return st.exec(w); });
  // pools go first, so that the remaining handles outlive them
  st.pools.clear();
  st.handles.clear();
  return rc;
}
