// Harness of the `registry` family: real primitiv::Model / Parameter /
// Optimizer objects driven by a stateful line protocol.
//
//   reset nm np            destroy everything, then create models 0..nm-1 and valid parameters 0..np-1
//   model m                new Model; m must be the next free model id
//   param p v|i            new Parameter (v: valid scalar on a Naive device, i: default-constructed, invalid)
//   addp m name p          Model::add(name, Parameter &)
//   addm m name m2         Model::add(name, Model &)
//   all m | trainable m    get_all_parameters() / get_trainable_parameters() in std::map order
//   getp m name...         get_parameter(std::vector<std::string>{name...})   (the list may be empty)
//   getm m name...         get_submodel(std::vector<std::string>{name...})
//   opt o sgd|mom|rsgd|rmom  new optimizer.  sgd / mom: subclasses of primitiv::Optimizer defined here that
//                          configure like SGD (nothing) / MomentumSGD (has_stats + add_stats) and count the
//                          configure_parameter calls per Parameter; rsgd / rmom: the library's own classes
//   optaddp o p            Optimizer::add(Parameter &)
//   optaddm o m            Optimizer::add(Model &)
//   optparams o            the registered parameters (observed through update(), see RecOpt), for sgd / mom
//                          as id:number-of-configure_parameter-calls
//
// Names travel hex-encoded with an `x` prefix (`x` alone is the empty string).
// Objects are never destroyed in the middle of a history (only by `reset`),
// pointers are printed as the generator's ids.
#include "common.h"
#include <algorithm>
#include <map>
#include <memory>
#include <primitiv/core/model.h>
#include <primitiv/core/parameter.h>
#include <primitiv/core/optimizer.h>
#include <primitiv/core/optimizer_impl.h>
#include <primitiv/core/shape.h>
#include <primitiv/devices/naive/device.h>

using namespace primitiv;
using vh::BadOp;

namespace {

// The registered set `params_` is private; Optimizer::update() (with weight
// decay and clipping off, as constructed) does nothing but call
// update_parameter once per registered pointer, so overriding that hook
// observes the set through the public API without touching any parameter.
template <class Base>
struct RecOpt : public Base {
  std::vector<const Parameter *> seen;
  void update_parameter(float, Parameter &p) override { seen.push_back(&p); }
};

// Optimizer::add_inner is code of the base class; SGD::configure_parameter and
// MomentumSGD::configure_parameter are private, so a subclass of those cannot
// both count the calls and forward them.  This subclass of the base class does
// what the two do (optimizer_impl.cc:20, :38-43) and counts every call, whether
// it returns or throws.
struct CountOpt : public Optimizer {
  bool needs_stats;
  std::map<const Parameter *, unsigned> calls;
  std::vector<const Parameter *> seen;
  explicit CountOpt(bool ns) : needs_stats(ns) {}
  void configure_parameter(Parameter &param) override {
    ++calls[&param];
    if (!needs_stats) return;
    const std::string name = "MomentumSGD.m";
    if (!param.has_stats(name)) {
      param.add_stats(name, param.shape());
    }
  }
  void update_parameter(float, Parameter &p) override { seen.push_back(&p); }
};

struct OptBox {
  std::unique_ptr<Optimizer> opt;
  std::vector<const Parameter *> *seen;
  std::map<const Parameter *, unsigned> *calls;
};

devices::Naive *g_dev = nullptr;
std::vector<std::unique_ptr<Model>> g_models;
std::vector<std::unique_ptr<Parameter>> g_params;
std::vector<OptBox> g_opts;
std::map<const Parameter *, std::size_t> g_pid;
std::map<const Model *, std::size_t> g_mid;

int hexval(char c) {
  if (c >= '0' && c <= '9') return c - '0';
  if (c >= 'a' && c <= 'f') return c - 'a' + 10;
  throw BadOp();
}

std::string parse_name(const std::string &t) {
  if (t.empty() || t[0] != 'x' || t.size() % 2 != 1) throw BadOp();
  std::string s;
  for (std::size_t i = 1; i < t.size(); i += 2) {
    s.push_back(static_cast<char>(hexval(t[i]) * 16 + hexval(t[i + 1])));
  }
  return s;
}

std::string show_name(const std::string &s) {
  static const char *d = "0123456789abcdef";
  std::string r = "x";
  for (unsigned char c : s) { r.push_back(d[c >> 4]); r.push_back(d[c & 15]); }
  return r;
}

std::size_t idx(const std::string &t, std::size_t n) {
  std::uint64_t v = vh::to_u64(t);
  if (v >= n) throw BadOp();
  return static_cast<std::size_t>(v);
}

void new_model() {
  g_models.emplace_back(new Model());
  g_mid[g_models.back().get()] = g_models.size() - 1;
}

void new_param(bool valid) {
  if (valid) g_params.emplace_back(new Parameter(Shape({}), {0.f}, *g_dev));
  else g_params.emplace_back(new Parameter());
  g_pid[g_params.back().get()] = g_params.size() - 1;
}

std::string pid_of(const Parameter *p) {
  auto it = g_pid.find(p);
  return it == g_pid.end() ? std::string("unknown") : std::to_string(it->second);
}

std::string mid_of(const Model *m) {
  auto it = g_mid.find(m);
  return it == g_mid.end() ? std::string("unknown") : std::to_string(it->second);
}

std::string show_map(const std::map<std::vector<std::string>, Parameter *> &ps) {
  if (ps.empty()) return "ok -";
  std::string out = "ok ";
  bool first = true;
  for (const auto &kv : ps) {
    if (!first) out += ";";
    first = false;
    for (std::size_t i = 0; i < kv.first.size(); ++i) {
      if (i) out += ".";
      out += show_name(kv.first[i]);
    }
    out += "=" + pid_of(kv.second);
  }
  return out;
}

std::string exec(const std::vector<std::string> &w) {
  if (w.empty()) throw BadOp();
  const std::string &op = w[0];
  const std::size_t n = w.size();
  if (op == "reset" && n == 3) {
    std::uint64_t nm = vh::to_u64(w[1]), np = vh::to_u64(w[2]);
    if (nm > 64 || np > 64) throw BadOp();
    g_opts.clear(); g_models.clear(); g_params.clear(); g_pid.clear(); g_mid.clear();
    for (std::uint64_t i = 0; i < nm; ++i) new_model();
    for (std::uint64_t i = 0; i < np; ++i) new_param(true);
    return "ok";
  }
  if (op == "model" && n == 2) {
    if (vh::to_u64(w[1]) != g_models.size()) throw BadOp();
    new_model();
    return "ok";
  }
  if (op == "param" && n == 3) {
    if (vh::to_u64(w[1]) != g_params.size()) throw BadOp();
    if (w[2] != "v" && w[2] != "i") throw BadOp();
    new_param(w[2] == "v");
    return "ok";
  }
  if (op == "addp" && n == 4) {
    Model &m = *g_models[idx(w[1], g_models.size())];
    const std::string name = parse_name(w[2]);
    Parameter &p = *g_params[idx(w[3], g_params.size())];
    m.add(name, p);
    return "ok";
  }
  if (op == "addm" && n == 4) {
    Model &m = *g_models[idx(w[1], g_models.size())];
    const std::string name = parse_name(w[2]);
    Model &c = *g_models[idx(w[3], g_models.size())];
    m.add(name, c);
    return "ok";
  }
  if ((op == "all" || op == "trainable") && n == 2) {
    const Model &m = *g_models[idx(w[1], g_models.size())];
    return show_map(op == "all" ? m.get_all_parameters() : m.get_trainable_parameters());
  }
  if ((op == "getp" || op == "getm") && n >= 2) {
    Model &m = *g_models[idx(w[1], g_models.size())];
    const Model &cm = m;
    std::vector<std::string> names;
    for (std::size_t i = 2; i < n; ++i) names.push_back(parse_name(w[i]));
    if (op == "getp") {
      const Parameter *r = &cm.get_parameter(names);
      if (&m.get_parameter(names) != r) return "ok inconsistent";
      if (names.size() == 1) {
        // the single-name overloads must agree with the list overload
        if (&cm.get_parameter(names[0]) != r || &m.get_parameter(names[0]) != r) return "ok inconsistent";
      }
      return "ok " + pid_of(r);
    } else {
      const Model *r = &cm.get_submodel(names);
      if (&m.get_submodel(names) != r) return "ok inconsistent";
      if (names.size() == 1) {
        if (&cm.get_submodel(names[0]) != r || &m.get_submodel(names[0]) != r) return "ok inconsistent";
      }
      return "ok " + mid_of(r);
    }
  }
  if (op == "opt" && n == 3) {
    if (vh::to_u64(w[1]) != g_opts.size()) throw BadOp();
    OptBox b;
    b.calls = nullptr;
    if (w[2] == "rsgd") {
      auto *o = new RecOpt<optimizers::SGD>();
      b.opt.reset(o); b.seen = &o->seen;
    } else if (w[2] == "rmom") {
      auto *o = new RecOpt<optimizers::MomentumSGD>();
      b.opt.reset(o); b.seen = &o->seen;
    } else if (w[2] == "sgd" || w[2] == "mom") {
      auto *o = new CountOpt(w[2] == "mom");
      b.opt.reset(o); b.seen = &o->seen; b.calls = &o->calls;
    } else {
      throw BadOp();
    }
    g_opts.push_back(std::move(b));
    return "ok";
  }
  if (op == "optaddp" && n == 3) {
    Optimizer &o = *g_opts[idx(w[1], g_opts.size())].opt;
    Parameter &p = *g_params[idx(w[2], g_params.size())];
    o.add(p);
    return "ok";
  }
  if (op == "optaddm" && n == 3) {
    Optimizer &o = *g_opts[idx(w[1], g_opts.size())].opt;
    Model &m = *g_models[idx(w[2], g_models.size())];
    o.add(m);
    return "ok";
  }
  if (op == "optparams" && n == 2) {
    OptBox &b = g_opts[idx(w[1], g_opts.size())];
    b.seen->clear();
    b.opt->update();
    std::vector<std::pair<std::size_t, unsigned>> ids;
    for (const Parameter *p : *b.seen) {
      auto it = g_pid.find(p);
      if (it == g_pid.end()) return "ok unknown-pointer";
      unsigned n = 0;
      if (b.calls) {
        auto c = b.calls->find(p);
        if (c != b.calls->end()) n = c->second;
      }
      ids.push_back(std::make_pair(it->second, n));
    }
    std::sort(ids.begin(), ids.end());
    if (ids.empty()) return "ok -";
    std::string out = "ok ";
    for (std::size_t i = 0; i < ids.size(); ++i) {
      if (i) out += ",";
      out += std::to_string(ids[i].first);
      if (b.calls) out += ":" + std::to_string(ids[i].second);
    }
    return out;
  }
  throw BadOp();
}

}  // namespace

int main() {
  devices::Naive dev;
  g_dev = &dev;
  int rc = vh::run_lines(exec);
  g_opts.clear(); g_models.clear(); g_params.clear();
  return rc;
}
