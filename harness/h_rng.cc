// Harness of the `rng` family (property C17): random sources, dropout and
// initializers of the real library, together with a *replicated stream*:
// the harness owns a `std::mt19937(seed)` of its own and draws from it, with
// libstdc++ distribution objects at their standard parameters, the draws the
// device must have used for the same request ("raw draws"):
//   bernoulli / dropout       std::uniform_real_distribution<double>(0,1)
//   uniform / gumbel / init   std::uniform_real_distribution<float>(0,1)
//   normal / log_normal       std::normal_distribution<float>(0,1)   (fresh object per request)
// A request line without ` | raws` is answered with `<result> | <raws>` (phase
// 1, used to obtain the raws); a line carrying raws is answered with
// `<result>` after checking that the raws on the line are the ones of the
// replicated stream (`raw-mismatch` otherwise).  The Lean model recomputes the
// result from the raws.  Every request runs on two fresh devices built with the
// same seed; differing results are reported as `irreproducible`.
//
// Lines:
//   dev naive|eigen <seed>
//   [node_]bernoulli[@ref|@ptr|@def] <shape> <p>
//   [node_]uniform[...] <shape> <lower> <upper>
//   [node_]normal[...] <shape> <mean> <sd>
//   [node_]log_normal[...] <shape> <mean> <sd>
//   [node_]gumbel <shape> <mu> <beta>
//   [node_]dropout <shape> <rate> <0|1>
//   init|pinit <name> <args…> <shape>
//   stats <kind> <n> <a> <b>           (context only, never sent to the model)
// floats are 8 hex digits (bit pattern), doubles 16.
#include "common.h"
#include <cmath>
#include <cstring>
#include <memory>
#include <random>
#include <type_traits>
#include <utility>
#include <primitiv/primitiv.h>

using namespace primitiv;
namespace F = primitiv::functions;
using vh::BadOp;

static std::uint64_t parse_hex(const std::string &s, std::size_t digits) {
  if (s.size() != digits) throw BadOp();
  std::uint64_t v = 0;
  for (char c : s) {
    int d;
    if (c >= '0' && c <= '9') d = c - '0';
    else if (c >= 'a' && c <= 'f') d = c - 'a' + 10;
    else throw BadOp();
    v = v * 16 + d;
  }
  return v;
}
static float f_of(const std::string &s) {
  std::uint32_t b = static_cast<std::uint32_t>(parse_hex(s, 8));
  float f; std::memcpy(&f, &b, 4); return f;
}
static std::string hex32(float f) {
  std::uint32_t b; std::memcpy(&b, &f, 4);
  if (f != f) b = 0x7fc00000u;  // canonical NaN
  char buf[16]; std::snprintf(buf, sizeof buf, "%08x", b); return buf;
}
static std::string hex64(double d) {
  std::uint64_t b; std::memcpy(&b, &d, 8);
  if (d != d) b = 0x7ff8000000000000ull;
  char buf[24]; std::snprintf(buf, sizeof buf, "%016llx", static_cast<unsigned long long>(b)); return buf;
}
struct Out {
  std::string err;          // "" = ok, otherwise the result word
  std::string shape;
  std::vector<float> v;
  bool operator==(const Out &o) const {
    if (err != o.err || shape != o.shape || v.size() != o.v.size()) return false;
    return v.empty() || std::memcmp(v.data(), o.v.data(), 4 * v.size()) == 0;
  }
  std::string str() const {
    if (!err.empty()) return err;
    std::string s = "ok " + shape + " ";
    for (std::size_t i = 0; i < v.size(); ++i) { if (i) s += ","; s += hex32(v[i]); }
    return s;
  }
};

static Out of_tensor(const Tensor &t) {
  Out o; o.shape = t.shape().to_string(); o.v = t.to_vector(); return o;
}

enum Via { REF, PTR, DEF };
enum Raw { NONE, UD, UF, NF };  // standard uniform double / float, standard normal float

struct Ctx {
  bool have = false;
  std::unique_ptr<Device> A, B;
  std::mt19937 rep;
};
static Ctx ctx;

static std::vector<float> dropout_input(std::uint32_t n) {
  std::vector<float> x(n);
  for (std::uint32_t i = 0; i < n; ++i) x[i] = (static_cast<int>(i % 13) - 6) * 0.25f + 0.125f;
  return x;
}

// --- the random functions through the three overloads -----------------------
#define VIA3(FN, VAR, ...)                                                    \
  (via == REF ? F::random::FN<VAR>(__VA_ARGS__, D)                            \
   : via == PTR ? F::random::FN<VAR>(__VA_ARGS__, &D)                         \
                : F::random::FN<VAR>(__VA_ARGS__))

// `random::log_normal<Var>(shape, mean, sd, Device *)` and `random::log_normal<Var>(shape, mean, sd)`
// do not compile on a tree where the primary template is declared with `Device &`
// (the body of the default-device overload passes `nullptr`).  Detected here, so
// that the harness builds on both trees; the request is answered `err-nocompile`.
struct NoCompile {};
template <class Var, class = void> struct HasLnPtr : std::false_type {};
template <class Var>
struct HasLnPtr<Var, decltype(void(F::random::log_normal<Var>(
    std::declval<const Shape &>(), 0.f, 0.f, static_cast<Device *>(nullptr))))> : std::true_type {};
template <class Var>
static typename std::enable_if<HasLnPtr<Var>::value, Var>::type
ln_via(Via via, const Shape &s, float a, float b, Device &D) {
  if (via == PTR) return F::random::log_normal<Var>(s, a, b, &D);
  return F::random::log_normal<Var>(s, a, b);
}
template <class Var>
static typename std::enable_if<!HasLnPtr<Var>::value, Var>::type
ln_via(Via, const Shape &, float, float, Device &) { throw NoCompile(); }

template <class Var>
static Var call_random(const std::string &kind, Via via, const Shape &s, float a, float b, Device &D) {
  if (kind == "bernoulli") return VIA3(bernoulli, Var, s, a);
  if (kind == "uniform") return VIA3(uniform, Var, s, a, b);
  if (kind == "normal") return VIA3(normal, Var, s, a, b);
  if (kind == "gumbel") return VIA3(gumbel, Var, s, a, b);
  if (kind == "log_normal") {
    if (via == REF) return F::random::log_normal<Var>(s, a, b, D);
    return ln_via<Var>(via, s, a, b, D);
  }
  throw BadOp();
}

struct Req {
  std::string op;      // bernoulli uniform normal log_normal gumbel dropout init pinit
  bool node = false;
  Via via = REF;
  Shape shape;
  float a = 0, b = 0;
  bool enabled = false;
  std::string iname;
  std::vector<float> iargs;
};

static Out run_on(const Req &r, Device &D) {
  Device::set_default(D);
  Graph g;
  Graph::set_default(g);
  Out o;
  if (r.op == "init" || r.op == "pinit") {
    std::unique_ptr<Initializer> ini;
    const std::vector<float> &a = r.iargs;
    if (r.iname == "constant") ini.reset(new initializers::Constant(a[0]));
    else if (r.iname == "uniform") ini.reset(new initializers::Uniform(a[0], a[1]));
    else if (r.iname == "normal") ini.reset(new initializers::Normal(a[0], a[1]));
    else if (r.iname == "identity") ini.reset(new initializers::Identity());
    else if (r.iname == "xavier_uniform") ini.reset(new initializers::XavierUniform(a[0]));
    else if (r.iname == "xavier_normal") ini.reset(new initializers::XavierNormal(a[0]));
    else if (r.iname == "xavier_uniform_conv2d") ini.reset(new initializers::XavierUniformConv2D(a[0]));
    else if (r.iname == "xavier_normal_conv2d") ini.reset(new initializers::XavierNormalConv2D(a[0]));
    else throw BadOp();
    try {
      if (r.op == "init") {
        Tensor x = F::zeros<Tensor>(r.shape, D);
        ini->apply(x);
        o = of_tensor(x);
      } else if (r.shape.size() % 2 == 0) {
        Parameter p(r.shape, *ini, D);
        o = of_tensor(p.value());
      } else {
        // the other way to the same state: a parameter that already lives on ANOTHER device (same shape) is
        // re-initialised onto D — the values are drawn from D's generator and live on D
        static devices::Naive scratch;
        Parameter p(r.shape, initializers::Constant(0), scratch);
        p.init(r.shape, *ini, D);
        if (&p.device() != &D || &p.value().device() != &D || &p.gradient().device() != &D) o.err = "err-wrong-device";
        else o = of_tensor(p.value());
      }
    } catch (const Error &) { o.err = "err"; }
    return o;
  }
  if (r.op == "dropout") {
    std::vector<float> xs = dropout_input(r.shape.size());
    if (!r.node) {
      try {
        Tensor x = F::input<Tensor>(r.shape, xs, D);
        o = of_tensor(F::dropout(x, r.a, r.enabled));
      } catch (const Error &) { o.err = "err"; }
      return o;
    }
    Node y;
    try {
      Node x = F::input<Node>(r.shape, xs, D);
      y = F::dropout(x, r.a, r.enabled);
    } catch (const Error &) { o.err = "err@create"; return o; }
    try {
      o.v = y.to_vector(); o.shape = y.shape().to_string();
      if (!(Out{"", o.shape, y.to_vector()} == o)) o.err = "unstable";
    } catch (const Error &) { o.err = "err@eval"; }
    return o;
  }
  if (!r.node) {
    try { o = of_tensor(call_random<Tensor>(r.op, r.via, r.shape, r.a, r.b, D)); }
    catch (const Error &) { o.err = "err"; }
    catch (const NoCompile &) { o.err = "err-nocompile"; }
    return o;
  }
  Node y;
  try { y = call_random<Node>(r.op, r.via, r.shape, r.a, r.b, D); }
  catch (const Error &) { o.err = "err@create"; return o; }
  catch (const NoCompile &) { o.err = "err-nocompile"; return o; }
  try {
    o.v = y.to_vector(); o.shape = y.shape().to_string();
    // a second read of the same node must not draw again
    if (!(Out{"", o.shape, y.to_vector()} == o)) o.err = "unstable";
  } catch (const Error &) { o.err = "err@eval"; }
  return o;
}

static Raw raw_kind(const Req &r) {
  if (r.op == "bernoulli") return UD;
  if (r.op == "dropout") return (r.enabled && !(r.a == 1.)) ? UD : NONE;
  if (r.op == "uniform" || r.op == "gumbel") return UF;
  if (r.op == "normal" || r.op == "log_normal") return NF;
  if (r.iname == "uniform" || r.iname == "xavier_uniform" || r.iname == "xavier_uniform_conv2d") return UF;
  if (r.iname == "normal" || r.iname == "xavier_normal" || r.iname == "xavier_normal_conv2d") return NF;
  return NONE;
}

static std::vector<std::string> draw_raws(Raw k, std::size_t n) {
  std::vector<std::string> out;
  if (k == UD) { std::uniform_real_distribution<double> d(0., 1.); for (std::size_t i = 0; i < n; ++i) out.push_back(hex64(d(ctx.rep))); }
  if (k == UF) { std::uniform_real_distribution<float> d(0.f, 1.f); for (std::size_t i = 0; i < n; ++i) out.push_back(hex32(d(ctx.rep))); }
  if (k == NF) { std::normal_distribution<float> d(0.f, 1.f); for (std::size_t i = 0; i < n; ++i) out.push_back(hex32(d(ctx.rep))); }
  return out;
}

static std::string join(const std::vector<std::string> &v) {
  std::string s;
  for (std::size_t i = 0; i < v.size(); ++i) { if (i) s += ","; s += v[i]; }
  return s;
}

// context only: sample moments of the real device
static std::string stats(const std::vector<std::string> &w) {
  if (w.size() != 5 || !ctx.have) throw BadOp();
  const std::string &kind = w[1];
  std::uint32_t n = vh::to_u32(w[2]);
  float a = f_of(w[3]), b = f_of(w[4]);
  Req r; r.op = kind; r.shape = Shape({n}); r.a = a; r.b = b;
  Out o = run_on(r, *ctx.A);
  Out o2 = run_on(r, *ctx.B);
  draw_raws(raw_kind(r), o.err.empty() ? o.v.size() : 0);
  if (!o.err.empty()) return o.err;
  double s = 0, s2 = 0, mn = o.v[0], mx = o.v[0];
  for (float x : o.v) { s += x; s2 += double(x) * x; if (x < mn) mn = x; if (x > mx) mx = x; }
  double m = s / n, var = s2 / n - m * m;
  char buf[200];
  std::snprintf(buf, sizeof buf, "ok n=%u mean=%.6g var=%.6g min=%.9g max=%.9g repro=%d", n, m, var, mn, mx, int(o == o2));
  return buf;
}

static std::string exec(const std::vector<std::string> &w0) {
  if (w0.empty()) throw BadOp();
  // split off the raws
  std::vector<std::string> w;
  bool have_raws = false;
  std::string raws_in;
  for (std::size_t i = 0; i < w0.size(); ++i) {
    if (w0[i] == "|") {
      have_raws = true;
      if (i + 2 < w0.size()) throw BadOp();
      if (i + 1 < w0.size()) raws_in = w0[i + 1];
      break;
    }
    w.push_back(w0[i]);
  }
  if (w.empty()) throw BadOp();
  if (w[0] == "dev") {
    if (w.size() != 3 || have_raws) throw BadOp();
    std::uint32_t seed = vh::to_u32(w[2]);
    if (w[1] != "naive" && w[1] != "eigen") throw BadOp();
    // the second device first, so that a global stream would be noticed
    if (w[1] == "naive") { ctx.A.reset(new devices::Naive(seed)); ctx.B.reset(new devices::Naive(seed)); }
    else { ctx.A.reset(new devices::Eigen(seed)); ctx.B.reset(new devices::Eigen(seed)); }
    ctx.rep.seed(seed);
    ctx.have = true;
    return "ok";
  }
  if (w[0] == "stats") return stats(w);
  Req r;
  std::string op = w[0];
  if (op.compare(0, 5, "node_") == 0) { r.node = true; op = op.substr(5); }
  std::size_t at = op.find('@');
  if (at != std::string::npos) {
    std::string v = op.substr(at + 1);
    op = op.substr(0, at);
    if (v == "ref") r.via = REF; else if (v == "ptr") r.via = PTR; else if (v == "def") r.via = DEF; else throw BadOp();
    if (op == "dropout" || op == "init" || op == "pinit") throw BadOp();
  }
  r.op = op;
  std::string shape_tok;
  if (op == "bernoulli") {
    if (w.size() != 3) throw BadOp();
    shape_tok = w[1]; r.a = f_of(w[2]);
  } else if (op == "uniform" || op == "normal" || op == "log_normal" || op == "gumbel") {
    if (w.size() != 4) throw BadOp();
    shape_tok = w[1]; r.a = f_of(w[2]); r.b = f_of(w[3]);
  } else if (op == "dropout") {
    if (w.size() != 4 || (w[3] != "0" && w[3] != "1")) throw BadOp();
    shape_tok = w[1]; r.a = f_of(w[2]); r.enabled = w[3] == "1";
  } else if ((op == "init" || op == "pinit") && !r.node) {
    if (w.size() < 3) throw BadOp();
    r.iname = w[1];
    std::size_t nargs = (r.iname == "identity") ? 0 : (r.iname == "uniform" || r.iname == "normal") ? 2 : 1;
    if (r.iname != "identity" && r.iname != "uniform" && r.iname != "normal" && r.iname != "constant" &&
        r.iname != "xavier_uniform" && r.iname != "xavier_normal" && r.iname != "xavier_uniform_conv2d" &&
        r.iname != "xavier_normal_conv2d") throw BadOp();
    if (w.size() != 3 + nargs) throw BadOp();
    for (std::size_t i = 0; i < nargs; ++i) r.iargs.push_back(f_of(w[2 + i]));
    shape_tok = w[2 + nargs];
  } else {
    throw BadOp();
  }
  // syntax of the shape token (the Shape itself is built after the device check)
  if (shape_tok.compare(0, 2, "S:") != 0) throw BadOp();
  std::vector<std::string> sp = vh::split(shape_tok.substr(2), '/');
  if (sp.size() != 2) throw BadOp();
  std::vector<std::uint32_t> dims = vh::csv_u32(sp[0]);
  std::uint32_t batch = vh::to_u32(sp[1]);
  // check the syntax of the raws before anything runs
  std::vector<std::string> given;
  if (have_raws && !raws_in.empty()) {
    given = vh::split(raws_in, ',');
    for (const std::string &t : given) {
      if (t.size() != 8 && t.size() != 16) throw BadOp();
      parse_hex(t, t.size());
    }
  }
  if (!ctx.have) return "err-nodev";
  r.shape = Shape(dims, batch);   // an invalid shape throws primitiv::Error -> err
  Out a = run_on(r, *ctx.A);
  Out b = run_on(r, *ctx.B);
  if (!(a == b)) return "irreproducible " + a.str() + " / " + b.str();
  // a rejected request draws nothing
  std::vector<std::string> raws = draw_raws(a.err.empty() ? raw_kind(r) : NONE, a.err.empty() ? a.v.size() : 0);
  std::string res = a.str();
  if (a.err.empty() && r.op == "gumbel") {
    // the composite mu - beta*log(-log(u)), u ~ uniform(0, .9999999): checked here with a tolerance
    // (the two backends use different log kernels); the raws keep the stream in step
    std::size_t far = 0;
    for (std::size_t i = 0; i < a.v.size(); ++i) {
      float u = f_of(raws[i]);
      float x = (.9999999f - 0.f) * u + 0.f;
      if (!(x > 0.f)) continue;
      double want = double(r.a) - double(r.b) * std::log(-std::log(double(x)));
      double tol = 1e-4 * (std::fabs(double(r.a)) + std::fabs(double(r.b)) * (1 + std::fabs(std::log(-std::log(double(x))))));
      if (std::isfinite(want) && !(std::fabs(double(a.v[i]) - want) <= tol)) ++far;
    }
    res = "ok " + a.shape + (far ? " far" : " close");
  }
  if (have_raws) {
    if (given != raws) return "raw-mismatch";
    return res;
  }
  return res + " | " + join(raws);
}

int main() { return vh::run_lines(exec); }
