// Harness of the `shape` family: primitiv::Shape, shape_ops and the FWD_SHAPE
// bodies of Split / BatchSplit, called in-process.
#include "common.h"
#include <primitiv/core/shape.h>
#include <primitiv/core/shape_ops.h>
#include <primitiv/core/operator_impl.h>

using namespace primitiv;
using vh::BadOp;

static Shape parse_shape(const std::string &t) {
  if (t.size() < 2 || t[0] != 'S' || t[1] != ':') throw BadOp();
  std::vector<std::string> p = vh::split(t.substr(2), '/');
  if (p.size() != 2) throw BadOp();
  return Shape(vh::csv_u32(p[0]), vh::to_u32(p[1]));
}

// what every obtainable Shape must satisfy on its own: canonical form and cached products that are the products they name
static bool consistent(const Shape &s) {
  const std::uint32_t d = s.depth();
  if (d > Shape::MAX_DEPTH) return false;
  if (d > 0 && s[d - 1] == 1) return false;
  std::uint64_t v = 1;
  for (std::uint32_t i = 0; i < d; ++i) { if (s[i] == 0) return false; v *= s[i]; if (v > 0xffffffffull) return false; }
  for (std::uint32_t i = d; i < Shape::MAX_DEPTH + 2; ++i) if (s[i] != 1) return false;
  if (s.batch() == 0 || s.volume() != v || static_cast<std::uint64_t>(s.size()) != v * s.batch()) return false;
  if (v * s.batch() > 0xffffffffull) return false;
  std::uint64_t lv = 1;
  for (std::uint32_t i = 0; i <= d; ++i) { if (s.lower_volume(i) != lv) return false; if (i < d) lv *= s[i]; }
  return true;
}
static bool identical(const Shape &a, const Shape &b) {
  return a == b && !(a != b) && a.depth() == b.depth() && a.volume() == b.volume() && a.size() == b.size()
      && a.batch() == b.batch() && a.to_string() == b.to_string();
}
// copies and moves of a Shape: the destination is the source's value whatever it held before, and the
// moved-from object is still a Shape in its own right (it can be inspected and reused)
static bool copies_ok(const Shape &s) {
  Shape a(s);
  if (!identical(a, s)) return false;
  Shape b({7, 11, 1, 3}, 13);
  b = s;
  if (!identical(b, s) || !consistent(b)) return false;
  Shape src(s);
  Shape c({5, 2}, 3);
  c = std::move(src);
  if (!identical(c, s) || !consistent(c) || !consistent(src)) return false;
  Shape src2(s);
  Shape d(std::move(src2));
  if (!identical(d, s) || !consistent(d) || !consistent(src2)) return false;
  Shape e;
  e = std::move(c);
  return identical(e, s) && consistent(c);
}

static std::string show(const Shape &s) {
  if (!consistent(s) || !copies_ok(s)) return "ok inconsistent";
  std::ostringstream os;
  os << "ok " << s.to_string() << " v=" << s.volume() << " s=" << s.size();
  return os.str();
}
static std::string showb(bool b) { return b ? "ok true" : "ok false"; }
static std::string shown(std::uint32_t n) { return "ok " + std::to_string(n); }

static std::string exec(const std::vector<std::string> &w) {
  if (w.empty()) throw BadOp();
  const std::string &op = w[0];
  std::vector<Shape> ss;
  std::size_t i = 1;
  for (; i < w.size() && w[i].compare(0, 2, "S:") == 0; ++i) ss.push_back(parse_shape(w[i]));
  std::vector<std::uint32_t> ns;
  for (; i < w.size(); ++i) ns.push_back(vh::to_u32(w[i]));
  const std::size_t S = ss.size(), N = ns.size();
  if (op == "new" && S == 1 && N == 0) return show(ss[0]);
  if (op == "get" && S == 1 && N == 1) return shown(ss[0][ns[0]]);
  if (op == "lower" && S == 1 && N == 1) return shown(ss[0].lower_volume(ns[0]));
  if (op == "eq" && S == 2 && N == 0) {
    bool e = ss[0] == ss[1];
    if ((ss[0] != ss[1]) == e) return "ok inconsistent";
    return showb(e);
  }
  if (op == "same_dims" && S == 2 && N == 0) return showb(ss[0].has_same_dims(ss[1]));
  if (op == "loo" && S == 2 && N == 1) return showb(ss[0].has_same_loo_dims(ss[1], ns[0]));
  if (op == "resize_dim" && S == 1 && N == 2) {
    Shape u = ss[0];
    try { u.update_dim(ns[0], ns[1]); }
    catch (const Error &) { if (!identical(u, ss[0]) || !consistent(u)) return "ok inconsistent"; throw; }  // rejected: the object is untouched
    Shape r = ss[0].resize_dim(ns[0], ns[1]);
    if (!(r == u) || r.volume() != u.volume()) return "ok inconsistent";
    return show(r);
  }
  if (op == "resize_batch" && S == 1 && N == 1) {
    Shape u = ss[0];
    try { u.update_batch(ns[0]); }
    catch (const Error &) { if (!identical(u, ss[0]) || !consistent(u)) return "ok inconsistent"; throw; }
    Shape r = ss[0].resize_batch(ns[0]);
    if (!identical(r, u)) return "ok inconsistent";
    return show(r);
  }
  if (op == "reshape" && S == 2 && N == 0) return show(shape_ops::reshape(ss[0], ss[1]));
  if (op == "flatten" && S == 1 && N == 0) return show(shape_ops::flatten(ss[0]));
  if (op == "scalar_op" && S == 2 && N == 0) return show(shape_ops::scalar_op(ss[0], ss[1]));
  if (op == "elementwise" && S == 2 && N == 0) return show(shape_ops::elementwise(ss[0], ss[1]));
  if (op == "slice" && S == 1 && N == 3) return show(shape_ops::slice(ss[0], ns[0], ns[1], ns[2]));
  if (op == "concat" && N == 1) {
    // both overloads must agree
    std::vector<const Shape *> ptrs;
    for (const Shape &s : ss) ptrs.push_back(&s);
    std::string a, b;
    bool ea = false, eb = false;
    try { a = show(shape_ops::concat(ss, ns[0])); } catch (const Error &) { ea = true; }
    try { b = show(shape_ops::concat(ptrs, ns[0])); } catch (const Error &) { eb = true; }
    if (ea != eb || a != b) return "ok inconsistent";
    if (ea) return "err";
    return a;
  }
  if (op == "broadcast" && S == 1 && N == 2) return show(shape_ops::broadcast(ss[0], ns[0], ns[1]));
  if (op == "pick" && S == 1 && N >= 1) {
    std::vector<std::uint32_t> ids(ns.begin() + 1, ns.end());
    return show(shape_ops::pick(ss[0], ids, ns[0]));
  }
  if (op == "transpose" && S == 1 && N == 0) return show(shape_ops::transpose(ss[0]));
  if (op == "permute" && S == 1) return show(shape_ops::permute_dims(ss[0], ns));
  if (op == "matmul" && S == 2 && N == 0) return show(shape_ops::matmul(ss[0], ss[1]));
  if (op == "conv2d" && S == 2 && N == 6)
    return show(shape_ops::conv2d(ss[0], ss[1], ns[0], ns[1], ns[2], ns[3], ns[4], ns[5]));
  if (op == "pool2d" && S == 1 && N == 6)
    return show(shape_ops::pool2d(ss[0], ns[0], ns[1], ns[2], ns[3], ns[4], ns[5]));
  if (op == "batch_pick" && S == 1) return show(shape_ops::batch_pick(ss[0], ns));
  if (op == "batch_slice" && S == 1 && N == 2) return show(shape_ops::batch_slice(ss[0], ns[0], ns[1]));
  if (op == "batch_concat" && N == 0) {
    std::vector<const Shape *> ptrs;
    for (const Shape &s : ss) ptrs.push_back(&s);
    std::string a, b;
    bool ea = false, eb = false;
    try { a = show(shape_ops::batch_concat(ss)); } catch (const Error &) { ea = true; }
    try { b = show(shape_ops::batch_concat(ptrs)); } catch (const Error &) { eb = true; }
    if (ea != eb || a != b) return "ok inconsistent";
    if (ea) return "err";
    return a;
  }
  if (op == "split" && S == 1 && N == 2) {
    operators::Split o(ns[0], ns[1]);
    std::vector<const Shape *> args{&ss[0]};
    std::vector<Shape> rets(ns[1] > 64 ? 64 : ns[1]);
    std::vector<Shape *> rp;
    for (Shape &r : rets) rp.push_back(&r);
    if (ns[1] > 64) throw BadOp();
    o.forward_shape(args, rp);
    if (rets.empty()) return "ok none";
    for (const Shape &r : rets) if (!(r == rets[0])) return "ok inconsistent";
    return show(rets[0]);
  }
  if (op == "batch_split" && S == 1 && N == 1) {
    if (ns[0] > 64) throw BadOp();
    operators::BatchSplit o(ns[0]);
    std::vector<const Shape *> args{&ss[0]};
    std::vector<Shape> rets(ns[0]);
    std::vector<Shape *> rp;
    for (Shape &r : rets) rp.push_back(&r);
    o.forward_shape(args, rp);
    if (rets.empty()) return "ok none";
    for (const Shape &r : rets) if (!(r == rets[0])) return "ok inconsistent";
    return show(rets[0]);
  }
  if (op == "sce" && S == 2 && N == 1) {
    operators::SoftmaxCrossEntropy o(ns[0]);
    std::vector<const Shape *> args{&ss[0], &ss[1]};
    Shape r;
    std::vector<Shape *> rp{&r};
    o.forward_shape(args, rp);
    return show(r);
  }
  throw BadOp();
}

int main() { return vh::run_lines(exec); }
