// Harness of the `spin` family: the REAL primitiv/core/spinlock.h run under a
// deterministic cooperative scheduler through the PRIMITIV_VERIF_YIELD hook.
// Every worker is a real std::thread; it blocks on its own condition variable
// at every scheduling point (immediately before a shared-memory access of the
// lock).  `step t` releases exactly thread t, waits until it has reached its
// next scheduling point (or finished its program) and prints what was
// observed.  The mixins Identifiable / DefaultSettable are driven sequentially
// by the main thread.  Line protocol: see lean/PrimitivModel/Driver/SpinDrv.lean.
#include <atomic>
#include <chrono>
#include <condition_variable>
#include <cstdint>
#include <memory>
#include <mutex>
#include <thread>
#include <unistd.h>
#include "common.h"
#include <primitiv/core/mixins/nonmovable.h>
#include <primitiv/core/mixins/identifiable.h>
#include <primitiv/core/mixins/default_settable.h>
// The data members of the two lock classes are private; the harness reads
// them (only while every worker is parked) to print the shared state.
#define class struct
#include <primitiv/core/spinlock.h>
#undef class

#ifndef PRIMITIV_VERIF_YIELD
#error "primitiv/core/spinlock.h has no PRIMITIV_VERIF_YIELD hook (patches/hook-spinlock-yield.diff is not applied)"
#endif

using vh::BadOp;
namespace pv = primitiv::verif;

namespace {

enum OpKind { OP_LOCK, OP_TRY, OP_UNLOCK };
const int MAX_THREADS = 8;
const int MAX_ADDR = 64;
const int DONE = -1;

struct Abort {};

struct Worker {
  std::thread th;
  std::vector<OpKind> prog;
  std::condition_variable cv;
  bool go = false;        // main → worker: run to the next scheduling point
  bool parked = false;    // worker → main: blocked at `pending` (or finished)
  bool finished = false;
  int pending = DONE;     // tag of the access the worker performs next
  std::size_t op_index = 0;  // index of the operation being executed
  int depth = 0;          // occupancy monitor: acquisitions returned - unlocks returned
  std::string ret = "-";  // value returned by the call completed since the last release
  std::thread::id id;
};

std::mutex mu;
std::condition_variable main_cv;
bool aborting = false;
bool recursive = false;
int nthreads = 0;
std::unique_ptr<Worker> workers[MAX_THREADS];
std::unique_ptr<primitiv::Spinlock> spin;
std::unique_ptr<primitiv::RecursiveSpinlock> rspin;
thread_local Worker *self = nullptr;

// The installed hook: park until the scheduler releases this thread.
void hook(int tag) {
  Worker *w = self;
  if (!w) return;
  std::unique_lock<std::mutex> lk(mu);
  w->pending = tag;
  w->parked = true;
  main_cv.notify_all();
  w->cv.wait(lk, [w] { return w->go; });
  w->go = false;
  if (aborting) throw Abort();
}

void set_ret(Worker *w, const std::string &r) {
  std::lock_guard<std::mutex> lk(mu);
  w->ret = r;
}

void worker_main(Worker *w) {
  self = w;
  try {
    for (std::size_t i = 0; i < w->prog.size(); ++i) {
      w->op_index = i;
      const OpKind op = w->prog[i];
      if (recursive) {
        primitiv::RecursiveSpinlock &l = *rspin;
        if (op == OP_LOCK) { l.lock(); ++w->depth; set_ret(w, "void"); }
        else if (op == OP_TRY) { const bool r = l.try_lock(); if (r) ++w->depth; set_ret(w, r ? "true" : "false"); }
        else { l.unlock(); if (w->depth > 0) --w->depth; set_ret(w, "void"); }
      } else {
        primitiv::Spinlock &l = *spin;
        if (op == OP_LOCK) { l.lock(); ++w->depth; set_ret(w, "void"); }
        else if (op == OP_TRY) { const bool r = l.try_lock(); if (r) ++w->depth; set_ret(w, r ? "true" : "false"); }
        else if (w->depth > 0) { l.unlock(); --w->depth; set_ret(w, "void"); }
        // else: unlock() of a Spinlock this thread does not hold is a misuse; the client skips it
      }
    }
  } catch (const Abort &) {
  }
  std::lock_guard<std::mutex> lk(mu);
  w->pending = DONE;
  w->finished = true;
  w->parked = true;
  main_cv.notify_all();
}

[[noreturn]] void stuck(const char *why) {
  std::cout << "crash timeout" << "\n" << std::flush;
  std::fprintf(stderr, "h_spin: %s\n", why);
  std::_Exit(3);
}

// Waits until worker w is parked; the caller holds lk.
void wait_parked(std::unique_lock<std::mutex> &lk, Worker *w) {
  if (!main_cv.wait_for(lk, std::chrono::seconds(20), [w] { return w->parked; }))
    stuck("a released thread did not reach its next scheduling point within 20 s");
}

void teardown() {
  {
    std::unique_lock<std::mutex> lk(mu);
    aborting = true;
    for (int t = 0; t < nthreads; ++t) {
      Worker *w = workers[t].get();
      if (w && !w->finished) { w->parked = false; w->go = true; w->cv.notify_all(); }
    }
    for (int t = 0; t < nthreads; ++t) {
      Worker *w = workers[t].get();
      if (w) wait_parked(lk, w);
    }
  }
  for (int t = 0; t < nthreads; ++t) {
    if (workers[t]) { workers[t]->th.join(); workers[t].reset(); }
  }
  aborting = false;
  nthreads = 0;
  spin.reset();
  rspin.reset();
}

const char *tag_name(int tag, const Worker *w) {
  switch (tag) {
    case DONE: return "done";
    case pv::SPIN_FLAG:
      return (w && w->op_index < w->prog.size() && w->prog[w->op_index] == OP_UNLOCK) ? "clear" : "tas";
    case pv::RSPIN_TRY_TAS: return "tas";
    case pv::RSPIN_TRY_RD_OWNER: return "rd_owner";
    case pv::RSPIN_TRY_WR_OWNER: return "wr_owner";
    case pv::RSPIN_TRY_INC_COUNT: return "inc";
    case pv::RSPIN_UNL_RD_OWNER: return "rd_owner";
    case pv::RSPIN_UNL_DEC_COUNT: return "dec";
    case pv::RSPIN_UNL_WR_OWNER: return "wr_owner";
    case pv::RSPIN_UNL_CLEAR: return "clear";
  }
  return "unknown";
}

inline std::thread::id rd_owner(const std::thread::id &x) { return x; }
inline std::thread::id rd_owner(const std::atomic<std::thread::id> &x) { return x.load(std::memory_order_relaxed); }

template <class Flag>
int rd_flag(Flag &f) {
  // std::atomic_flag has no load in C++11; libstdc++ keeps the value in _M_i.
  return __atomic_load_n(&f._M_i, __ATOMIC_RELAXED) ? 1 : 0;
}

std::string pend_name(int t) {
  const Worker *w = workers[t].get();
  if (!w) return "done";
  return tag_name(w->pending, w);
}

// Shared state, occupancy and pending accesses; every worker is parked.
std::string state_text() {
  std::ostringstream os;
  if (recursive) {
    os << "flag=" << rd_flag(rspin->ready_);
    const std::thread::id o = rd_owner(rspin->locked_thread_id_);
    os << " owner=";
    if (o == std::thread::id()) os << "-";
    else {
      int found = -1;
      for (int t = 0; t < nthreads; ++t) if (workers[t] && workers[t]->id == o) found = t;
      if (found >= 0) os << found; else os << "?";
    }
    os << " count=" << rspin->lock_count_;
  } else {
    os << "flag=" << rd_flag(spin->ready_) << " owner=- count=0";
  }
  os << " holds=";
  bool any = false;
  for (int t = 0; t < nthreads; ++t) {
    if (workers[t] && workers[t]->depth > 0) { os << (any ? "," : "") << t; any = true; }
  }
  if (!any) os << "-";
  os << " pend=";
  for (int t = 0; t < nthreads; ++t) os << (t ? "," : "") << pend_name(t);
  os << " left=";
  for (int t = 0; t < nthreads; ++t) {
    const Worker *w = workers[t].get();
    const std::size_t left = (!w || w->finished) ? 0 : w->prog.size() - w->op_index - 1;
    os << (t ? "," : "") << left;
  }
  return os.str();
}

OpKind parse_op(const std::string &s) {
  if (s == "lock") return OP_LOCK;
  if (s == "try_lock") return OP_TRY;
  if (s == "unlock") return OP_UNLOCK;
  throw BadOp();
}

// ---- mixins -------------------------------------------------------------
struct IdObj : primitiv::mixins::Identifiable<IdObj> {};
struct DefObj : primitiv::mixins::DefaultSettable<DefObj> {};
std::unique_ptr<IdObj> id_objs[MAX_ADDR];
std::unique_ptr<DefObj> def_objs[MAX_ADDR];

std::string exec(const std::vector<std::string> &w) {
  if (w.empty()) throw BadOp();
  if (w[0] == "threads" && w.size() == 3) {
    const std::uint64_t k = vh::to_u64(w[1]);
    if (k == 0 || k > MAX_THREADS) throw BadOp();
    if (w[2] != "spin" && w[2] != "rspin") throw BadOp();
    teardown();
    recursive = w[2] == "rspin";
    nthreads = static_cast<int>(k);
    if (recursive) rspin.reset(new primitiv::RecursiveSpinlock());
    else spin.reset(new primitiv::Spinlock());
    return "ok";
  }
  if (w[0] == "prog" && w.size() >= 2) {
    const std::uint64_t t = vh::to_u64(w[1]);
    std::vector<OpKind> ops;
    for (std::size_t i = 2; i < w.size(); ++i) ops.push_back(parse_op(w[i]));
    if (nthreads == 0 || t >= static_cast<std::uint64_t>(nthreads) || workers[t]) throw BadOp();
    workers[t].reset(new Worker());
    Worker *wk = workers[t].get();
    wk->prog = ops;
    std::unique_lock<std::mutex> lk(mu);
    wk->th = std::thread(worker_main, wk);
    wk->id = wk->th.get_id();
    wait_parked(lk, wk);   // runs up to its first scheduling point
    return std::string("ok next=") + tag_name(wk->pending, wk);
  }
  if (w[0] == "step" && w.size() == 2) {
    const std::uint64_t t = vh::to_u64(w[1]);
    if (nthreads == 0 || t >= static_cast<std::uint64_t>(nthreads)) throw BadOp();
    Worker *wk = workers[t].get();
    std::string acc = "none", ret = "-";
    std::unique_lock<std::mutex> lk(mu);
    if (wk && !wk->finished) {
      acc = tag_name(wk->pending, wk);
      wk->ret = "-";
      wk->parked = false;
      wk->go = true;
      wk->cv.notify_all();
      wait_parked(lk, wk);
      ret = wk->ret;
    }
    return "ok " + acc + " ret=" + ret + " next=" + pend_name(static_cast<int>(t)) + " " + state_text();
  }
  if (w[0] == "deep" && w.size() == 2) {
    // Deep nesting on the real header, free running (no scheduling points are
    // taken: these threads are not workers of the scheduler).  Thread A nests n
    // deep and unlocks in three phases; the main thread is the other thread B.
    const std::uint64_t n = vh::to_u64(w[1]);
    if (n < 2 || n > 1000000) throw BadOp();
    primitiv::RecursiveSpinlock l;
    std::mutex m;
    std::condition_variable cv;
    int phase = 0;   // advanced alternately by A and by the main thread
    auto wait_phase = [&](int p) { std::unique_lock<std::mutex> lk(m); cv.wait(lk, [&] { return phase >= p; }); };
    auto set_phase = [&](int p) { std::lock_guard<std::mutex> lk(m); phase = p; cv.notify_all(); };
    std::thread a([&] {
      for (std::uint64_t i = 0; i < n; ++i) l.lock();
      l.unlock();
      set_phase(1); wait_phase(2);
      for (std::uint64_t i = 0; i + 2 < n; ++i) l.unlock();
      set_phase(3); wait_phase(4);
      l.unlock();
      set_phase(5);
    });
    std::ostringstream os;
    wait_phase(1);
    bool r = l.try_lock();
    os << "ok try1=" << (r ? "true" : "false") << " count1=" << l.lock_count_;
    if (r) l.unlock();
    set_phase(2); wait_phase(3);
    r = l.try_lock();
    os << " try2=" << (r ? "true" : "false") << " count2=" << l.lock_count_;
    if (r) l.unlock();
    set_phase(4); wait_phase(5);
    a.join();
    r = l.try_lock();
    os << " try3=" << (r ? "true" : "false");
    if (r) l.unlock();
    os << " flag=" << rd_flag(l.ready_) << " count3=" << l.lock_count_;
    return os.str();
  }
  if (w[0] == "ident" && w.size() == 3) {
    if (w[2].size() > 19) throw BadOp();
    const std::uint64_t x = vh::to_u64(w[2]);
    if (x >= 10000000000000000000ull) throw BadOp();
    if (w[1] == "new" && x < MAX_ADDR) {
      if (id_objs[x]) return "bad-op";
      id_objs[x].reset(new IdObj());
      return "ok " + std::to_string(id_objs[x]->id());
    }
    if (w[1] == "del" && x < MAX_ADDR) {
      if (!id_objs[x]) return "bad-op";
      id_objs[x].reset();
      return "ok";
    }
    if (w[1] == "get") {
      IdObj &o = IdObj::get_object(x);   // throws primitiv::Error → err
      for (int a = 0; a < MAX_ADDR; ++a) if (id_objs[a].get() == &o) return "ok " + std::to_string(a);
      return "ok dangling";
    }
    throw BadOp();
  }
  if (w[0] == "default" && w.size() == 2 && w[1] == "get") {
    DefObj &o = DefObj::get_default();   // throws primitiv::Error → err
    for (int a = 0; a < MAX_ADDR; ++a) if (def_objs[a].get() == &o) return "ok " + std::to_string(a);
    return "ok dangling";
  }
  if (w[0] == "default" && w.size() == 3) {
    const std::uint64_t x = vh::to_u64(w[2]);
    if (x >= MAX_ADDR) throw BadOp();
    if (w[1] == "new") {
      if (def_objs[x]) return "bad-op";
      def_objs[x].reset(new DefObj());
      return "ok";
    }
    if (w[1] == "set") {
      if (!def_objs[x]) return "bad-op";
      DefObj::set_default(*def_objs[x]);
      return "ok";
    }
    if (w[1] == "del") {
      if (!def_objs[x]) return "bad-op";
      def_objs[x].reset();
      return "ok";
    }
    throw BadOp();
  }
  throw BadOp();
}

}  // namespace

int main() {
  pv::yield_hook().store(&hook, std::memory_order_release);
  const int rc = vh::run_lines(exec);
  teardown();
  return rc;
}
