// Harness of the `spin` family, lines `xd …`: cross-thread lifetime of the
// default slot of the real primitiv::Device (devices::Naive) and
// primitiv::Graph.  Four persistent executor threads; every command runs on
// the named thread and the main thread waits for it (threads are sequenced,
// not concurrent: DefaultSettable is not synchronised by design).
//   xd dev|graph thr new a | set a | del a | get
#include <condition_variable>
#include <functional>
#include <memory>
#include <mutex>
#include <thread>
#include "common.h"
#include <primitiv/core/device.h>
#include <primitiv/core/graph.h>
#include <primitiv/devices/naive/device.h>

using vh::BadOp;

namespace {

const int NTHREADS = 4;
const int MAX_ADDR = 16;

struct Exec {
  std::thread th;
  std::mutex m;
  std::condition_variable cv;
  std::function<void()> job;
  bool has_job = false, done = false, quit = false;
  void loop() {
    std::unique_lock<std::mutex> lk(m);
    for (;;) {
      cv.wait(lk, [this] { return has_job || quit; });
      if (quit) return;
      job();
      has_job = false; done = true;
      cv.notify_all();
    }
  }
  void run(std::function<void()> f) {
    std::unique_lock<std::mutex> lk(m);
    job = f; has_job = true; done = false;
    cv.notify_all();
    cv.wait(lk, [this] { return done; });
  }
};
Exec execs[NTHREADS];

template <class Base, class Impl>
struct Slots {
  std::unique_ptr<Impl> objs[MAX_ADDR];
  // executed on an executor thread; exceptions are carried back as the result
  std::string cmd(const std::string &op, int a) {
    try {
      if (op == "new") { if (objs[a]) return "bad-op"; objs[a].reset(new Impl()); return "ok"; }
      if (op == "set") { if (!objs[a]) return "bad-op"; Base::set_default(*objs[a]); return "ok"; }
      if (op == "del") { if (!objs[a]) return "bad-op"; objs[a].reset(); return "ok"; }
      if (op == "get") {
        Base &o = Base::get_default();
        for (int i = 0; i < MAX_ADDR; ++i) if (static_cast<Base *>(objs[i].get()) == &o) return "ok " + std::to_string(i);
        return "ok dangling";
      }
    } catch (const primitiv::Error &) { return "err"; }
    return "bad-op";
  }
};
Slots<primitiv::Device, primitiv::devices::Naive> devs;
Slots<primitiv::Graph, primitiv::Graph> graphs;

std::string exec(const std::vector<std::string> &w) {
  if (w.size() < 4 || w[0] != "xd") throw BadOp();
  const bool dev = w[1] == "dev";
  if (!dev && w[1] != "graph") throw BadOp();
  const std::uint64_t t = vh::to_u64(w[2]);
  if (t >= NTHREADS) throw BadOp();
  const std::string op = w[3];
  int a = 0;
  if (op == "get") { if (w.size() != 4) throw BadOp(); }
  else if (op == "new" || op == "set" || op == "del") {
    if (w.size() != 5) throw BadOp();
    const std::uint64_t x = vh::to_u64(w[4]);
    if (x >= MAX_ADDR) throw BadOp();
    a = static_cast<int>(x);
  } else throw BadOp();
  std::string res;
  execs[t].run([&] { res = dev ? devs.cmd(op, a) : graphs.cmd(op, a); });
  return res;
}

}  // namespace

int main() {
  for (Exec &e : execs) e.th = std::thread([&e] { e.loop(); });
  const int rc = vh::run_lines(exec);
  // destroy the remaining objects on the main thread, then stop the executors
  for (int i = 0; i < MAX_ADDR; ++i) { devs.objs[i].reset(); graphs.objs[i].reset(); }
  for (Exec &e : execs) { { std::lock_guard<std::mutex> lk(e.m); e.quit = true; } e.cv.notify_all(); e.th.join(); }
  return rc;
}
