// Free-running ThreadSanitizer program of C19 (no scheduler, no hook installed):
// T threads x N iterations of nested lock/unlock, try_lock and non-owner unlock
// on a RecursiveSpinlock and lock/try_lock/unlock on a Spinlock, each lock
// protecting a plain counter (both the lock() and the try_lock() path of both
// classes); concurrently, creation / lookup / destruction of Identifiable
// objects: a local class and the real primitiv::MemoryPool (memory_pool.cc is
// compiled into this program), with ids checked for uniqueness and
// get_object(id) == this while alive, and an error after destruction.  The TSan report (exit code, "data race" on stderr) and
// the printed line are judged by props/C19.py.
//   usage: h_spin_tsan [iterations=20000] [threads=4]
#include <atomic>
#include <cstdint>
#include <cstdio>
#include <cstdlib>
#include <memory>
#include <algorithm>
#include <thread>
#include <vector>
#include <primitiv/core/error.h>
#include <primitiv/core/spinlock.h>
#include <primitiv/core/mixins/identifiable.h>
#include <primitiv/core/memory_pool.h>

namespace {

struct Obj : primitiv::mixins::Identifiable<Obj> {};

primitiv::Spinlock spin;
primitiv::RecursiveSpinlock rspin;
// plain (non-atomic) data protected by the locks
std::uint64_t spin_counter = 0;
std::uint64_t rspin_counter = 0;
std::atomic<std::uint64_t> expected_spin(0), expected_rspin(0), lookup_failures(0);
std::atomic<int> start_gate(0);

void *pool_alloc(std::size_t n) { return std::malloc(n); }
void pool_free(void *p) { std::free(p); }

void worker(int me, int iters, int nthreads, std::vector<std::uint64_t> *ids, std::vector<std::uint64_t> *pool_ids) {
  start_gate.fetch_add(1);
  while (start_gate.load() < nthreads) std::this_thread::yield();
  std::uint64_t my_spin = 0, my_rspin = 0;
  std::vector<Obj *> live;
  for (int i = 0; i < iters; ++i) {
    // recursive lock: nested acquisition, depth 1..3
    const int depth = 1 + (i + me) % 3;
    for (int d = 0; d < depth; ++d) rspin.lock();
    ++rspin_counter; ++my_rspin;
    for (int d = 0; d < depth; ++d) {
      if (d + 1 == depth) { ++rspin_counter; ++my_rspin; }  // still inside before the last unlock
      rspin.unlock();
    }
    // unlock() by a thread that does not hold the lock: no effect
    rspin.unlock();
    // try_lock: may fail while another thread owns the lock
    if (rspin.try_lock()) {
      if (rspin.try_lock()) { ++rspin_counter; ++my_rspin; rspin.unlock(); }
      rspin.unlock();
    }
    // plain spinlock
    spin.lock();
    ++spin_counter; ++my_spin;
    spin.unlock();
    if (spin.try_lock()) { ++spin_counter; ++my_spin; spin.unlock(); }
    // identifiable objects
    if (i % 4 == 0) {
      Obj *o = new Obj();
      ids->push_back(o->id());
      live.push_back(o);
      try {
        if (&Obj::get_object(o->id()) != o) lookup_failures.fetch_add(1);
      } catch (const primitiv::Error &) { lookup_failures.fetch_add(1); }
      // the real Identifiable user: MemoryPool (its deleter resolves the pool by id)
      if (i % 16 == 0) {
        primitiv::MemoryPool *mp = new primitiv::MemoryPool(pool_alloc, pool_free);
        const std::uint64_t pid = mp->id();
        pool_ids->push_back(pid);
        try {
          if (&primitiv::MemoryPool::get_object(pid) != mp) lookup_failures.fetch_add(1);
          std::shared_ptr<void> block = mp->allocate(64);
          block.reset();   // returns the block through MemoryPool::get_object(pid)
          std::shared_ptr<void> late = mp->allocate(32);
          delete mp;       // the pool goes first; releasing `late` must find no pool
          mp = nullptr;
          late.reset();
          try { primitiv::MemoryPool::get_object(pid); lookup_failures.fetch_add(1); } catch (const primitiv::Error &) {}
        } catch (const primitiv::Error &) { lookup_failures.fetch_add(1); }
        delete mp;
      }
      if (live.size() > 8) {
        const std::uint64_t dead = live.front()->id();
        delete live.front();
        live.erase(live.begin());
        try { Obj::get_object(dead); lookup_failures.fetch_add(1); } catch (const primitiv::Error &) {}
      }
    }
  }
  for (Obj *o : live) {
    try {
      if (&Obj::get_object(o->id()) != o) lookup_failures.fetch_add(1);
    } catch (const primitiv::Error &) { lookup_failures.fetch_add(1); }
    delete o;
  }
  expected_spin.fetch_add(my_spin);
  expected_rspin.fetch_add(my_rspin);
}

}  // namespace

int main(int argc, char **argv) {
  const int iters = argc > 1 ? std::atoi(argv[1]) : 20000;
  const int nthreads = argc > 2 ? std::atoi(argv[2]) : 4;
  std::vector<std::vector<std::uint64_t>> ids(nthreads), pool_ids(nthreads);
  std::vector<std::thread> ths;
  for (int t = 0; t < nthreads; ++t) ths.emplace_back(worker, t, iters, nthreads, &ids[t], &pool_ids[t]);
  for (std::thread &t : ths) t.join();
  std::vector<std::uint64_t> all;
  for (const auto &v : ids) all.insert(all.end(), v.begin(), v.end());
  std::sort(all.begin(), all.end());
  std::vector<std::uint64_t> pall;
  for (const auto &v : pool_ids) pall.insert(pall.end(), v.begin(), v.end());
  std::sort(pall.begin(), pall.end());
  const bool unique = std::adjacent_find(all.begin(), all.end()) == all.end()
      && std::adjacent_find(pall.begin(), pall.end()) == pall.end();
  const bool ok = spin_counter == expected_spin.load() && rspin_counter == expected_rspin.load()
      && unique && lookup_failures.load() == 0;
  std::printf("%s spin=%llu/%llu rspin=%llu/%llu ids=%zu pools=%zu unique=%d lookup_failures=%llu\n", ok ? "ok" : "FAIL",
              (unsigned long long)spin_counter, (unsigned long long)expected_spin.load(),
              (unsigned long long)rspin_counter, (unsigned long long)expected_rspin.load(),
              all.size(), pall.size(), unique ? 1 : 0, (unsigned long long)lookup_failures.load());
  return ok ? 0 : 1;
}
