// State-snapshot oracle for rejected calls (property C10, implementation leg):
// Parameters and Optimizers are driven through valid and invalid calls; before
// and after every call the complete observable state of every object is
// snapshotted (shape, raw bits of value / gradient / every statistic with its
// name, optimizer settings).  A call that raises an exception must leave every
// snapshot identical.  No model is involved: the answer line itself says
// whether the state changed.
//
//   param p <dims csv> <ints csv>     new valid Parameter
//   pnone p                            default-constructed (invalid) Parameter
//   stats p <name> <dims csv>          add_stats
//   init p <dims csv>/<batch> <ints>   Parameter::init(shape, values, device)
//   initc p <dims csv>/<batch> <k>     Parameter::init(shape, Constant(k), device)
//   load p <missing|garbage|truncated> Parameter::load of a bad file
//   loadhex p <hex bytes>              Parameter::load of a file with exactly these bytes
//   grad p <ints csv>                  overwrite the gradient (size must match)
//   opt o <sgd|momentum|adagrad|rmsprop|adadelta|adam>
//   add o p                            Optimizer::add
//   update o                           Optimizer::update
//   set o <lr_scale|decay|clip> <float> setter (negative values are rejected)
//   setcfg o <key> <float>             set_configs with one float key (unknown keys are rejected)
// answers:  ok | err unchanged | err CHANGED <what> | exc unchanged | exc CHANGED <what>  (exc = an exception that is not a primitiv::Error)
#include "common.h"
#include <cstring>
#include <fstream>
#include <map>
#include <memory>
#include <set>
#include <unordered_map>
#include <unordered_set>
#include <unistd.h>
#include <primitiv/core/device.h>
#include <primitiv/core/tensor.h>
#include <primitiv/core/shape.h>
#include <primitiv/core/initializer.h>
#include <primitiv/core/model.h>
#include <primitiv/msgpack/reader.h>
#include <primitiv/msgpack/writer.h>
#define private public
#define protected public
#include <primitiv/core/parameter.h>
#include <primitiv/core/optimizer.h>
#undef private
#undef protected
#include <primitiv/core/initializer_impl.h>
#include <primitiv/core/optimizer_impl.h>
#include <primitiv/devices/naive/device.h>
#include <primitiv/devices/eigen/device.h>

using namespace primitiv;
using vh::BadOp;

static std::unique_ptr<Device> g_dev;
static std::map<int, std::unique_ptr<Parameter>> params;
static std::map<int, std::unique_ptr<Optimizer>> opts;
static std::string g_tmp;

static std::string bits(const Tensor &t) {
  if (!t.valid()) return "invalid";
  std::ostringstream os;
  os << t.shape().to_string() << ":";
  for (float f : t.to_vector()) { std::uint32_t b; std::memcpy(&b, &f, 4); os << std::hex << b << ","; }
  return os.str();
}

static std::string snapshot() {
  std::ostringstream os;
  for (auto &kv : params) {
    Parameter &p = *kv.second;
    os << "P" << kv.first << "{";
    if (!p.valid()) { os << "invalid}"; continue; }
    os << p.shape().to_string() << " v=" << bits(p.value()) << " g=" << bits(p.gradient()) << " s=";
    std::map<std::string, std::string> st;
    for (auto &s : p.stats_) st[s.first] = bits(s.second);
    for (auto &s : st) os << s.first << "=" << s.second << ";";
    os << "}";
  }
  for (auto &kv : opts) {
    Optimizer &o = *kv.second;
    std::unordered_map<std::string, std::uint32_t> u;
    std::unordered_map<std::string, float> f;
    o.get_configs(u, f);
    std::map<std::string, std::uint32_t> us(u.begin(), u.end());
    std::map<std::string, float> fs(f.begin(), f.end());
    os << "O" << kv.first << "{";
    for (auto &x : us) os << x.first << "=" << x.second << ";";
    for (auto &x : fs) { std::uint32_t b; std::memcpy(&b, &x.second, 4); os << x.first << "=" << std::hex << b << std::dec << ";"; }
    std::vector<int> reg;
    for (auto &pk : params) if (o.params_.count(pk.second.get())) reg.push_back(pk.first);
    os << " params=";
    for (int r : reg) os << r << ",";
    os << "}";
  }
  return os.str();
}

static Shape parse_shape(const std::string &t) {
  std::vector<std::string> p = vh::split(t, '/');
  return Shape(vh::csv_u32(p[0]), p.size() > 1 ? vh::to_u32(p[1]) : 1);
}
static std::vector<float> floats(const std::string &t) {
  std::vector<float> v;
  if (!t.empty() && t != "-") for (const std::string &x : vh::split(t, ',')) v.push_back(static_cast<float>(vh::to_i64(x)));
  return v;
}
static Parameter &P(const std::string &t) {
  int k = static_cast<int>(vh::to_u32(t));
  if (!params.count(k)) throw BadOp();
  return *params[k];
}
static Optimizer &O(const std::string &t) {
  int k = static_cast<int>(vh::to_u32(t));
  if (!opts.count(k)) throw BadOp();
  return *opts[k];
}

static void action(const std::vector<std::string> &w) {
  const std::string &op = w[0];
  if (op == "stats" && w.size() == 4) { P(w[1]).add_stats(w[2], parse_shape(w[3])); return; }
  if (op == "init" && w.size() == 4) { P(w[1]).init(parse_shape(w[2]), floats(w[3]), *g_dev); return; }
  if (op == "initc" && w.size() == 4) { P(w[1]).init(parse_shape(w[2]), initializers::Constant(static_cast<float>(vh::to_i64(w[3]))), *g_dev); return; }
  // re-initialisation with an Initializer that can itself reject the shape after the tensors exist
  // (Identity: not a square matrix; Xavier*: depth > 2; *Conv2D: depth > 4)
  if (op == "initi" && w.size() == 3) { P(w[1]).init(parse_shape(w[2]), initializers::Identity(), *g_dev); return; }
  if (op == "initx" && w.size() == 3) { P(w[1]).init(parse_shape(w[2]), initializers::XavierUniform(), *g_dev); return; }
  if (op == "initn" && w.size() == 3) { P(w[1]).init(parse_shape(w[2]), initializers::XavierNormal(), *g_dev); return; }
  if (op == "initv" && w.size() == 3) { P(w[1]).init(parse_shape(w[2]), initializers::XavierUniformConv2D(), *g_dev); return; }
  if (op == "load" && w.size() == 3) {
    std::string path = g_tmp + "/" + w[2];
    if (w[2] == "garbage") { std::ofstream f(path, std::ios::binary); f << "this is not a parameter file"; }
    if (w[2] == "truncated") {
      Parameter q(Shape({2, 2}), {1, 2, 3, 4}, *g_dev);
      q.save(path + ".full", true);
      std::ifstream in(path + ".full", std::ios::binary);
      std::string data((std::istreambuf_iterator<char>(in)), std::istreambuf_iterator<char>());
      std::ofstream f(path, std::ios::binary);
      f << data.substr(0, data.size() - 5);
    }
    P(w[1]).load(path, true, *g_dev);
    return;
  }
  if (op == "loadhex" && w.size() == 3) {
    // bytes given as hex are written to a file and loaded with statistics
    std::string path = g_tmp + "/hex.bin";
    {
      std::ofstream f(path, std::ios::binary);
      const std::string &h = w[2];
      for (std::size_t i = 0; i + 1 < h.size(); i += 2) f.put(static_cast<char>(std::strtoul(h.substr(i, 2).c_str(), nullptr, 16)));
    }
    P(w[1]).load(path, true, *g_dev);
    return;
  }
  if (op == "grad" && w.size() == 3) { P(w[1]).gradient().reset_by_vector(floats(w[2])); return; }
  if (op == "add" && w.size() == 3) { O(w[1]).add(P(w[2])); return; }
  if (op == "update" && w.size() == 2) { O(w[1]).update(); return; }
  if (op == "set" && w.size() == 4) {
    float v = std::strtof(w[3].c_str(), nullptr);
    if (w[2] == "lr_scale") O(w[1]).set_learning_rate_scaling(v);
    else if (w[2] == "decay") O(w[1]).set_weight_decay(v);
    else if (w[2] == "clip") O(w[1]).set_gradient_clipping(v);
    else throw BadOp();
    return;
  }
  if (op == "setcfg" && w.size() == 4) {
    std::unordered_map<std::string, std::uint32_t> u;
    std::unordered_map<std::string, float> f;
    O(w[1]).get_configs(u, f);
    f.clear();
    f[w[2]] = std::strtof(w[3].c_str(), nullptr);
    O(w[1]).set_configs(u, f);
    return;
  }
  throw BadOp();
}

static std::string exec(const std::vector<std::string> &w) {
  if (w.empty()) throw BadOp();
  const std::string &op = w[0];
  if (op == "param" && w.size() == 4) {
    int k = static_cast<int>(vh::to_u32(w[1]));
    params[k].reset(new Parameter(Shape(vh::csv_u32(w[2])), floats(w[3]), *g_dev));
    return "ok";
  }
  if (op == "pnone" && w.size() == 2) { params[static_cast<int>(vh::to_u32(w[1]))].reset(new Parameter()); return "ok"; }
  if (op == "opt" && w.size() == 3) {
    int k = static_cast<int>(vh::to_u32(w[1]));
    const std::string &kind = w[2];
    if (kind == "sgd") opts[k].reset(new optimizers::SGD());
    else if (kind == "momentum") opts[k].reset(new optimizers::MomentumSGD());
    else if (kind == "adagrad") opts[k].reset(new optimizers::AdaGrad());
    else if (kind == "rmsprop") opts[k].reset(new optimizers::RMSProp());
    else if (kind == "adadelta") opts[k].reset(new optimizers::AdaDelta());
    else if (kind == "adam") opts[k].reset(new optimizers::Adam());
    else throw BadOp();
    return "ok";
  }
  const std::string before = snapshot();
  try {
    action(w);
    return "ok";
  } catch (const BadOp &) {
    throw;
  } catch (const Error &) {
    const std::string after = snapshot();
    if (after == before) return "err unchanged";
    return "err CHANGED before=" + before + " after=" + after;
  } catch (const std::exception &) {
    // e.g. std::out_of_range from Parameter::stats(name): the repository's own tests
    // expect that type, so only "the state is unchanged" is demanded here
    const std::string after = snapshot();
    if (after == before) return "exc unchanged";
    return "exc CHANGED before=" + before + " after=" + after;
  }
}

int main(int argc, char **argv) {
  if (argc > 1 && std::string(argv[1]) == "eigen") g_dev.reset(new devices::Eigen());
  else g_dev.reset(new devices::Naive());
  char tmpl[] = "/tmp/verif_state_XXXXXX";
  g_tmp = mkdtemp(tmpl);
  int rc = vh::run_lines(exec);
  opts.clear();
  params.clear();
  std::string cmd = "rm -rf " + g_tmp;
  if (std::system(cmd.c_str())) {}
  return rc;
}
