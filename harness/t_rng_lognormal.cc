// Compile test of property C17 (not a harness; compiled with -fsyntax-only by props/C17.py):
// every documented overload of functions::random::log_normal must be usable, like the
// other random functions (explicit Device &, Device *, default device).
#include <primitiv/primitiv.h>
using namespace primitiv;
namespace F = primitiv::functions;
Tensor verif_ln_default(const Shape &s, float m, float sd) { return F::random::log_normal<Tensor>(s, m, sd); }
Tensor verif_ln_ptr(const Shape &s, float m, float sd, Device *d) { return F::random::log_normal<Tensor>(s, m, sd, d); }
Tensor verif_ln_ref(const Shape &s, float m, float sd, Device &d) { return F::random::log_normal<Tensor>(s, m, sd, d); }
Node verif_ln_node_default(const Shape &s, float m, float sd) { return F::random::log_normal<Node>(s, m, sd); }
Node verif_ln_node_ptr(const Shape &s, float m, float sd, Device *d) { return F::random::log_normal<Node>(s, m, sd, d); }
