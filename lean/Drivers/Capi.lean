import PrimitivModel.Driver.CapiDrv
def main : IO Unit := Primitiv.Drv.CapiDrv.main
