-- stub: replaced by the family's driver
def main : IO Unit := IO.println "family cow: no driver yet"
