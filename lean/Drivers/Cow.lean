import PrimitivModel.Driver.CowDrv
def main : IO Unit := Primitiv.Drv.CowDrv.main
