import PrimitivModel.Driver.FilesDrv
def main : IO Unit := Primitiv.Drv.FilesDrv.main
