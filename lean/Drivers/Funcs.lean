import PrimitivModel.Driver.FuncsDrv
def main : IO Unit := Primitiv.Drv.FuncsDrv.main
