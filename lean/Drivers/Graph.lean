import PrimitivModel.Driver.GraphDrv
def main : IO Unit := Primitiv.Drv.GraphDrv.main
