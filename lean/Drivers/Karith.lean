import PrimitivModel.Driver.KarithDrv
def main : IO Unit := Primitiv.Drv.KarithDrv.main
