import PrimitivModel.Driver.KernelsDrv
def main : IO Unit := Primitiv.Drv.KernelsDrv.main
