import PrimitivModel.Driver.MsgpackDrv
def main : IO Unit := Primitiv.Drv.MsgpackDrv.main
