def main : IO Unit := IO.println "no driver yet"
