import PrimitivModel.Driver.OptimDrv
def main : IO Unit := Primitiv.Drv.OptimDrv.main
