import PrimitivModel.Driver.PoolDrv
def main : IO Unit := Primitiv.Drv.PoolDrv.main
