import PrimitivModel.Driver.RegistryDrv
def main : IO Unit := Primitiv.Drv.RegistryDrv.main
