import PrimitivModel.Driver.RngDrv
def main : IO Unit := Primitiv.Drv.RngDrv.main
