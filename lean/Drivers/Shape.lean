import PrimitivModel.Driver.ShapeDrv
def main : IO Unit := Primitiv.Drv.ShapeDrv.main
