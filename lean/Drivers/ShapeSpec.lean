import PrimitivModel.Driver.ShapeSpecDrv
def main : IO Unit := Primitiv.Drv.ShapeSpecDrv.main
