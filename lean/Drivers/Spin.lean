import PrimitivModel.Driver.SpinDrv
def main : IO Unit := Primitiv.Drv.SpinDrv.main
