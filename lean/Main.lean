import PrimitivModel.Driver.ShapeDrv
import PrimitivModel.Driver.ShapeSpecDrv
/-! Model driver: `drv <family>` reads operation lines on stdin. -/
open Primitiv.Drv

def main (args : List String) : IO UInt32 := do
  match args with
  | ["shape"] => ShapeDrv.main; return 0
  | ["shapespec"] => ShapeSpecDrv.main; return 0
  | _ => IO.eprintln "usage: drv <family>"; return 2
