import Mathlib.Analysis.SpecialFunctions.ExpDeriv
import Mathlib.Analysis.SpecialFunctions.Log.Deriv
import Mathlib.Analysis.SpecialFunctions.Sqrt
import Mathlib.Analysis.SpecialFunctions.Pow.Deriv
import Mathlib.Analysis.SpecialFunctions.Trigonometric.Deriv
import Mathlib.Analysis.SpecialFunctions.Trigonometric.DerivHyp
import Mathlib.Analysis.SpecialFunctions.Trigonometric.ArctanDeriv
import Mathlib.Analysis.Calculus.Deriv.Abs
import Mathlib.Analysis.Calculus.Deriv.ZPow
import PrimitivModel.Gen.Elementwise
/-
The scalar functions of the elementwise kernels over ℝ and their derivatives
(DESIGN C01/T3).  `realFns` is the interpretation of the abstract interface
`Fns` of the generated formulas over ℝ; every lemma `hasDerivAt_*` says that the
expression a backward formula multiplies `gy` with is the derivative of the
forward function on its smooth domain.  The lemmas are written from calculus:
nothing here mentions a backward kernel.
-/
namespace Primitiv.Analysis
open Real Primitiv.Gen.Elementwise

/-- the library's sigmoid: `.5 + .5 * tanh(.5 * x)` -/
noncomputable def sigmoidT (x : ℝ) : ℝ := 1 / 2 + 1 / 2 * Real.tanh (1 / 2 * x)

/-- `log (1 + e^x)` -/
noncomputable def softplus (x : ℝ) : ℝ := Real.log (1 + Real.exp x)

/-- `Eigen::sign` / `(x > 0) - (x < 0)` -/
noncomputable def sgn (x : ℝ) : ℝ := if 0 < x then 1 else if x < 0 then -1 else 0

/-- interpretation of the scalar interface over ℝ (`pow` is `Real.rpow`: it agrees with
`std::pow` for a positive base, the domain on which the pow kernels are differentiated) -/
noncomputable def realFns : Fns ℝ where
  lit m e := (m : ℝ) / (10 : ℝ) ^ e
  exp := Real.exp
  log := Real.log
  tanh := Real.tanh
  sqrt := Real.sqrt
  sin := Real.sin
  cos := Real.cos
  tan := Real.tan
  abs x := |x|
  sign := sgn
  pow a b := a ^ b
  unsupported _ := 0

@[simp] theorem lit_zero : realFns.lit 0 0 = 0 := by simp [realFns]
@[simp] theorem lit_one : realFns.lit 1 0 = 1 := by simp [realFns]
@[simp] theorem lit_half : realFns.lit 5 1 = 1 / 2 := by norm_num [realFns]
@[simp] theorem fns_exp : realFns.exp = Real.exp := rfl
@[simp] theorem fns_log : realFns.log = Real.log := rfl
@[simp] theorem fns_tanh : realFns.tanh = Real.tanh := rfl
@[simp] theorem fns_sqrt : realFns.sqrt = Real.sqrt := rfl
@[simp] theorem fns_sin : realFns.sin = Real.sin := rfl
@[simp] theorem fns_cos : realFns.cos = Real.cos := rfl
@[simp] theorem fns_tan : realFns.tan = Real.tan := rfl
@[simp] theorem fns_abs (x : ℝ) : realFns.abs x = |x| := rfl
@[simp] theorem fns_sign : realFns.sign = sgn := rfl
@[simp] theorem fns_pow (a b : ℝ) : realFns.pow a b = a ^ b := rfl

/-! ### tanh, sigmoid, softplus -/

theorem hasDerivAt_tanh (x : ℝ) : HasDerivAt Real.tanh (1 - Real.tanh x ^ 2) x := by
  have hc : Real.cosh x ≠ 0 := (Real.cosh_pos x).ne'
  have h := (Real.hasDerivAt_sinh x).div (Real.hasDerivAt_cosh x) hc
  have h' : HasDerivAt Real.tanh ((Real.cosh x * Real.cosh x - Real.sinh x * Real.sinh x) / Real.cosh x ^ 2) x := by
    have hfun : Real.tanh = Real.sinh / Real.cosh := by
      funext y; simp [Real.tanh_eq_sinh_div_cosh]
    rw [hfun]; exact h
  refine h'.congr_deriv ?_
  rw [Real.tanh_eq_sinh_div_cosh]
  field_simp

theorem hasDerivAt_sigmoidT (x : ℝ) : HasDerivAt sigmoidT (sigmoidT x * (1 - sigmoidT x)) x := by
  have h1 : HasDerivAt (fun y : ℝ => 1 / 2 * y) (1 / 2) x := by
    simpa using (hasDerivAt_id x).const_mul (1 / 2 : ℝ)
  have h2 := (hasDerivAt_tanh (1 / 2 * x)).comp x h1
  have h3 := (h2.const_mul (1 / 2 : ℝ)).const_add (1 / 2 : ℝ)
  unfold sigmoidT
  refine h3.congr_deriv ?_
  ring

/-- `tanh(x/2)` in terms of `e^x` -/
theorem tanh_half (x : ℝ) : Real.tanh (1 / 2 * x) = (Real.exp x - 1) / (Real.exp x + 1) := by
  have hu : 0 < Real.exp (1 / 2 * x) := Real.exp_pos _
  have hx : Real.exp x = Real.exp (1 / 2 * x) * Real.exp (1 / 2 * x) := by
    rw [← Real.exp_add]; congr 1; ring
  rw [Real.tanh_eq_sinh_div_cosh, Real.sinh_eq, Real.cosh_eq, Real.exp_neg, hx]
  have h1 : Real.exp (1 / 2 * x) * Real.exp (1 / 2 * x) + 1 ≠ 0 := by positivity
  field_simp

/-- the library's tanh form of the logistic function is the logistic function -/
theorem sigmoidT_eq (x : ℝ) : sigmoidT x = Real.exp x / (1 + Real.exp x) := by
  unfold sigmoidT
  rw [tanh_half]
  have h1 : Real.exp x + 1 ≠ 0 := by positivity
  have h2 : 1 + Real.exp x ≠ 0 := by positivity
  field_simp
  ring

theorem sigmoidT_eq_inv (x : ℝ) : sigmoidT x = 1 / (1 + Real.exp (-x)) := by
  rw [sigmoidT_eq, Real.exp_neg]
  have h : 0 < Real.exp x := Real.exp_pos x
  field_simp
  ring

theorem hasDerivAt_softplus (x : ℝ) : HasDerivAt softplus (sigmoidT x) x := by
  have hpos : 1 + Real.exp x ≠ 0 := by positivity
  have h := ((Real.hasDerivAt_exp x).const_add 1).log hpos
  unfold softplus
  refine h.congr_deriv ?_
  rw [sigmoidT_eq]

/-- the branch the kernels take for `x > 0` -/
theorem softplus_pos_branch (x : ℝ) : x + Real.log (1 + Real.exp (-x)) = softplus x := by
  unfold softplus
  have hx : 0 < Real.exp x := Real.exp_pos x
  have h1 : (1 + Real.exp (-x)) = (1 + Real.exp x) / Real.exp x := by
    rw [Real.exp_neg]; field_simp; ring
  rw [h1, Real.log_div (by positivity) hx.ne', Real.log_exp]
  ring

/-! ### exp, log, sqrt, sin, cos, tan -/

theorem hasDerivAt_exp' (x : ℝ) : HasDerivAt Real.exp (Real.exp x) x := Real.hasDerivAt_exp x

theorem hasDerivAt_log' {x : ℝ} (hx : x ≠ 0) : HasDerivAt Real.log (1 / x) x := by
  simpa using Real.hasDerivAt_log hx

theorem hasDerivAt_sqrt' {x : ℝ} (hx : 0 < x) : HasDerivAt Real.sqrt (1 / 2 / Real.sqrt x) x := by
  refine (Real.hasDerivAt_sqrt hx.ne').congr_deriv ?_
  have : Real.sqrt x ≠ 0 := (Real.sqrt_pos.mpr hx).ne'
  field_simp

theorem hasDerivAt_sin' (x : ℝ) : HasDerivAt Real.sin (Real.cos x) x := Real.hasDerivAt_sin x
theorem hasDerivAt_cos' (x : ℝ) : HasDerivAt Real.cos (-Real.sin x) x := Real.hasDerivAt_cos x

theorem hasDerivAt_tan' {x : ℝ} (hx : Real.cos x ≠ 0) : HasDerivAt Real.tan (1 + Real.tan x ^ 2) x := by
  refine (Real.hasDerivAt_tan hx).congr_deriv ?_
  rw [Real.tan_eq_sin_div_cos]
  have h := Real.sin_sq_add_cos_sq x
  field_simp
  linarith

/-! ### powers and quotients -/

/-- `x ↦ x^k`, x > 0: derivative `k · y / x` -/
theorem hasDerivAt_rpow_const' {x : ℝ} (k : ℝ) (hx : 0 < x) :
    HasDerivAt (fun x => x ^ k) (k * x ^ k / x) x := by
  refine (Real.hasDerivAt_rpow_const (Or.inl hx.ne')).congr_deriv ?_
  rw [Real.rpow_sub_one hx.ne']
  ring

/-- `x ↦ k^x`, k > 0: derivative `log k · y` -/
theorem hasDerivAt_const_rpow' {k : ℝ} (hk : 0 < k) (x : ℝ) :
    HasDerivAt (fun x => k ^ x) (Real.log k * k ^ x) x := by
  refine (Real.hasStrictDerivAt_const_rpow hk x).hasDerivAt.congr_deriv ?_
  ring

/-- `x ↦ k / x`, x ≠ 0: derivative `−y / x` -/
theorem hasDerivAt_const_div {x : ℝ} (k : ℝ) (hx : x ≠ 0) :
    HasDerivAt (fun x => k / x) (-(k / x) / x) x := by
  have h := (hasDerivAt_const x k).div (hasDerivAt_id x) hx
  refine h.congr_deriv ?_
  simp only [id]
  field_simp
  ring

/-- `x ↦ x / k`: derivative `1 / k` -/
theorem hasDerivAt_div_const' (x k : ℝ) : HasDerivAt (fun x => x / k) (1 / k) x := by
  simpa using (hasDerivAt_id x).div_const k

/-- `x ↦ x^n`, integer n, x ≠ 0: derivative `n · y / x` -/
theorem hasDerivAt_zpow' {x : ℝ} (n : ℤ) (hx : x ≠ 0) :
    HasDerivAt (fun x => x ^ n) ((n : ℝ) * x ^ n / x) x := by
  refine (hasDerivAt_zpow n x (Or.inl hx)).congr_deriv ?_
  rw [zpow_sub_one₀ hx]
  field_simp

/-- `x ↦ x^n`, natural n: derivative `n · x^(n-1)` at EVERY x (zero included) -/
theorem hasDerivAt_npow (n : ℕ) (x : ℝ) : HasDerivAt (fun x => x ^ n) ((n : ℝ) * x ^ (n - 1)) x := by
  simpa using hasDerivAt_pow n x

/-! ### |x|, prelu, elu (x ≠ 0) -/

theorem hasDerivAt_abs' {x : ℝ} (hx : x ≠ 0) : HasDerivAt (fun x => |x|) (sgn x) x := by
  unfold sgn
  rcases hx.lt_or_gt with h | h
  · have : ¬ (0 < x) := not_lt.mpr h.le
    simpa [this, h] using hasDerivAt_abs_neg h
  · simpa [h] using hasDerivAt_abs_pos h

/-- prelu: `x` for x > 0, `k·x` otherwise -/
noncomputable def prelu (k x : ℝ) : ℝ := if x > 0 then x else k * x

theorem hasDerivAt_prelu {x : ℝ} (k : ℝ) (hx : x ≠ 0) :
    HasDerivAt (prelu k) (if x > 0 then 1 else k) x := by
  rcases hx.lt_or_gt with h | h
  · have hn : ¬ (x > 0) := not_lt.mpr h.le
    rw [if_neg hn]
    have hd : HasDerivAt (fun y : ℝ => k * y) k x := by simpa using (hasDerivAt_id x).const_mul k
    refine hd.congr_of_eventuallyEq ?_
    filter_upwards [Iio_mem_nhds h] with y hy
    have : ¬ (y > 0) := not_lt.mpr (le_of_lt hy)
    simp [prelu, this]
  · rw [if_pos h]
    refine (hasDerivAt_id x).congr_of_eventuallyEq ?_
    filter_upwards [Ioi_mem_nhds h] with y hy
    have : y > 0 := hy
    simp [prelu, this]

/-- elu: `x` for x > 0, `k·(e^x − 1)` otherwise -/
noncomputable def elu (k x : ℝ) : ℝ := if x > 0 then x else k * (Real.exp x - 1)

theorem hasDerivAt_elu {x : ℝ} (k : ℝ) (hx : x ≠ 0) :
    HasDerivAt (elu k) (if x > 0 then 1 else elu k x + k) x := by
  rcases hx.lt_or_gt with h | h
  · have hn : ¬ (x > 0) := not_lt.mpr h.le
    rw [if_neg hn]
    have hd : HasDerivAt (fun y : ℝ => k * (Real.exp y - 1)) (k * Real.exp x) x := by
      simpa using ((Real.hasDerivAt_exp x).sub_const 1).const_mul k
    have hv : elu k x + k = k * Real.exp x := by simp [elu, hn]; ring
    rw [hv]
    refine hd.congr_of_eventuallyEq ?_
    filter_upwards [Iio_mem_nhds h] with y hy
    have : ¬ (y > 0) := not_lt.mpr (le_of_lt hy)
    simp [elu, this]
  · rw [if_pos h]
    refine (hasDerivAt_id x).congr_of_eventuallyEq ?_
    filter_upwards [Ioi_mem_nhds h] with y hy
    have : y > 0 := hy
    simp [elu, this]

/-! ### partial derivatives of a / b and a ^ b -/

theorem hasDerivAt_div_left (a b : ℝ) : HasDerivAt (fun a => a / b) (1 / b) a :=
  hasDerivAt_div_const' a b

/-- ∂/∂b (a / b) = −(a / b) / b -/
theorem hasDerivAt_div_right {b : ℝ} (a : ℝ) (hb : b ≠ 0) : HasDerivAt (fun b => a / b) (-(a / b) / b) b :=
  hasDerivAt_const_div a hb

/-- ∂/∂a a^b = b · a^b / a  (a > 0) -/
theorem hasDerivAt_rpow_left {a : ℝ} (b : ℝ) (ha : 0 < a) : HasDerivAt (fun a => a ^ b) (b * a ^ b / a) a :=
  hasDerivAt_rpow_const' b ha

/-- ∂/∂b a^b = log a · a^b  (a > 0) -/
theorem hasDerivAt_rpow_right {a : ℝ} (ha : 0 < a) (b : ℝ) : HasDerivAt (fun b => a ^ b) (Real.log a * a ^ b) b :=
  hasDerivAt_const_rpow' ha b

end Primitiv.Analysis
