import PrimitivModel.Model.CApi
import PrimitivModel.Gen.CApi
import PrimitivModel.Driver.Util
/-
Driver of the `capi` family: what the generated table (Gen/CApi.lean) and the
models of Model/CApi.lean say about one operation line.

  call <fn> <p1,p2,…|->     argument pattern per parameter: v valid, N NULL, E array with a NULL
                             element, z zero, m all-ones (by-value).  Answer: `err null <arg>` when a
                             null check fires first, `crash` when NULL is dereferenced first,
                             `err cpp` for std::string(nullptr), otherwise `pass` (the table does not
                             determine the outcome: the C++ API decides; the harness prints `ok` or
                             `err cpp` there)
  eq <fn> …                  C result vs C++ result on the same inputs: the property demands `ok same`
  sizeq0 <fn> [T:<tensor> <dim>]   `pass` (the harness reports the length of the source)
  sizeq <fn> <len> <cap|null> [T:<tensor> <dim>]  the size-query helper of <fn> on a source of <len> cells and a
                             buffer of <cap> cells (the optional tail names the object the harness queries)
  st reset | st getmsg | st fail <kind> | st succ <kind>   status machine of the calling thread
  threads <kind>,<kind>,…    one thread per kind, each fails in its own way and reads its message back
-/
namespace Primitiv.Drv.CapiDrv
open Primitiv Primitiv.Drv Primitiv.CApi Primitiv.Gen.CApi

def findWrapper (n : String) : Option Wrapper := table.find? (fun w => w.name == n)

def parsePat (w : Wrapper) (s : String) : Option (List ArgPat) :=
  let toks := if s = "-" then [] else s.splitOn ","
  if toks.length ≠ w.params.length then none else
  (toks.zip w.params).mapM fun (t, p) =>
    let isArr := p.role == .inHandleArray || p.role == .inStringArray
    if p.ptrDepth = 0 then
      (if t = "v" || (t = "m" && p.role != .count) then some ArgPat.valid
       else if t = "z" then some ArgPat.zero else none)
    else
      (if t = "v" then some ArgPat.valid else if t = "N" then some ArgPat.null
       else if t = "E" && isArr then some ArgPat.nullElem else none)

def showPred : Pred → String
  | .pass => "pass"
  | .errNull x => s!"err null {x}"
  | .errOther => "err cpp"
  | .crash => "crash"

/-- label of the message a wrapper leaves behind -/
def predLabel : Pred → Option String
  | .errNull x => some s!"null:{x}"
  | _ => none

/-- the failing calls the harness knows how to make, and the label of the message they leave -/
def failKinds : List (String × String) :=
  [("nshape", "null:shape"), ("nretval", "null:retval"), ("ntensor", "null:tensor"), ("nnode", "null:node"),
   ("ngraph", "null:graph"), ("nparameter", "null:parameter"), ("nmodel", "null:model"),
   ("noptimizer", "null:optimizer"), ("nnewobj", "null:newobj"), ("nsize", "null:size"),
   ("updim", "cpp:updim"), ("reshape", "cpp:reshape"), ("tofloat", "cpp:tofloat"), ("invalid", "cpp:invalid"),
   ("slice", "cpp:slice"), ("matmul", "cpp:matmul"), ("nofile", "cpp:nofile"), ("stats", "cpp:stats")]

def succKinds : List String := ["shape", "tensor", "dims", "volume", "node", "optimizer", "string"]

structure DS where
  st : CStatus.St
  /-- false after a call whose outcome the table does not determine -/
  known : Bool
deriving Inhabited

def init : DS := ⟨CStatus.init handlerSpec, true⟩

def showRes : CStatus.Res → String
  | .ok => "ok"
  | .error => "err"
  | .message m => s!"ok msg {m}"

def doOp (s : DS) (op : CStatus.Op) : DS × String :=
  let (st', r) := CStatus.step handlerSpec s.st op
  match op, s.known with
  | .getMessage, false => (s, "pass")
  | .reset, _ => (⟨st', true⟩, showRes r)
  | .call (some _), _ => (⟨st', true⟩, showRes r)
  | _, k => (⟨st', k⟩, showRes r)

def sentinel : Nat := 999

def stepLine (s : DS) (line : String) : DS × String :=
  match words line with
  | ["call", fn, pat] =>
    match findWrapper fn with
    | none => (s, "bad-op")
    | some w =>
      match parsePat w pat with
      | none => (s, "bad-op")
      | some p =>
        let r := w.predict p
        match predLabel r with
        | some l => ((doOp s (.call (some l))).1, showPred r)
        | none => (⟨s.st, false⟩, showPred r)
  | "eq" :: fn :: _ =>
    match findWrapper fn with
    | none => (s, "bad-op")
    | some _ => (⟨s.st, false⟩, "ok same")
  | "sizeq0" :: fn :: extra =>
    if extra.length ≠ 0 && extra.length ≠ 2 then (s, "bad-op") else
    match findWrapper fn with
    | none => (s, "bad-op")
    | some w => if w.helper = "copy_vector_to_array" || w.helper = "copy_string_to_array" then (⟨s.st, false⟩, "pass") else (s, "bad-op")
  | "sizeq" :: fn :: len :: cap :: extra =>
    if extra.length ≠ 0 && extra.length ≠ 2 then (s, "bad-op") else
    match findWrapper fn, len.toNat? with
    | some w, some n =>
      match helperSpecs.find? (fun h => h.name == w.helper), w.helper == "move_vector_to_array_of_c_ptrs" with
      | some h, false =>
        let src := List.range n
        let term := [0]
        if cap = "null" then
          match sizeQuery h src term none 0 with
          | .ok _ sz => (⟨s.st, false⟩, s!"ok size={sz} written=0")
          | _ => (s, "crash")
        else match cap.toNat? with
          | none => (s, "bad-op")
          | some c =>
            match sizeQuery h src term (some (List.replicate c sentinel)) c with
            | .ok (some b) sz =>
              (⟨s.st, false⟩, s!"ok size={sz} written={(b.takeWhile (· ≠ sentinel)).length}")
            | .ok none sz => (⟨s.st, false⟩, s!"ok size={sz} written=0")
            | .err (some b) sz => (⟨s.st, false⟩, s!"err size={sz} written={(b.takeWhile (· ≠ sentinel)).length}")
            | .err none sz => (⟨s.st, false⟩, s!"err size={sz} written=0")
            | .overflow => (s, "crash")
      | _, _ => (s, "bad-op")
    | _, _ => (s, "bad-op")
  | ["st", "reset"] => doOp s .reset
  | ["st", "getmsg"] => doOp s .getMessage
  | ["st", "fail", k] =>
    match failKinds.lookup k with
    | some l => doOp s (.call (some l))
    | none => (s, "bad-op")
  | ["st", "succ", k] => if succKinds.contains k then doOp s (.call none) else (s, "bad-op")
  | ["threads", ks] =>
    let kinds := ks.splitOn ","
    match kinds.mapM (fun k => failKinds.lookup k) with
    | none => (s, "bad-op")
    | some labels =>
      if labels.isEmpty || labels.length > 16 then (s, "bad-op") else
      -- main (thread 0) fails with `nretval` first; thread i+1: reset, fail, succeed, read;
      -- interleaved round-robin, as the barrier of the harness forces it
      let n := labels.length
      let idx := List.range n
      let ops : List (Nat × CStatus.Op) :=
        [(0, .call (some "null:retval"))]
        ++ idx.map (fun i => (i + 1, CStatus.Op.reset))
        ++ (idx.zip labels).map (fun (i, l) => (i + 1, CStatus.Op.call (some l)))
        ++ idx.map (fun i => (i + 1, CStatus.Op.call none))
        ++ idx.map (fun i => (i + 1, CStatus.Op.getMessage))
        ++ [(0, .getMessage)]
      let σ0 : CStatus.Sts := fun j => if j = 0 then s.st else CStatus.init handlerSpec
      let (σ, rs) := CStatus.runT handlerSpec σ0 ops
      let msgs := rs.filterMap (fun r => match r with | .message m => some m | _ => none)
      let mine := msgs.take n
      let main := msgs.drop n
      (⟨σ 0, true⟩, s!"ok {",".intercalate mine} main={",".intercalate main}")
  | _ => (s, "bad-op")

def main : IO Unit := runLoop stepLine init

end Primitiv.Drv.CapiDrv
