import PrimitivModel.Model.Cow
import PrimitivModel.Driver.Util
/-
Driver of the `cow` family (stateful).  Tensor object `h` of the protocol lives
in pool slot `3h`; parameter `p` owns slots `3p+1` (value) and `3p+2` (gradient).
Shape tokens are `S:d0,d1,…/batch`, value lists `V:v0,v1,…` (integers).
`dev <name>` and `reset` start a new history (empty pool, empty heap).
-/
namespace Primitiv.Drv.CowDrv
open Primitiv Primitiv.Drv Primitiv.Cow

def parseShapeTok (t : String) : Option (List Nat × Nat) :=
  if !t.startsWith "S:" then none else
  match ((t.drop 2).toString.splitOn "/") with
  | [ds, b] => do
    let dims ← parseNatCsv ds
    let batch ← b.toNat?
    pure (dims, batch)
  | _ => none

def parseVals (t : String) : Option (List Int) :=
  if !t.startsWith "V:" then none else parseIntCsv (t.drop 2).toString

def slotName (i : Nat) : String :=
  match i % 3 with
  | 0 => s!"t{i / 3}"
  | 1 => s!"v{i / 3}"
  | _ => s!"g{i / 3}"

def showVal : AVal → String
  | none => "inv"
  | some (sh, v) => s!"{sh.toStr}:{csv v}"

def showOut : Out → String
  | .ok => "ok"
  | .noobj => "noobj"
  | .err => "err"
  | .crash => "crash"
  | .alias => "alias"
  | .vals sh v => s!"ok {showVal (some (sh, v))}"
  | .shape sh => s!"ok {sh.toStr}"
  | .bool b => s!"ok {b}"
  | .nat n => s!"ok {n}"
  | .all [] => "ok -"
  | .all l => "ok " ++ ";".intercalate (l.map fun (i, v) => s!"{slotName i}={showVal v}")

def t (h : Nat) : Nat := 3 * h

def parseIds (tk : String) : Option (List Nat) :=
  if !tk.startsWith "I:" then none else parseNatCsv (tk.drop 2).toString

def parseProbe : String → Option Probe
  | "sum0" => some .sum0
  | "add" => some .add
  | "matmul" => some .matmul
  | "bsum" => some .bsum
  | "tofloat" => some .tofloat
  | "argmax0" => some .argmax0
  | _ => none

def parseOp (ws : List String) : Option Op :=
  match ws with
  | ["new", h, sh, vs] => do
    let h ← h.toNat?; let (d, b) ← parseShapeTok sh; let v ← parseVals vs
    pure (.new (t h) d b v)
  | ["copy", h, g] => do pure (.copy (t (← h.toNat?)) (t (← g.toNat?)))
  | ["copyctor", h, g] => do pure (.copyctor (t (← h.toNat?)) (t (← g.toNat?)))
  | ["move", h, g] => do pure (.move (t (← h.toNat?)) (t (← g.toNat?)))
  | ["reshape", h, g, sh] => do
    let (d, b) ← parseShapeTok sh
    pure (.reshape (t (← h.toNat?)) (t (← g.toNat?)) d b)
  | ["flatten", h, g] => do pure (.flatten (t (← h.toNat?)) (t (← g.toNat?)))
  | ["reset", h, k] => do pure (.reset (t (← h.toNat?)) (← k.toInt?))
  | ["resetv", h, vs] => do pure (.resetv (t (← h.toNat?)) (← parseVals vs))
  | ["iadd", h, g] => do pure (.iadd (t (← h.toNat?)) (t (← g.toNat?)))
  | ["isub", h, g] => do pure (.isub (t (← h.toNat?)) (t (← g.toNat?)))
  | ["imul", h, k] => do pure (.imul (t (← h.toNat?)) (← k.toInt?))
  | ["invalidate", h] => do pure (.invalidate (t (← h.toNat?)))
  | ["drop", h] => do pure (.drop (t (← h.toNat?)))
  | ["read", h] => do pure (.read (t (← h.toNat?)))
  | ["shape", h] => do pure (.shape (t (← h.toNat?)))
  | ["valid", h] => do pure (.valid (t (← h.toNat?)))
  | ["device", h] => do pure (.device (t (← h.toNat?)))
  | ["param", p, sh, vs] => do
    let (d, b) ← parseShapeTok sh
    pure (.param (← p.toNat?) d b (← parseVals vs))
  | ["pvalue", p, g] => do pure (.pvalue (← p.toNat?) (t (← g.toNat?)))
  | ["pgrad", p, g] => do pure (.pgrad (← p.toNat?) (t (← g.toNat?)))
  | ["ptensor", p, g] => do pure (.ptensor (← p.toNat?) (t (← g.toNat?)))
  | ["piadd_value", p, g] => do pure (.piaddValue (← p.toNat?) (t (← g.toNat?)))
  | ["pdrop", p] => do pure (.pdrop (← p.toNat?))
  | ["diadd", h, g] => do pure (.diadd (t (← h.toNat?)) (t (← g.toNat?)))
  | ["disub", h, g] => do pure (.disub (t (← h.toNat?)) (t (← g.toNat?)))
  | ["dimul", h, k] => do pure (.dimul (t (← h.toNat?)) (← k.toInt?))
  | ["dslice_bw", gy, dim, off, gx] => do
    pure (.dsliceBw (t (← gy.toNat?)) (← dim.toNat?) (← off.toNat?) (t (← gx.toNat?)))
  | ["dpick_bw", gy, dim, ids, gx] => do
    pure (.dpickBw (t (← gy.toNat?)) (← dim.toNat?) (← parseIds ids) (t (← gx.toNat?)))
  | ["dflip_bw", gy, dim, gx] => do pure (.dflipBw (t (← gy.toNat?)) (← dim.toNat?) (t (← gx.toNat?)))
  | ["dtranspose_bw", gy, gx] => do pure (.dtransposeBw (t (← gy.toNat?)) (t (← gx.toNat?)))
  | ["dadd_bw", gy, ga, gb] => do pure (.daddBw (t (← gy.toNat?)) (t (← ga.toNat?)) (t (← gb.toNat?)))
  | ["dsub_bw", gy, ga, gb] => do pure (.dsubBw (t (← gy.toNat?)) (t (← ga.toNat?)) (t (← gb.toNat?)))
  | ["piadd_grad", p, g] => do pure (.piaddGrad (← p.toNat?) (t (← g.toNat?)))
  | ["fcopy", h, g] => do pure (.fcopy (t (← h.toNat?)) (t (← g.toNat?)))
  | ["fpositive", h, g] => do pure (.fpositive (t (← h.toNat?)) (t (← g.toNat?)))
  | ["fconcat1", h, g, dim] => do pure (.fconcat1 (t (← h.toNat?)) (t (← g.toNat?)) (← dim.toNat?))
  | ["fbconcat1", h, g] => do pure (.fbconcat1 (t (← h.toNat?)) (t (← g.toNat?)))
  | ["probe", fn, h] => do pure (.probe (← parseProbe fn) (t (← h.toNat?)))
  | ["live"] => some .live
  | ["readall"] => some .readall
  | _ => none

def stepLine (s : State) (line : String) : State × String :=
  match words line with
  | ["reset"] => (Cow.init, "ok")
  | ["dev", "naive"] => (Cow.init, "ok")
  | ["dev", "eigen"] => (Cow.init, "ok")
  | ws =>
    match parseOp ws with
    | none => (s, "bad-op")
    | some op =>
      let r := Cow.step s op
      (r.1, showOut r.2)

def main : IO Unit := runLoop stepLine Cow.init

end Primitiv.Drv.CowDrv
