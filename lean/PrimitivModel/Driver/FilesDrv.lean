import PrimitivModel.Model.Files
import PrimitivModel.Driver.MsgpackDrv
/-
Driver of the `files` family.

  save param <ws> <P>                        → ok <hex> | err
  save model <ws> <n> (<path> <P>)*n         → ok <hex> | err
  save opt <O>                               → ok <hex>
  savefail <sink> param|model|opt …          → ok | err      sink ::= full | nodir | isdir | cap<n>
  load param <ws> <dev> <hex|missing> <P>    → ok <P'> | err <P'>
  load model <ws> <dev> <hex|missing> <n> (<path> <P>)*n → ok|err <P'>*n
  load opt <hex|missing> <O>                 → ok|err <O'>
  canon param|model|opt <hex>                → ok <hex> | err   (model only: decode a file, sort the
                                               entries of its unordered maps by key, encode again)

ws ::= 0 | 1      dev ::= n | e | m   (m: a second devices::Naive instance)
T  ::= <dims csv>/<batch>:<float words, 8 hex digits each>
P  ::= I | V;<dev>;<T value>;<gradient words>(;<hex name>=<T>)*      (statistics sorted by name on output)
path ::= (.<hex name>)+
O  ::= <Kind>:<epoch>:<lr_scale>:<l2>:<clip>(:<hyper>)*               (floats as 8 hex digits)

`save` output is canonical: the entries of unordered maps sorted by key (the
check passes the implementation's bytes through `canon` before comparing).
-/
namespace Primitiv.Drv.FilesDrv
open Primitiv Primitiv.Drv Primitiv.Msgpack Primitiv.Files Primitiv.Drv.MsgpackDrv

def sortByKey {α : Type} (l : List (Bytes × α)) : List (Bytes × α) :=
  l.mergeSort fun a b => !bytesLt b.1 a.1

/-! #### tokens -/

def wordsOfHexChars : List Char → Option (List UInt32)
  | [] => some []
  | a :: b :: c :: d :: e :: f :: g :: h :: r => do
    let w ← natOfHexChars [a, b, c, d, e, f, g, h]
    let t ← wordsOfHexChars r
    pure (UInt32.ofNat w :: t)
  | _ => none

def hexOfWords (ws : List UInt32) : String := String.join (ws.map fun w => hexOfWord 8 w.toNat)

def parseShape (s : String) : Option Shape :=
  match s.splitOn "/" with
  | [ds, b] => do
    let dims ← parseNatCsv ds
    let batch ← b.toNat?
    if dims.any (fun d => decide (d ≥ W)) || decide (batch ≥ W) then none
    else match Shape.new dims batch with
      | .ok sh => some sh
      | .error _ => none
  | _ => none

def parseTensor (s : String) : Option Tensor :=
  match s.splitOn ":" with
  | [sh, ws] => do
    let shape ← parseShape sh
    let data ← wordsOfHexChars ws.toList
    if data.length = shape.size then some ⟨shape, data⟩ else none
  | _ => none

def showTensor (t : Tensor) : String := s!"{csv t.shape.dims}/{t.shape.batch}:{hexOfWords t.data}"

def parseDev : String → Option Dev
  | "n" => some .naive
  | "e" => some .eigen
  | "m" => some .naive2
  | _ => none

def showDev : Dev → String
  | .naive => "n"
  | .eigen => "e"
  | .naive2 => "m"

def parseStat (s : String) : Option (Bytes × Tensor) :=
  match s.splitOn "=" with
  | [k, t] => do
    let key ← if k.isEmpty then some [] else bytesOfHexChars k.toList
    let ten ← parseTensor t
    pure (key, ten)
  | _ => none

/-- a Parameter as the harness builds it: constructor (batch must be 1), gradient
set, statistics added one by one (`add_stats` rejects a name that exists) -/
def parseParam (s : String) : Option PState :=
  if s = "I" then some none else
  match s.splitOn ";" with
  | "V" :: d :: v :: g :: stats => do
    let dev ← parseDev d
    let value ← parseTensor v
    let gw ← wordsOfHexChars g.toList
    let st ← stats.mapM parseStat
    if value.shape.hasBatch || gw.length != value.data.length then none
    else if !(st.map Prod.fst).eraseDups.length == st.length then none
    else some (some ⟨value.shape, dev, value, ⟨value.shape, gw⟩, sortByKey st⟩)
  | _ => none

def showParam : PState → String
  | none => "I"
  | some p =>
    let ok := p.shape == p.value.shape && p.shape == p.grad.shape
    let stats := (sortByKey p.stats).map fun kt =>
      ";" ++ (if kt.1.isEmpty then "" else hexOfBytes kt.1) ++ "=" ++ showTensor kt.2
    (if ok then "V;" else "MIXED;") ++ showDev p.dev ++ ";" ++ showTensor p.value ++ ";" ++ hexOfWords p.grad.data ++ String.join stats

def parsePath (s : String) : Option Path :=
  match s.splitOn "." with
  | "" :: names@(_ :: _) => names.mapM fun n => if n.isEmpty then some [] else bytesOfHexChars n.toList
  | _ => none

def isProperPrefix (a b : Path) : Bool := a.length < b.length && b.take a.length == a

/-- `<n> (<path> <P>)*n` -/
def parseEntries : Nat → List String → Option (MState × List String)
  | 0, ws => some ([], ws)
  | n + 1, p :: q :: ws => do
    let path ← parsePath p
    let st ← parseParam q
    let (rest, ws') ← parseEntries n ws
    pure ((path, st) :: rest, ws')
  | _, _ => none

/-- the harness builds the tree with `Model::add`: a name is used once per model -/
def treeOk (m : MState) : Bool :=
  let paths := m.map Prod.fst
  paths.eraseDups.length == paths.length &&
    paths.all fun a => paths.all fun b => !isProperPrefix a b

def parseModel (ws : List String) : Option MState :=
  match ws with
  | n :: rest => do
    let k ← n.toNat?
    let (m, r) ← parseEntries k rest
    if r.isEmpty && treeOk m then some m else none
  | [] => none

def parseKind : String → Option OptKind
  | "SGD" => some .sgd
  | "MomentumSGD" => some .momentumSGD
  | "AdaGrad" => some .adaGrad
  | "RMSProp" => some .rmsProp
  | "AdaDelta" => some .adaDelta
  | "Adam" => some .adam
  | _ => none

def showKind : OptKind → String
  | .sgd => "SGD"
  | .momentumSGD => "MomentumSGD"
  | .adaGrad => "AdaGrad"
  | .rmsProp => "RMSProp"
  | .adaDelta => "AdaDelta"
  | .adam => "Adam"

def parseOpt (s : String) : Option Opt :=
  match s.splitOn ":" with
  | k :: e :: lr :: l2 :: cl :: hs => do
    let kind ← parseKind k
    let epoch ← e.toNat?
    if epoch ≥ W then none else
    let f := fun (x : String) => (wordOfHex 8 x).map UInt32.ofNat
    let lr' ← f lr
    let l2' ← f l2
    let cl' ← f cl
    let hyper ← hs.mapM f
    if hyper.length = kind.keys.length then some ⟨kind, UInt32.ofNat epoch, lr', l2', cl', hyper⟩ else none
  | _ => none

def showOpt (o : Opt) : String :=
  ":".intercalate ([showKind o.kind, toString o.epoch.toNat] ++
    ([o.lrScale, o.l2, o.clip] ++ o.hyper).map fun w => hexOfWord 8 w.toNat)

/-! #### canonical form of a file -/

def canonParam (p : Param) : Param := { p with stats := sortByKey p.stats }

/-- records of a model file in file order -/
def readEntries : Nat → Bytes → Option (List (Path × Param))
  | 0, _ => some []
  | n + 1, bs =>
    match pathC.dec bs with
    | .ok key r =>
      match loadInner r true .naive with
      | .ok p r' => (readEntries n r').map fun l => (key, canonParam p) :: l
      | .error _ => none
    | .error _ => none

def canon (kind : String) (bs : Bytes) : Option Bytes :=
  match kind with
  | "param" =>
    match (readHeader .parameter bs).bind fun _ r => loadInner r true .naive with
    | .ok p [] => some (writeHeader .parameter ++ saveInner (canonParam p) true)
    | _ => none
  | "model" =>
    match (readHeader .model bs).bind fun _ r => nat32.dec r with
    | .ok n r => (readEntries n r).map fun es => writeHeader .model ++ modelBody es true
    | .error _ => none
  | "opt" =>
    match (readHeader .optimizer bs).bind fun _ r => (uintMapC.dec r).bind fun uc r' =>
        (floatMapC.dec r').bind fun fc r'' => .ok (uc, fc) r'' with
    | .ok (uc, fc) [] => some (writeHeader .optimizer ++ uintMapC.enc (sortByKey uc) ++ floatMapC.enc (sortByKey fc))
    | _ => none
  | _ => none

def showSaved (kind : String) (o : Option Bytes) : String :=
  match o with
  | none => "err"
  | some bs =>
    match canon kind bs with
    | some c => "ok " ++ hexOfBytes c
    | none => "ok uncanonical " ++ hexOfBytes bs

def parseWs : String → Option Bool
  | "0" => some false
  | "1" => some true
  | _ => none

def parseSink (s : String) : Option Sink :=
  if s = "full" then some (.capacity 0)
  else if s = "nodir" ∨ s = "isdir" then some .unopenable
  else if s.startsWith "cap" then (s.drop 3).toString.toNat?.map Sink.capacity
  else none

/-- bytes a `save` line would write (`none`: Error before/while producing them); `none` at the outer level: bad-op -/
def savedBytes (kind : String) (args : List String) : Option (Option Bytes) :=
  match kind, args with
  | "param", [ws, p] => do
    let w ← parseWs ws
    let st ← parseParam p
    pure (Param.save st w)
  | "model", ws :: rest => do
    let w ← parseWs ws
    let m ← parseModel rest
    pure (Model.save m w)
  | "opt", [o] => do
    let op ← parseOpt o
    pure (some op.save)
  | _, _ => none

def fileOf (s : String) : Option (Option Bytes) :=
  if s = "missing" then some none else (bytesOfHex s).map some

def showLoad (e : Option DErr) (st : String) : String :=
  (match e with | none => "ok " | some _ => "err ") ++ st

def exec (line : String) : String :=
  match words line with
  | "save" :: kind :: args =>
    match savedBytes kind args with
    | none => "bad-op"
    | some o => showSaved kind o
  | "savefail" :: sink :: kind :: args =>
    match parseSink sink, savedBytes kind args with
    | some s, some o => if saveTo o s then "ok" else "err"
    | _, _ => "bad-op"
  | ["load", "param", ws, dev, hex, p] =>
    match parseWs ws, parseDev dev, fileOf hex, parseParam p with
    | some w, some d, some file, some old =>
      match file with
      | none => "err " ++ showParam old
      | some bs => let (e, st) := Param.load old bs w d; showLoad e (showParam st)
    | _, _, _, _ => "bad-op"
  | "load" :: "model" :: ws :: dev :: hex :: rest =>
    match parseWs ws, parseDev dev, fileOf hex, parseModel rest with
    | some w, some d, some file, some old =>
      let pr := fun (m : MState) => " ".intercalate (m.map fun e => showParam e.2)
      match file with
      | none => "err " ++ pr old
      | some bs => let (e, st) := Model.load old bs w d; showLoad e (pr st)
    | _, _, _, _ => "bad-op"
  | ["load", "opt", hex, o] =>
    match fileOf hex, parseOpt o with
    | some file, some old =>
      match file with
      | none => "err " ++ showOpt old
      | some bs => let (e, st) := Opt.load old bs; showLoad e (showOpt st)
    | _, _ => "bad-op"
  | ["canon", kind, hex] =>
    match bytesOfHex hex with
    | some bs => match canon kind bs with | some c => "ok " ++ hexOfBytes c | none => "err"
    | none => "bad-op"
  | _ => "bad-op"

def step (_ : Unit) (line : String) : Unit × String := ((), exec line)

def main : IO Unit := runLoop step ()

end Primitiv.Drv.FilesDrv
