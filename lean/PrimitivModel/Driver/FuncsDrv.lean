import PrimitivModel.Model.Shape
import PrimitivModel.Model.OpTable
import PrimitivModel.Gen.OpTable
import PrimitivModel.Driver.Util
/-
Driver of the `funcs` family: a program of `let v = f args…` lines is executed
on a model of BOTH APIs that is an interpreter of the generated table
(`Gen/OpTable.lean`) over shapes:

* Node level: the body of the public Node function (node_funcs.cc, the wrapper
  templates, the composites) is interpreted; an `add_operator` registration is
  the model of `Graph::add_operator` (argument count against the operator's
  declaration, CHECK_NODE of every argument, device of the result, FWD_SHAPE
  through the rules of `Model/Shape.lean`, then the commit).  The FORWARD rule
  is interpreted on (shape, device) pairs to learn whether evaluation will
  throw (device mismatch, invalid distribution parameter).
* Tensor level: the body of the Tensor function, a kernel call being the
  device front-end of device.cc (CHECK_DEVICE, guards, output shape).

Values are not modelled (the harness compares them Node-vs-Tensor itself).
Only the per-function argument syntax of the line protocol is written by hand.
-/
namespace Primitiv.Drv.FuncsDrv
open Primitiv Primitiv.OpTable Primitiv.Drv

structure TV where
  shape : Shape
  dev : Nat
deriving Repr, Inhabited

structure NV where
  shape : Shape
  dev : Nat
  graph : Nat
  /-- evaluating the node will throw -/
  lazyErr : Bool
deriving Repr, Inhabited

inductive V where
  | tensor (t : TV)
  | node (n : NV)
  | tensors (l : List TV)
  | nodes (l : List NV)
  | shape (s : Shape)
  | shapes (l : List Shape)
  /-- a number `n/d`; `isF`: floating point (exact rational), otherwise std::uint32_t arithmetic -/
  | num (n : Int) (d : Nat) (isF : Bool)
  | ids (l : List Nat)
  | bool (b : Bool)
  | dev (d : Nat)
  | graph (g : Nat)
  | param (name : String)
  | floats (n : Nat)
  | list (l : List V)
  | null
  | unit
deriving Inhabited

structure TVal where
  v : V
  ty : String
deriving Inhabited

inductive Fail where
  | error
  | crash
  | stuck (msg : String)
deriving Inhabited

structure IS where
  nops0 : Nat
  nops1 : Nat
  defGraph : Nat
  defDev : Nat
  params : List (String × TV)
deriving Inhabited

abbrev M := ExceptT Fail (StateM IS)

abbrev Env := List (String × TVal)

def throwE {α} : M α := throw .error
def stuck {α} (msg : String) : M α := throw (.stuck msg)

def liftR {α} (r : R α) : M α :=
  match r with
  | .ok a => pure a
  | .error .error => throw .error
  | .error .crash => throw .crash

/-! ### literals -/

def pow10 (n : Nat) : Nat := 10 ^ n

/-- decimal literal `12`, `1.`, `.01`, `1e-8`, `-2.5` as a rational; `isF` when it has `.` or an exponent -/
def parseNum (s : String) : Option V :=
  let (neg, body) := if s.startsWith "-" then (true, (s.drop 1).toString) else (false, s)
  let (mant, ex) := match body.splitOn "e" with
    | [m, e] => (m, e.toInt?)
    | [m] => (m, some 0)
    | _ => ("", none)
  match ex with
  | none => none
  | some e =>
    let isF := body.contains '.' || body.contains 'e'
    let parts := mant.splitOn "."
    let (ip, fp) := match parts with
      | [a] => (a, "")
      | [a, b] => (a, b)
      | _ => ("x", "")
    let digits := ip ++ fp
    if digits.isEmpty || !digits.all Char.isDigit then none
    else
      let n : Nat := digits.toNat!
      let scale : Int := e - fp.length
      let (num, den) : Nat × Nat := if scale ≥ 0 then (n * pow10 scale.toNat, 1) else (n, pow10 (-scale).toNat)
      some (.num (if neg then -(num : Int) else num) den isF)

def lit (s : String) : V :=
  let b := (s.drop 1).toString
  if b == "true" then .bool true
  else if b == "false" then .bool false
  else if b == "nullptr" then .null
  else match parseNum b with
    | some v => v
    | none => .unit

/-! ### values -/

def asNat (v : V) : M Nat :=
  match v with
  | .num n 1 false => if n ≥ 0 then pure n.toNat else pure ((n + (W : Int)).toNat % W)
  | .num n 1 true => if n ≥ 0 then pure n.toNat else stuck "negative float as u32"
  | _ => stuck "number expected"

def asShape (v : V) : M Shape :=
  match v with
  | .shape s => pure s
  | .list l => do
    let dims ← l.mapM asNat
    liftR (Shape.new dims 1)
  | .ids l => liftR (Shape.new l 1)
  | _ => stuck "shape expected"

def asShapes (v : V) : M (List Shape) :=
  match v with
  | .shapes l => pure l
  | .list l => l.mapM asShape
  | _ => stuck "shapes expected"

def asIds (v : V) : M (List Nat) :=
  match v with
  | .ids l => pure l
  | .list l => l.mapM asNat
  | _ => stuck "ids expected"

def asBool (v : V) : M Bool :=
  match v with
  | .bool b => pure b
  | _ => stuck "bool expected"

def u32 (n : Nat) : V := .num n 1 false

/-- arithmetic: std::uint32_t when both operands are integers, exact rationals otherwise -/
def arith (op : String) (a b : V) : M V :=
  match a, b with
  | .num x dx fx, .num y dy fy =>
    let cmp (f : Int → Int → Bool) : M V := pure (.bool (f (x * dy) (y * dx)))
    if op == "==" then cmp (· == ·) else if op == "!=" then cmp (· != ·)
    else if op == "<" then cmp (· < ·) else if op == ">" then cmp (· > ·)
    else if op == "<=" then cmp (· ≤ ·) else if op == ">=" then cmp (· ≥ ·)
    else if !fx && !fy then do
      let p ← asNat a
      let q ← asNat b
      if op == "+" then pure (u32 (add32 p q)) else if op == "-" then pure (u32 (sub32 p q))
      else if op == "*" then pure (u32 (mul32 p q))
      else if op == "/" then (if q == 0 then throw .crash else pure (u32 (p / q)))
      else stuck s!"arith {op}"
    else
      if op == "+" then pure (.num (x * dy + y * dx) (dx * dy) true)
      else if op == "-" then pure (.num (x * dy - y * dx) (dx * dy) true)
      else if op == "*" then pure (.num (x * y) (dx * dy) true)
      else if op == "/" then
        (if y == 0 then pure (.num 0 1 true)
         else pure (.num (if y < 0 then -(x * dy) else x * dy) (dx * y.natAbs) true))
      else stuck s!"arith {op}"
  | .bool p, .bool q =>
    if op == "||" then pure (.bool (p || q)) else if op == "&&" then pure (.bool (p && q))
    else if op == "==" then pure (.bool (p == q)) else if op == "!=" then pure (.bool (p != q))
    else stuck s!"arith {op} on bools"
  | .dev p, .dev q =>
    if op == "!=" then pure (.bool (p != q)) else if op == "==" then pure (.bool (p == q)) else stuck "arith on devices"
  | _, _ => stuck s!"arith {op}: operands"

def tyOf (v : V) : String :=
  match v with
  | .tensor _ | .node _ => "var"
  | .tensors _ | .nodes _ => "vars"
  | .shape _ => "shape"
  | .num _ _ _ | .bool _ => "num"
  | .ids _ => "ids"
  | .dev _ => "dev"
  | .graph _ => "graph"
  | .param _ => "param"
  | .floats _ => "floats"
  | .null => "null"
  | _ => "other"

def look (env : Env) (a : String) (this : Nat) : TVal :=
  if a.startsWith "#" then
    (if a == "#this" then ⟨.dev this, "dev"⟩ else let v := lit a; ⟨v, tyOf v⟩)
  else match env.lookup a with
    | some v => v
    | none => ⟨.unit, "other"⟩

def shapeOfVar (v : V) : M Shape :=
  match v with
  | .tensor t => pure t.shape
  | .node n => pure n.shape
  | .shape s => pure s
  | _ => stuck "variable expected"

/-- Shape / Tensor / Node / container methods -/
def method (st : IS) (name : String) (recv : V) (args : List V) : M V := do
  match recv with
  | .shape s =>
    if name == "is_scalar" then pure (.bool s.isScalar)
    else if name == "has_batch" then pure (.bool s.hasBatch)
    else if name == "batch" then pure (u32 s.batch)
    else if name == "depth" then pure (u32 s.depth)
    else if name == "volume" then pure (u32 s.volume)
    else if name == "size" then pure (u32 s.size)
    else if name == "at" then (do let i ← asNat (args.headD .unit); pure (u32 (s.get i)))
    else if name == "resize_dim" || name == "update_dim" then
      (match args with
       | [d, m] => do let d ← asNat d; let m ← asNat m; pure (.shape (← liftR (s.resizeDim d m)))
       | _ => stuck "resize_dim")
    else if name == "resize_batch" || name == "update_batch" then
      (do let b ← asNat (args.headD .unit); pure (.shape (← liftR (s.resizeBatch b))))
    else if name == "has_same_dims" then (do let o ← asShape (args.headD .unit); pure (.bool (s.hasSameDims o)))
    else if name == "has_compatible_batch" then (do let o ← asShape (args.headD .unit); pure (.bool (s.hasCompatibleBatch o)))
    else if name == "has_same_loo_dims" then
      (match args with
       | [o, d] => do let o ← asShape o; let d ← asNat d; pure (.bool (← liftR (s.hasSameLooDims o d)))
       | _ => stuck "has_same_loo_dims")
    else stuck s!"Shape::{name}"
  | .tensor t =>
    if name == "shape" then pure (.shape t.shape)
    else if name == "device" then pure (.dev t.dev)
    else if name == "valid" then pure (.bool true)
    -- every tensor value of this model is a valid one (the invalid-tensor case is property C07's family)
    else if name == "check_valid" then pure .unit
    else stuck s!"Tensor::{name}"
  | .node n =>
    if name == "shape" then pure (.shape n.shape)
    else if name == "device" then pure (.dev n.dev)
    else if name == "graph" then pure (.graph n.graph)
    else stuck s!"Node::{name}"
  | .param p =>
    match st.params.lookup p with
    | none => stuck "unknown parameter"
    | some tv =>
      if name == "shape" then pure (.shape tv.shape)
      else if name == "device" then pure (.dev tv.dev)
      else if name == "value" || name == "gradient" then pure (.tensor tv)
      else stuck s!"Parameter::{name}"
  | .tensors l =>
    if name == "empty" then pure (.bool l.isEmpty) else if name == "size" then pure (u32 l.length)
    else if name == "at" then (do
      let i ← asNat (args.headD .unit)
      match l[i]? with | some x => pure (.tensor x) | none => throw .crash)
    else stuck s!"vector::{name}"
  | .nodes l =>
    if name == "empty" then pure (.bool l.isEmpty) else if name == "size" then pure (u32 l.length)
    else if name == "at" then (do
      let i ← asNat (args.headD .unit)
      match l[i]? with | some x => pure (.node x) | none => throw .crash)
    else stuck s!"vector::{name}"
  | .shapes l =>
    if name == "empty" then pure (.bool l.isEmpty) else if name == "size" then pure (u32 l.length)
    else stuck s!"vector::{name}"
  | .floats k =>
    if name == "size" then pure (u32 k) else if name == "data" then pure .unit else stuck s!"vector<float>::{name}"
  | .ids l =>
    if name == "size" then pure (u32 l.length) else stuck s!"vector<u32>::{name}"
  | .list l =>
    if name == "size" then pure (u32 l.length) else if name == "empty" then pure (.bool l.isEmpty) else stuck s!"list::{name}"
  | _ => stuck s!"method {name}"

/-- shape_ops::name -/
def shapeOp (name : String) (args : List V) : M V := do
  let sh (i : Nat) : M Shape := asShape (args.getD i .unit)
  let nat (i : Nat) : M Nat := asNat (args.getD i .unit)
  let r : R Shape ←
    if name == "reshape" then pure (ShapeOps.reshape (← sh 0) (← sh 1))
    else if name == "flatten" then pure (ShapeOps.flatten (← sh 0))
    else if name == "scalar_op" then pure (ShapeOps.scalarOp (← sh 0) (← sh 1))
    else if name == "elementwise" then pure (ShapeOps.elementwise (← sh 0) (← sh 1))
    else if name == "slice" then pure (ShapeOps.slice (← sh 0) (← nat 1) (← nat 2) (← nat 3))
    else if name == "concat" then pure (ShapeOps.concat (← asShapes (args.getD 0 .unit)) (← nat 1))
    else if name == "broadcast" then pure (ShapeOps.broadcast (← sh 0) (← nat 1) (← nat 2))
    else if name == "pick" then pure (ShapeOps.pick (← sh 0) (← asIds (args.getD 1 .unit)) (← nat 2))
    else if name == "transpose" then pure (ShapeOps.transpose (← sh 0))
    else if name == "permute_dims" then pure (ShapeOps.permuteDims (← sh 0) (← asIds (args.getD 1 .unit)))
    else if name == "matmul" then pure (ShapeOps.matmul (← sh 0) (← sh 1))
    else if name == "conv2d" then pure (ShapeOps.conv2d (← sh 0) (← sh 1) (← nat 2) (← nat 3) (← nat 4) (← nat 5) (← nat 6) (← nat 7))
    else if name == "pool2d" then pure (ShapeOps.pool2d (← sh 0) (← nat 1) (← nat 2) (← nat 3) (← nat 4) (← nat 5) (← nat 6))
    else if name == "batch_pick" then pure (ShapeOps.batchPick (← sh 0) (← asIds (args.getD 1 .unit)))
    else if name == "batch_slice" then pure (ShapeOps.batchSlice (← sh 0) (← nat 1) (← nat 2))
    else if name == "batch_concat" then pure (ShapeOps.batchConcat (← asShapes (args.getD 0 .unit)))
    else stuck s!"shape_ops::{name}"
  pure (.shape (← liftR r))

def appendTo (v : V) (x : V) : M V :=
  match v, x with
  | .tensors l, .tensor t => pure (.tensors (l ++ [t]))
  | .nodes l, .node n => pure (.nodes (l ++ [n]))
  | .shapes l, .shape s => pure (.shapes (l ++ [s]))
  | .list [], .tensor t => pure (.tensors [t])
  | .list [], .node n => pure (.nodes [n])
  | .list [], .shape s => pure (.shapes [s])
  | .unit, .tensor t => pure (.tensors [t])
  | .unit, .node n => pure (.nodes [n])
  | .unit, .shape s => pure (.shapes [s])
  | .list l, y => pure (.list (l ++ [y]))
  | _, _ => stuck "push"

def elemsOf (v : V) : M (List V) :=
  match v with
  | .tensors l => pure (l.map .tensor)
  | .nodes l => pure (l.map .node)
  | .shapes l => pure (l.map .shape)
  | .list l => pure l
  | _ => stuck "vector expected"

def bind (env : Env) (k : String) (v : TVal) : Env := (k, v) :: env

def storeC (c : Call) (v : V) (env : Env) : M Env :=
  if c.dst == "" then pure env
  else if c.mode == "push" || (c.loop != "" && c.dst == "y[i]") then do
    let cur := (env.lookup c.dst).map (·.v) |>.getD .unit
    let nv ← appendTo cur v
    pure (bind env c.dst ⟨nv, if c.mode == "push" then "vars" else c.ty⟩)
  else pure (bind env c.dst ⟨v, if c.ty == "" || c.ty == "other" then tyOf v else c.ty⟩)

def splitGroup (loop lvar : String) : List Call → List Call × List Call
  | [] => ([], [])
  | c :: rest =>
    if c.loop == loop && c.lvar == lvar then
      let (g, r) := splitGroup loop lvar rest
      (c :: g, r)
    else ([], c :: rest)

def bumpOps (g : Nat) : M Unit :=
  modify fun s => if g == 0 then { s with nops0 := s.nops0 + 1 } else { s with nops1 := s.nops1 + 1 }

mutual

/-- the calls of one branch; a run of calls of the same loop is iterated -/
def runCalls (t : Table) (node : Bool) (this : Nat) : Nat → List Call → Env → M (Env × Option TVal)
  | 0, _, _ => stuck "fuel"
  | _ + 1, [], env => pure (env, none)
  | fuel + 1, c :: rest, env =>
    if c.loop != "" then do
      let (grp, rest') := splitGroup c.loop c.lvar (c :: rest)
      let items : List V ←
        if c.loop.startsWith ":" then elemsOf (look env (c.loop.drop 1).toString this).v
        else do
          let n ← asNat (look env c.loop this).v
          if n > 4096 then stuck "loop too long" else pure ((List.range n).map fun k => u32 k)
      let env' ← runIter t node this fuel grp c.lvar items env
      runCalls t node this fuel rest' env'
    else do
      let (env', r) ← runCall t node this fuel c env
      match r with
      | some v => pure (env', some v)
      | none => runCalls t node this fuel rest env'

def runIter (t : Table) (node : Bool) (this : Nat) : Nat → List Call → String → List V → Env → M Env
  | 0, _, _, _, _ => stuck "fuel"
  | _ + 1, _, _, [], env => pure env
  | fuel + 1, grp, lvar, x :: xs, env => do
    let env1 := bind env lvar ⟨x, tyOf x⟩
    let env2 ← runGroup t node this fuel grp env1
    runIter t node this fuel grp lvar xs env2

/-- the body of a loop (no nested loops in the table) -/
def runGroup (t : Table) (node : Bool) (this : Nat) : Nat → List Call → Env → M Env
  | 0, _, _ => stuck "fuel"
  | _ + 1, [], env => pure env
  | fuel + 1, c :: rest, env => do
    let (env', _) ← runCall t node this fuel c env
    runGroup t node this fuel rest env'

def runBody (t : Table) (node : Bool) (this : Nat) : Nat → Body → Env → M (Env × Option TVal)
  | 0, _, _ => stuck "fuel"
  | _ + 1, [], env => pure (env, none)
  | fuel + 1, br :: rest, env => do
    let (env1, _) ← runCalls t node this fuel br.pre env
    let take ← if br.cond == "" then pure true else asBool (look env1 br.cond this).v
    if take then do
      let (env2, r) ← runCalls t node this fuel br.body env1
      match r with
      | some v => pure (env2, some v)
      | none => runBody t node this fuel rest env2
    else runBody t node this fuel rest env1

def runFn (t : Table) (node : Bool) (this : Nat) : Nat → Fn → List TVal → M (Option TVal)
  | 0, _, _ => stuck "fuel"
  | fuel + 1, f, args => do
    let env : Env := (f.params.zip args).map fun (p : Param × TVal) => (p.1.name, (⟨p.2.v, p.1.ty⟩ : TVal))
    let (_, r) ← runBody t node this fuel f.body env
    pure r

def runCall (t : Table) (node : Bool) (this : Nat) : Nat → Call → Env → M (Env × Option TVal)
  | 0, _, _ => stuck "fuel"
  | fuel + 1, c, env => do
    let args := c.args.map fun a => look env a this
    let recv := look env c.recv this
    let st ← get
    if c.kind == "unsupported" then stuck ("unsupported: " ++ c.name)
    else if c.mode == "throwif" then do
      let b ← asBool (args.headD ⟨.bool false, "num"⟩).v
      if b then throwE else pure (env, none)
    else if c.kind == "noop" || c.kind == "throw" then
      (if c.kind == "throw" && c.mode == "stmt" then throwE else pure (env, none))
    else if c.mode == "ret" then pure (env, some (args.headD ⟨.unit, "other"⟩))
    else if c.kind == "copy" then do
      let v := (args.headD ⟨.unit, "other"⟩).v
      pure (← storeC c v env, none)
    else if c.kind == "arith" then do
      let vs := args.map (·.v)
      let v ←
        if c.name == "&" || c.name == "std::move" then pure (vs.headD .unit)
        else if c.name == "!" then (do let b ← asBool (vs.headD .unit); pure (V.bool !b))
        else if c.name == "neg" then arith "-" (.num 0 1 false) (vs.headD .unit)
        else if c.name == "?:" then (do
          let b ← match vs.headD .unit with | .bool b => pure b | .null => pure false | .dev _ => pure true | _ => stuck "?:"
          pure (if b then vs.getD 1 .unit else vs.getD 2 .unit))
        else arith c.name (vs.getD 0 .unit) (vs.getD 1 .unit)
      pure (← storeC c v env, none)
    else if c.kind == "shape" then do
      let v ← shapeOp c.name (args.map (·.v))
      pure (← storeC c v env, none)
    else if c.kind == "ctor" then do
      let vs := args.map (·.v)
      let v ←
        if c.name == "Shape" then (do let dims ← vs.mapM asNat; pure (V.shape (← liftR (Shape.new dims 1))))
        else if c.name == "{}" then pure (V.list vs)
        else if c.name == "vector" then (match vs with | [x] => pure x | _ => pure (V.list vs))
        else if c.name == "default" then pure (V.list [])
        else if c.name == "Tensor" then (do
          let s ← asShape (vs.getD 0 .unit)
          let d ← match vs.getD 1 .unit with | .dev d => pure d | _ => stuck "Tensor(): device"
          pure (V.tensor ⟨s, d⟩))
        else stuck s!"ctor {c.name}"
      pure (← storeC c v env, none)
    else if c.kind == "helper" then do
      let a := (args.headD ⟨.null, "dev"⟩).v
      let v ←
        if c.name == "ptr_to_obj" || c.name == "obj_to_ptr" then pure a
        else if c.name == "Graph::get_reference_or_default" then
          (match a with | .graph g => pure (V.graph g) | _ => pure (V.graph st.defGraph))
        else (match a with | .dev d => pure (V.dev d) | _ => pure (V.dev st.defDev))
      pure (← storeC c v env, none)
    else if c.kind == "self" then do
      -- methods of `this` inside a device front-end / Tensor method
      let vs := args.map (·.v)
      let v ←
        if c.name == "new_raw_tensor" then (do let s ← asShape (vs.headD .unit); pure (V.tensor ⟨s, this⟩))
        else if c.name == "new_handle" || c.name == "check_valid" then pure V.unit
        else if c.name.endsWith "_impl" then pure V.unit
        else
          match t.fronts.find? (fun f => f.name == c.name && f.params.length == args.length) with
          | none => stuck s!"Device::{c.name}"
          | some f => do
            let r ← runFn t false this fuel f args
            pure ((r.map (·.v)).getD .unit)
      pure (← storeC c v env, none)
    else if c.kind == "method" then do
      let vs := args.map (·.v)
      match recv.v with
      | .tensor tv =>
        if c.name == "reshape" || c.name == "flatten" then
          match t.tmethods.find? (fun f => f.name == c.name && f.params.length == args.length) with
          | none => stuck s!"Tensor::{c.name}"
          | some f => do
            -- members of the receiver
            let env0 : Env := [("shape_", ⟨.shape tv.shape, "shape"⟩), ("device_", ⟨.dev tv.dev, "dev"⟩),
              ("handle_", ⟨.unit, "other"⟩), ("allocated_size_", ⟨.unit, "other"⟩)]
            let envf : Env := (f.params.zip args).map fun (p : Param × TVal) => (p.1.name, (⟨p.2.v, p.1.ty⟩ : TVal))
            let (_, r) ← runBody t false tv.dev fuel f.body (envf ++ env0)
            pure (← storeC c ((r.map (·.v)).getD .unit) env, none)
        else do
          let v ← method st c.name recv.v vs
          pure (← storeC c v env, none)
      | _ => do
        let v ← method st c.name recv.v vs
        pure (← storeC c v env, none)
    else if c.kind == "kernel" then do
      let d ← match recv.v with | .dev d => pure d | _ => stuck "kernel receiver"
      match t.fronts.find? (fun f => f.name == c.name && f.params.length == args.length) with
      | none => stuck s!"front-end {c.name}"
      | some f => do
        let r ← runFn t false d fuel f args
        pure (← storeC c ((r.map (·.v)).getD .unit) env, none)
    else if c.kind == "fn" then do
      let lvl := if c.recv == "Tensor" then false else if c.recv == "Node" then true else node
      match findFn t lvl c.name (args.map (·.ty)) with
      | none => stuck s!"function {c.name}"
      | some f => do
        let r ← runFn t lvl this fuel f args
        pure (← storeC c ((r.map (·.v)).getD .unit) env, none)
    else if c.kind == "op" then do
      match findArith t c.name (args.map (·.ty)) with
      | none => stuck s!"operator {c.name}"
      | some f => do
        let r ← runFn t node this fuel f args
        pure (← storeC c ((r.map (·.v)).getD .unit) env, none)
    else if c.kind == "reg" then do
      -- Graph::add_operator
      let g ← match recv.v with | .graph g => pure g | _ => stuck "add_operator: graph"
      match t.findOp c.name with
      | none => stuck s!"operator {c.name}"
      | some o => do
        let cargs := c.cargs.map fun a => look env a this
        -- `new operators::Op(cargs…)`: member initialisers, then the constructor body
        let ctorEnv : Env := (o.ctorParams.zip cargs).map fun (p : Param × TVal) => (p.1.name, (⟨p.2.v, p.1.ty⟩ : TVal))
        let attrEnv : Env := o.ctorInit.filterMap fun (p : String × String) =>
          (ctorEnv.lookup p.2).map fun v => (p.1, (⟨v.v, ((o.attrs.find? (·.name == p.1)).map (·.ty)).getD v.ty⟩ : TVal))
        let _ ← runBody t false this fuel o.ctorBody (attrEnv ++ ctorEnv)
        -- the argument nodes
        let nodes : List NV ← match (args.map (·.v) : List V) with
          | [V.nodes l] => pure l
          | vs => vs.mapM fun v => match v with | V.node n => pure n | _ => stuck "add_operator: node expected"
        -- 1. number of arguments
        let okN := match o.argn with
          | .num k => nodes.length == k
          | .nonzero => nodes.length > 0
          | .any => true
          | .unsupported _ => false
        if !okN then throwE
        -- 2. CHECK_NODE on every argument
        if nodes.any (fun n => n.graph != g) then throwE
        -- 3. device of the results
        let dev ← if o.device != "" then
            (match (attrEnv.lookup "device_").map (·.v), (attrEnv.lookup "param_").map (·.v) with
             | some (V.dev d), _ => pure d
             | _, some (V.param p) => (match st.params.lookup p with | some tv => pure tv.dev | none => stuck "param")
             | _, _ => stuck "get_device")
          else match nodes with
            | n :: _ => pure n.dev
            | [] => throwE
        -- 4. FWD_SHAPE
        let xsh : Env := ("x*", ⟨.shapes (nodes.map (·.shape)), "shapeptrs"⟩) ::
          (xNames.zip nodes).map fun (p : String × NV) => (p.1, (⟨.shape p.2.shape, "shape"⟩ : TVal))
        let (envS, _) ← runBody t false this fuel o.fwdShape.body (attrEnv ++ xsh)
        let shapes : List Shape ← match o.retn with
          | .num k => (List.range k).mapM fun i =>
              match (envS.lookup (if i == 0 then "y0" else s!"y{i}")).map (·.v) with
              | some (V.shape s) => pure s
              | _ => stuck "FWD_SHAPE did not assign y"
          | .attr _ => (match (envS.lookup "y[i]").map (·.v) with
              | some (V.shapes l) => pure l
              | _ => pure [])
          | .unsupported _ => stuck "retn"
        -- 5. commit
        bumpOps g
        -- will FORWARD throw?  (interpreted on shapes and devices)
        let argLazy := nodes.any (·.lazyErr)
        let lazy ← if argLazy then pure true else if o.innerValues then pure false else do
          let xt : Env := ("x*", ⟨.tensors (nodes.map fun n => ⟨n.shape, n.dev⟩), "varptrs"⟩) ::
            (xNames.zip nodes).map fun (p : String × NV) => (p.1, (⟨.tensor ⟨p.2.shape, p.2.dev⟩, "var"⟩ : TVal))
          let s0 ← get
          let r := (runBody t false this fuel o.fwd.body (attrEnv ++ xt)).run.run s0
          match r.1 with
          | .ok _ => pure false
          | .error .error => pure true
          | .error e => throw e
        let res : List NV := shapes.map fun s => ⟨s, dev, g, lazy⟩
        pure (← storeC c (.nodes res) env, none)
    else stuck s!"call kind {c.kind}"

end

def FUELC : Nat := 400

/-! ### the line protocol -/

structure Var where
  n : List NV
  t : Option (List TV)
  random : Bool
  isvec : Bool
deriving Inhabited

structure State where
  is : IS
  vars : List (String × Var)
  curDev : Nat
  curGraph : Nat
deriving Inhabited

def init : State := ⟨⟨0, 0, 0, 0, []⟩, [], 0, 0⟩

def devIndex (s : String) : Option Nat :=
  if s == "naive" then some 0 else if s == "naive2" then some 1 else if s == "eigen" then some 2 else none

def parseShapeTok (tk : String) : Option (R Shape) :=
  if !tk.startsWith "S:" then none else
  match ((tk.drop 2).toString.splitOn "/") with
  | [ds, b] => do
    let dims ← parseNatCsv ds
    let batch ← b.toNat?
    pure (Shape.new dims batch)
  | _ => none

def parseIdsTok (tk : String) : Option (List Nat) :=
  if !tk.startsWith "I:" then none else
  (do let l ← parseNatCsv (tk.drop 2).toString; if l.all (· < W) then some l else none)

def isNumberTok (s : String) : Bool :=
  match s.toList.head? with
  | some c => c.isDigit || c == '-' || c == '.'
  | none => false

def parseFloatTok (s : String) : Option V :=
  match parseNum s with
  | some (.num n d _) => some (.num n d true)
  | _ => none

def parseDataTok (tk : String) : Option Nat :=
  if !tk.startsWith "D:" then none else
  let b := (tk.drop 2).toString
  if b == "" then some 0 else
  let parts := b.splitOn ","
  if parts.all (fun p => (parseFloatTok p).isSome) then some parts.length else none

/-- argument kinds of the line protocol -/
inductive K where
  | x | u | f | i32 | ids | sh | vl | vlp | devn | data | b | curdev
  /-- a fixed float argument (default argument of the C++ function) -/
  | fconst
deriving DecidableEq

/-- protocol name ↦ (kind of call, C++ name, argument kinds in C++ order) -/
def sig (f : String) : Option (String × String × List K) :=
  let un := ["positive", "negative", "abs", "sqrt", "exp", "log", "tanh", "sigmoid", "softplus", "sin", "cos", "tan",
             "relu", "lrelu", "flatten", "transpose", "stop_gradient", "batch::sum", "batch::mean", "batch::normalize"]
  let xd := ["flip", "max", "min", "sum", "mean", "logsumexp", "log_softmax", "softmax"]
  if un.contains f then some ("fn", f, [.x])
  else if xd.contains f then some ("fn", f, [.x, .u])
  else if f == "selu" then some ("fn", "selu", [.x, .fconst, .fconst])
  else if f == "selu2" then some ("fn", "selu", [.x, .f, .f])
  else if f == "neg" then some ("op", "neg", [.x])
  else if f == "pos" then some ("op", "pos", [.x])
  else if f == "pown" then some ("fn", f, [.x, .i32])
  else if f == "prelu" || f == "elu" then some ("fn", f, [.x, .f])
  else if f == "input" then some ("fn", f, [.sh, .data, .curdev])
  else if f == "copy" then none   -- see arithSig: the device argument may be omitted
  else if f == "pick" then some ("fn", f, [.x, .ids, .u])
  else if f == "slice" then some ("fn", f, [.x, .u, .u, .u])
  else if f == "split" then some ("fn", f, [.x, .u, .u])
  else if f == "concat" then some ("fn", f, [.vl, .u])
  else if f == "concat_ptr" then some ("fn", "concat", [.vlp, .u])
  else if f == "reshape" then some ("fn", f, [.x, .sh])
  else if f == "permute_dims" then some ("fn", f, [.x, .ids])
  else if f == "matmul" then some ("fn", f, [.x, .x])
  else if f == "broadcast" then some ("fn", f, [.x, .u, .u])
  else if f == "conv2d" then some ("fn", f, [.x, .x, .u, .u, .u, .u, .u, .u])
  else if f == "max_pool2d" then some ("fn", f, [.x, .u, .u, .u, .u, .u, .u])
  else if f == "batch::pick" then some ("fn", f, [.x, .ids])
  else if f == "batch::slice" then some ("fn", f, [.x, .u, .u])
  else if f == "batch::split" then some ("fn", f, [.x, .u])
  else if f == "batch::concat" then some ("fn", f, [.vl])
  else if f == "batch::concat_ptr" then some ("fn", "batch::concat", [.vlp])
  else if f == "constant" then some ("fn", f, [.sh, .f, .curdev])
  else if f == "zeros" || f == "ones" then some ("fn", f, [.sh, .curdev])
  else if f == "identity" then some ("fn", f, [.u, .curdev])
  else if f == "dropout" then some ("fn", f, [.x, .f, .b])
  else if f == "random::bernoulli" then some ("fn", f, [.sh, .f, .curdev])
  else if f == "random::uniform" || f == "random::normal" || f == "random::log_normal" || f == "random::gumbel" then
    some ("fn", f, [.sh, .f, .f, .curdev])
  else none

def findVar (st : State) (tok : String) : Option (Var × Nat × Bool) :=
  match tok.splitOn "." with
  | [name] => (st.vars.lookup name).map fun v => (v, 0, true)
  | [name, ix] => match st.vars.lookup name, ix.toNat? with
    | some v, some i => some (v, i, false)
    | _, _ => none
  | _ => none

/-- one variable token on one API; `none` = bad-op; `some none` = no value on this API -/
def varArg (st : State) (node : Bool) (tok : String) : Option (Option V) :=
  match findVar st tok with
  | none => none
  | some (v, i, whole) =>
    if (whole && v.isvec) || (!whole && !v.isvec) || i ≥ v.n.length then none
    else if node then (v.n[i]?).map fun n => some (.node n)
    else match v.t with
      | none => some none
      | some l => (l[i]?).map fun x => some (.tensor x)

def varList (tok : String) : Option (List String) :=
  if !tok.startsWith "V:" then none else
  let b := (tok.drop 2).toString
  if b == "" then some [] else some (b.splitOn ",")

/-- arguments of a call on one API: `none` bad-op, `some none` a value is missing on this API -/
def buildArgs (st : State) (node : Bool) : List K → List String → Option (Option (List TVal))
  | [], [] => some (some [])
  | [], _ :: _ => none
  | k :: ks, toks =>
    let withRest (v : Option TVal) (rest : List String) : Option (Option (List TVal)) :=
      match buildArgs st node ks rest with
      | none => none
      | some none => some none
      | some (some l) => match v with | none => some none | some x => some (some (x :: l))
    match k with
    | .curdev => withRest (some ⟨.dev st.curDev, "dev"⟩) toks
    | .fconst => withRest (some ⟨.num 1 1 true, "f32"⟩) toks
    | _ =>
      match toks with
      | [] => none
      | tk :: rest =>
        match k with
        | .x => (match varArg st node tk with
                 | none => none
                 | some none => (match buildArgs st node ks rest with | none => none | some _ => some none)
                 | some (some v) => withRest (some ⟨v, "var"⟩) rest)
        | .u => (match tk.toNat? with
                 | some n => if n < W && tk.all Char.isDigit then withRest (some ⟨u32 n, "u32"⟩) rest else none
                 | none => none)
        | .i32 => (match tk.toInt? with
                   | some n => if n ≥ -2147483647 && n ≤ 2147483647 then withRest (some ⟨.num n 1 false, "i32"⟩) rest else none
                   | none => none)
        | .f => (match parseFloatTok tk with | some v => withRest (some ⟨v, "f32"⟩) rest | none => none)
        | .b => (match tk.toNat? with | some n => withRest (some ⟨.bool (n != 0), "bool"⟩) rest | none => none)
        | .ids => (match parseIdsTok tk with | some l => withRest (some ⟨.ids l, "ids"⟩) rest | none => none)
        | .sh => (match parseShapeTok tk with
                  | none => none
                  | some (.ok s) => withRest (some ⟨.shape s, "shape"⟩) rest
                  -- the Shape constructor throws while the arguments are evaluated
                  | some (.error _) => (match buildArgs st node ks rest with | none => none | some _ => some (some [⟨.unit, "throw"⟩])))
        | .data => (match parseDataTok tk with | some n => withRest (some ⟨.floats n, "floats"⟩) rest | none => none)
        | .devn => (match devIndex tk with | some d => withRest (some ⟨.dev d, "dev"⟩) rest | none => none)
        | .vl | .vlp =>
          (match varList tk with
           | none => none
           | some names =>
             match names.mapM (varArg st node) with
             | none => none
             | some vs =>
               if vs.any Option.isNone then (match buildArgs st node ks rest with | none => none | some _ => some none)
               else
                 let l := vs.filterMap id
                 let v : V := if node then .nodes (l.filterMap fun x => match x with | .node n => some n | _ => none)
                              else .tensors (l.filterMap fun x => match x with | .tensor n => some n | _ => none)
                 withRest (some ⟨v, if k == .vl then "vars" else "varptrs"⟩) rest)
        | _ => none

/-- variable tokens of a call, as the harness collects them -/
def varTokens (toks : List String) : List String :=
  toks.flatMap fun tk =>
    if tk.startsWith "S:" || tk.startsWith "I:" || tk.startsWith "D:" then []
    else if tk.startsWith "V:" then (varList tk).getD []
    else if isNumberTok tk then []
    else if (devIndex tk).isSome then []
    else [tk]

/-- the five arithmetic functions and operators take `x k`, `k x` or `a b` -/
def arithSig (f : String) (toks : List String) : Option (String × String × List K) :=
  if f == "copy" then
    (match toks with
     | [_] => some ("fn", f, [.x])
     | [_, _] => some ("fn", f, [.x, .devn])
     | _ => none)
  else if f == "softmax_cross_entropy" then
    (match toks with
     | [_, b, _] => some ("fn", f, if b.startsWith "I:" then [.x, .ids, .u] else [.x, .x, .u])
     | _ => none)
  else
  let fns := ["add", "subtract", "multiply", "divide", "pow"]
  let ops := [("op+", "+"), ("op-", "-"), ("op*", "*"), ("op/", "/")]
  match toks with
  | [a, b] =>
    if isNumberTok a && isNumberTok b then none
    else
      let ks : List K := if isNumberTok b then [.x, .f] else if isNumberTok a then [.f, .x] else [.x, .x]
      if fns.contains f then some ("fn", f, ks)
      else (ops.lookup f).map fun o => ("op", o, ks)
  | _ => none

def shapesStr (l : List Shape) (isvec : Bool) : String :=
  if !isvec then (l.headD default).toStr
  else
    let h := l.headD default
    s!"{l.length}*" ++ (if l.isEmpty then "none" else if l.all (fun s => s.eq h && s.dims == h.dims) then h.toStr else "mixed")

inductive Res where
  | ok (v : V)
  | err
  | crash
  | stuck (m : String)

def runApi (st : State) (node : Bool) (kind name : String) (ks : List K) (toks : List String) : Option (Res × IS) :=
  match buildArgs st node ks toks with
  | none => none
  | some none => some (.err, st.is)          -- a value is missing on this API
  | some (some args) =>
    if args.any (fun a => a.ty == "throw") then some (.err, st.is) else
    let t := Primitiv.Gen.OpTable.table
    let is0 : IS := { st.is with defGraph := st.curGraph, defDev := st.curDev }
    let act : M (Option TVal) :=
      if kind == "op" then
        match findArith t name (args.map (·.ty)) with
        | some f => runFn t node st.curDev FUELC f args
        | none => stuck s!"operator {name}"
      else
        match findFn t node name (args.map (·.ty)) with
        | some f => runFn t node st.curDev FUELC f args
        | none => stuck s!"function {name}"
    let (r, is1) := act.run.run is0
    match r with
    | .ok (some v) => some (.ok v.v, is1)
    | .ok none => some (.stuck "no value returned", is1)
    | .error .error => some (.err, is1)
    | .error .crash => some (.crash, is1)
    | .error (.stuck m) => some (.stuck m, is1)

/-- the shapes of an accepted call -/
def resShapes : Res → Option (List Shape)
  | .ok (.node n) => some [n.shape]
  | .ok (.nodes l) => some (l.map (·.shape))
  | .ok (.tensor x) => some [x.shape]
  | .ok (.tensors l) => some (l.map (·.shape))
  | _ => none

/-- evaluating the new node(s) will throw -/
def resLazy : Res → Bool
  | .ok (.node n) => n.lazyErr
  | .ok (.nodes l) => l.any (·.lazyErr)
  | _ => false

/-- the state of a single-graph program: every variable lives in the default graph -/
def State.singleGraph (st : State) : Prop :=
  ∀ p ∈ st.vars, ∀ n ∈ p.2.n, n.graph = st.curGraph

/-- every variable has a value on both APIs -/
def State.allEager (st : State) : Prop :=
  ∀ p ∈ st.vars, p.2.t.isSome = true ∧ ∀ n ∈ p.2.n, n.lazyErr = false

def isRandom (f : String) (toks : List String) : Bool :=
  f.startsWith "random::" ||
  (f == "dropout" && match toks with
    | [_, r, e] => e != "0" && (match parseFloatTok r with
        | some (.num n d _) => !(n == 0) && !(n == d)
        | _ => false)
    | _ => false)

def doLet (st : State) (name f : String) (toks : List String) : State × String :=
  let sg := match sig f with | some s => some s | none => arithSig f toks
  match sg with
  | none => (st, "bad-op")
  | some (kind, cname, ks) =>
    -- bookkeeping of the harness
    let vts := varTokens toks
    match vts.mapM (findVar st) with
    | none => (st, "bad-op")
    | some recs =>
      let graphs := recs.map fun r => ((r.1.n.headD default).graph)
      let devs := recs.map fun r => ((r.1.n.headD default).dev)
      let g0 := graphs.headD st.curGraph
      let d0 := devs.headD st.curDev
      let mixedGraph := graphs.any (· != g0)
      let mixedDev := f != "copy" && devs.any (· != d0)
      let random := isRandom f toks || recs.any (·.1.random)
      let isvec := f == "split" || f == "batch::split"
      match runApi st true kind cname ks toks, runApi st false kind cname ks toks with
      | none, _ => (st, "bad-op")
      | _, none => (st, "bad-op")
      | some (rn, is1), some (rt, _) =>
        let st1 := { st with is := { is1 with defGraph := st.is.defGraph, defDev := st.is.defDev } }
        let tshapes : Option (List TV) := match rt with
          | .ok (.tensor x) => some [x]
          | .ok (.tensors l) => some l
          | _ => none
        match rn, rt with
        | .stuck m, _ => (st1, "model-stuck node: " ++ m)
        | _, .stuck m => (st1, "model-stuck tensor: " ++ m)
        | .crash, _ => (st1, "crash")
        | _, .crash => (st1, "crash")
        | .err, _ =>
          if mixedGraph then (st1, "err graph")
          else match tshapes with
            | none => (st1, "err")
            | some l => (st1, "err tensor-ok " ++ shapesStr (l.map (·.shape)) isvec)
        | .ok v, _ =>
          let ns : List NV := match v with | .node n => [n] | .nodes l => l | _ => []
          let out := "ok " ++ shapesStr (ns.map (·.shape)) isvec
          let (out, tv) := match tshapes with
            | none => (out ++ (if mixedDev then " devmix" else " tensor-err"), none)
            | some l =>
              if l.length == ns.length && (l.zip ns).all (fun p => p.1.shape.eq p.2.shape && p.1.shape.dims == p.2.shape.dims) then
                (out ++ (if mixedDev then " tensor-accepts-devmix" else ""), some l)
              else (out ++ " tensor-shape " ++ shapesStr (l.map (·.shape)) isvec, some l)
          let var : Var := ⟨ns, tv, random, isvec⟩
          ({ st1 with vars := (name, var) :: st1.vars }, out)

def refNode (st : State) (tok : String) : Option (NV × Var) :=
  match findVar st tok with
  | none => none
  | some (v, i, whole) =>
    if (whole && v.isvec) || (!whole && !v.isvec) then none
    else (v.n[i]?).map fun n => (n, v)

def step (st : State) (line : String) : State × String :=
  match words line with
  | ["dev", d] => (match devIndex d with | some i => ({ st with curDev := i }, "ok") | none => (st, "bad-op"))
  | ["graph", g] => if g == "0" then ({ st with curGraph := 0 }, "ok") else if g == "1" then ({ st with curGraph := 1 }, "ok") else (st, "bad-op")
  | ["param", p, s, d] =>
    (match parseShapeTok s, parseDataTok d with
     | some rs, some n =>
       if (st.vars.lookup p).isSome then (st, "bad-op")
       else match rs with
         | .error .error => (st, "err")
         | .error .crash => (st, "crash")
         | .ok sh =>
           if n != sh.size then (st, "err")
           else
             let tv : TV := ⟨sh, st.curDev⟩
             let is1 : IS := { st.is with params := (p, tv) :: st.is.params }
             let is2 : IS := if st.curGraph == 0 then { is1 with nops0 := is1.nops0 + 1 } else { is1 with nops1 := is1.nops1 + 1 }
             let var : Var := ⟨[⟨sh, st.curDev, st.curGraph, false⟩], some [tv], false, false⟩
             ({ st with is := is2, vars := (p, var) :: st.vars }, "ok " ++ sh.toStr)
     | _, _ => (st, "bad-op"))
  | "let" :: name :: "=" :: f :: toks => doLet st name f toks
  | ["force", tok] =>
    (match refNode st tok with
     | none => (st, "bad-op")
     | some (n, v) =>
       if n.lazyErr then (st, "err")
       else if v.t.isNone then (st, "ok node-only " ++ n.shape.toStr)
       else if v.random then (st, "ok random " ++ n.shape.toStr)
       else (st, "ok same " ++ n.shape.toStr))
  | ["backward", tok] =>
    (match refNode st tok with
     | none => (st, "bad-op")
     | some (n, _) => if n.lazyErr then (st, "err") else (st, "ok"))
  | [op, p] =>
    if op == "grad" || op == "value" then
      (match st.is.params.lookup p with
       | some tv => (st, "ok " ++ tv.shape.toStr)
       | none => (st, "bad-op"))
    else (st, "bad-op")
  | ["resetgrad"] => (st, "ok")
  | ["nops"] => (st, s!"ok {st.is.nops0} {st.is.nops1}")
  | _ => (st, "bad-op")

/-- the stdin loop; flushes after every line (the program generators talk to a live driver) -/
partial def ioLoop (h out : IO.FS.Stream) (st : State) : IO Unit := do
  let line ← h.getLine
  if line.isEmpty then
    out.flush
    return ()
  let l := line.trimAscii.toString
  if l.isEmpty || l.startsWith "#" then
    ioLoop h out st
  else
    let (st', o) := step st l
    out.putStrLn o
    out.flush
    ioLoop h out st'

def main : IO Unit := do
  let stdin ← IO.getStdin
  let stdout ← IO.getStdout
  ioLoop stdin stdout init

end Primitiv.Drv.FuncsDrv
