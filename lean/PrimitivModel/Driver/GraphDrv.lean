import PrimitivModel.Model.Graph
import PrimitivModel.Driver.Util
/-
Driver of the `graph` family: the generic graph model of Model/Graph.lean at
`τ = List Int`, with the user-defined operators the harness registers through
`Graph::add_operator` (all element values are small integers, so the real
library's float32 arithmetic is exact).

Protocol (stateful; one history per stream):
  D <n>                         element count of every tensor in this history
  param <v,…>                   new Parameter (ids 0,1,…) with value, gradient 0
  pgrad <p> <v,…>               overwrite the gradient of parameter p
  padd <p> <v,…>                p.value() += v   (what an optimizer update does)
  reset <p>                     p.reset_gradient()
  pinit <p> <d> <k>             p.init(shape, Constant(k), device d): value k everywhere, gradient 0; d = 0 the
                                device of the history, 1 a second device object of the same backend (devices are
                                not part of the model: every well-formed call is device-consistent)
  graph                         new Graph (ids 0,1,…)
  P <g> <p>                     parameter node            → `ok n<k>` (node ids are global, consecutive)
  I <g> <v,…>                   input node (constant)
  L <g> <rows> ; <args>         linear user operator, rows = r1;r2;… each a csv of coefficients,
                                one row per return value: y_j = sat(Σ_i C[j][i]·x_i)   → `ok n<k> … n<k+r-1>`
  M <g> <a> <b>                 elementwise product user operator
  S <g> <a>                     stop_gradient (the library's own operator)
  F <g> <a>                     flatten (the library's own operator: its value is a view of the argument's memory)
  N <g> <a>                     user operator with identity forward and NOP backward
  R <g>                         random source (user operator drawing the next sample of a global stream)
  failin <k>                    the (k+1)-th operator forward from now throws
  force <n>                     Node::to_vector   → `ok <v,…> | <operator ids evaluated by this call>`
  gforce <n> / gbackward <n>    the same two requests through Graph::forward(node) / Graph::backward(node)
  backward <n>                  Node::backward    → `ok | <operator ids evaluated>`
  grad <p> / pval <p>           → `ok <v,…>`
  rndpos                        position of the random stream → `ok <k>`
  counters <g>                  how often each operator's forward ran → `ok c0,c1,…`
Node arguments of L/M/S/N must belong to graph g; a node of another graph is
rejected (`err`).
-/
namespace Primitiv.Drv.GraphDrv
open Primitiv.Graph Primitiv.Drv

abbrev T := List Int

def tops : TOps T where
  zeros n := List.replicate n 0
  ones n := List.replicate n 1
  add a b := List.zipWith (· + ·) a b

/-- the saturation all user operators apply (keeps every value exactly representable in float32) -/
def sat (c : Int) : Int := if c > 65536 ∨ c < -65536 then c.tmod 7 else c

def scale (k : Int) (v : T) : T := v.map (k * ·)
def addV (a b : T) : T := List.zipWith (· + ·) a b
def mulV (a b : T) : T := List.zipWith (· * ·) a b
def satV (v : T) : T := v.map sat

def linComb (D : Nat) (coefs : List Int) (xs : List T) : T :=
  satV ((coefs.zip xs).foldl (fun acc (c, x) => addV acc (scale c x)) (List.replicate D 0))

def linSem (D : Nat) (rows : List (List Int)) : OpSem T where
  nret := rows.length
  fwd xs := some (rows.map fun row => linComb D row xs)
  bwd xs _ gys :=
    (List.range xs.length).map fun i =>
      some (linComb D (rows.map fun row => row.getD i 0) gys)

def mulSem : OpSem T where
  nret := 1
  fwd xs := match xs with
    | [a, b] => some [satV (mulV a b)]
    | _ => none
  bwd xs _ gys := match xs, gys with
    | [a, b], [g] => [some (satV (mulV g b)), some (satV (mulV g a))]
    | _, _ => []

/-- the library's `Flatten` operator on the vectors of this family: identity forward (a view of the argument's
memory in the implementation), the gradient passed through unchanged -/
def idPassSem : OpSem T where
  nret := 1
  fwd xs := match xs with
    | [a] => some [a]
    | _ => none
  bwd _ _ gys := match gys with
    | [g] => [some g]
    | _ => [none]
  faulty := false

def idNopSem : OpSem T where
  nret := 1
  fwd xs := match xs with
    | [a] => some [a]
    | _ => none
  bwd _ _ _ := [none]

def inputSem (v : T) : OpSem T where
  nret := 1
  fwd _ := some [v]
  bwd _ _ _ := []

def sampleFn (k n : Nat) : T := (List.range n).map fun i => (Int.ofNat ((k * n + i) % 7)) - 3

structure GS where
  ops : List (OpInfo T) := []
  log : List Nat := []
  /-- operators of the library itself: the harness cannot observe their forward calls -/
  silent : List Nat := []

structure St where
  D : Nat := 1
  pval : List T := []
  pgrad : List T := []
  graphs : List GS := []
  nodes : List (Nat × Addr) := []     -- node id ↦ (graph, address)
  rndPos : Nat := 0
  failIn : Option Nat := none

def St.params (s : St) : Params T where
  value p := s.pval.getD p []
  grad p := s.pgrad.getD p []

def St.gstate (s : St) (g : Nat) : Option (State T) :=
  match s.graphs[g]? with
  | none => none
  | some gs => some { ops := gs.ops, params := s.params, log := gs.log, rndPos := s.rndPos,
                      sample := sampleFn, failIn := s.failIn }

/-- write a graph state back (parameters, stream position and fault schedule are shared) -/
def St.putG (s : St) (g : Nat) (gs : State T) : St :=
  { s with
    graphs := s.graphs.set g { ops := gs.ops, log := gs.log, silent := (s.graphs.getD g {}).silent }
    pval := (List.range s.pval.length).map gs.params.value
    pgrad := (List.range s.pgrad.length).map gs.params.grad
    rndPos := gs.rndPos
    failIn := gs.failIn }

def showV (v : T) : String := csv v

def parseVec (D : Nat) (t : String) : Option T := do
  let v ← parseIntCsv t
  if v.length = D then some v else none

def nodeOf (s : St) (tok : String) : Option (Nat × Addr) :=
  if tok.startsWith "n" then do
    let k ← (tok.drop 1).toString.toNat?
    s.nodes[k]?
  else none

def showNodes (first n : Nat) : String :=
  "ok " ++ " ".intercalate ((List.range n).map fun i => s!"n{first + i}")

/-- register operator with node arguments given as tokens -/
def addOp (s : St) (g : Nat) (kind : Kind T) (nret : Nat) (argToks : List String) (lib : Bool := false) : St × String :=
  match s.gstate g with
  | none => (s, "bad-op")
  | some gs =>
    match argToks.mapM (nodeOf s) with
    | none => (s, "bad-op")
    | some args =>
      -- graph.cc: CHECK_NODE rejects a node of another graph ("Graph mismatched")
      let foreign := args.any fun (g', _) => g' != g
      if foreign then (s, "err")
      else
        match addOperator gs kind (args.map (·.2)) (List.replicate nret s.D) with
        | .error .crash => (s, "crash")
        | .error .error => (s, "err")
        | .ok (gs', oid) =>
          let first := s.nodes.length
          let s' := s.putG g gs'
          let s' := if lib then { s' with graphs := s'.graphs.modify g fun x => { x with silent := oid :: x.silent } } else s'
          ({ s' with nodes := s'.nodes ++ (List.range nret).map fun i => (g, ⟨oid, i⟩) }, showNodes first nret)

def showLog (s : St) (g : Nat) (before after : List Nat) : String :=
  let sil := (s.graphs.getD g {}).silent
  " ".intercalate (((after.drop before.length).filter fun o => !sil.contains o).map toString)

/-- `gforce n` / `gbackward n` are the same requests entering through `Graph::forward(node)` /
`Graph::backward(node)` (what the C API calls) instead of through the Node: one model operation each -/
def entryAlias : List String → List String
  | ["gforce", n] => ["force", n]
  | ["gbackward", n] => ["backward", n]
  | ws => ws

def step (s : St) (line : String) : St × String :=
  match entryAlias (words line) with
  | ["D", n] => match n.toNat? with
    | some d => ({ s with D := d }, "ok")
    | none => (s, "bad-op")
  | ["param", v] => match parseVec s.D v with
    | some v => ({ s with pval := s.pval ++ [v], pgrad := s.pgrad ++ [List.replicate s.D 0] }, s!"ok p{s.pval.length}")
    | none => (s, "bad-op")
  | ["pgrad", p, v] => match p.toNat?, parseVec s.D v with
    | some p, some v => if p < s.pgrad.length then ({ s with pgrad := s.pgrad.set p v }, "ok") else (s, "bad-op")
    | _, _ => (s, "bad-op")
  | ["padd", p, v] => match p.toNat?, parseVec s.D v with
    | some p, some v => if p < s.pval.length then ({ s with pval := s.pval.set p (addV (s.pval.getD p []) v) }, "ok") else (s, "bad-op")
    | _, _ => (s, "bad-op")
  | ["pinit", p, d, k] => match p.toNat?, d.toNat?, k.toInt? with
    | some p, some d, some k =>
      if p < s.pval.length && d ≤ 1 && -1000 ≤ k && k ≤ 1000 then
        ({ s with pval := s.pval.set p (List.replicate s.D k), pgrad := s.pgrad.set p (List.replicate s.D 0) }, "ok")
      else (s, "bad-op")
    | _, _, _ => (s, "bad-op")
  | ["reset", p] => match p.toNat? with
    | some p => if p < s.pgrad.length then ({ s with pgrad := s.pgrad.set p (List.replicate s.D 0) }, "ok") else (s, "bad-op")
    | none => (s, "bad-op")
  | ["graph"] => ({ s with graphs := s.graphs ++ [{}] }, s!"ok g{s.graphs.length}")
  | ["P", g, p] => match g.toNat?, p.toNat? with
    | some g, some p => if p < s.pval.length then addOp s g (.param p) 1 [] else (s, "bad-op")
    | _, _ => (s, "bad-op")
  | ["I", g, v] => match g.toNat?, parseVec s.D v with
    | some g, some v => addOp s g (.op (inputSem v)) 1 []
    | _, _ => (s, "bad-op")
  | "L" :: g :: rows :: ";" :: args => match g.toNat?, (rows.splitOn ";").mapM parseIntCsv with
    | some g, some rs =>
      if rs.all (fun r => r.length = args.length) && args.length > 0 then addOp s g (.op (linSem s.D rs)) rs.length args
      else (s, "bad-op")
    | _, _ => (s, "bad-op")
  | ["M", g, a, b] => match g.toNat? with
    | some g => addOp s g (.op mulSem) 1 [a, b]
    | none => (s, "bad-op")
  | ["S", g, a] => match g.toNat? with
    | some g => addOp s g (.op { idNopSem with faulty := false }) 1 [a] true
    | none => (s, "bad-op")
  | ["F", g, a] => match g.toNat? with
    | some g => addOp s g (.op idPassSem) 1 [a] true
    | none => (s, "bad-op")
  | ["N", g, a] => match g.toNat? with
    | some g => addOp s g (.op idNopSem) 1 [a]
    | none => (s, "bad-op")
  | ["R", g] => match g.toNat? with
    | some g => addOp s g .rnd 1 []
    | none => (s, "bad-op")
  | ["failin", k] => match k.toNat? with
    | some k => ({ s with failIn := some k }, "ok")
    | none => (s, "bad-op")
  | ["force", n] => match nodeOf s n with
    | none => (s, "bad-op")
    | some (g, a) => match s.gstate g with
      | none => (s, "bad-op")
      | some gs =>
        match forward tops gs a with
        | (gs', .ok v) => (s.putG g gs', s!"ok {showV v} | {showLog s g gs.log gs'.log}")
        | (gs', .error .error) => (s.putG g gs', s!"err | {showLog s g gs.log gs'.log}")
        | (gs', .error .crash) => (s.putG g gs', "crash")
  | ["backward", n] => match nodeOf s n with
    | none => (s, "bad-op")
    | some (g, a) => match s.gstate g with
      | none => (s, "bad-op")
      | some gs =>
        match backward tops gs a with
        | (gs', .ok ()) => (s.putG g gs', s!"ok | {showLog s g gs.log gs'.log}")
        | (gs', .error .error) => (s.putG g gs', s!"err | {showLog s g gs.log gs'.log}")
        | (gs', .error .crash) => (s.putG g gs', "crash")
  | ["grad", p] => match p.toNat? with
    | some p => match s.pgrad[p]? with
      | some v => (s, s!"ok {showV v}")
      | none => (s, "bad-op")
    | none => (s, "bad-op")
  | ["pval", p] => match p.toNat? with
    | some p => match s.pval[p]? with
      | some v => (s, s!"ok {showV v}")
      | none => (s, "bad-op")
    | none => (s, "bad-op")
  | ["rndpos"] => (s, s!"ok {s.rndPos}")
  | ["counters", g] => match g.toNat? with
    | some g => match s.graphs[g]? with
      | some gs => (s, "ok " ++ csv ((List.range gs.ops.length).map fun i => if gs.silent.contains i then 0 else gs.log.count i))
      | none => (s, "bad-op")
    | none => (s, "bad-op")
  | _ => (s, "bad-op")

def main : IO Unit := runLoop step {}

end Primitiv.Drv.GraphDrv
