import PrimitivModel.Model.KernelsArith
import PrimitivModel.Driver.Util
/-
Driver of the `karith` family (arithmetic kernels).  Stateless protocol

    <dev> <kernel> <tensor>… <arg>…

* dev: `naive` | `eigen` (selects the generated formula; the hand-modelled loop
  kernels are the same function for both)
* tensor: `T:<d0,d1,…>/<batch>:<v0,v1,…>`, passed through the Shape constructor;
  `O:…` is a tensor that lives on the OTHER backend's device: every entry point starts
  with CHECK_DEVICE on each operand, so a well-formed line with such an operand is `err`
* value: a decimal integer, or `x<16 hex digits>` = the bits of a double
* float argument: `K:<value>`; integer arguments: decimals

Two value domains.  A line whose values are all integers and whose kernel uses
ring operations and comparisons only is evaluated at `Int` (results printed as
decimal integers).  Every other line is evaluated at `Float` (results printed as
the bits of the double).  `<name>_grad` lines evaluate the generated *forward*
formula at dual numbers (value, derivative) with a table of scalar derivatives
and print `gy * f'(x)` — they never look at a backward formula.

Result: `ok [dims]xB v,v,… (| [dims]xB v,v,…)` | `err` | `bad-op`.
-/
namespace Primitiv.Drv.KarithDrv
open Primitiv Primitiv.Drv Primitiv.Arith Primitiv.Gen.Elementwise

/-! ### scalar domains -/

def powNat10 (e : Nat) : Nat := 10 ^ e

def floatFns : Fns Float where
  lit m e := Float.ofNat m / Float.ofNat (powNat10 e)
  exp := Float.exp
  log := Float.log
  tanh := Float.tanh
  sqrt := Float.sqrt
  sin := Float.sin
  cos := Float.cos
  tan := Float.tan
  abs := Float.abs
  sign x := if x > 0 then 1 else if x < 0 then -1 else if x == 0 then 0 else x
  pow := Float.pow
  unsupported _ := 0.0 / 0.0

def intFns : Fns Int where
  lit m e := (m : Int) / (powNat10 e : Int)
  exp _ := 0
  log _ := 0
  tanh _ := 0
  sqrt _ := 0
  sin _ := 0
  cos _ := 0
  tan _ := 0
  abs x := (x.natAbs : Int)
  sign x := if x > 0 then 1 else if x < 0 then -1 else 0
  pow _ _ := 0
  unsupported _ := 0

/-- dual numbers over Float: forward-mode derivative of a scalar formula -/
structure Dual where
  v : Float
  d : Float

namespace Dual
instance : Add Dual := ⟨fun a b => ⟨a.v + b.v, a.d + b.d⟩⟩
instance : Sub Dual := ⟨fun a b => ⟨a.v - b.v, a.d - b.d⟩⟩
instance : Mul Dual := ⟨fun a b => ⟨a.v * b.v, a.d * b.v + a.v * b.d⟩⟩
instance : Div Dual := ⟨fun a b => ⟨a.v / b.v, (a.d * b.v - a.v * b.d) / (b.v * b.v)⟩⟩
instance : Neg Dual := ⟨fun a => ⟨-a.v, -a.d⟩⟩
instance : LT Dual := ⟨fun a b => a.v < b.v⟩
instance : LE Dual := ⟨fun a b => a.v ≤ b.v⟩
instance : DecidableLT Dual := fun a b => inferInstanceAs (Decidable (a.v < b.v))
instance : DecidableLE Dual := fun a b => inferInstanceAs (Decidable (a.v ≤ b.v))
def const (x : Float) : Dual := ⟨x, 0⟩
end Dual

/-- the table of scalar derivatives (written from calculus, not from the BACKWARD text) -/
def dualFns : Fns Dual where
  lit m e := ⟨floatFns.lit m e, 0⟩
  exp a := ⟨Float.exp a.v, a.d * Float.exp a.v⟩
  log a := ⟨Float.log a.v, a.d / a.v⟩
  tanh a := let t := Float.tanh a.v; ⟨t, a.d * (1 - t * t)⟩
  sqrt a := let s := Float.sqrt a.v; ⟨s, a.d / (2 * s)⟩
  sin a := ⟨Float.sin a.v, a.d * Float.cos a.v⟩
  cos a := ⟨Float.cos a.v, -(a.d * Float.sin a.v)⟩
  tan a := let t := Float.tan a.v; ⟨t, a.d * (1 + t * t)⟩
  abs a := ⟨Float.abs a.v, a.d * floatFns.sign a.v⟩
  sign a := ⟨floatFns.sign a.v, 0⟩
  pow a b :=
    let v := Float.pow a.v b.v
    let da := if a.d == 0 then 0 else a.d * b.v * Float.pow a.v (b.v - 1)
    let db := if b.d == 0 then 0 else b.d * Float.log a.v * v
    ⟨v, da + db⟩
  unsupported _ := ⟨0.0 / 0.0, 0.0 / 0.0⟩

/-- what the generic executor needs to know about a scalar domain -/
structure Dom (α : Type) where
  parse : String → Option α
  shw : α → String
  junk : α
  zero : α
  one : α
  lowest : α
  ofInt : Int → α
  F : Fns α

def hexVal (c : Char) : Option Nat :=
  if '0' ≤ c ∧ c ≤ '9' then some (c.toNat - '0'.toNat)
  else if 'a' ≤ c ∧ c ≤ 'f' then some (c.toNat - 'a'.toNat + 10)
  else none

def parseHex (s : String) : Option Nat :=
  if s.length = 0 then none else s.toList.foldlM (fun acc c => do let d ← hexVal c; pure (acc * 16 + d)) 0

def hexDigit (n : Nat) : Char := if n < 10 then Char.ofNat (48 + n) else Char.ofNat (87 + n)

def toHex16 (n : Nat) : String :=
  String.ofList ((List.range 16).map fun i => hexDigit ((n / 16 ^ (15 - i)) % 16))

def isIntTok (s : String) : Bool := s.toInt?.isSome

def parseFloatTok (s : String) : Option Float :=
  if s.startsWith "x" then
    let h := (s.drop 1).toString
    if h.length ≠ 16 then none else (parseHex h).map fun n => Float.ofBits (UInt64.ofNat n)
  else s.toInt?.map Float.ofInt

def showFloat (f : Float) : String := "x" ++ toHex16 f.toBits.toNat

/-- `std::numeric_limits<float>::lowest()` = −(2^128 − 2^104) -/
def lowestInt : Int := -340282346638528859811704183484516925440

def floatDom : Dom Float where
  parse := parseFloatTok
  shw := showFloat
  junk := 0.0 / 0.0
  zero := 0
  one := 1
  lowest := Float.ofInt lowestInt
  ofInt := Float.ofInt
  F := floatFns

def intDom : Dom Int where
  parse := String.toInt?
  shw := toString
  junk := 987654321
  zero := 0
  one := 1
  lowest := lowestInt
  ofInt := id
  F := intFns

/-! ### parsing -/

structure RawT where
  dims : List Nat
  batch : Nat
  vals : List String

def parseRawT (t : String) : Option RawT :=
  if !(t.startsWith "T:" || t.startsWith "O:") then none else
  match (t.drop 2).toString.splitOn ":" with
  | [sh, vs] =>
    match sh.splitOn "/" with
    | [ds, b] => do
      let dims ← parseNatCsv ds
      let batch ← b.toNat?
      if dims.any (· ≥ W) || batch ≥ W then none
      else pure ⟨dims, batch, if vs = "" then [] else vs.splitOn ","⟩
    | _ => none
  | _ => none

structure Line where
  dev : String
  kern : String
  ts : List RawT
  ks : List String
  ns : List Int
  other : Bool

def isTensorTok (w : String) : Bool := w.startsWith "T:" || w.startsWith "O:"

def parseLine (line : String) : Option Line :=
  match words line with
  | dev :: kern :: rest =>
    if dev ≠ "naive" ∧ dev ≠ "eigen" then none else
    let tt := rest.takeWhile isTensorTok
    let r1 := rest.dropWhile isTensorTok
    let kt := r1.takeWhile (·.startsWith "K:")
    let r2 := r1.dropWhile (·.startsWith "K:")
    do
      let ts ← tt.mapM parseRawT
      let ns ← r2.mapM String.toInt?
      pure ⟨dev, kern, ts, kt.map fun k => (k.drop 2).toString, ns, tt.any (·.startsWith "O:")⟩
  | _ => none

/-- kernels that use ring operations and comparisons only -/
def exactKernels : List String :=
  ["negate_fw", "abs_fw", "abs_bw", "add_const_fw", "add_const_bw", "subtract_const_r_fw", "subtract_const_r_bw",
   "subtract_const_l_fw", "subtract_const_l_bw", "multiply_const_fw", "multiply_const_bw", "prelu_fw", "prelu_bw",
   "add_scalar_fw", "subtract_scalar_r_fw", "subtract_scalar_l_fw", "multiply_scalar_fw",
   "add_fw", "subtract_fw", "multiply_fw", "add_bw", "subtract_bw", "multiply_bw",
   "matmul_fw", "matmul_bw", "conv2d_fw", "conv2d_bw", "max_pool2d_fw", "max_pool2d_bw",
   "inplace_multiply_const", "inplace_add", "inplace_subtract"]

def allInt (l : Line) : Bool :=
  l.ts.all (fun t => t.vals.all isIntTok) && l.ks.all isIntTok

def useInt (l : Line) : Bool :=
  allInt l && (exactKernels.contains l.kern || (l.kern == "pown_fw" && l.ns.all (· ≥ 0)))

/-! ### the generic executor -/
section exec
variable {α : Type} [Add α] [Sub α] [Mul α] [Div α] [Neg α] [LT α] [LE α] [DecidableLT α] [DecidableLE α] [BEq α]

inductive Res (α : Type) where
  | bad
  | err
  | ok (ts : List (Tensor α))

def ofR (r : R (List (Tensor α))) : Res α :=
  match r with
  | .ok ts => .ok ts
  | .error _ => .err

def one1 (r : R (Tensor α)) : Res α := ofR (r.map fun t => [t])

def two (sa sb : Shape) (r : R (Grad2 α)) : Res α := ofR (r.map fun g => [⟨sa, g.ga⟩, ⟨sb, g.gb⟩])

/-- values → tensors; `none` = malformed token or wrong number of values -/
def mkTensors (D : Dom α) (raws : List RawT) : Option (R (List (Tensor α))) := do
  let vals ← raws.mapM fun r => r.vals.mapM D.parse
  let shapes := raws.map fun r => Shape.new r.dims r.batch
  match shapes.mapM id with
  | .error e => pure (.error e)
  | .ok ss =>
    if (ss.zip vals).any (fun p => p.1.size ≠ p.2.length) then none
    else pure (.ok ((ss.zip vals).map fun p => let arr := p.2.toArray; ⟨p.1, fun i => arr.getD i D.junk⟩))

def u32 (n : Int) : Option Nat := if 0 ≤ n ∧ n < 4294967296 then some n.toNat else none
def i32 (n : Int) : Bool := -2147483648 ≤ n ∧ n ≤ 2147483647

def strip (kern suffix : String) : Option String :=
  if kern.endsWith suffix then some (kern.dropEnd suffix.length).toString else none

def binBwKernel (D : Dom α) (name : String) (a b y gy ga gb : Tensor α) :
    Option ((size bs skipA skipB : Nat) → Grad2 α) :=
  match name with
  | "add" => some fun size bs sa sb => addBw size bs sa sb gy.data ga.data gb.data
  | "subtract" => some fun size bs sa sb => subtractBw size bs sa sb gy.data ga.data gb.data
  | "multiply" => some fun size bs sa sb => multiplyBw size bs sa sb a.data b.data gy.data ga.data gb.data
  | "divide" => some fun size bs sa sb => divideBw size bs sa sb b.data y.data gy.data ga.data gb.data
  | "pow" => some fun size bs sa sb => powBw D.F.log size bs sa sb a.data b.data y.data gy.data ga.data gb.data
  | _ => none

def runKernel (D : Dom α) (dev kern : String) (ts : List (Tensor α)) (ks : List α) (ns : List Int) : Res α :=
  let F := D.F
  match strip kern "_fw", strip kern "_bw" with
  | some base, _ =>
    match ts, ks, ns with
    | [x], [], [] =>
      match fwX F dev base with
      | some f => one1 (devUnaryFw f x)
      | none => .bad
    | [x], [k], [] =>
      match fwXConst F dev base with
      | some f => one1 (devUnaryFw (fun v => f v k) x)
      | none => .bad
    | [x], [], [k] =>
      if base = "pown" then
        if i32 k then one1 (devUnaryFw (pownElem D.one k) x) else .bad
      else if base = "logsumexp" then
        match u32 k with
        | some dim => one1 (devLogsumexpFw F x dim)
        | none => .bad
      else .bad
    | [a, b], [], [] =>
      if base = "matmul" then one1 (devMatmulFw D.zero a b D.junk)
      else match fwXScalar F dev base with
        | some f => one1 (devScalarFw f a b D.junk)
        | none =>
          match fwAB F dev base with
          | some f => one1 (devBinFw f a b D.junk)
          | none => .bad
    | [x, w], [], [p0, p1, s0, s1, d0, d1] =>
      if base = "conv2d" then
        match u32 p0, u32 p1, u32 s0, u32 s1, u32 d0, u32 d1 with
        | some p0, some p1, some s0, some s1, some d0, some d1 =>
          one1 (devConv2dFw D.zero x w p0 p1 s0 s1 d0 d1 D.junk)
        | _, _, _, _, _, _ => .bad
      else .bad
    | [x], [], [w0, w1, p0, p1, s0, s1] =>
      if base = "max_pool2d" then
        match u32 w0, u32 w1, u32 p0, u32 p1, u32 s0, u32 s1 with
        | some w0, some w1, some p0, some p1, some s0, some s1 =>
          one1 (devMaxPoolFw D.lowest x w0 w1 p0 p1 s0 s1 D.junk)
        | _, _, _, _, _, _ => .bad
      else .bad
    | _, _, _ => .bad
  | none, some base =>
    match ts, ks, ns with
    | [x, y, gy, gx], [], [] =>
      match bwX F dev base with
      | some f => one1 (devUnaryBw f x y gy gx)
      | none => .bad
    | [x, y, gy, gx], [k], [] =>
      match bwXConst F dev base with
      | some f => one1 (devConstBw (fun xv yv gv => f xv yv gv k) x y gy gx)
      | none => .bad
    | [x, y, gy, gx], [], [k] =>
      if base = "pown" ∧ i32 k then one1 (devConstBw (pownBwElem D.ofInt k) x y gy gx) else .bad
    | [a, b, y, gy, ga, gb], [], [] =>
      if base = "matmul" then two ga.shape gb.shape (devMatmulBw a b y gy ga gb)
      else match binBwKernel D base a b y gy ga gb with
        | some kf => two ga.shape gb.shape (devBinBw kf a.shape b.shape y.shape gy.shape ga.shape gb.shape)
        | none => .bad
    | [x, w, y, gy, gx, gw], [], [p0, p1, s0, s1, d0, d1] =>
      if base = "conv2d" then
        match u32 p0, u32 p1, u32 s0, u32 s1, u32 d0, u32 d1 with
        | some p0, some p1, some s0, some s1, some d0, some d1 =>
          two gx.shape gw.shape (devConv2dBw x w y gy gx gw p0 p1 s0 s1 d0 d1)
        | _, _, _, _, _, _ => .bad
      else .bad
    | [x, y, gy, gx], [], [w0, w1, p0, p1, s0, s1] =>
      if base = "max_pool2d" then
        match u32 w0, u32 w1, u32 p0, u32 p1, u32 s0, u32 s1 with
        | some w0, some w1, some p0, some p1, some s0, some s1 =>
          one1 (devMaxPoolBw x y gy gx w0 w1 p0 p1 s0 s1)
        | _, _, _, _, _, _ => .bad
      else .bad
    | _, _, _ => .bad
  | none, none =>
    match kern, ts, ks, ns with
    | "inplace_multiply_const", [x], [k], [] => .ok [⟨x.shape, inplaceMulConst k x.data⟩]
    | "inplace_add", [x, y], [], [] => one1 (devInplaceAdd x y)
    | "inplace_subtract", [x, y], [], [] => one1 (devInplaceSub x y)
    | _, _, _, _ => .bad

def showTensor (D : Dom α) (t : Tensor α) : String :=
  t.shape.toStr ++ " " ++ ",".intercalate ((List.range t.shape.size).map fun i => D.shw (t.data i))

def showRes (D : Dom α) (r : Res α) : String :=
  match r with
  | .bad => "bad-op"
  | .err => "err"
  | .ok ts => "ok " ++ " | ".intercalate (ts.map (showTensor D))

def execIn (D : Dom α) (l : Line) : String :=
  match l.ks.mapM D.parse with
  | none => "bad-op"
  | some ks =>
    match mkTensors D l.ts with
    | none => "bad-op"
    | some (.error _) => "err"
    | some (.ok ts) => showRes D (runKernel D l.dev l.kern ts ks l.ns)

end exec

/-! ### `_grad` lines: gy · f′(x) from the forward formula, by dual numbers -/

def lift (t : Tensor Float) (seed : Float) : Buf Dual := fun i => ⟨t.data i, seed⟩

/-- unary / const / pown: `gx[i] = gy[i] * (d/dx fw)(x[i])` -/
def gradUnary (f : Dual → Dual) (x gy : Tensor Float) : Res Float :=
  if !x.shape.eq gy.shape then .err
  else .ok [⟨x.shape, fun i => gy.data i * (f ⟨x.data i, 1⟩).d⟩]

/-- broadcasting binary: the two partial derivatives of the forward formula, accumulated with
the batch folded for a batch-1 operand -/
def gradBinary (f : Dual → Dual → Dual) (a b gy : Tensor Float) : Res Float :=
  match ShapeOps.elementwise a.shape b.shape with
  | .error _ => .err
  | .ok ys =>
    if !ys.eq gy.shape then .err else
    let size := ys.volume
    let sa := skipOf a.shape size
    let sb := skipOf b.shape size
    let its := range2 ys.batch size
    let da := fun (t : Nat × Nat) => (f ⟨a.data (t.1 * sa + t.2), 1⟩ ⟨b.data (t.1 * sb + t.2), 0⟩).d
    let db := fun (t : Nat × Nat) => (f ⟨a.data (t.1 * sa + t.2), 0⟩ ⟨b.data (t.1 * sb + t.2), 1⟩).d
    .ok [⟨a.shape, fun j => scatterAddAt its (fun t => t.1 * sa + t.2) (fun t => gy.data (t.1 * size + t.2) * da t) 0 j⟩,
         ⟨b.shape, fun j => scatterAddAt its (fun t => t.1 * sb + t.2) (fun t => gy.data (t.1 * size + t.2) * db t) 0 j⟩]

def runGrad (dev base : String) (ts : List (Tensor Float)) (ks : List Float) (ns : List Int) : Res Float :=
  match ts, ks, ns with
  | [x, gy], [], [] =>
    match fwX dualFns dev base with
    | some f => gradUnary f x gy
    | none => .bad
  | [x, gy], [k], [] =>
    match fwXConst dualFns dev base with
    | some f => gradUnary (fun v => f v ⟨k, 0⟩) x gy
    | none => .bad
  | [x, gy], [], [k] =>
    if base = "pown" ∧ i32 k then gradUnary (pownElem (⟨1, 0⟩ : Dual) k) x gy else .bad
  | [a, b, gy], [], [] =>
    match fwAB dualFns dev base with
    | some f => gradBinary f a b gy
    | none => .bad
  | _, _, _ => .bad

/-- the line as if every operand lived on `<dev>` -/
def execSameDev (l : Line) : String :=
    match strip l.kern "_grad" with
    | some base =>
      match l.ks.mapM floatDom.parse, mkTensors floatDom l.ts with
      | some ks, some (.ok ts) => showRes floatDom (runGrad l.dev base ts ks l.ns)
      | some _, some (.error _) => "err"
      | _, _ => "bad-op"
    | none =>
      if useInt l then execIn intDom l else execIn floatDom l

def exec (line : String) : String :=
  match parseLine line with
  | none => "bad-op"
  | some l =>
    let r := execSameDev l
    -- CHECK_DEVICE precedes every shape check: a call with a foreign operand throws
    if l.other && r != "bad-op" then "err" else r

def step (_ : Unit) (line : String) : Unit × String := ((), exec line)

def main : IO Unit := runLoop step ()

end Primitiv.Drv.KarithDrv
