import PrimitivModel.Model.KernelsMove
import PrimitivModel.Driver.Util
/-
Driver of the `kernels` family (data movement, axis-wise reduction, selection).
Stateless: one kernel call per line,

    <dev> <kernel> <tensor tokens…> <natural arguments…>

Tensor tokens: `T:<d0,d1,…>/<batch>:<v0,v1,…>` (a tensor on the device called,
created with new_tensor_by_vector), `O:…` (the same on the *other* device),
`I` (a default-constructed, invalid Tensor), `S:<dims>/<batch>` (a Shape),
`V:<v0,…>` (a list of values).  Values are small integers.  A token whose
shape the Shape constructor rejects, or whose number of values is not the size
of the shape, makes the line `err` (that is what the constructor /
new_tensor_by_vector do).  The device token is ignored: the model is one
function for both backends.
Results: `ok T:<dims>/<batch>:<values>`, `ok ids:<…>`, `err`, `crash`, `bad-op`.
-/
namespace Primitiv.Drv.KernelsDrv
open Primitiv Primitiv.Drv Primitiv.Move

abbrev T := Tensor Int

inductive Tok where
  | tensor (t : R T)
  | shape (s : R Shape)
  | vals (v : List Int)

def parseShape (t : String) : Option (R Shape) :=
  match t.splitOn "/" with
  | [ds, b] => do
    let dims ← parseNatCsv ds
    let batch ← b.toNat?
    pure (Shape.new dims batch)
  | _ => none

def mkTensor (rs : R Shape) (vals : List Int) (loc : Loc) : R T := do
  let s ← rs
  if vals.length ≠ s.size then throwError
  else pure ⟨s, fun i => vals.getD i 0, loc⟩

def parseTok (w : String) : Option Tok :=
  if w = "I" then some (.tensor (pure ⟨Shape.scalar, fun _ => 0, .invalid⟩))
  else
    match w.splitOn ":" with
    | ["T", sh, vs] => do
      let s ← parseShape sh
      let v ← parseIntCsv vs
      pure (.tensor (mkTensor s v .here))
    | ["O", sh, vs] => do
      let s ← parseShape sh
      let v ← parseIntCsv vs
      pure (.tensor (mkTensor s v .other))
    | ["S", sh] => do
      let s ← parseShape sh
      pure (.shape s)
    | ["V", vs] => do
      let v ← parseIntCsv vs
      pure (.vals v)
    | _ => none

structure Args where
  ts : List (R T) := []
  ss : List (R Shape) := []
  vs : List (List Int) := []
  ns : List Nat := []

/-- tokens first (in any order among themselves), then naturals -/
def parseArgs : List String → Args → Option Args
  | [], a => some a
  | w :: ws, a =>
    if w = "I" || w.contains ':' then
      if !a.ns.isEmpty then none else
      match parseTok w with
      | some (.tensor t) => parseArgs ws { a with ts := a.ts ++ [t] }
      | some (.shape s) => parseArgs ws { a with ss := a.ss ++ [s] }
      | some (.vals v) => parseArgs ws { a with vs := a.vs ++ [v] }
      | none => none
    else
      match w.toNat? with
      | some n => if n < W then parseArgs ws { a with ns := a.ns ++ [n] } else none
      | none => none

def seqR {α} : List (R α) → R (List α)
  | [] => pure []
  | x :: xs => do let a ← x; let as ← seqR xs; pure (a :: as)

def showT (t : T) : String :=
  s!"ok T:{csv t.shape.dims}/{t.shape.batch}:{csv ((List.range t.shape.size).map t.data)}"

def showR (r : R T) : String :=
  match r with
  | .ok t => showT t
  | .error .error => "err"
  | .error .crash => "crash"

def showIds (r : R (List Nat)) : String :=
  match r with
  | .ok l => s!"ok ids:{csv l}"
  | .error .error => "err"
  | .error .crash => "crash"

def raw : Nat → Int := fun _ => 0

/-- `Tensor::argmax/argmin/to_vector/reset*` call the tensor's *own* device:
for these a tensor "on the other device" is simply a tensor. -/
def own (x : T) : T := if x.loc = .other then { x with loc := .here } else x

def exec (line : String) : String :=
  match words line with
  | _dev :: op :: rest =>
    match parseArgs rest {} with
    | none => "bad-op"
    | some a =>
      match seqR a.ts, seqR a.ss with
      | .error .crash, _ | _, .error .crash => "crash"
      | .error .error, _ | _, .error .error => "err"
      | .ok ts, .ok ss =>
        match op, ts, ss, a.vs, a.ns with
        | "pick_fw", [x], [], [], dim :: ids => showR (pickFw x ids dim raw)
        | "pick_bw", [gy, gx], [], [], dim :: ids => showR (pickBw gy ids dim gx)
        | "slice_fw", [x], [], [], [dim, lo, up] => showR (sliceFw x dim lo up raw)
        | "slice_bw", [gy, gx], [], [], [dim, off] => showR (sliceBw gy dim off gx)
        | "concat_fw", xs, [], [], [dim] => showR (concatFw xs dim raw)
        | "transpose_fw", [x], [], [], [] => showR (transposeFw x raw)
        | "transpose_bw", [x, y, gy, gx], [], [], [] => showR (transposeBw x y gy gx raw)
        | "permute_dims_fw", [x], [], [], perm => showR (permuteFw x perm raw)
        | "permute_dims_bw", [x, y, gy, gx], [], [], perm => showR (permuteBw x y gy perm gx)
        | "flip_fw", [x], [], [], [dim] => showR (flipFw x dim raw)
        | "flip_bw", [gy, gx], [], [], [dim] => showR (flipBw gy dim gx)
        | "sum_fw", [x], [], [], [dim] => showR (sumFw x dim)
        | "broadcast_fw", [x], [], [], [dim, size] => showR (broadcastFw x dim size raw)
        | "max_fw", [x], [], [], [dim] => showR (maxFw x dim)
        | "min_fw", [x], [], [], [dim] => showR (minFw x dim)
        | "max_bw", [x, y, gy, gx], [], [], [dim] => showR (maxBw x y gy dim gx)
        | "min_bw", [x, y, gy, gx], [], [], [dim] => showR (minBw x y gy dim gx)
        | "argmax", [x], [], [], [dim] => showIds (argmax (own x) dim)
        | "argmin", [x], [], [], [dim] => showIds (argmin (own x) dim)
        | "batch_pick_fw", [x], [], [], ids => showR (batchPickFw x ids raw)
        | "batch_pick_bw", [gy, gx], [], [], ids => showR (batchPickBw gy ids gx)
        | "batch_slice_fw", [x], [], [], [lo, up] => showR (batchSliceFw x lo up raw)
        | "batch_slice_bw", [gy, gx], [], [], [off] => showR (batchSliceBw gy off gx)
        | "batch_concat_fw", xs, [], [], [] => showR (batchConcatFw xs raw)
        | "batch_sum_fw", [x], [], [], [] => showR (batchSumFw x)
        | "copy", [x], [], [], [] => showR (copyTensor x raw)
        | "identity", [], [], [], [n] => showR (identity (0 : Int) 1 n)
        | "new_const", [], [s], [], [k] => showR (newConstant s (k : Int))
        | "new_array", [], [s], [v], [] =>
          if v.length ≠ s.size then "bad-op"
          else showR (resetByArray (fun i => v.getD i 0) ⟨s, raw, .here⟩ raw)
        | "new_vector", [], [s], [v], [] => showR (resetByVector v 0 ⟨s, raw, .here⟩ raw)
        | "reset", [x], [], [], [k] => showR (resetTensor (k : Int) (own x))
        | "reset_array", [x], [], [v], [] =>
          if v.length ≠ x.shape.size then "bad-op"
          else showR (resetByArray (fun i => v.getD i 0) (own x) raw)
        | "reset_vector", [x], [], [v], [] => showR (resetByVector v 0 (own x) raw)
        | "to_vector", [x], [], [], [] =>
          match toVector (own x) with
          | .ok l => s!"ok vec:{csv l}"
          | .error .error => "err"
          | .error .crash => "crash"
        | _, _, _, _, _ => "bad-op"
  | _ => "bad-op"

def step (_ : Unit) (line : String) : Unit × String := ((), exec line)

def main : IO Unit := runLoop step ()

end Primitiv.Drv.KernelsDrv
