import PrimitivModel.Model.Msgpack
import PrimitivModel.Driver.Util
/-
Driver of the `msgpack` family.

  w <type> <value words…>      → ok <hex> | err            (Writer <<)
  r <type> <hex>               → ok <value words…> rest=<n> | err eof | err type   (Reader >>)
  rr bin|ext|str <hex>         → the second of two consecutive reads into one variable
  mv bin <hex a> <hex b>       → ok <hex of a after a = std::move(b)> <b valid?>
  mv ext <ta> <hex a> <tb> <hex b>

type  ::= nil | bool | u8 | u16 | u32 | u64 | i8 | i16 | i32 | i64 | f32 | f64 | str | bin | ext
        | arr:<type> | map:<type>:<type>
value ::= nil | true/false | decimal | 8/16 hex digits (f32/f64 bit pattern) | hex bytes (`-` = empty)
        | <ext type, signed decimal> <hex> | <n> <value>*n | <n> (<key> <value>)*n
Map entries are printed sorted by the printed key.
-/
namespace Primitiv.Drv.MsgpackDrv
open Primitiv Primitiv.Drv Primitiv.Msgpack

def hexDigit (n : Nat) : Char := if n < 10 then Char.ofNat (48 + n) else Char.ofNat (87 + n)

def hexOfBytes (bs : Bytes) : String :=
  if bs.isEmpty then "-" else String.ofList (bs.foldr (fun b acc => hexDigit (b / 16 % 16) :: hexDigit (b % 16) :: acc) [])

def hexVal (c : Char) : Option Nat :=
  let n := c.toNat
  if 48 ≤ n ∧ n ≤ 57 then some (n - 48)
  else if 97 ≤ n ∧ n ≤ 102 then some (n - 87)
  else none

def bytesOfHexChars : List Char → Option Bytes
  | [] => some []
  | [_] => none
  | a :: b :: r => do
    let x ← hexVal a
    let y ← hexVal b
    let t ← bytesOfHexChars r
    pure ((x * 16 + y) :: t)

def bytesOfHex (s : String) : Option Bytes :=
  if s = "-" then some [] else if s.isEmpty then none else bytesOfHexChars s.toList

def natOfHexChars (cs : List Char) : Option Nat :=
  cs.foldlM (fun acc c => do let v ← hexVal c; pure (acc * 16 + v)) 0

/-- fixed-width hex word (`digits` hex digits) -/
def wordOfHex (digits : Nat) (s : String) : Option Nat :=
  if s.length = digits then natOfHexChars s.toList else none

def hexOfWord (digits : Nat) (w : Nat) : String :=
  String.ofList ((List.range digits).reverse.map fun i => hexDigit (w / 16 ^ i % 16))

/-- A C++ type the harness can read and write: its codec, and the textual form of its values. -/
structure Packed where
  α : Type
  codec : Codec α
  deq : DecidableEq α
  parse : List String → Option (α × List String)
  print : α → List String

def unsignedP (bits : Nat) (α : Type) (c : Codec α) (deq : DecidableEq α) (ofNat : Nat → α) (toNat : α → Nat) : Packed :=
  { α := α, codec := c, deq := deq,
    parse := fun ws => match ws with
      | w :: r => do let n ← w.toNat?; if n < 2 ^ bits then some (ofNat n, r) else none
      | [] => none,
    print := fun v => [toString (toNat v)] }

def signedP (bits : Nat) (α : Type) (c : Codec α) (deq : DecidableEq α) (ofNat : Nat → α) (toNat : α → Nat) : Packed :=
  { α := α, codec := c, deq := deq,
    parse := fun ws => match ws with
      | w :: r => do
        let i ← w.toInt?
        if -(2 ^ (bits - 1) : Int) ≤ i ∧ i < (2 ^ (bits - 1) : Int) then some (ofNat (ofSigned bits i), r) else none
      | [] => none,
    print := fun v => [toString (toSigned bits (toNat v))] }

def wordP (digits : Nat) (α : Type) (c : Codec α) (deq : DecidableEq α) (ofNat : Nat → α) (toNat : α → Nat) : Packed :=
  { α := α, codec := c, deq := deq,
    parse := fun ws => match ws with
      | w :: r => do let n ← wordOfHex digits w; some (ofNat n, r)
      | [] => none,
    print := fun v => [hexOfWord digits (toNat v)] }

def bytesP (c : Codec Bytes) : Packed :=
  { α := Bytes, codec := c, deq := inferInstance,
    parse := fun ws => match ws with
      | w :: r => do let b ← bytesOfHex w; some (b, r)
      | [] => none,
    print := fun v => [hexOfBytes v] }

def parseN {α : Type} (p : List String → Option (α × List String)) : Nat → List String → Option (List α × List String)
  | 0, ws => some ([], ws)
  | n + 1, ws => do
    let (v, r) ← p ws
    let (vs, r') ← parseN p n r
    pure (v :: vs, r')

def arrP (e : Packed) : Packed :=
  { α := List e.α, codec := arr e.codec, deq := @instDecidableEqList _ e.deq,
    parse := fun ws => match ws with
      | w :: r => do let n ← w.toNat?; parseN e.parse n r
      | [] => none,
    print := fun l => toString l.length :: l.flatMap e.print }

def mapP (k v : Packed) : Packed :=
  let _ : DecidableEq k.α := k.deq
  let _ : DecidableEq v.α := v.deq
  { α := List (k.α × v.α), codec := map k.codec v.codec, deq := inferInstance,
    parse := fun ws => match ws with
      | w :: r => do
        let n ← w.toNat?
        -- the harness fills a std::unordered_map with emplace: the first entry of a key stays
        let (es, r') ← parseN (fun ws => do let (a, r) ← k.parse ws; let (b, r') ← v.parse r; pure ((a, b), r')) n r
        pure (insertAll k.codec es, r')
      | [] => none,
    print := fun l =>
      let keyed := l.map fun p => (" ".intercalate (k.print p.1), p)
      let sorted := keyed.mergeSort (fun a b => a.1 ≤ b.1)
      toString l.length :: sorted.flatMap fun kp => k.print kp.2.1 ++ v.print kp.2.2 }

/-- type expression (split at ':') → packed type and the unused components -/
partial def parseTy : List String → Option (Packed × List String)
  | [] => none
  | t :: rest =>
    match t with
    | "nil" => some ({ α := Unit, codec := nil, deq := inferInstance,
                       parse := fun ws => match ws with | "nil" :: r => some ((), r) | _ => none,
                       print := fun _ => ["nil"] }, rest)
    | "bool" => some ({ α := Bool, codec := bool, deq := inferInstance,
                        parse := fun ws => match ws with
                          | "true" :: r => some (true, r) | "false" :: r => some (false, r) | _ => none,
                        print := fun b => [toString b] }, rest)
    | "u8" => some (unsignedP 8 UInt8 u8 inferInstance UInt8.ofNat UInt8.toNat, rest)
    | "u16" => some (unsignedP 16 UInt16 u16 inferInstance UInt16.ofNat UInt16.toNat, rest)
    | "u32" => some (unsignedP 32 UInt32 u32 inferInstance UInt32.ofNat UInt32.toNat, rest)
    | "u64" => some (unsignedP 64 UInt64 u64 inferInstance UInt64.ofNat UInt64.toNat, rest)
    | "i8" => some (signedP 8 UInt8 i8 inferInstance UInt8.ofNat UInt8.toNat, rest)
    | "i16" => some (signedP 16 UInt16 i16 inferInstance UInt16.ofNat UInt16.toNat, rest)
    | "i32" => some (signedP 32 UInt32 i32 inferInstance UInt32.ofNat UInt32.toNat, rest)
    | "i64" => some (signedP 64 UInt64 i64 inferInstance UInt64.ofNat UInt64.toNat, rest)
    | "f32" => some (wordP 8 UInt32 f32 inferInstance UInt32.ofNat UInt32.toNat, rest)
    | "f64" => some (wordP 16 UInt64 f64 inferInstance UInt64.ofNat UInt64.toNat, rest)
    | "str" => some (bytesP str, rest)
    | "bin" => some (bytesP bin, rest)
    | "ext" => some ({ α := UInt8 × Bytes, codec := ext, deq := inferInstance,
                       parse := fun ws => match ws with
                         | t :: d :: r => do
                           let i ← t.toInt?
                           if -(128 : Int) ≤ i ∧ i < 128 then
                             let b ← bytesOfHex d
                             some ((UInt8.ofNat (ofSigned 8 i), b), r)
                           else none
                         | _ => none,
                       print := fun x => [toString (toSigned 8 x.1.toNat), hexOfBytes x.2] }, rest)
    | "arr" => do
      let (e, r) ← parseTy rest
      pure (arrP e, r)
    | "map" => do
      let (k, r) ← parseTy rest
      let (v, r') ← parseTy r
      pure (mapP k v, r')
    | _ => none

def parseType (s : String) : Option Packed :=
  match parseTy (s.splitOn ":") with
  | some (p, []) => some p
  | _ => none

def showErr : DErr → String
  | .eof => "err eof"
  | .type => "err type"
  | .invalid => "err invalid"

def exec (line : String) : String :=
  match words line with
  | "w" :: ty :: vws =>
    match parseType ty with
    | none => "bad-op"
    | some p =>
      match p.parse vws with
      | some (v, []) => if p.codec.fits v then "ok " ++ hexOfBytes (p.codec.enc v) else "err"
      | _ => "bad-op"
  | ["r", ty, hex] =>
    match parseType ty, bytesOfHex hex with
    | some p, some bs =>
      match p.codec.dec bs with
      | .ok v rest => "ok " ++ " ".intercalate (p.print v) ++ s!" rest={rest.length}"
      | .error e => showErr e
    | _, _ => "bad-op"
  | ["rr", ty, hex] =>
    -- two consecutive reads into the same variable; the second value is printed
    if ty ≠ "bin" ∧ ty ≠ "ext" ∧ ty ≠ "str" then "bad-op" else
    match parseType ty, bytesOfHex hex with
    | some p, some bs =>
      match p.codec.dec bs with
      | .ok _ rest =>
        match p.codec.dec rest with
        | .ok v _ => "ok " ++ " ".intercalate (p.print v)
        | .error e => showErr e
      | .error e => showErr e
    | _, _ => "bad-op"
  | ["mv", "bin", a, b] =>
    match bytesOfHex a, bytesOfHex b with
    | some x, some y =>
      let (a', b') := Obj.moveAssign ⟨some x⟩ ⟨some y⟩
      s!"ok {hexOfBytes (a'.data.getD [])} {b'.data.isSome}"
    | _, _ => "bad-op"
  | ["mv", "ext", ta, a, tb, b] =>
    match ta.toInt?, bytesOfHex a, tb.toInt?, bytesOfHex b with
    | some i, some x, some j, some y =>
      if -(128 : Int) ≤ i ∧ i < 128 ∧ -(128 : Int) ≤ j ∧ j < 128 then
        let (a', b') := Obj.moveAssign ⟨some x⟩ ⟨some y⟩
        s!"ok {j} {hexOfBytes (a'.data.getD [])} {b'.data.isSome}"
      else "bad-op"
    | _, _, _, _ => "bad-op"
  | _ => "bad-op"

def step (_ : Unit) (line : String) : Unit × String := ((), exec line)

def main : IO Unit := runLoop step ()

end Primitiv.Drv.MsgpackDrv
