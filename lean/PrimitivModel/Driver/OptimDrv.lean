import PrimitivModel.Model.Resume
import PrimitivModel.Spec.Optimizers
import PrimitivModel.Driver.Util
/-
Driver of the `optim` family (C12, C15).  Stateful protocol; numbers travel as
float32 bit patterns `x3f800000`, unsigned integers as `u7`.

  mode float|exact      float: scalars are float32 (every operation rounded to
                        binary32, `std::pow` in double as in the C++); exact: `Rat`
  engine model|spec     model = generated rules + Model/Optimizer.lean,
                        spec = Spec/Optimizers.lean (the oracle)
  device naive|eigen    (implementation only)
  opt o Kind [h…]       construct optimizer number o (defaults when no h)
  set o lr_scale|l2_strength|clip_threshold x…  |  set o epoch u…
  cfg o Key x…|u…       set_configs with the single key
  param p dims vals | param p invalid      (dims `-` = scalar)
  init p dims vals      Parameter::init on the existing object p
  grad p vals           write the gradient
  lgrad p a b           gradient of Σ ½·a·v² + b·v through a fresh graph
  add o p | addm o p…   add a parameter / a Model holding the parameters
  update o | reset o
  state o               get_configs, sorted
  pstate p names…       value, gradient and the named statistics that exist
  checkpoint o tag p:path…   save optimizer + model(with_stats)
  restore tag o' Kind dev p'…   fresh objects, load, add
  same p q bits|near names… | osame o o'
  resume Kind k n hyper|- lr l2 clip uEpoch A B names dims vals …
                        the statement of `Resume.equiv` executed: initState, train (k+n) against
                        train n ∘ restore ∘ checkpoint ∘ train k, gradients A[t]·v + B[t]
-/
namespace Primitiv.Drv.OptimDrv
open Primitiv Primitiv.Drv Primitiv.Opt Primitiv.Gen.Opt

/-! ### float32 scalars -/

/-- a float32 value carried in a double; every arithmetic operation rounds to
binary32 (double rounding is innocuous for + − × ÷ √ since 53 ≥ 2·24+2) -/
structure F32 where
  v : Float

def F32.rnd (x : Float) : F32 := ⟨x.toFloat32.toFloat⟩
instance : Add F32 := ⟨fun a b => F32.rnd (a.v + b.v)⟩
instance : Sub F32 := ⟨fun a b => F32.rnd (a.v - b.v)⟩
instance : Mul F32 := ⟨fun a b => F32.rnd (a.v * b.v)⟩
instance : Div F32 := ⟨fun a b => F32.rnd (a.v / b.v)⟩
instance : LT F32 := ⟨fun a b => a.v < b.v⟩
instance : LE F32 := ⟨fun a b => a.v ≤ b.v⟩
instance : DecidableLT F32 := fun a b => inferInstanceAs (Decidable (a.v < b.v))
instance : DecidableLE F32 := fun a b => inferInstanceAs (Decidable (a.v ≤ b.v))
instance {n : Nat} : OfNat F32 n := ⟨⟨Float.ofNat n⟩⟩
instance : OfScientific F32 := ⟨fun m s e => F32.rnd (OfScientific.ofScientific m s e : Float)⟩
def F32.bits (a : F32) : UInt32 := a.v.toFloat32.toBits
instance : BEq F32 := ⟨fun a b => a.bits == b.bits⟩

/-- `std::pow(float, uint32_t)` is evaluated in double and only the enclosing
expression is converted to float -/
def fnsF32 : Fns F32 :=
  { sqrt := fun a => F32.rnd a.v.sqrt,
    pow := fun b n => ⟨Float.pow b.v (Float.ofNat n)⟩,
    unsupported := fun _ => ⟨0.0 / 0.0⟩ }

def fnsRat : Fns Rat :=
  { sqrt := fun _ => 0, pow := fun b n => npow b n, unsupported := fun _ => 0 }

/-! ### numbers on the wire -/

def hexDigit (c : Char) : Option Nat :=
  if '0' ≤ c ∧ c ≤ '9' then some (c.toNat - '0'.toNat)
  else if 'a' ≤ c ∧ c ≤ 'f' then some (c.toNat - 'a'.toNat + 10)
  else none

def parseBits (t : String) : Option UInt32 :=
  match t.toList with
  | 'x' :: ds =>
    if ds.length ≠ 8 then none else
    (ds.foldlM (fun acc c => (hexDigit c).map (fun d => acc * 16 + d)) 0).map (fun n => UInt32.ofNat n)
  | _ => none

def hex8 (b : UInt32) : String :=
  let ds := (Nat.toDigits 16 b.toNat)
  "x" ++ String.ofList (List.replicate (8 - ds.length) '0' ++ ds)

/-- exact value of a finite float32 -/
def ratOfBits (b : UInt32) : Option Rat :=
  let n := b.toNat
  let sign : Int := if n / 2147483648 = 1 then -1 else 1
  let e := (n / 8388608) % 256
  let m := n % 8388608
  if e = 255 then none
  else if e = 0 then some ((sign * (m : Int) : Int) / ((2 : Rat) ^ 149))
  else
    let mant : Int := sign * ((m + 8388608 : Nat) : Int)
    if e ≥ 150 then some ((mant * ((2 : Int) ^ (e - 150)) : Int) : Rat)
    else some ((mant : Rat) / ((2 : Rat) ^ (150 - e)))

structure Num (α : Type) where
  F : Fns α
  ofBits : UInt32 → Option α
  show_ : α → String
  near : α → α → Bool

def numF32 : Num F32 :=
  { F := fnsF32,
    ofBits := fun b => some ⟨(Float32.ofBits b).toFloat⟩,
    show_ := fun a => hex8 a.bits,
    near := fun a b =>
      a == b || (a.v - b.v).abs ≤ 0.000003814697265625 * (max (max a.v.abs b.v.abs) 1.0) }

def numRat : Num Rat :=
  { F := fnsRat, ofBits := ratOfBits,
    show_ := fun q => s!"q{q.num}/{q.den}",
    near := fun a b => a == b }

/-! ### world -/

structure World (α : Type) where
  ps : List (Param α) := []
  opts : List (Opt α) := []
  ckpts : List (String × Ckpt α) := []

section
variable {α : Type} [Add α] [Sub α] [Mul α] [Div α] [OfNat α 0] [OfNat α 1]
variable [LT α] [LE α] [DecidableLT α] [DecidableLE α] [OfScientific α] [BEq α]

def parseNum (N : Num α) (t : String) : Option α := (parseBits t).bind N.ofBits

def parseNums (N : Num α) (t : String) : Option (List α) :=
  if t = "-" then some [] else (t.splitOn ",").mapM (parseNum N)

def parseU (t : String) : Option Nat :=
  match t.toList with
  | 'u' :: ds => (String.ofList ds).toNat?
  | _ => none

def showNums (N : Num α) (l : List α) : String :=
  if l.isEmpty then "-" else ",".intercalate (l.map N.show_)

def sortStrings (l : List String) : List String := (l.toArray.qsort (· < ·)).toList

def engineExec (N : Num α) (spec : Bool) : Op α → State α → State α × Bool :=
  if spec then Spec.exec N.F else Opt.exec N.F

/-- run one operation of optimizer `o` -/
def onOpt (N : Num α) (spec : Bool) (w : World α) (o : Nat) (op : Op α) : World α × String :=
  match w.opts[o]? with
  | none => (w, "bad-op")
  | some ob =>
    let r := engineExec N spec op { o := ob, ps := w.ps }
    ({ w with ps := r.1.ps, opts := w.opts.set o r.1.o }, if r.2 then "ok" else "err")

def showState (N : Num α) (o : Opt α) : String :=
  let us := o.base.getU.map (fun e => (e.1, s!"u{e.2}"))
  let fs := (allF o).map (fun e => (e.1, N.show_ e.2))
  -- an unordered_map keeps the first inserted entry of a key
  let all := (us ++ fs).foldl (fun acc e => if acc.any (fun x => x.1 == e.1) then acc else acc ++ [e]) []
  let keys := sortStrings (all.map (·.1))
  "ok " ++ " ".intercalate (keys.map (fun k => k ++ "=" ++ ((all.lookup k).getD "")))

def showParam (N : Num α) (p : Param α) (names : List String) : String :=
  let present := sortStrings (names.filter p.hasStat)
  "ok v=" ++ showNums N p.value ++ " g=" ++ showNums N p.grad ++
    String.join (present.map (fun n => " s:" ++ n ++ "=" ++ showNums N (p.stat n)))

def firstDiff (eq : α → α → Bool) (what : String) (a b : List α) : Option String :=
  if a.length ≠ b.length then some (what ++ ".size") else
  ((List.range a.length).find? (fun i => match a[i]?, b[i]? with
    | some x, some y => !(eq x y)
    | _, _ => true)).map (fun i => s!"{what}[{i}]")

def sameParams (N : Num α) (bits : Bool) (p q : Param α) (names : List String) : String :=
  let eq : α → α → Bool := if bits then (· == ·) else N.near
  let checks : List (Option String) :=
    [firstDiff eq "value" p.value q.value] ++
    (sortStrings names).map (fun n =>
      if p.hasStat n != q.hasStat n then some ("stats:" ++ n)
      else if p.hasStat n then firstDiff eq n (p.stat n) (q.stat n) else none)
  match checks.findSome? id with
  | some w => "ok differ " ++ w
  | none => "ok same"

def product (l : List Nat) : Nat := l.foldl (· * ·) 1

def pairUp : List String → Option (List (String × String))
  | [] => some []
  | a :: b :: t => (pairUp t).map ((a, b) :: ·)
  | _ => none

/-- gradient source of the `resume` experiment: at step `t` every element gets `A[t mod |A|]·v + B[t mod |B|]` -/
def cycGrad (as bs : List α) (t : Nat) (vs : List (List α)) : List (List α) :=
  let a := as.getD (t % as.length) 0
  let b := bs.getD (t % bs.length) 0
  vs.map (fun v => affineGrad (List.replicate v.length a) (List.replicate v.length b) v)

def showObs (N : Num α) (names : List String) (s : State α) : String :=
  String.join ((List.range s.ps.length).map (fun i =>
    match s.ps[i]? with
    | none => ""
    | some p =>
      s!" p{i}:v=" ++ showNums N p.value ++
        String.join ((sortStrings (names.filter p.hasStat)).map (fun n => s!" p{i}:{n}=" ++ showNums N (p.stat n)))))

def resumeExp (N : Num α) (k : Kind) (fields : List α) (b : Base α) (vals : List (List α)) (as bs : List α)
    (m n : Nat) (names : List String) : String :=
  let s0 := initState k fields b vals
  let G := cycGrad as bs
  let whole := train N.F G 0 (m + n) s0
  let resumed := train N.F G m n (restore N.F k (checkpoint (train N.F G 0 m s0)))
  let same := showState N whole.o == showState N resumed.o &&
    whole.ps.map (fun p => (p.valid, p.value, p.stats)) == resumed.ps.map (fun p => (p.valid, p.value, p.stats))
  (if same then "ok same" else "ok differ model") ++ showObs N names whole ++ " " ++ (showState N whole.o).drop 3

def stepW (N : Num α) (spec : Bool) (w : World α) (ws : List String) : World α × String :=
  match ws with
  | "opt" :: o :: kind :: hs =>
    match o.toNat?, Kind.ofName? kind, hs.mapM (parseNum N) with
    | some o, some k, some h =>
      if o ≠ w.opts.length then (w, "bad-op")
      else if h.isEmpty then ({ w with opts := w.opts ++ [fresh N.F k] }, "ok")
      else if h.length ≠ arity k then (w, "bad-op")
      else ({ w with opts := w.opts ++ [{ fresh N.F k with fields := h }] }, "ok")
    | _, _, _ => (w, "bad-op")
  | ["set", o, "epoch", v] =>
    match o.toNat?, parseU v with
    | some o, some n => if n < 4294967296 then onOpt N spec w o (.setEpoch n) else (w, "bad-op")
    | _, _ => (w, "bad-op")
  | ["set", o, key, v] =>
    match o.toNat?, parseNum N v with
    | some o, some x =>
      match key with
      | "lr_scale" => onOpt N spec w o (.setLr x)
      | "l2_strength" => onOpt N spec w o (.setL2 x)
      | "clip_threshold" => onOpt N spec w o (.setClip x)
      | _ => (w, "bad-op")
    | _, _ => (w, "bad-op")
  | ["cfg", o, key, v] =>
    match o.toNat? with
    | none => (w, "bad-op")
    | some o =>
      match parseU v, parseNum N v with
      | some n, _ => if n < 4294967296 then onOpt N spec w o (.cfgU key n) else (w, "bad-op")
      | none, some x => onOpt N spec w o (.cfgF key x)
      | none, none => (w, "bad-op")
  | ["param", p, "invalid"] =>
    match p.toNat? with
    | some p =>
      if p ≠ w.ps.length then (w, "bad-op")
      else ({ w with ps := w.ps ++ [{ valid := false, value := [], grad := [], stats := [] }] }, "ok")
    | none => (w, "bad-op")
  | ["param", p, dims, vals] =>
    match p.toNat?, parseNatCsv (if dims = "-" then "" else dims), parseNums N vals with
    | some p, some ds, some vs =>
      if p ≠ w.ps.length || ds.length > 8 || ds.any (· == 0) then (w, "bad-op")
      else if product ds ≠ vs.length then (w, "bad-op")
      else ({ w with ps := w.ps ++ [{ valid := true, value := vs, grad := zeros vs.length, stats := [] }] }, "ok")
    | _, _, _ => (w, "bad-op")
  | ["init", p, dims, vals] =>
    -- `Parameter::init`: the object becomes valid with the given values, zero gradient, no statistics
    match p.toNat?, parseNatCsv (if dims = "-" then "" else dims), parseNums N vals with
    | some p, some ds, some vs =>
      if p ≥ w.ps.length || ds.length > 8 || ds.any (· == 0) then (w, "bad-op")
      else if product ds ≠ vs.length then (w, "bad-op")
      else ({ w with ps := w.ps.set p { valid := true, value := vs, grad := zeros vs.length, stats := [] } }, "ok")
    | _, _, _ => (w, "bad-op")
  | ["grad", p, vals] =>
    match p.toNat?, parseNums N vals with
    | some p, some g =>
      match w.ps[p]? with
      | none => (w, "bad-op")
      | some _ =>
        -- gradient writes do not depend on an optimizer
        let r := setGrad (α := α) { o := { kind := default, fields := [], base := Base.init, reg := [] }, ps := w.ps } p g
        ({ w with ps := r.1.ps }, if r.2 then "ok" else "err")
    | _, _ => (w, "bad-op")
  | ["lgrad", p, a, b] =>
    match p.toNat?, parseNums N a, parseNums N b with
    | some p, some a, some b =>
      match w.ps[p]? with
      | none => (w, "bad-op")
      | some q =>
        if !q.valid then (w, "err")
        else if a.length ≠ q.value.length || b.length ≠ q.value.length then (w, "bad-op")
        else ({ w with ps := w.ps.set p { q with grad := affineGrad a b q.value } }, "ok")
    | _, _, _ => (w, "bad-op")
  | ["add", o, p] =>
    match o.toNat?, p.toNat? with
    | some o, some p => if p < w.ps.length then onOpt N spec w o (.add p) else (w, "bad-op")
    | _, _ => (w, "bad-op")
  | "addm" :: o :: ps =>
    match o.toNat?, ps.mapM String.toNat? with
    | some o, some ids =>
      if ids.any (fun i => i ≥ w.ps.length) || w.opts[o]?.isNone then (w, "bad-op") else
      -- add_inner(model): the parameters in name order, stopping at the first exception
      ids.foldl (fun (acc : World α × String) i =>
        if acc.2 == "ok" then onOpt N spec acc.1 o (.add i) else acc) (w, "ok")
    | _, _ => (w, "bad-op")
  | ["update", o] =>
    match o.toNat? with
    | some o => onOpt N spec w o .update
    | none => (w, "bad-op")
  | ["reset", o] =>
    match o.toNat? with
    | some o => onOpt N spec w o .reset
    | none => (w, "bad-op")
  | ["state", o] =>
    match o.toNat?.bind (fun o => w.opts[o]?) with
    | some ob => (w, showState N ob)
    | none => (w, "bad-op")
  | "pstate" :: p :: names =>
    match p.toNat?.bind (fun p => w.ps[p]?) with
    | some q => (w, if q.valid then showParam N q names else "err")
    | none => (w, "bad-op")
  | "checkpoint" :: o :: tag :: specs =>
    let ids := specs.mapM (fun s => ((s.splitOn ":").head?).bind String.toNat?)
    match o.toNat?.bind (fun o => w.opts[o]?), ids with
    | some ob, some ids =>
      match ids.mapM (fun i => w.ps[i]?) with
      | none => (w, "bad-op")
      | some sel =>
        if sel.any (fun p => !p.valid) then (w, "err")
        else ({ w with ckpts := (tag, checkpoint { o := ob, ps := sel }) :: w.ckpts }, "ok")
    | _, _ => (w, "bad-op")
  | "restore" :: tag :: o :: kind :: _dev :: ps =>
    match w.ckpts.lookup tag, o.toNat?, Kind.ofName? kind, ps.mapM String.toNat? with
    | some c, some o, some k, some ids =>
      let base := w.ps.length
      if o ≠ w.opts.length || ids ≠ (List.range ids.length).map (· + base) || ids.length ≠ c.params.length then
        (w, "bad-op")
      else
        let s := restore N.F k c
        let ob := { s.o with reg := s.o.reg.map (· + base) }
        ({ w with ps := w.ps ++ s.ps, opts := w.opts ++ [ob] },
          if s.o.reg.length == c.params.length then "ok" else "err")
    | _, _, _, _ => (w, "bad-op")
  | "same" :: p :: q :: how :: names =>
    match p.toNat?.bind (fun p => w.ps[p]?), q.toNat?.bind (fun q => w.ps[q]?) with
    | some a, some b =>
      if how ≠ "bits" && how ≠ "near" then (w, "bad-op")
      else if !a.valid || !b.valid then (w, "err")
      else (w, sameParams N (how == "bits") a b names)
    | _, _ => (w, "bad-op")
  | ["osame", o, o'] =>
    match o.toNat?.bind (fun o => w.opts[o]?), o'.toNat?.bind (fun o => w.opts[o]?) with
    | some a, some b =>
      let sa := showState N a
      let sb := showState N b
      if sa == sb then (w, "ok same") else
      let wa := words sa
      let wb := words sb
      let d := (List.range wa.length).find? (fun i => wa[i]? != wb[i]?)
      (w, "ok differ " ++ (((d.bind (fun i => wa[i]?)).getD "keys").splitOn "=").headD "keys")
    | _, _ => (w, "bad-op")
  | "resume" :: kind :: m :: n :: hs :: lr :: l2 :: clip :: ep :: as :: bs :: names :: ptoks =>
    match Kind.ofName? kind, m.toNat?, n.toNat?, parseNums N hs, parseNum N lr, parseNum N l2, parseNum N clip with
    | some k, some m, some n, some h, some lr, some l2, some clip =>
      match parseU ep, parseNums N as, parseNums N bs, pairUp ptoks with
      | some ep, some as, some bs, some prs =>
        let vals := prs.mapM (fun pr =>
          match parseNatCsv (if pr.1 = "-" then "" else pr.1), parseNums N pr.2 with
          | some ds, some vs =>
            if ds.length > 8 || ds.any (· == 0) || product ds ≠ vs.length then none else some vs
          | _, _ => none)
        match vals with
        | none => (w, "bad-op")
        | some vals =>
          if as.isEmpty || bs.isEmpty || vals.isEmpty || (!h.isEmpty && h.length ≠ arity k) || m + n > 64 then (w, "bad-op")
          else
            let fields := if h.isEmpty then (fresh N.F k).fields else h
            let b : Base α := { (Base.init : Base α) with epoch_ := ep % 4294967296, lr_scale_ := lr, l2_strength_ := l2,
                                                           clip_threshold_ := clip }
            (w, resumeExp N k fields b vals as bs m n (if names = "-" then [] else names.splitOn ","))
      | _, _, _, _ => (w, "bad-op")
    | _, _, _, _, _, _, _ => (w, "bad-op")
  | _ => (w, "bad-op")

end

structure St where
  spec : Bool := false
  exact : Bool := false
  wf : World F32 := {}
  wr : World Rat := {}

def step (s : St) (line : String) : St × String :=
  match words line with
  | ["mode", "float"] => ({ s with exact := false, wf := {}, wr := {} }, "ok")
  | ["mode", "exact"] => ({ s with exact := true, wf := {}, wr := {} }, "ok")
  | ["engine", "model"] => ({ s with spec := false }, "ok")
  | ["engine", "spec"] => ({ s with spec := true }, "ok")
  | ["device", "naive"] => (s, "ok")
  | ["device", "eigen"] => (s, "ok")
  | ws =>
    if s.exact then
      let r := stepW numRat s.spec s.wr ws
      ({ s with wr := r.1 }, r.2)
    else
      let r := stepW numF32 s.spec s.wf ws
      ({ s with wf := r.1 }, r.2)

def main : IO Unit := runLoop step {}

end Primitiv.Drv.OptimDrv
