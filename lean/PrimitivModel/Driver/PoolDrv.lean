import PrimitivModel.Model.Pool
import PrimitivModel.Driver.Util
/-
Driver of the `pool` family (stateful).  Lines:

  pool <p> [<minimum_size>]   create a pool under the name p        -> ok id=<id>
  alloc <p> <a> <size>        a = p.allocate(size, &as)             -> ok [<calls>] h=<null|ptr#n> as=<as> id=<id>
                                                                     | err [<calls>] as=0 id=<id>
  drop <a>                    release the handle a                  -> ok [<calls>]
  destroy <p>                 delete the pool p                     -> ok [<calls, sorted>]
  fail_next <k>               the next k allocator calls throw      -> ok
  fail_kind <error|bad_alloc|runtime>  what they throw: primitiv::Error, std::bad_alloc, std::runtime_error -> ok
  reuse <0|1>                 the allocator hands deleted addresses out again, or never  -> ok
  shifts <x>                  numeric_utils::calculate_shifts(x)    -> ok <n>
  reset                       drop every handle, delete every pool  -> ok [<calls, sorted>]

<calls> is the allocator/deleter call log since the previous line:
`A <size> -> ptr#n`, `A <size> -> fail`, `D ptr#n`, separated by `; `.
The deleter order inside a destructor depends on the iteration order of an
unordered_map, so for `destroy`/`reset` the calls are printed sorted.

The allocator of the correspondence (both sides): addresses are numbered in
the order they are first handed out; with `reuse 1` (default) a deleted address
is handed out again before a new one is made (the highest-numbered one first,
so that the choice does not depend on the order of the deleter calls inside a
destructor).
-/
namespace Primitiv.Drv.PoolDrv
open Primitiv.Pool Primitiv.Drv

structure DState where
  w : World := World.init
  pnames : List (String × Nat) := []
  hnames : List (String × Nat) := []
  nextH : Nat := 0
  fail : Nat := 0
  reuse : Bool := true

/-- state of the correspondence allocator after a call log (chronological fold):
deleted addresses not handed out again yet, next never-used address -/
def policyState (log : Log) : List Ptr × Nat :=
  log.reverse.foldl (fun (st : List Ptr × Nat) e =>
    match e with
    | .alloc _ (some p) => (st.1.erase p, max st.2 (p + 1))
    | .alloc _ none => st
    | .del p => (p :: st.1, st.2)) ([], 0)

def isAlloc : Event → Bool
  | .alloc _ _ => true
  | .del _ => false

/-- the allocator met by one client call: the first `fail` allocator calls
made after the log had length `base` throw -/
def oracle (reuse : Bool) (fail base : Nat) : Oracle := fun log _ =>
  let made := ((log.take (log.length - base)).filter isAlloc).length
  if made < fail then none
  else
    let (free, next) := policyState log
    match reuse, free with
    | true, p :: ps => some (ps.foldl max p)
    | _, _ => some next

def parseU64 (s : String) : Option Nat :=
  if s.isEmpty || !(s.toList.all Char.isDigit) || s.length > 20 then none
  else match s.toNat? with
    | some n => if n < M64 then some n else none
    | none => none

def showEvent : Event → String
  | .alloc s (some p) => s!"A {s} -> ptr#{p}"
  | .alloc s none => s!"A {s} -> fail"
  | .del p => s!"D ptr#{p}"

def showLog (evs : List Event) : String := "[" ++ "; ".intercalate (evs.map showEvent) ++ "]"

/-- the events appended to the (newest-first) log, in chronological order -/
def newEvents (before after : Log) : List Event := (after.take (after.length - before.length)).reverse

def delPtr : Event → Nat
  | .del p => p
  | .alloc _ _ => 0

def insertSorted (e : Event) : List Event → List Event
  | [] => [e]
  | x :: xs => if delPtr e ≤ delPtr x then e :: x :: xs else x :: insertSorted e xs

def sortEvents (evs : List Event) : List Event := evs.foldr insertSorted []

def lookup (t : List (String × Nat)) (n : String) : Option Nat := (t.find? (·.1 == n)).map (·.2)

def runOp (s : DState) (op : Op) : DState × Res × List Event :=
  let base := s.w.log.length
  let (w', r) := s.w.step (oracle s.reuse s.fail base) op
  let evs := newEvents s.w.log w'.log
  let failed := (evs.filter (fun e => match e with | .alloc _ none => true | _ => false)).length
  ({ s with w := w', fail := s.fail - failed }, r, evs)

/-- drop every handle, then delete every pool (in the order of creation) -/
def resetOps (s : DState) : List Op :=
  (s.hnames.reverse.map fun h => Op.drop h.2) ++ (s.pnames.reverse.map fun p => Op.destroy p.2)

def doPool (s : DState) (p : String) (min : Option Nat) : DState × String :=
  match min with
  | none => (s, "bad-op")
  | some m =>
    if (lookup s.pnames p).isSome then (s, "bad-op")
    else
      let (s', r, _) := runOp s (.create m)
      match r with
      | .created id => ({ s' with pnames := (p, id) :: s'.pnames }, s!"ok id={id}")
      | _ => (s, "bad-op")

def step (s : DState) (line : String) : DState × String :=
  match words line with
  | ["pool", p] => doPool s p (some 0)
  | ["pool", p, m] => doPool s p (parseU64 m)
  | ["alloc", p, a, sz] =>
    match lookup s.pnames p, parseU64 sz with
    | some pid, some size =>
      if (lookup s.hnames a).isSome then (s, "bad-op")
      else
        let (s', r, evs) := runOp s (.alloc pid s.nextH size)
        match r with
        | .handle (some ptr) as =>
          ({ s' with hnames := (a, s.nextH) :: s'.hnames, nextH := s.nextH + 1 },
            s!"ok {showLog evs} h=ptr#{ptr} as={as} id={pid}")
        | .handle none as => (s', s!"ok {showLog evs} h=null as={as} id={pid}")
        | .error => (s', s!"err {showLog evs} as=0 id={pid}")
        | _ => (s, "bad-op")
    | _, _ => (s, "bad-op")
  | ["drop", a] =>
    match lookup s.hnames a with
    | none => (s, "bad-op")
    | some h =>
      let (s', r, evs) := runOp s (.drop h)
      match r with
      | .unit => ({ s' with hnames := s'.hnames.filter (·.1 != a) }, s!"ok {showLog evs}")
      | _ => (s, "bad-op")
  | ["destroy", p] =>
    match lookup s.pnames p with
    | none => (s, "bad-op")
    | some pid =>
      let (s', r, evs) := runOp s (.destroy pid)
      match r with
      | .unit => ({ s' with pnames := s'.pnames.filter (·.1 != p) }, s!"ok {showLog (sortEvents evs)}")
      | _ => (s, "bad-op")
  | ["fail_next", k] =>
    match parseU64 k with
    | some n => ({ s with fail := n }, "ok")
    | none => (s, "bad-op")
  -- the type of the exception the failing allocator throws: the pool's reaction (`catch (...)`) does not depend on it
  | ["fail_kind", k] => if k == "error" || k == "bad_alloc" || k == "runtime" then (s, "ok") else (s, "bad-op")
  | ["reuse", "0"] => ({ s with reuse := false }, "ok")
  | ["reuse", "1"] => ({ s with reuse := true }, "ok")
  | ["shifts", x] =>
    match parseU64 x with
    | some n => (s, s!"ok {calculateShifts n}")
    | none => (s, "bad-op")
  | ["reset"] =>
    let (s', evs) := (resetOps s).foldl (fun (acc : DState × List Event) op =>
      let (s2, _, e) := runOp acc.1 op
      (s2, acc.2 ++ e)) (s, [])
    ({ w := { World.init with nextId := s'.w.nextId } }, s!"ok {showLog (sortEvents evs)}")
  | _ => (s, "bad-op")

def main : IO Unit := runLoop step {}

end Primitiv.Drv.PoolDrv
