import PrimitivModel.Model.Registry
import PrimitivModel.Driver.Util
/-
Driver of the `registry` family (stateful).  Same line protocol as
harness/h_registry.cc; names are `x<hex>`, ids are decimal indices.
-/
namespace Primitiv.Drv.RegistryDrv
open Primitiv.Registry Primitiv.Drv

structure State where
  reg : Reg := {}
  opts : List Opt := []
  /-- per optimizer: does the harness object count its configure_parameter calls
  (`sgd`/`mom`: yes; `rsgd`/`rmom`, the library's own classes: no) -/
  counted : List Bool := []
deriving Inhabited

/-- decimal digits only (what `vh::to_u64` accepts) -/
def parseNat (s : String) : Option Nat :=
  let cs := s.toList
  if cs.isEmpty || !cs.all (fun c => '0' ≤ c && c ≤ '9') then none
  else some (cs.foldl (fun n c => n * 10 + (c.toNat - '0'.toNat)) 0)

def parseIdx (s : String) (n : Nat) : Option Nat :=
  match parseNat s with
  | some v => if v < n then some v else none
  | none => none

def hexVal (c : Char) : Option Nat :=
  if '0' ≤ c && c ≤ '9' then some (c.toNat - '0'.toNat)
  else if 'a' ≤ c && c ≤ 'f' then some (c.toNat - 'a'.toNat + 10)
  else none

def parseHex : List Char → Option (List Nat)
  | [] => some []
  | [_] => none
  | a :: b :: rest => do
    let x ← hexVal a
    let y ← hexVal b
    let r ← parseHex rest
    pure ((x * 16 + y) :: r)

def parseName (s : String) : Option Name :=
  match s.toList with
  | 'x' :: rest => parseHex rest
  | _ => none

def hexDigit (n : Nat) : Char := "0123456789abcdef".toList.getD n '?'

def showName (n : Name) : String :=
  String.ofList ('x' :: n.flatMap (fun b => [hexDigit (b / 16), hexDigit (b % 16)]))

def showPMap (ps : PMap) : String :=
  if ps.isEmpty then "ok -"
  else "ok " ++ ";".intercalate (ps.map fun e => ".".intercalate (e.1.map showName) ++ "=" ++ toString e.2)

def showRes {α} (f : α → String) : Res α → String
  | .ok a => f a
  | .error => "err"
  | .crash => "crash"

/-- insertion sort of the registered ids for printing -/
def insertSorted (x : Nat) : List Nat → List Nat
  | [] => [x]
  | y :: ys => if x ≤ y then x :: y :: ys else y :: insertSorted x ys

def sortNats (l : List Nat) : List Nat := l.foldr insertSorted []

def exec (s : State) (ws : List String) : Option (State × String) :=
  match ws with
  | ["reset", a, b] => do
    let nm ← parseNat a
    let np ← parseNat b
    if nm > 64 || np > 64 then none
    else
      let r := (List.range nm).foldl (fun r _ => r.newModel) Reg.empty
      let r := (List.range np).foldl (fun r _ => r.newParam true) r
      pure ({ reg := r, opts := [], counted := [] }, "ok")
  | ["model", a] => do
    let m ← parseNat a
    if m ≠ s.reg.size then none else pure ({ s with reg := s.reg.newModel }, "ok")
  | ["param", a, k] => do
    let p ← parseNat a
    if p ≠ s.reg.pvalid.length then none
    else if k = "v" then pure ({ s with reg := s.reg.newParam true }, "ok")
    else if k = "i" then pure ({ s with reg := s.reg.newParam false }, "ok")
    else none
  | ["addp", a, n, b] => do
    let m ← parseIdx a s.reg.size
    let name ← parseName n
    let p ← parseIdx b s.reg.pvalid.length
    match s.reg.addParam m name p with
    | .ok r => pure ({ s with reg := r }, "ok")
    | .error r => pure ({ s with reg := r }, "err")
    | .crash => pure (s, "crash")
  | ["addm", a, n, b] => do
    let m ← parseIdx a s.reg.size
    let name ← parseName n
    let c ← parseIdx b s.reg.size
    match s.reg.addSub m name c with
    | .ok r => pure ({ s with reg := r }, "ok")
    | .error r => pure ({ s with reg := r }, "err")
    | .crash => pure (s, "crash")
  | ["all", a] => do
    let m ← parseIdx a s.reg.size
    pure (s, showRes showPMap (s.reg.allParameters m))
  | ["trainable", a] => do
    let m ← parseIdx a s.reg.size
    pure (s, showRes showPMap (s.reg.trainableParameters m))
  | "getp" :: a :: path => do
    let m ← parseIdx a s.reg.size
    let names ← path.mapM parseName
    pure (s, showRes (fun p => s!"ok {p}") (s.reg.getParameter m names))
  | "getm" :: a :: path => do
    let m ← parseIdx a s.reg.size
    let names ← path.mapM parseName
    pure (s, showRes (fun c => s!"ok {c}") (s.reg.getSubmodel m names))
  | ["opt", a, k] => do
    let o ← parseNat a
    if o ≠ s.opts.length then none
    else if k = "sgd" || k = "rsgd" then
      pure ({ s with opts := s.opts ++ [{ needsStats := false }], counted := s.counted ++ [k == "sgd"] }, "ok")
    else if k = "mom" || k = "rmom" then
      pure ({ s with opts := s.opts ++ [{ needsStats := true }], counted := s.counted ++ [k == "mom"] }, "ok")
    else none
  | ["optaddp", a, b] => do
    let o ← parseIdx a s.opts.length
    let p ← parseIdx b s.reg.pvalid.length
    match (s.opts.getD o default).addParam s.reg.valid p with
    | .ok o' => pure ({ s with opts := s.opts.set o o' }, "ok")
    | .error o' => pure ({ s with opts := s.opts.set o o' }, "err")
    | .crash => pure (s, "crash")
  | ["optaddm", a, b] => do
    let o ← parseIdx a s.opts.length
    let m ← parseIdx b s.reg.size
    match (s.opts.getD o default).addModel s.reg m with
    | .ok o' => pure ({ s with opts := s.opts.set o o' }, "ok")
    | .error o' => pure ({ s with opts := s.opts.set o o' }, "err")
    | .crash => pure (s, "crash")
  | ["optparams", a] => do
    let o ← parseIdx a s.opts.length
    let op := s.opts.getD o default
    let ids := sortNats op.params
    if ids.isEmpty then pure (s, "ok -")
    else if s.counted.getD o false then
      pure (s, "ok " ++ ",".intercalate (ids.map fun p => s!"{p}:{op.configCount p}"))
    else pure (s, "ok " ++ csv ids)
  | _ => none

def step (s : State) (line : String) : State × String :=
  match exec s (words line) with
  | some r => r
  | none => (s, "bad-op")

def main : IO Unit := runLoop step ({} : State)

end Primitiv.Drv.RegistryDrv
