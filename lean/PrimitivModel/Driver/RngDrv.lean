import PrimitivModel.Model.Rng
import PrimitivModel.Driver.Util
/-
Driver of the `rng` family (property C17).  Same line protocol as
`harness/h_rng.cc`; floats travel as 8 hex digits (binary32 bit pattern),
doubles as 16.  The model runs at `Float` (IEEE double): a C++ `float` is a
double that is exactly representable in binary32 and `narrow` is the
double → float conversion, so that every float operation of the C++ is
`narrow (op a b)` (double rounding is innocuous for + − × ÷ √ at 53 ≥ 2·24+2).
The raw draws of the generator are taken from the request line (`| r0,r1,…`).
-/
namespace Primitiv.Drv.RngDrv
open Primitiv Primitiv.Drv Primitiv.Rng

def narrow32 (x : Float) : Float := x.toFloat32.toFloat

def f32OfBits (b : Nat) : Float := (Float32.ofBits b.toUInt32).toFloat

/-- `nextafterf(a, b)` (glibc): on the bit pattern. -/
def nextafter32 (a b : Float) : Float :=
  if a.isNaN || b.isNaN then a + b
  else if a == b then b
  else if a == 0 then (if b > 0 then f32OfBits 1 else f32OfBits 0x80000001)
  else
    let bits := a.toFloat32.toBits.toNat
    if (decide (a < b)) == (decide (a > 0)) then f32OfBits (bits + 1) else f32OfBits (bits - 1)

/-- The scalar interface at IEEE double holding binary32 values. -/
def floatSc : Sc Float where
  lt a b := decide (a < b)
  le a b := decide (a ≤ b)
  eq a b := a == b
  add a b := a + b
  sub a b := a - b
  mul a b := a * b
  div a b := a / b
  neg a := -a
  sqrt a := a.sqrt
  nextafter := nextafter32
  exp a := (Float32.exp a.toFloat32).toFloat
  ofNat n := n.toFloat
  narrow := narrow32

def hexDigit (c : Char) : Option Nat :=
  if '0' ≤ c ∧ c ≤ '9' then some (c.toNat - '0'.toNat)
  else if 'a' ≤ c ∧ c ≤ 'f' then some (c.toNat - 'a'.toNat + 10)
  else none

def parseHex (digits : Nat) (s : String) : Option Nat :=
  if s.length != digits then none
  else s.toList.foldlM (fun acc c => do let d ← hexDigit c; pure (acc * 16 + d)) 0

def parseF32 (s : String) : Option Float := (parseHex 8 s).map f32OfBits

/-- a raw draw: 8 digits = float, 16 digits = double -/
def parseRaw (s : String) : Option Float :=
  if s.length == 16 then (parseHex 16 s).map (fun n => Float.ofBits n.toUInt64)
  else parseF32 s

def hex8 (x : Float) : String :=
  let ds := Nat.toDigits 16 x.toFloat32.toBits.toNat
  String.ofList (List.replicate (8 - ds.length) '0' ++ ds)

def showTensor (t : Tensor Float) : String :=
  s!"ok {t.shape.toStr} " ++ ",".intercalate (t.data.map hex8)

/-- syntax of a shape token `S:d0,d1,…/batch` -/
def parseShapeSyntax (t : String) : Option (List Nat × Nat) :=
  if !t.startsWith "S:" then none else
  match ((t.drop 2).toString.splitOn "/") with
  | [ds, b] => do
    let dims ← parseNatCsv ds
    let batch ← b.toNat?
    if dims.all (· < 4294967296) && batch < 4294967296 then pure (dims, batch) else none
  | _ => none

/-- the harness's input of `dropout`: `x[i] = ((i % 13) - 6) / 4 + 1/8` -/
def dropoutInput (sh : Shape) : Tensor Float :=
  ⟨sh, (List.range sh.size).map (fun i => ((i % 13).toFloat - 6) * 0.25 + 0.125)⟩

def showR (node : Bool) (r : R (Tensor Float)) : String :=
  match r with
  | .ok t => showTensor t
  | .error .error => if node then "err@eval" else "err"
  | .error .crash => "crash"

structure Parsed where
  op : String
  node : Bool
  shapeTok : String
  args : List Float      -- the float arguments in line order
  enabled : Bool := false
  iname : String := ""

def kindOf : String → Option Kind
  | "bernoulli" => some .bernoulli
  | "uniform" => some .uniform
  | "normal" => some .normal
  | "log_normal" => some .logNormal
  | _ => none

def initNames : List (String × Nat) :=
  [("constant", 1), ("uniform", 2), ("normal", 2), ("identity", 0), ("xavier_uniform", 1), ("xavier_normal", 1),
   ("xavier_uniform_conv2d", 1), ("xavier_normal_conv2d", 1)]

/-- split the operation word: `node_` prefix, `@ref|@ptr|@def` suffix -/
def splitOp (w : String) : Option (String × Bool × Bool) :=
  let (node, rest) := if w.startsWith "node_" then (true, (w.drop 5).toString) else (false, w)
  match rest.splitOn "@" with
  | [op] => some (op, node, false)
  | [op, v] => if v == "ref" || v == "ptr" || v == "def" then some (op, node, true) else none
  | _ => none

def parseReq (w : List String) : Option Parsed := do
  let (opw, rest) ← match w with | [] => none | a :: r => some (a, r)
  let (op, node, via) ← splitOp opw
  if via && (op == "dropout" || op == "init" || op == "pinit") then none
  match op, rest with
  | "bernoulli", [s, p] => do
    let p ← parseF32 p
    pure { op, node, shapeTok := s, args := [p] }
  | "dropout", [s, rate, en] => do
    let rate ← parseF32 rate
    if en != "0" && en != "1" then none
    pure { op, node, shapeTok := s, args := [rate], enabled := en == "1" }
  | "init", name :: more | "pinit", name :: more => do
    if node then none
    let n ← initNames.lookup name
    if more.length != n + 1 then none
    let args ← (more.take n).mapM parseF32
    pure { op, node, shapeTok := more.getD n "", args, iname := name }
  | _, [s, a, b] => do
    if op != "uniform" && op != "normal" && op != "log_normal" && op != "gumbel" then none
    let a ← parseF32 a
    let b ← parseF32 b
    pure { op, node, shapeTok := s, args := [a, b] }
  | _, _ => none

def execReq (p : Parsed) (sh : Shape) (raws : List Float) : String :=
  let S := floatSc
  match p.op, p.args with
  | "gumbel", [_, _] =>
    -- mu - beta * log(-log(uniform(0, .9999999))): no check of its own; the harness compares the values with a tolerance
    match (step S lineSource raws ⟨.uniform, sh, 0, narrow32 0.9999999⟩).2 with
    | .ok t => s!"ok {t.shape.toStr} close"
    | r => showR p.node r
  | "dropout", [rate] => showR p.node (dropoutTensor S raws (dropoutInput sh) rate p.enabled)
  | "init", args =>
    match initAction S p.iname args sh with
    | some act => showR false (runInit S raws act sh)
    | none => "bad-op"
  | "pinit", args =>
    match initAction S p.iname args sh with
    | some act => showR false (runParamInit S raws act sh)
    | none => "bad-op"
  | op, args =>
    match kindOf op, args with
    | some .bernoulli, [pr] => showR p.node (step S lineSource raws ⟨.bernoulli, sh, pr, pr⟩).2
    | some k, [a, b] => showR p.node (step S lineSource raws ⟨k, sh, a, b⟩).2
    | _, _ => "bad-op"

def parseRaws (s : String) : Option (List Float) :=
  if s == "" then some [] else (s.splitOn ",").mapM parseRaw

def exec (have_dev : Bool) (line : String) : Bool × String :=
  let w0 := words line
  -- split off the raws
  let (w, tail) := w0.span (· != "|")
  let rawsTok : Option (Option String) :=
    match tail with
    | [] => some none
    | [_] => some (some "")
    | [_, r] => some (some r)
    | _ => none
  match rawsTok with
  | none => (have_dev, "bad-op")
  | some rt =>
    match w with
    | [] => (have_dev, "bad-op")
    | ["dev", be, seed] =>
      if rt.isSome then (have_dev, "bad-op") else
      match seed.toNat? with
      | some n => if n < 4294967296 && seed.all Char.isDigit && (be == "naive" || be == "eigen") then (true, "ok") else (have_dev, "bad-op")
      | none => (have_dev, "bad-op")
    | _ =>
      match parseReq w with
      | none => (have_dev, "bad-op")
      | some p =>
        match parseShapeSyntax p.shapeTok, parseRaws (rt.getD "") with
        | some (dims, batch), some raws =>
          if !have_dev then (have_dev, "err-nodev") else
          match Shape.new dims batch with
          | .ok sh => (have_dev, execReq p sh raws)
          | .error .error => (have_dev, "err")
          | .error .crash => (have_dev, "crash")
        | _, _ => (have_dev, "bad-op")

def main : IO Unit := runLoop exec false

end Primitiv.Drv.RngDrv
