import PrimitivModel.Model.Shape
import PrimitivModel.Driver.Util
/-
Driver of the `shape` family.  Shape tokens are `S:d0,d1,…/batch`; every shape
token is passed through the public constructor first (that is the only way the
API can obtain a Shape), so a token the constructor rejects makes the whole
line `err`.
-/
namespace Primitiv.Drv.ShapeDrv
open Primitiv Primitiv.Drv

def parseShapeTok (t : String) : Option (R Shape) :=
  if !t.startsWith "S:" then none else
  match ((t.drop 2).toString.splitOn "/") with
  | [ds, b] => do
    let dims ← parseNatCsv ds
    let batch ← b.toNat?
    pure (Shape.new dims batch)
  | _ => none

def showShape (s : Shape) : String :=
  s!"ok {s.toStr} v={s.volume} s={s.size}"

def showR (r : R Shape) : String :=
  match r with
  | .ok s => showShape s
  | .error .error => "err"
  | .error .crash => "crash"

def showB (r : R Bool) : String :=
  match r with
  | .ok b => s!"ok {b}"
  | .error .error => "err"
  | .error .crash => "crash"

/-- split the argument words into leading shape tokens and the remaining words -/
def takeShapes : List String → Option (List (R Shape) × List String)
  | [] => some ([], [])
  | w :: ws =>
    if w.startsWith "S:" then do
      let s ← parseShapeTok w
      let (ss, rest) ← takeShapes ws
      pure (s :: ss, rest)
    else some ([], w :: ws)

def seqR {α} : List (R α) → R (List α)
  | [] => pure []
  | x :: xs => do let a ← x; let as ← seqR xs; pure (a :: as)

def exec (line : String) : String :=
  match words line with
  | [] => "bad-op"
  | op :: args =>
    match takeShapes args with
    | none => "bad-op"
    | some (shs, rest) =>
      match parseNats rest with
      | none => "bad-op"
      | some ns =>
        match seqR shs with
        | .error .error => "err"
        | .error .crash => "crash"
        | .ok ss =>
          match op, ss, ns with
          | "new", [s], [] => showShape s
          | "get", [s], [i] => s!"ok {s.get i}"
          | "lower", [s], [d] => s!"ok {s.lowerVolume d}"
          | "eq", [a, b], [] => s!"ok {a.eq b}"
          | "same_dims", [a, b], [] => s!"ok {a.hasSameDims b}"
          | "loo", [a, b], [d] => showB (a.hasSameLooDims b d)
          | "resize_dim", [s], [d, m] => showR (s.resizeDim d m)
          | "resize_batch", [s], [b] => showR (s.resizeBatch b)
          | "reshape", [a, b], [] => showR (ShapeOps.reshape a b)
          | "flatten", [s], [] => showR (ShapeOps.flatten s)
          | "scalar_op", [x, k], [] => showR (ShapeOps.scalarOp x k)
          | "elementwise", [a, b], [] => showR (ShapeOps.elementwise a b)
          | "slice", [x], [d, lo, up] => showR (ShapeOps.slice x d lo up)
          | "concat", xs, [d] => showR (ShapeOps.concat xs d)
          | "broadcast", [x], [d, n] => showR (ShapeOps.broadcast x d n)
          | "pick", [x], d :: ids => showR (ShapeOps.pick x ids d)
          | "transpose", [x], [] => showR (ShapeOps.transpose x)
          | "permute", [x], perm => showR (ShapeOps.permuteDims x perm)
          | "matmul", [l, r], [] => showR (ShapeOps.matmul l r)
          | "conv2d", [x, w], [p0, p1, s0, s1, d0, d1] => showR (ShapeOps.conv2d x w p0 p1 s0 s1 d0 d1)
          | "pool2d", [x], [w0, w1, p0, p1, s0, s1] => showR (ShapeOps.pool2d x w0 w1 p0 p1 s0 s1)
          | "batch_pick", [x], ids => showR (ShapeOps.batchPick x ids)
          | "batch_slice", [x], [lo, up] => showR (ShapeOps.batchSlice x lo up)
          | "batch_concat", xs, [] => showR (ShapeOps.batchConcat xs)
          | "split", [x], [d, n] => showR (ShapeOps.split x d n)
          | "batch_split", [x], [n] => showR (ShapeOps.batchSplit x n)
          | "sce", [x, t], [d] => showR (ShapeOps.softmaxCrossEntropy x t d)
          | _, _, _ => "bad-op"

def step (_ : Unit) (line : String) : Unit × String := ((), exec line)

def main : IO Unit := runLoop step ()

end Primitiv.Drv.ShapeDrv
