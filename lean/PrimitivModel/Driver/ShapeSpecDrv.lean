import PrimitivModel.Spec.Shape
import PrimitivModel.Driver.Util
/-
Driver of the `shapespec` family: the same line protocol as `shape`, answered
by the documentation-level specification.  Used as the oracle that decides
whether a behaviour of the implementation violates C09.
-/
namespace Primitiv.Drv.ShapeSpecDrv
open Primitiv Primitiv.Drv Primitiv.Spec

def parseShapeTok (t : String) : Option (Option SShape) :=
  if !t.startsWith "S:" then none else
  match ((t.drop 2).toString.splitOn "/") with
  | [ds, b] => do
    let dims ← parseNatCsv ds
    let batch ← b.toNat?
    pure (Spec.mk dims batch)
  | _ => none

def showS (s : SShape) : String := s!"ok {s.toStr} v={s.volume} s={s.size}"
def showR : Option SShape → String
  | some s => showS s
  | none => "err"

def takeShapes : List String → Option (List (Option SShape) × List String)
  | [] => some ([], [])
  | w :: ws =>
    if w.startsWith "S:" then do
      let s ← parseShapeTok w
      let (ss, rest) ← takeShapes ws
      pure (s :: ss, rest)
    else some ([], w :: ws)

def exec (line : String) : String :=
  match words line with
  | [] => "bad-op"
  | op :: args =>
    match takeShapes args with
    | none => "bad-op"
    | some (shs, rest) =>
      match parseNats rest with
      | none => "bad-op"
      | some ns =>
        match shs.mapM id with
        | none => "err"
        | some ss =>
          match op, ss, ns with
          | "new", [s], [] => showS s
          | "get", [s], [i] => s!"ok {s.dimAt i}"
          | "lower", [s], [d] => s!"ok {s.lowerVolume d}"
          | "eq", [a, b], [] => s!"ok {decide (a = b)}"
          | "same_dims", [a, b], [] => s!"ok {decide (a.dims = b.dims)}"
          | "loo", [a, b], [d] => s!"ok {sameLoo a b d}"
          | "resize_dim", [s], [d, m] => showR (if m = 0 then none else setDim s d m)
          | "resize_batch", [s], [b] => showR (setBatch s b)
          | "reshape", [a, b], [] => showR (reshape a b)
          | "flatten", [s], [] => showR (flatten s)
          | "scalar_op", [x, k], [] => showR (scalarOp x k)
          | "elementwise", [a, b], [] => showR (elementwise a b)
          | "slice", [x], [d, lo, up] => showR (slice x d lo up)
          | "concat", xs, [d] => showR (concat xs d)
          | "broadcast", [x], [d, n] => showR (broadcast x d n)
          | "pick", [x], d :: ids => showR (pick x ids d)
          | "transpose", [x], [] => showR (transpose x)
          | "permute", [x], perm => showR (permuteDims x perm)
          | "matmul", [l, r], [] => showR (matmul l r)
          | "conv2d", [x, w], [p0, p1, s0, s1, d0, d1] => showR (conv2d x w p0 p1 s0 s1 d0 d1)
          | "pool2d", [x], [w0, w1, p0, p1, s0, s1] => showR (pool2d x w0 w1 p0 p1 s0 s1)
          | "batch_pick", [x], ids => showR (batchPick x ids)
          | "batch_slice", [x], [lo, up] => showR (batchSlice x lo up)
          | "batch_concat", xs, [] => showR (batchConcat xs)
          | "split", [x], [d, n] => showR (split x d n)
          | "batch_split", [x], [n] => showR (batchSplit x n)
          | "sce", [x, t], [d] => showR (softmaxCrossEntropy x t d)
          | _, _, _ => "bad-op"

def step (_ : Unit) (line : String) : Unit × String := ((), exec line)
def main : IO Unit := runLoop step ()

end Primitiv.Drv.ShapeSpecDrv
