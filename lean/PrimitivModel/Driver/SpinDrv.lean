import PrimitivModel.Model.Spinlock
import PrimitivModel.Model.SpinMixins
import PrimitivModel.Driver.Util
import Std.Data.HashMap
/-
Driver of the `spin` family.

  threads k spin|rspin      new scenario: a fresh lock and k threads (k ≤ 8), no programs yet
  prog t op…                program of thread t (ops: lock try_lock unlock); the thread runs up to its first access
  step t                    thread t performs its pending access and runs up to the next one
  deep n                    RecursiveSpinlock, free running: one thread nests n deep, unlocks once / down to depth 1 / completely;
                            after each phase another thread calls try_lock(): `ok try1=… count1=… try2=… count2=… try3=… flag=… count3=…`
  xd dev|graph thr new a | set a | del a | get   (harness h_spin_dev) the default slot of Device / Graph used from thread thr (0..3)
  graph                     (model only) the reachable state graph of the current scenario: `ok n=<states> | i t j;…`
                            (state i --step t--> state j; state 0 = the current state; only threads that are not done)
  ident new a | ident del a | ident get id
  default new a | default set a | default del a | default get

`step t` answers
  ok <access> ret=<value returned by the call completed in this step | -> next=<pending access of t>
     flag=<0|1> owner=<thread|-> count=<n> holds=<threads holding, csv|-> pend=<pending access of every thread, csv>
     left=<number of calls each thread has not started yet, csv>
-/
namespace Primitiv.Drv.SpinDrv
open Primitiv Primitiv.Drv Primitiv.Lock

inductive Scn where
  | none
  | spin (k : Nat) (s : Spin.Sys) (assigned : List Nat)
  | rspin (k : Nat) (s : RSpin.Sys) (assigned : List Nat)

structure St where
  scn : Scn
  ident : Ident.St
  dflt : Default.St
  xdev : Default.St     -- the default slot of Device (one slot, whichever thread issues the command)
  xgraph : Default.St   -- the default slot of Graph

def init : St := ⟨.none, Ident.init, Default.init, Default.init, Default.init⟩

def parseOp : String → Option Op
  | "lock" => some .lock
  | "try_lock" => some .tryLock
  | "unlock" => some .unlock
  | _ => none

def csvOr (l : List String) : String := if l.isEmpty then "-" else ",".intercalate l

def spinLine (k : Nat) (s : Spin.Sys) (t : Nat) (ev : Spin.Event) : String :=
  let ts := List.range k
  let holds := (ts.filter (fun u => (s.thr u).hold)).map toString
  let pend := ts.map (fun u => Spin.pcName (s.thr u).pc)
  let pos := ts.map (fun u => toString (s.thr u).rest.length)
  s!"ok {ev.acc} ret={ev.ret} next={Spin.pcName (s.thr t).pc} flag={if s.flag then 1 else 0} owner=- count=0 holds={csvOr holds} pend={csvOr pend} left={csvOr pos}"

def rspinLine (k : Nat) (s : RSpin.Sys) (t : Nat) (ev : Spin.Event) : String :=
  let ts := List.range k
  let holds := (ts.filter (fun u => (s.thr u).hold > 0)).map toString
  let pend := ts.map (fun u => RSpin.pcName (s.thr u).pc)
  let owner := match s.sh.owner with | some o => toString o | .none => "-"
  let pos := ts.map (fun u => toString (s.thr u).rest.length)
  s!"ok {ev.acc} ret={ev.ret} next={RSpin.pcName (s.thr t).pc} flag={if s.sh.flag then 1 else 0} owner={owner} count={s.sh.count} holds={csvOr holds} pend={csvOr pend} left={csvOr pos}"

/-- Breadth-first exploration of the state graph of a machine (driver only). -/
partial def exploreLoop {σ} (k : Nat) (stepFn : σ → Nat → σ) (key : σ → String) (active : σ → Nat → Bool)
    (limit : Nat) (queue : Array (Nat × σ)) (qi : Nat) (seen : Std.HashMap String Nat) (edges : Array String) :
    Option (Nat × Array String) :=
  if h : qi < queue.size then
    let (i, s) := queue[qi]
    let (queue, seen, edges) := (List.range k).foldl (fun (acc : Array (Nat × σ) × Std.HashMap String Nat × Array String) t =>
      let (queue, seen, edges) := acc
      if active s t then
        let s' := stepFn s t
        let ky := key s'
        match seen[ky]? with
        | some j => (queue, seen, edges.push s!"{i} {t} {j}")
        | none =>
          let j := seen.size
          (queue.push (j, s'), seen.insert ky j, edges.push s!"{i} {t} {j}")
      else acc) (queue, seen, edges)
    if seen.size > limit then none else exploreLoop k stepFn key active limit queue (qi + 1) seen edges
  else some (seen.size, edges)

def explore {σ} (k : Nat) (stepFn : σ → Nat → σ) (key : σ → String) (active : σ → Nat → Bool) (init : σ) : String :=
  match exploreLoop k stepFn key active 200000 #[(0, init)] 0 (({} : Std.HashMap String Nat).insert (key init) 0) #[] with
  | some (n, edges) => s!"ok n={n} | {";".intercalate edges.toList}"
  | none => "err too-large"

def spinKey (k : Nat) (s : Spin.Sys) : String :=
  toString (repr (s.flag, (List.range k).map s.thr))

def rspinKey (k : Nat) (s : RSpin.Sys) : String :=
  toString (repr (s.sh, (List.range k).map s.thr))

/-- thread `t` runs alone until its program is finished (or the fuel runs out);
returns the value returned by its last completed call -/
def runAlone (t : Nat) : Nat → RSpin.Shared → RSpin.Thread → String → RSpin.Shared × RSpin.Thread × String
  | 0, sh, th, r => (sh, th, r)
  | f + 1, sh, th, r =>
    if th.pc = .done then (sh, th, r)
    else
      let x := RSpin.trans t sh th
      runAlone t f x.1 x.2.1 (if x.2.2.ret = "-" then r else x.2.2.ret)

/-- `deep n`: thread 0 nests n deep and unlocks once / down to depth 1 / completely;
after each phase thread 1 calls try_lock() (and unlocks again if it got the lock). -/
def deep (n : Nat) : String :=
  let call (t : Nat) (sh : RSpin.Shared) (hold : Nat) (ops : List Op) :=
    let th : RSpin.Thread := { RSpin.start ops with hold := hold }
    runAlone t (4 * ops.length + 4) sh th "-"
  let tryB (sh : RSpin.Shared) :=
    let r := call 1 sh 0 [.tryLock]
    if r.2.2 = "true" then ((call 1 r.1 r.2.1.hold [.unlock]).1, r.2.2) else (r.1, r.2.2)
  let a1 := call 0 ⟨false, none, 0⟩ 0 (List.replicate n Op.lock ++ [.unlock])
  let b1 := tryB a1.1
  let c1 := a1.1.count
  let a2 := call 0 b1.1 a1.2.1.hold (List.replicate (n - 2) Op.unlock)
  let b2 := tryB a2.1
  let c2 := a2.1.count
  let a3 := call 0 b2.1 a2.2.1.hold [.unlock]
  let b3 := tryB a3.1
  s!"ok try1={b1.2} count1={c1} try2={b2.2} count2={c2} try3={b3.2} flag={if b3.1.flag then 1 else 0} count3={b3.1.count}"

def maxThreads : Nat := 8
def maxAddr : Nat := 64

def step (st : St) (line : String) : St × String :=
  match words line with
  | ["threads", k, kind] =>
    match k.toNat? with
    | some k =>
      if k = 0 ∨ k > maxThreads then (st, "bad-op")
      else if kind = "spin" then ({ st with scn := .spin k (Spin.init fun _ => []) [] }, "ok")
      else if kind = "rspin" then ({ st with scn := .rspin k (RSpin.init fun _ => []) [] }, "ok")
      else (st, "bad-op")
    | none => (st, "bad-op")
  | "prog" :: t :: ops =>
    match t.toNat?, ops.mapM parseOp with
    | some t, some ops =>
      match st.scn with
      | .spin k s asg =>
        if t < k ∧ ¬ asg.contains t then
          let s' : Spin.Sys := ⟨s.flag, upd s.thr t (Spin.start ops)⟩
          ({ st with scn := .spin k s' (t :: asg) }, s!"ok next={Spin.pcName (s'.thr t).pc}")
        else (st, "bad-op")
      | .rspin k s asg =>
        if t < k ∧ ¬ asg.contains t then
          let s' : RSpin.Sys := ⟨s.sh, upd s.thr t (RSpin.start ops)⟩
          ({ st with scn := .rspin k s' (t :: asg) }, s!"ok next={RSpin.pcName (s'.thr t).pc}")
        else (st, "bad-op")
      | .none => (st, "bad-op")
    | _, _ => (st, "bad-op")
  | ["step", t] =>
    match t.toNat? with
    | some t =>
      match st.scn with
      | .spin k s asg =>
        if t < k then
          let r := Spin.step s t
          ({ st with scn := .spin k r.1 asg }, spinLine k r.1 t r.2)
        else (st, "bad-op")
      | .rspin k s asg =>
        if t < k then
          let r := RSpin.step s t
          ({ st with scn := .rspin k r.1 asg }, rspinLine k r.1 t r.2)
        else (st, "bad-op")
      | .none => (st, "bad-op")
    | none => (st, "bad-op")
  | ["deep", n] =>
    match n.toNat? with
    | some n => if n < 2 ∨ n > 1000000 then (st, "bad-op") else (st, deep n)
    | none => (st, "bad-op")
  | ["graph"] =>
    match st.scn with
    | .spin k s _ => (st, explore k (fun s t => (Spin.step s t).1) (spinKey k) (fun s t => (s.thr t).pc != .done) s)
    | .rspin k s _ => (st, explore k (fun s t => (RSpin.step s t).1) (rspinKey k) (fun s t => (s.thr t).pc != .done) s)
    | .none => (st, "bad-op")
  | "xd" :: kind :: t :: rest =>
    let cmd : Option Default.Cmd :=
      match rest with
      | ["get"] => some .get
      | [op, x] =>
        match x.toNat? with
        | some x =>
          if x < 16 then
            (if op = "new" then some (.new x) else if op = "set" then some (.set x) else if op = "del" then some (.del x) else none)
          else none
        | none => none
      | _ => none
    match t.toNat?, cmd with
    | some t, some c =>
      if t ≥ 4 then (st, "bad-op")
      else if kind = "dev" then let r := Default.exec st.xdev c; ({ st with xdev := r.1 }, r.2)
      else if kind = "graph" then let r := Default.exec st.xgraph c; ({ st with xgraph := r.1 }, r.2)
      else (st, "bad-op")
    | _, _ => (st, "bad-op")
  | ["ident", op, x] =>
    match x.toNat? with
    | some x =>
      let cmd : Option Ident.Cmd :=
        if op = "new" ∧ x < maxAddr then some (.new x)
        else if op = "del" ∧ x < maxAddr then some (.del x)
        else if op = "get" ∧ x < 10000000000000000000 then some (.get x)
        else none
      match cmd with
      | some c => let r := Ident.exec st.ident c; ({ st with ident := r.1 }, r.2)
      | none => (st, "bad-op")
    | none => (st, "bad-op")
  | ["default", "get"] => let r := Default.exec st.dflt .get; ({ st with dflt := r.1 }, r.2)
  | ["default", op, x] =>
    match x.toNat? with
    | some x =>
      let cmd : Option Default.Cmd :=
        if x < maxAddr then
          (if op = "new" then some (.new x) else if op = "set" then some (.set x) else if op = "del" then some (.del x) else none)
        else none
      match cmd with
      | some c => let r := Default.exec st.dflt c; ({ st with dflt := r.1 }, r.2)
      | none => (st, "bad-op")
    | none => (st, "bad-op")
  | _ => (st, "bad-op")

def main : IO Unit := runLoop step init

end Primitiv.Drv.SpinDrv
