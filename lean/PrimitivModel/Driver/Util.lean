/-
Line-protocol helpers shared by all model drivers.
One operation per input line, one canonical result line per operation.
-/
namespace Primitiv.Drv

def words (line : String) : List String :=
  (line.trimAscii.toString.splitOn " ").filter (· ≠ "")

def parseNats (ws : List String) : Option (List Nat) := ws.mapM String.toNat?

def parseInt (s : String) : Option Int := s.toInt?

def parseInts (ws : List String) : Option (List Int) := ws.mapM String.toInt?

/-- split "a,b,c" into naturals; "" is the empty list -/
def parseNatCsv (s : String) : Option (List Nat) :=
  if s = "" then some [] else (s.splitOn ",").mapM String.toNat?

def parseIntCsv (s : String) : Option (List Int) :=
  if s = "" then some [] else (s.splitOn ",").mapM String.toInt?

def csv {α} [ToString α] (l : List α) : String := ",".intercalate (l.map toString)

/-- Generic stdin loop over a pure step function. -/
partial def loop {σ} (h : IO.FS.Stream) (out : IO.FS.Stream) (step : σ → String → σ × String) (s : σ) : IO Unit := do
  let line ← h.getLine
  if line.isEmpty then
    out.flush
    return ()
  let l := line.trimAscii.toString
  if l.isEmpty || l.startsWith "#" then
    loop h out step s
  else
    let (s', o) := step s l
    out.putStrLn o
    loop h out step s'

def runLoop {σ} (step : σ → String → σ × String) (init : σ) : IO Unit := do
  let stdin ← IO.getStdin
  let stdout ← IO.getStdout
  loop stdin stdout step init

end Primitiv.Drv
