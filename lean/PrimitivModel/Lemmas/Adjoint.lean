import PrimitivModel.Lemmas.MoveGeneric
import Mathlib.Algebra.BigOperators.Group.Finset.Basic
import Mathlib.Algebra.BigOperators.Ring.Finset
import Mathlib.Algebra.BigOperators.Group.Finset.Sigma
import Mathlib.Tactic.Ring
/-
The generic "backward is the transpose of forward" lemma for data-movement
kernels: a forward kernel is `dest[d t] = src[s t]`, a backward kernel is
`gx[d' t] += gy[s' t]`; if the backward loop visits the same (output, input)
index pairs — `s' t = d t`, `d' t = s t` — then
`Σ_j (bw gy 0)_j * x_j = Σ_i gy_i * (fw x)_i` over any commutative semiring.
-/
namespace Primitiv.Move
open Finset

/-- closed form of the accumulation loop -/
theorem scatterAdd_apply {R} [AddCommMonoid R] (d s : Nat → Nat) (gy gx : Nat → R) (n j : Nat) :
    scatterAdd d s gy n gx j = gx j + ∑ t ∈ range n, if d t = j then gy (s t) else 0 := by
  induction n with
  | zero => simp [scatterAdd]
  | succ n ih =>
    simp only [scatterAdd, sum_range_succ]
    by_cases h : j = d n
    · subst h; simp only [if_true]; rw [ih]; rw [add_assoc]
    · have h' : ¬ d n = j := fun e => h e.symm
      simp only [h, h', if_false, add_zero]; exact ih

/-- (A) pairing the result of a backward loop started from zero with `x` -/
theorem scatter_gather_adjoint {R} [CommSemiring R] (d s : Nat → Nat) (gy x : Nat → R) (n m : Nat)
    (hidx : ∀ t, t < n → d t < m) :
    ∑ j ∈ range m, scatterAdd d s gy n (fun _ => 0) j * x j = ∑ t ∈ range n, gy (s t) * x (d t) := by
  simp only [scatterAdd_apply, zero_add, sum_mul]
  rw [sum_comm]
  apply sum_congr rfl
  intro t ht
  rw [sum_eq_single (d t)]
  · simp
  · intro j _ hj
    have : ¬ d t = j := fun e => hj e.symm
    simp [this]
  · intro h; exact absurd (mem_range.mpr (hidx t (mem_range.mp ht))) h

/-- (B) pairing `gy` with the result of a forward loop that writes every output
element exactly once -/
theorem gather_pairing {R} [CommSemiring R] (m : Moves) (gy x raw : Nat → R) (size : Nat)
    (hb : ∀ t, t < m.count → m.didx t < size) (hall : m.WritesAll size) (hon : m.WritesOnce) :
    ∑ i ∈ range size, gy i * scatterSet m.didx m.sidx x m.count raw i =
      ∑ t ∈ range m.count, gy (m.didx t) * x (m.sidx t) := by
  symm
  apply sum_bij (fun t _ => m.didx t)
  · intro t ht; exact mem_range.mpr (hb t (mem_range.mp ht))
  · intro t ht t' ht' e; exact hon t t' (mem_range.mp ht) (mem_range.mp ht') e
  · intro i hi
    obtain ⟨t, ht, e⟩ := hall i (mem_range.mp hi)
    exact ⟨t, mem_range.mpr ht, e⟩
  · intro t ht
    rw [scatterSet_of_once hon x raw (mem_range.mp ht)]

/-- "fw and bw use the same index pairs" ⟹ bw is the transpose of fw -/
theorem adjoint_of_same_idx {R} [CommSemiring R] (fw bw : Moves) (gy x raw : Nat → R) (xsize ysize : Nat)
    (hn : bw.count = fw.count)
    (hs : ∀ t, t < fw.count → bw.sidx t = fw.didx t) (hd : ∀ t, t < fw.count → bw.didx t = fw.sidx t)
    (hfb : fw.InBounds xsize ysize) (hall : fw.WritesAll ysize) (hon : fw.WritesOnce) :
    ∑ j ∈ range xsize, scatterAdd bw.didx bw.sidx gy bw.count (fun _ => 0) j * x j =
      ∑ i ∈ range ysize, gy i * scatterSet fw.didx fw.sidx x fw.count raw i := by
  rw [scatter_gather_adjoint _ _ _ _ _ _ (fun t ht => by rw [hn] at ht; rw [hd t ht]; exact (hfb t ht).1),
    gather_pairing fw gy x raw ysize (fun t ht => (hfb t ht).2) hall hon, hn]
  apply sum_congr rfl
  intro t ht
  rw [hs t (mem_range.mp ht), hd t (mem_range.mp ht)]

/-- a backward loop that writes every element at most once, started from zero,
leaves `gy (s t)` at `d t` -/
theorem scatterAdd_of_once {R} [AddCommMonoid R] {m : Moves} (hon : m.WritesOnce) (gy : Nat → R) {t : Nat}
    (ht : t < m.count) : scatterAdd m.didx m.sidx gy m.count (fun _ => 0) (m.didx t) = gy (m.sidx t) := by
  rw [scatterAdd_apply, zero_add, sum_eq_single t]
  · simp
  · intro t' ht' hne
    have : ¬ m.didx t' = m.didx t := fun e => hne (hon t' t (mem_range.mp ht') ht e)
    simp [this]
  · intro h; exact absurd (mem_range.mpr ht) h

/-- reindexing a pairing by a pair of mutually inverse maps on the index range -/
theorem sum_reindex {R} [CommSemiring R] (n : Nat) (φ ψ : Nat → Nat) (f g : Nat → R)
    (hφ : ∀ i, i < n → φ i < n) (hψ : ∀ i, i < n → ψ i < n) (hinv : ∀ i, i < n → ψ (φ i) = i)
    (hinv' : ∀ i, i < n → φ (ψ i) = i) (hfg : ∀ i, i < n → f i = g (φ i)) :
    ∑ i ∈ range n, f i = ∑ i ∈ range n, g i := by
  apply sum_nbij' φ ψ
  · intro i hi; exact mem_range.mpr (hφ i (mem_range.mp hi))
  · intro i hi; exact mem_range.mpr (hψ i (mem_range.mp hi))
  · intro i hi; exact hinv i (mem_range.mp hi)
  · intro i hi; exact hinv' i (mem_range.mp hi)
  · intro i hi; exact hfg i (mem_range.mp hi)

/-- closed form of the max_bw / min_bw loop -/
theorem selectAdd_apply {R} [AddCommMonoid R] [DecidableEq R] (r : Reduce) (x y gy gx : Nat → R) (n o : Nat) :
    selectAdd r x y gy n gx o = gx o + ∑ i ∈ range n,
      match firstEq x (r.off i) (y i) r.n with
      | some j => if o = r.off i j then gy i else 0
      | none => 0 := by
  induction n with
  | zero => simp [selectAdd]
  | succ n ih =>
    rw [sum_range_succ, selectAdd]
    cases h : firstEq x (r.off n) (y n) r.n with
    | none => simp only [ih, add_zero]
    | some j =>
      simp only
      by_cases e : o = r.off n j
      · simp only [e, if_true]; rw [← e, ih, add_assoc]
      · simp only [e, if_false, add_zero]; exact ih

/-- pairing the result of max_bw / min_bw (started from zero) with `dx`:
each output element contributes `gy i * dx (first position equal to y i)` -/
theorem select_adjoint {R} [CommSemiring R] [DecidableEq R] (r : Reduce) (x y gy dx : Nat → R) (m : Nat)
    (hb : ∀ i j, i < r.rep → j < r.n → r.off i j < m) :
    ∑ o ∈ range m, selectAdd r x y gy r.rep (fun _ => 0) o * dx o =
      ∑ i ∈ range r.rep, match firstEq x (r.off i) (y i) r.n with
        | some j => gy i * dx (r.off i j)
        | none => 0 := by
  simp only [selectAdd_apply, zero_add, sum_mul]
  rw [sum_comm]
  apply sum_congr rfl
  intro i hi
  cases h : firstEq x (r.off i) (y i) r.n with
  | none => simp
  | some j =>
    simp only
    have hj : j < r.n := by
      unfold firstEq at h
      have := List.mem_of_find?_eq_some h
      simpa using this
    rw [sum_eq_single (r.off i j)]
    · simp
    · intro o _ ho; simp [ho]
    · intro hn; exact absurd (mem_range.mpr (hb i j (mem_range.mp hi) hj)) hn

/-- `firstEq` finds the first position `k` where the value is attained -/
theorem firstEq_eq_some {R} [DecidableEq R] (x : Nat → R) (off : Nat → Nat) (v : R) (n k : Nat) (hk : k < n)
    (he : x (off k) = v) (hfirst : ∀ j, j < k → x (off j) ≠ v) : firstEq x off v n = some k := by
  unfold firstEq
  rw [List.find?_range_eq_some]
  exact ⟨by simpa using he, by simpa using hk, fun j hj => by simpa using hfirst j hj⟩

end Primitiv.Move
