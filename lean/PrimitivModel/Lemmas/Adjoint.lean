import PrimitivModel.Lemmas.MoveGeneric
import Mathlib.Algebra.BigOperators.Group.Finset.Basic
import Mathlib.Algebra.BigOperators.Ring.Finset
import Mathlib.Algebra.BigOperators.Group.Finset.Sigma
import Mathlib.Tactic.Ring
/-
The generic "backward is the transpose of forward" lemma for data-movement
kernels: a forward kernel is `dest[d t] = src[s t]`, a backward kernel is
`gx[d' t] += gy[s' t]`; if the backward loop visits the same (output, input)
index pairs — `s' t = d t`, `d' t = s t` — then
`Σ_j (bw gy 0)_j * x_j = Σ_i gy_i * (fw x)_i` over any commutative semiring.
-/
namespace Primitiv.Move
open Finset

/-- closed form of the accumulation loop -/
theorem scatterAdd_apply {R} [AddCommMonoid R] (d s : Nat → Nat) (gy gx : Nat → R) (n j : Nat) :
    scatterAdd d s gy n gx j = gx j + ∑ t ∈ range n, if d t = j then gy (s t) else 0 := by
  induction n with
  | zero => simp [scatterAdd]
  | succ n ih =>
    simp only [scatterAdd, sum_range_succ]
    by_cases h : j = d n
    · subst h; simp only [if_true]; rw [ih]; rw [add_assoc]
    · have h' : ¬ d n = j := fun e => h e.symm
      simp only [h, h', if_false, add_zero]; exact ih

/-- (A) pairing the result of a backward loop started from zero with `x` -/
theorem scatter_gather_adjoint {R} [CommSemiring R] (d s : Nat → Nat) (gy x : Nat → R) (n m : Nat)
    (hidx : ∀ t, t < n → d t < m) :
    ∑ j ∈ range m, scatterAdd d s gy n (fun _ => 0) j * x j = ∑ t ∈ range n, gy (s t) * x (d t) := by
  simp only [scatterAdd_apply, zero_add, sum_mul]
  rw [sum_comm]
  apply sum_congr rfl
  intro t ht
  rw [sum_eq_single (d t)]
  · simp
  · intro j _ hj
    have : ¬ d t = j := fun e => hj e.symm
    simp [this]
  · intro h; exact absurd (mem_range.mpr (hidx t (mem_range.mp ht))) h

/-- (B) pairing `gy` with the result of a forward loop that writes every output
element exactly once -/
theorem gather_pairing {R} [CommSemiring R] (m : Moves) (gy x raw : Nat → R) (size : Nat)
    (hb : ∀ t, t < m.count → m.didx t < size) (hall : m.WritesAll size) (hon : m.WritesOnce) :
    ∑ i ∈ range size, gy i * scatterSet m.didx m.sidx x m.count raw i =
      ∑ t ∈ range m.count, gy (m.didx t) * x (m.sidx t) := by
  symm
  apply sum_bij (fun t _ => m.didx t)
  · intro t ht; exact mem_range.mpr (hb t (mem_range.mp ht))
  · intro t ht t' ht' e; exact hon t t' (mem_range.mp ht) (mem_range.mp ht') e
  · intro i hi
    obtain ⟨t, ht, e⟩ := hall i (mem_range.mp hi)
    exact ⟨t, mem_range.mpr ht, e⟩
  · intro t ht
    rw [scatterSet_of_once hon x raw (mem_range.mp ht)]

/-- "fw and bw use the same index pairs" ⟹ bw is the transpose of fw -/
theorem adjoint_of_same_idx {R} [CommSemiring R] (fw bw : Moves) (gy x raw : Nat → R) (xsize ysize : Nat)
    (hn : bw.count = fw.count)
    (hs : ∀ t, t < fw.count → bw.sidx t = fw.didx t) (hd : ∀ t, t < fw.count → bw.didx t = fw.sidx t)
    (hfb : fw.InBounds xsize ysize) (hall : fw.WritesAll ysize) (hon : fw.WritesOnce) :
    ∑ j ∈ range xsize, scatterAdd bw.didx bw.sidx gy bw.count (fun _ => 0) j * x j =
      ∑ i ∈ range ysize, gy i * scatterSet fw.didx fw.sidx x fw.count raw i := by
  rw [scatter_gather_adjoint _ _ _ _ _ _ (fun t ht => by rw [hn] at ht; rw [hd t ht]; exact (hfb t ht).1),
    gather_pairing fw gy x raw ysize (fun t ht => (hfb t ht).2) hall hon, hn]
  apply sum_congr rfl
  intro t ht
  rw [hs t (mem_range.mp ht), hd t (mem_range.mp ht)]

end Primitiv.Move
