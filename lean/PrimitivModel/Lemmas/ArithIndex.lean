import Mathlib.Algebra.BigOperators.Group.Finset.Basic
import Mathlib.Algebra.BigOperators.Ring.Finset
import Mathlib.Algebra.BigOperators.Group.List.Basic
import Mathlib.Tactic.Ring
import Mathlib.Tactic.Linarith
import PrimitivModel.Model.KernelsArith
/-
Lemmas about the loop combinators of Model/KernelsArith.lean (`writeAt`,
`scatterAddAt`, `scatterSubAt`) and the loop nests (`range2`, `range3`, …):

* closed forms: a scatter-add loop leaves `g0 + Σ_{t, addr t = j} val t` in cell j;
  a write loop whose addresses are pairwise distinct leaves `val t` in cell `addr t`;
* the transposition lemma `sum_scatter_mul` behind every local adjoint law:
  `Σ_j (Σ_{t, addr t = j} val t) · x j = Σ_t val t · x (addr t)`;
* the write addresses of the sequential loop nests enumerate `0, 1, …, n·m − 1`
  in order (`range2_map_flat`), hence are in bounds, pairwise distinct and cover
  the output;
* the mixed-radix bound `b < B → i < M → b·M + i < B·M`.
-/
namespace Primitiv.Arith
open Finset

/-! ### closed forms of the loop combinators -/
section closed
variable {τ α : Type}

theorem scatterAddAt_eq [AddCommMonoid α] (ts : List τ) (addr : τ → Nat) (val : τ → α) (g0 : α) (j : Nat) :
    scatterAddAt ts addr val g0 j = g0 + ((ts.filter fun t => addr t = j).map val).sum := by
  unfold scatterAddAt
  induction ts generalizing g0 with
  | nil => simp
  | cons a rest ih =>
    rw [List.foldl_cons, ih]
    by_cases h : addr a = j
    · simp [h, add_assoc]
    · simp [h]

theorem scatterSubAt_eq [AddCommGroup α] (ts : List τ) (addr : τ → Nat) (val : τ → α) (g0 : α) (j : Nat) :
    scatterSubAt ts addr val g0 j = g0 - ((ts.filter fun t => addr t = j).map val).sum := by
  unfold scatterSubAt
  induction ts generalizing g0 with
  | nil => simp
  | cons a rest ih =>
    rw [List.foldl_cons, ih]
    by_cases h : addr a = j
    · simp [h, sub_sub]
    · simp [h]

/-- a cell no iteration addresses keeps its content -/
theorem writeAt_of_not_mem (ts : List τ) (addr : τ → Nat) (val : τ → α) (init : α) (j : Nat)
    (h : ∀ t ∈ ts, addr t ≠ j) : writeAt ts addr val init j = init := by
  unfold writeAt
  induction ts generalizing init with
  | nil => rfl
  | cons a rest ih =>
    rw [List.foldl_cons, if_neg (h a (by simp))]
    exact ih init fun t ht => h t (by simp [ht])

/-- pairwise distinct write addresses: cell `addr t` holds `val t`, whatever it held before -/
theorem writeAt_of_nodup (ts : List τ) (addr : τ → Nat) (val : τ → α) (init : α)
    (hnd : (ts.map addr).Nodup) {t : τ} (ht : t ∈ ts) : writeAt ts addr val init (addr t) = val t := by
  induction ts generalizing init with
  | nil => simp at ht
  | cons a rest ih =>
    rw [List.map_cons, List.nodup_cons] at hnd
    unfold writeAt
    rw [List.foldl_cons]
    rcases List.mem_cons.mp ht with rfl | hr
    · rw [if_pos rfl]
      apply writeAt_of_not_mem
      intro u hu heq
      exact hnd.1 (List.mem_map.mpr ⟨u, hu, heq⟩)
    · exact ih _ hnd.2 hr

/-- the result of a write loop does not depend on the previous content of a cell that is written -/
theorem writeAt_init_irrelevant (ts : List τ) (addr : τ → Nat) (val : τ → α) (i1 i2 : α)
    (hnd : (ts.map addr).Nodup) {j : Nat} (hj : j ∈ ts.map addr) :
    writeAt ts addr val i1 j = writeAt ts addr val i2 j := by
  obtain ⟨t, ht, rfl⟩ := List.mem_map.mp hj
  rw [writeAt_of_nodup ts addr val i1 hnd ht, writeAt_of_nodup ts addr val i2 hnd ht]

end closed

/-! ### transposition -/
section transpose
variable {τ α : Type} [CommSemiring α]

theorem list_sum_map_range (f : Nat → α) (n : Nat) : ((List.range n).map f).sum = ∑ i ∈ range n, f i := by
  induction n with
  | zero => simp
  | succ n ih => simp [List.range_succ, Finset.sum_range_succ, ih]

/-- `Σ_{j<n} (Σ_{t ∈ ts, addr t = j} val t) · x j = Σ_{t ∈ ts} val t · x (addr t)` when every address is `< n` -/
theorem sum_scatter_mul (ts : List τ) (addr : τ → Nat) (val : τ → α) (x : Nat → α) (n : Nat)
    (h : ∀ t ∈ ts, addr t < n) :
    ∑ j ∈ range n, ((ts.filter fun t => addr t = j).map val).sum * x j
      = (ts.map fun t => val t * x (addr t)).sum := by
  induction ts with
  | nil => simp
  | cons a rest ih =>
    have ha : addr a < n := h a (by simp)
    have hr : ∀ t ∈ rest, addr t < n := fun t ht => h t (by simp [ht])
    have step : ∀ j, (((a :: rest).filter fun t => addr t = j).map val).sum * x j
        = (if addr a = j then val a * x j else 0) + ((rest.filter fun t => addr t = j).map val).sum * x j := by
      intro j
      by_cases hj : addr a = j
      · simp [hj, add_mul]
      · simp [hj]
    simp only [step, Finset.sum_add_distrib, ih hr, List.map_cons, List.sum_cons]
    congr 1
    rw [Finset.sum_ite_eq (range n) (addr a) fun j => val a * x j]
    simp [ha]

end transpose

/-! ### loop nests -/
section nests

theorem mem_range2 {n m : Nat} {t : Nat × Nat} : t ∈ range2 n m ↔ t.1 < n ∧ t.2 < m := by
  obtain ⟨a, b⟩ := t
  simp [range2, List.mem_flatMap, List.mem_map, List.mem_range]

theorem mem_range3 {n m l : Nat} {t : Nat × Nat × Nat} : t ∈ range3 n m l ↔ t.1 < n ∧ t.2.1 < m ∧ t.2.2 < l := by
  obtain ⟨a, b, c⟩ := t
  simp [range3, List.mem_flatMap, List.mem_map, List.mem_range]

theorem range2_succ (n m : Nat) : range2 (n + 1) m = range2 n m ++ (List.range m).map fun b => (n, b) := by
  simp [range2, List.range_succ, List.flatMap_append]

/-- the sequential two-level nest visits the flat indices `0 … n·m − 1` in order -/
theorem range2_map_flat {β : Type} (n m : Nat) (g : Nat → β) :
    (range2 n m).map (fun t => g (t.1 * m + t.2)) = (List.range (n * m)).map g := by
  induction n with
  | zero => simp [range2]
  | succ n ih =>
    rw [range2_succ, List.map_append, ih, Nat.succ_mul, List.range_add, List.map_append]
    simp [List.map_map, Function.comp_def]

theorem range2_addr (n m : Nat) : (range2 n m).map (fun t => t.1 * m + t.2) = List.range (n * m) := by
  simpa using range2_map_flat n m id

theorem range2_addr_nodup (n m : Nat) : ((range2 n m).map fun t => t.1 * m + t.2).Nodup := by
  rw [range2_addr]; exact List.nodup_range

/-- the mixed-radix bound -/
theorem idx_lt {b B i M : Nat} (hb : b < B) (hi : i < M) : b * M + i < B * M := by
  calc b * M + i < b * M + M := Nat.add_lt_add_left hi _
    _ = (b + 1) * M := by ring
    _ ≤ B * M := Nat.mul_le_mul_right M hb

/-- a zero stride or the full stride: the address stays inside a tensor of `Bx` samples -/
theorem bcast_idx_lt {b B i M skip Bx : Nat} (hb : b < B) (hi : i < M)
    (hs : (skip = 0 ∧ 1 ≤ Bx) ∨ (skip = M ∧ B ≤ Bx)) : b * skip + i < Bx * M := by
  rcases hs with ⟨rfl, h1⟩ | ⟨rfl, hB⟩
  · simp only [Nat.mul_zero, Nat.zero_add]
    exact lt_of_lt_of_le hi (Nat.le_mul_of_pos_left M h1)
  · exact idx_lt (lt_of_lt_of_le hb hB) hi

section sums
variable {α : Type} [CommSemiring α]

/-- a sum over the two-level nest is the flat sum -/
theorem sum_range2_flat (n m : Nat) (g : Nat → α) :
    ((range2 n m).map fun t => g (t.1 * m + t.2)).sum = ∑ i ∈ range (n * m), g i := by
  rw [range2_map_flat, list_sum_map_range]

theorem sum_range2 (n m : Nat) (f : Nat × Nat → α) :
    ((range2 n m).map f).sum = ∑ a ∈ range n, ∑ b ∈ range m, f (a, b) := by
  induction n with
  | zero => simp [range2]
  | succ n ih =>
    rw [range2_succ, List.map_append, List.sum_append, ih, Finset.sum_range_succ, List.map_map]
    congr 1

end sums
end nests

end Primitiv.Arith
