import Mathlib.Algebra.BigOperators.Group.Finset.Basic
import Mathlib.Algebra.BigOperators.Ring.Finset
import Mathlib.Algebra.BigOperators.Group.List.Basic
import Mathlib.Tactic.Ring
import Mathlib.Tactic.Linarith
import PrimitivModel.Model.KernelsArith
import PrimitivModel.Lemmas.Shape
/-
Lemmas about the loop combinators of Model/KernelsArith.lean (`writeAt`,
`scatterAddAt`, `scatterSubAt`) and the loop nests (`range2`, `range3`, …):

* closed forms: a scatter-add loop leaves `g0 + Σ_{t, addr t = j} val t` in cell j;
  a write loop whose addresses are pairwise distinct leaves `val t` in cell `addr t`;
* the transposition lemma `sum_scatter_mul` behind every local adjoint law:
  `Σ_j (Σ_{t, addr t = j} val t) · x j = Σ_t val t · x (addr t)`;
* the write addresses of the sequential loop nests enumerate `0, 1, …, n·m − 1`
  in order (`range2_map_flat`), hence are in bounds, pairwise distinct and cover
  the output;
* the mixed-radix bound `b < B → i < M → b·M + i < B·M`.
-/
namespace Primitiv.Arith
open Finset

/-! ### closed forms of the loop combinators -/
section closed
variable {τ α : Type}

theorem scatterAddAt_eq [AddCommMonoid α] (ts : List τ) (addr : τ → Nat) (val : τ → α) (g0 : α) (j : Nat) :
    scatterAddAt ts addr val g0 j = g0 + ((ts.filter fun t => addr t = j).map val).sum := by
  unfold scatterAddAt
  induction ts generalizing g0 with
  | nil => simp
  | cons a rest ih =>
    rw [List.foldl_cons, ih]
    by_cases h : addr a = j
    · simp [h, add_assoc]
    · simp [h]

theorem scatterSubAt_eq [AddCommGroup α] (ts : List τ) (addr : τ → Nat) (val : τ → α) (g0 : α) (j : Nat) :
    scatterSubAt ts addr val g0 j = g0 - ((ts.filter fun t => addr t = j).map val).sum := by
  unfold scatterSubAt
  induction ts generalizing g0 with
  | nil => simp
  | cons a rest ih =>
    rw [List.foldl_cons, ih]
    by_cases h : addr a = j
    · simp [h, sub_sub]
    · simp [h]

/-- a cell no iteration addresses keeps its content -/
theorem writeAt_of_not_mem (ts : List τ) (addr : τ → Nat) (val : τ → α) (init : α) (j : Nat)
    (h : ∀ t ∈ ts, addr t ≠ j) : writeAt ts addr val init j = init := by
  unfold writeAt
  induction ts generalizing init with
  | nil => rfl
  | cons a rest ih =>
    rw [List.foldl_cons, if_neg (h a (by simp))]
    exact ih init fun t ht => h t (by simp [ht])

/-- pairwise distinct write addresses: cell `addr t` holds `val t`, whatever it held before -/
theorem writeAt_of_nodup (ts : List τ) (addr : τ → Nat) (val : τ → α) (init : α)
    (hnd : (ts.map addr).Nodup) {t : τ} (ht : t ∈ ts) : writeAt ts addr val init (addr t) = val t := by
  induction ts generalizing init with
  | nil => simp at ht
  | cons a rest ih =>
    rw [List.map_cons, List.nodup_cons] at hnd
    unfold writeAt
    rw [List.foldl_cons]
    rcases List.mem_cons.mp ht with rfl | hr
    · rw [if_pos rfl]
      apply writeAt_of_not_mem
      intro u hu heq
      exact hnd.1 (List.mem_map.mpr ⟨u, hu, heq⟩)
    · exact ih _ hnd.2 hr

/-- the result of a write loop does not depend on the previous content of a cell that is written -/
theorem writeAt_init_irrelevant (ts : List τ) (addr : τ → Nat) (val : τ → α) (i1 i2 : α)
    (hnd : (ts.map addr).Nodup) {j : Nat} (hj : j ∈ ts.map addr) :
    writeAt ts addr val i1 j = writeAt ts addr val i2 j := by
  obtain ⟨t, ht, rfl⟩ := List.mem_map.mp hj
  rw [writeAt_of_nodup ts addr val i1 hnd ht, writeAt_of_nodup ts addr val i2 hnd ht]

end closed

/-! ### transposition -/
section listsum
variable {α : Type} [AddCommMonoid α]

theorem list_sum_map_range (f : Nat → α) (n : Nat) : ((List.range n).map f).sum = ∑ i ∈ range n, f i := by
  induction n with
  | zero => simp
  | succ n ih => simp [List.range_succ, Finset.sum_range_succ, ih]

end listsum

section transpose
variable {τ α : Type} [CommSemiring α]

/-- `Σ_{j<n} (Σ_{t ∈ ts, addr t = j} val t) · x j = Σ_{t ∈ ts} val t · x (addr t)` when every address is `< n` -/
theorem sum_scatter_mul (ts : List τ) (addr : τ → Nat) (val : τ → α) (x : Nat → α) (n : Nat)
    (h : ∀ t ∈ ts, addr t < n) :
    ∑ j ∈ range n, ((ts.filter fun t => addr t = j).map val).sum * x j
      = (ts.map fun t => val t * x (addr t)).sum := by
  induction ts with
  | nil => simp
  | cons a rest ih =>
    have ha : addr a < n := h a (by simp)
    have hr : ∀ t ∈ rest, addr t < n := fun t ht => h t (by simp [ht])
    have step : ∀ j, (((a :: rest).filter fun t => addr t = j).map val).sum * x j
        = (if addr a = j then val a * x j else 0) + ((rest.filter fun t => addr t = j).map val).sum * x j := by
      intro j
      by_cases hj : addr a = j
      · simp [hj, add_mul]
      · simp [hj]
    simp only [step, Finset.sum_add_distrib, ih hr, List.map_cons, List.sum_cons]
    congr 1
    rw [Finset.sum_ite_eq (range n) (addr a) fun j => val a * x j]
    simp [ha]

end transpose

/-! ### loop nests -/
section nests

theorem mem_range2 {n m : Nat} {t : Nat × Nat} : t ∈ range2 n m ↔ t.1 < n ∧ t.2 < m := by
  obtain ⟨a, b⟩ := t
  simp [range2, List.mem_flatMap, List.mem_map, List.mem_range]

theorem mem_range3 {n m l : Nat} {t : Nat × Nat × Nat} : t ∈ range3 n m l ↔ t.1 < n ∧ t.2.1 < m ∧ t.2.2 < l := by
  obtain ⟨a, b, c⟩ := t
  simp [range3, List.mem_flatMap, List.mem_map, List.mem_range]

theorem range2_succ (n m : Nat) : range2 (n + 1) m = range2 n m ++ (List.range m).map fun b => (n, b) := by
  simp [range2, List.range_succ, List.flatMap_append]

/-- the sequential two-level nest visits the flat indices `0 … n·m − 1` in order -/
theorem range2_map_flat {β : Type} (n m : Nat) (g : Nat → β) :
    (range2 n m).map (fun t => g (t.1 * m + t.2)) = (List.range (n * m)).map g := by
  induction n with
  | zero => simp [range2]
  | succ n ih =>
    rw [range2_succ, List.map_append, ih, Nat.succ_mul, List.range_add, List.map_append]
    simp [List.map_map, Function.comp_def]

theorem range2_addr (n m : Nat) : (range2 n m).map (fun t => t.1 * m + t.2) = List.range (n * m) := by
  simpa using range2_map_flat n m id

theorem range2_addr_nodup (n m : Nat) : ((range2 n m).map fun t => t.1 * m + t.2).Nodup := by
  rw [range2_addr]; exact List.nodup_range

/-- the mixed-radix bound -/
theorem idx_lt {b B i M : Nat} (hb : b < B) (hi : i < M) : b * M + i < B * M := by
  calc b * M + i < b * M + M := Nat.add_lt_add_left hi _
    _ = (b + 1) * M := by ring
    _ ≤ B * M := Nat.mul_le_mul_right M hb

/-- a zero stride or the full stride: the address stays inside a tensor of `Bx` samples -/
theorem bcast_idx_lt {b B i M skip Bx : Nat} (hb : b < B) (hi : i < M)
    (hs : (skip = 0 ∧ 1 ≤ Bx) ∨ (skip = M ∧ B ≤ Bx)) : b * skip + i < Bx * M := by
  rcases hs with ⟨rfl, h1⟩ | ⟨rfl, hB⟩
  · simp only [Nat.mul_zero, Nat.zero_add]
    exact lt_of_lt_of_le hi (Nat.le_mul_of_pos_left M h1)
  · exact idx_lt (lt_of_lt_of_le hb hB) hi

section sums
variable {α : Type} [AddCommMonoid α]

/-- a sum over the two-level nest is the flat sum -/
theorem sum_range2_flat (n m : Nat) (g : Nat → α) :
    ((range2 n m).map fun t => g (t.1 * m + t.2)).sum = ∑ i ∈ range (n * m), g i := by
  rw [range2_map_flat, list_sum_map_range]

theorem sum_range2 (n m : Nat) (f : Nat × Nat → α) :
    ((range2 n m).map f).sum = ∑ a ∈ range n, ∑ b ∈ range m, f (a, b) := by
  induction n with
  | zero => simp [range2]
  | succ n ih =>
    rw [range2_succ, List.map_append, List.sum_append, ih, Finset.sum_range_succ, List.map_map]
    congr 1

end sums
end nests

end Primitiv.Arith

/-! ### the shape of every local adjoint law -/
namespace Primitiv.Arith
open Finset
section adjoint
variable {τ α : Type} [CommRing α]

theorem scatterSubAt_eq_add_neg (ts : List τ) (addr : τ → Nat) (val : τ → α) (g0 : α) (j : Nat) :
    scatterSubAt ts addr val g0 j = scatterAddAt ts addr (fun t => -val t) g0 j := by
  rw [scatterSubAt_eq, scatterAddAt_eq, sub_eq_add_neg]
  congr 1
  induction (ts.filter fun t => addr t = j) with
  | nil => simp
  | cons a rest ih => simp [ih, add_comm]

/-- one accumulator: `Σ_j (g'[j] − g[j]) · dx[j] = Σ_t val t · dx[addr t]` -/
theorem scatter_adjoint (ts : List τ) (addr : τ → Nat) (val : τ → α) (g dx : Nat → α) (n : Nat)
    (h : ∀ t ∈ ts, addr t < n) :
    ∑ j ∈ range n, (scatterAddAt ts addr val (g j) j - g j) * dx j = (ts.map fun t => val t * dx (addr t)).sum := by
  simp only [scatterAddAt_eq, add_sub_cancel_left]
  exact sum_scatter_mul ts addr val dx n h

/-- two accumulators updated by the same loop -/
theorem scatter_pair_adjoint (ts : List τ) (ia ib : τ → Nat) (va vb : τ → α) (ga gb da db : Nat → α) (na nb : Nat)
    (ha : ∀ t ∈ ts, ia t < na) (hb : ∀ t ∈ ts, ib t < nb) :
    ∑ j ∈ range na, (scatterAddAt ts ia va (ga j) j - ga j) * da j
      + ∑ j ∈ range nb, (scatterAddAt ts ib vb (gb j) j - gb j) * db j
      = (ts.map fun t => va t * da (ia t) + vb t * db (ib t)).sum := by
  rw [scatter_adjoint ts ia va ga da na ha, scatter_adjoint ts ib vb gb db nb hb]
  induction ts with
  | nil => simp
  | cons a rest ih =>
    have ha' : ∀ t ∈ rest, ia t < na := fun t ht => ha t (by simp [ht])
    have hb' : ∀ t ∈ rest, ib t < nb := fun t ht => hb t (by simp [ht])
    simp only [List.map_cons, List.sum_cons]
    rw [← ih ha' hb']
    ring

/-- reading a scatter-add result against a cotangent: `Σ_n gy[n] · (0 + Σ_{t, addr t = n} val t) = Σ_t gy[addr t] · val t` -/
theorem gather_adjoint (ts : List τ) (addr : τ → Nat) (val : τ → α) (gy : Nat → α) (n : Nat)
    (h : ∀ t ∈ ts, addr t < n) :
    ∑ j ∈ range n, gy j * scatterAddAt ts addr val 0 j = (ts.map fun t => gy (addr t) * val t).sum := by
  have := scatter_adjoint ts addr val (fun _ => (0 : α)) gy n h
  simp only [sub_zero] at this
  rw [← List.map_congr_left (fun t _ => mul_comm (val t) (gy (addr t))), ← this]
  exact Finset.sum_congr rfl fun j _ => mul_comm _ _

end adjoint
end Primitiv.Arith

/-! ### grouping a scatter loop by output cell; deeper nests; window maximum -/
namespace Primitiv.Arith
open Finset

section group
variable {σ τ α : Type} [AddCommMonoid α]

theorem list_sum_filter_map (l : List τ) (p : τ → Prop) [DecidablePred p] (v : τ → α) :
    ((l.filter fun t => p t).map v).sum = (l.map fun t => if p t then v t else 0).sum := by
  induction l with
  | nil => simp
  | cons a rest ih =>
    by_cases h : p a
    · simp [h, ih]
    · simp [h, ih]

theorem list_sum_filter_map_bool (l : List τ) (p : τ → Bool) (v : τ → α) :
    ((l.filter p).map v).sum = (l.map fun t => if p t then v t else 0).sum := by
  induction l with
  | nil => simp
  | cons a rest ih =>
    by_cases h : p a
    · simp [h, ih]
    · simp [h, ih]

/-- A loop nest `for s in outer: for t in inner s: buf[oaddr s] += v t` whose outer addresses are pairwise
distinct: the contributions that reach the cell of `s0` are exactly those of `inner s0`. -/
theorem scatter_group_sum (outer : List σ) (inner : σ → List τ) (oaddr : σ → Nat) (ya : τ → Nat) (v : τ → α)
    (hya : ∀ s ∈ outer, ∀ t ∈ inner s, ya t = oaddr s) (hnd : (outer.map oaddr).Nodup)
    {s0 : σ} (hs0 : s0 ∈ outer) :
    (((outer.flatMap inner).filter fun t => ya t = oaddr s0).map v).sum = ((inner s0).map v).sum := by
  induction outer with
  | nil => simp at hs0
  | cons s rest ih =>
    rw [List.map_cons, List.nodup_cons] at hnd
    rw [List.flatMap_cons, List.filter_append, List.map_append, List.sum_append]
    have hrest : ∀ s' ∈ rest, ∀ t ∈ inner s', ya t = oaddr s' := fun s' hs' => hya s' (by simp [hs'])
    by_cases h : oaddr s = oaddr s0
    · -- then s0 is s itself (or has the same address, which is excluded for the tail)
      have hnot : s0 ∉ rest := fun hm => hnd.1 (h ▸ List.mem_map.mpr ⟨s0, hm, rfl⟩)
      have hs : s0 = s := by
        rcases List.mem_cons.mp hs0 with r | r
        · exact r
        · exact absurd r hnot
      subst hs
      have h1 : ((inner s0).filter fun t => ya t = oaddr s0) = inner s0 :=
        List.filter_eq_self.mpr fun t ht => by simpa using hya s0 (by simp) t ht
      have h2 : ((rest.flatMap inner).filter fun t => ya t = oaddr s0) = [] := by
        rw [List.filter_eq_nil_iff]
        intro t ht
        obtain ⟨s', hs', ht'⟩ := List.mem_flatMap.mp ht
        have : ya t = oaddr s' := hrest s' hs' t ht'
        simp only [decide_eq_true_eq]
        intro heq
        exact hnd.1 (List.mem_map.mpr ⟨s', hs', by rw [← this, heq]⟩)
      rw [h1, h2]; simp
    · have hs : s0 ∈ rest := by
        rcases List.mem_cons.mp hs0 with r | r
        · exact absurd (r ▸ rfl) h
        · exact r
      have h1 : ((inner s).filter fun t => ya t = oaddr s0) = [] := by
        rw [List.filter_eq_nil_iff]
        intro t ht
        simp only [decide_eq_true_eq]
        rw [hya s (by simp) t ht]
        exact h
      rw [h1, ih hrest hnd.2 hs]; simp

end group

section nests3

theorem range3_succ (n m l : Nat) :
    range3 (n + 1) m l = range3 n m l ++ (range2 m l).map fun p => (n, p.1, p.2) := by
  simp [range3, range2, List.range_succ, List.flatMap_append, List.map_flatMap, Function.comp_def]

theorem range3_map_flat {β : Type} (n m l : Nat) (g : Nat → β) :
    (range3 n m l).map (fun t => g (t.1 * (m * l) + (t.2.1 * l + t.2.2))) = (List.range (n * (m * l))).map g := by
  induction n with
  | zero => simp [range3]
  | succ n ih =>
    rw [range3_succ, List.map_append, ih, Nat.succ_mul, List.range_add, List.map_append, List.map_map, List.map_map]
    congr 1
    exact range2_map_flat m l fun r => g (n * (m * l) + r)

theorem range3_addr (n m l : Nat) :
    (range3 n m l).map (fun t => t.1 * (m * l) + (t.2.1 * l + t.2.2)) = List.range (n * (m * l)) := by
  simpa using range3_map_flat n m l id

theorem range4_succ (n m l p : Nat) :
    range4 (n + 1) m l p = range4 n m l p ++ (range3 m l p).map fun t => (n, t) := by
  simp [range4, List.range_succ, List.flatMap_append]

theorem mem_range4 {n m l p : Nat} {t : Nat × Nat × Nat × Nat} :
    t ∈ range4 n m l p ↔ t.1 < n ∧ t.2.1 < m ∧ t.2.2.1 < l ∧ t.2.2.2 < p := by
  obtain ⟨a, b, c, d⟩ := t
  simp [range4, List.mem_flatMap, List.mem_map, List.mem_range, mem_range3]

theorem range4_map_flat {β : Type} (n m l p : Nat) (g : Nat → β) :
    (range4 n m l p).map (fun t => g (t.1 * (m * (l * p)) + (t.2.1 * (l * p) + (t.2.2.1 * p + t.2.2.2))))
      = (List.range (n * (m * (l * p)))).map g := by
  induction n with
  | zero => simp [range4]
  | succ n ih =>
    rw [range4_succ, List.map_append, ih, Nat.succ_mul, List.range_add, List.map_append, List.map_map, List.map_map]
    congr 1
    exact range3_map_flat m l p fun r => g (n * (m * (l * p)) + r)

theorem range4_addr (n m l p : Nat) :
    (range4 n m l p).map (fun t => t.1 * (m * (l * p)) + (t.2.1 * (l * p) + (t.2.2.1 * p + t.2.2.2)))
      = List.range (n * (m * (l * p))) := by
  simpa using range4_map_flat n m l p id

theorem mem_matIts {bs d1 d2 d3 : Nat} {t : MatIt} :
    t ∈ matIts bs d1 d2 d3 ↔ t.bn < bs ∧ t.k < d3 ∧ t.i < d1 ∧ t.j < d2 := by
  obtain ⟨bn, k, i, j⟩ := t
  simp only [matIts, List.mem_flatMap, List.mem_map, List.mem_range, mem_range3, MatIt.mk.injEq, Prod.exists]
  constructor
  · rintro ⟨a, b, c, ⟨h1, h2, h3⟩, j', hj, rfl, rfl, rfl, rfl⟩
    exact ⟨h1, h2, h3, hj⟩
  · rintro ⟨h1, h2, h3, h4⟩
    exact ⟨bn, k, i, ⟨h1, h2, h3⟩, j, h4, rfl, rfl, rfl, rfl⟩

end nests3

section wmax
variable {α : Type} [LinearOrder α]

/-- the running maximum of a window: an upper bound of `lowest` and of every value, and one of them -/
theorem windowMax_spec (lowest : α) (vals : List α) :
    lowest ≤ windowMax lowest vals ∧ (∀ v ∈ vals, v ≤ windowMax lowest vals) ∧
      (windowMax lowest vals = lowest ∨ windowMax lowest vals ∈ vals) := by
  unfold windowMax
  induction vals generalizing lowest with
  | nil => simp
  | cons a rest ih =>
    rw [List.foldl_cons]
    by_cases h : a > lowest
    · rw [if_pos h]
      obtain ⟨h1, h2, h3⟩ := ih a
      refine ⟨le_trans (le_of_lt h) h1, ?_, ?_⟩
      · intro v hv
        rcases List.mem_cons.mp hv with rfl | hr
        · exact h1
        · exact h2 v hr
      · rcases h3 with h3 | h3
        · right; rw [h3]; simp
        · right; exact List.mem_cons_of_mem _ h3
    · rw [if_neg h]
      obtain ⟨h1, h2, h3⟩ := ih lowest
      refine ⟨h1, ?_, ?_⟩
      · intro v hv
        rcases List.mem_cons.mp hv with rfl | hr
        · exact le_trans (not_lt.mp h) h1
        · exact h2 v hr
      · rcases h3 with h3 | h3
        · left; exact h3
        · right; exact List.mem_cons_of_mem _ h3

end wmax

end Primitiv.Arith

/-! ### what a batch-shared / batch-strided accumulator receives -/
namespace Primitiv.Arith
open Finset
section batch
variable {α : Type} [AddCommMonoid α]

/-- stride 0 (operand with batch 1): cell `i` receives the contributions of every sample -/
theorem scatter_shared_sum (bs size : Nat) (v : Nat × Nat → α) (g0 : α) {i : Nat} (hi : i < size) :
    scatterAddAt (range2 bs size) (fun t => t.1 * 0 + t.2) v g0 i = g0 + ∑ b ∈ range bs, v (b, i) := by
  rw [scatterAddAt_eq, list_sum_filter_map, sum_range2]
  congr 1
  apply Finset.sum_congr rfl
  intro b _
  simp only [Nat.mul_zero, Nat.zero_add]
  rw [Finset.sum_ite_eq' (range size) i fun c => v (b, c)]
  simp [hi]

/-- full stride: cell `(b, i)` receives exactly its own contribution -/
theorem scatter_batched (bs size : Nat) (v : Nat × Nat → α) (g0 : α) {b i : Nat} (hb : b < bs) (hi : i < size) :
    scatterAddAt (range2 bs size) (fun t => t.1 * size + t.2) v g0 (b * size + i) = g0 + v (b, i) := by
  rw [scatterAddAt_eq]
  congr 1
  have h := scatter_group_sum (α := α) (range2 bs size) (fun s => [s]) (fun t => t.1 * size + t.2)
    (fun t => t.1 * size + t.2) v (by intro s _ t ht; simp at ht; rw [ht]) (range2_addr_nodup bs size)
    (s0 := (b, i)) (mem_range2.mpr ⟨hb, hi⟩)
  have hf : (range2 bs size).flatMap (fun s => [s]) = range2 bs size := by simp
  rw [hf] at h
  simpa using h

end batch
end Primitiv.Arith

/-! ### three-level nests as nested sums -/
namespace Primitiv.Arith
open Finset
section sums3
variable {α : Type} [AddCommMonoid α]

theorem sum_range3 (n m l : Nat) (f : Nat × Nat × Nat → α) :
    ((range3 n m l).map f).sum = ∑ a ∈ range n, ∑ b ∈ range m, ∑ c ∈ range l, f (a, b, c) := by
  induction n with
  | zero => simp [range3]
  | succ n ih =>
    rw [range3_succ, List.map_append, List.sum_append, ih, Finset.sum_range_succ, List.map_map]
    congr 1
    exact sum_range2 m l fun p => f (n, p.1, p.2)

/-- a sum over the three-level nest is the flat sum over `n·(m·l)` cells -/
theorem sum_range3_flat (n m l : Nat) (g : Nat → α) :
    ((range3 n m l).map fun t => g (t.1 * (m * l) + (t.2.1 * l + t.2.2))).sum = ∑ i ∈ range (n * (m * l)), g i := by
  rw [range3_map_flat, list_sum_map_range]

end sums3
end Primitiv.Arith

/-! ### what the shape rules of the front end establish (used by Props/C11/Arith.lean `front_end_guard_*`) -/
namespace Primitiv.Arith.Guard
open Primitiv Primitiv.Spec Primitiv.ShapeL

theorem agree_ok_inv {s : Shape} {o : Option SShape} (h : Agree (.ok s) o) :
    ∃ t, o = some t ∧ toSpec s = t ∧ s.Canonical := by
  cases o with
  | none => exact absurd h (by simp [Agree])
  | some t => exact ⟨t, rfl, h.1, h.2⟩

theorem mk_some {dims : List Nat} {b : Nat} {t : SShape} (h : Spec.mk dims b = some t) : t = ⟨trim dims, b⟩ := by
  unfold Spec.mk at h
  split at h
  · simp at h
  · simp only [Option.some.injEq] at h; exact h.symm

/-- the volume of a canonical shape of depth ≤ 4 is the product of its first four axes -/
theorem canon_vol4 {s : Shape} (h : s.Canonical) (hd : s.dims.length ≤ 4) :
    s.volume = s.get 3 * (s.get 2 * (s.get 1 * s.get 0)) := by
  rw [h.vol]
  unfold Shape.get
  match hm : s.dims with
  | [] => simp
  | [a] => simp
  | [a, b] => simp [Nat.mul_comm]
  | [a, b, c] => simp [Nat.mul_comm, Nat.mul_left_comm]
  | [a, b, c, d] => simp [Nat.mul_comm, Nat.mul_left_comm]
  | _ :: _ :: _ :: _ :: _ :: _ => rw [hm] at hd; simp at hd

theorem get_of_short {s : Shape} {i : Nat} (h : s.dims.length ≤ i) : s.get i = 1 := by
  unfold Shape.get; exact getD_ge h

theorem canon_vol3 {s : Shape} (h : s.Canonical) (hd : s.dims.length ≤ 3) :
    s.volume = s.get 2 * (s.get 1 * s.get 0) := by
  rw [canon_vol4 h (by omega), get_of_short hd, Nat.one_mul]

theorem canon_vol2 {s : Shape} (h : s.Canonical) (hd : s.dims.length ≤ 2) : s.volume = s.get 1 * s.get 0 := by
  rw [canon_vol3 h (by omega), get_of_short hd, Nat.one_mul]

theorem canon_vol0 {s : Shape} (h : s.Canonical) (hd : s.dims.length = 0) : s.volume = 1 := by
  rw [canon_vol2 h (by omega), get_of_short (by omega), get_of_short (by omega)]

/-- the element count of a canonical shape -/
theorem canon_size {s : Shape} (h : s.Canonical) : s.size = s.batch * s.volume := by
  rw [size_exact' h, h.vol]

/-- `has_batch() * size`: the full stride for an operand that carries the result's batch, 0 for a batch-1 operand -/
theorem skipOf_ok {s : Shape} (h : s.Canonical) (size bs : Nat) (hb : bs = s.batch ∨ s.batch = 1) :
    (skipOf s size = 0 ∧ 1 ≤ s.batch) ∨ (skipOf s size = size ∧ bs ≤ s.batch) := by
  have hne := h.batch_ne
  unfold skipOf Shape.hasBatch
  by_cases hgt : s.batch > 1
  · right
    simp only [hgt, decide_true, if_true, true_and]
    rcases hb with hb | hb <;> omega
  · left
    simp only [hgt, decide_false, Bool.false_eq_true, if_false, true_and]
    omega

theorem compat_max {a b : Nat} (ha : a ≠ 0) (hb : b ≠ 0) (h : (a == b || a == 1 || b == 1) = true) :
    (max a b = a ∨ a = 1) ∧ (max a b = b ∨ b = 1) := by
  simp only [Bool.or_eq_true, beq_iff_eq] at h
  omega

/-- facts about the result of a rule that ends in `mk dims (max a.batch b.batch)` -/
theorem of_mk {ys : Shape} {dims : List Nat} {b : Nat}
    (h : Spec.mk dims b = some (toSpec ys)) : ys.dims = trim dims ∧ ys.batch = b := by
  have := mk_some h
  simp only [toSpec, SShape.mk.injEq] at this
  exact this

end Primitiv.Arith.Guard
