/-
General lemmas behind the C20 theorems: what the row predicates
(`derefChecked`, `onlyPointersChecked`) mean for `predict`, the status machine
against its specification, the size-query helper against its contract.
Core Lean only.
-/
import PrimitivModel.Model.CApi

set_option linter.unusedSimpArgs false

namespace Primitiv.CApi

/-! ### row predicates ⇒ behaviour of `predict` -/

theorem predictAux_safe (pat : Nat → ArgPat) :
    ∀ (us : List Use) (c e : List Nat),
      derefCheckedAux us c e = true →
      (∀ p ∈ c, pat p ≠ .null) → (∀ p ∈ e, pat p ≠ .nullElem) →
      predictAux pat us ≠ .crash ∧ predictAux pat us ≠ .errOther := by
  intro us
  induction us with
  | nil => intro c e _ _ _; simp [predictAux]
  | cons u us ih =>
    intro c e h hc he
    cases hk : u.kind with
    | check =>
      simp only [derefCheckedAux, hk] at h
      simp only [predictAux, hk]
      by_cases hf : (pat u.param).falsy = true
      · simp [hf]
      · simp only [hf]
        apply ih (u.param :: c) e h
        · intro p hp
          cases List.mem_cons.mp hp with
          | inl h1 => subst h1; intro hn; apply hf; simp [hn, ArgPat.falsy]
          | inr h1 => exact hc p h1
        · exact he
    | elemCheck =>
      simp only [derefCheckedAux, hk, Bool.and_eq_true] at h
      simp only [predictAux, hk]
      have hnn : pat u.param ≠ .null := hc _ (by simpa using h.1)
      by_cases hn : pat u.param = .nullElem
      · simp [hn]
      · simp only [hnn, hn, if_false]
        apply ih c (u.param :: e) h.2 hc
        intro p hp
        cases List.mem_cons.mp hp with
        | inl h1 => subst h1; exact hn
        | inr h1 => exact he p h1
    | starWrite | star | arrow | cppStar | cppArrow | index | rangeData | asString | rawFwd | sizeArg =>
      simp only [derefCheckedAux, hk, UseKind.isDeref, UseKind.isElemDeref, Bool.not_true, Bool.not_false,
        Bool.false_or, Bool.true_or, Bool.and_eq_true, Bool.true_and] at h
      simp only [predictAux, hk, UseKind.isDeref, UseKind.isElemDeref, Bool.true_and, Bool.false_and]
      have hnn : pat u.param ≠ .null := hc _ (by simpa using h.1)
      simp [hnn]
      exact ih c e h.2 hc he
    | rangeObjPtr | rangeString =>
      simp only [derefCheckedAux, hk, UseKind.isDeref, UseKind.isElemDeref, Bool.not_true, Bool.not_false,
        Bool.false_or, Bool.true_or, Bool.and_eq_true, Bool.true_and] at h
      simp only [predictAux, hk, UseKind.isDeref, UseKind.isElemDeref, Bool.true_and, Bool.false_and]
      have hnn : pat u.param ≠ .null := hc _ (by simpa using h.1.1)
      have hne : pat u.param ≠ .nullElem := he _ (by simpa using h.1.2)
      simp [hnn, hne]
      exact ih c e h.2 hc he
    | elemCppStar | elemCppArrow =>
      simp only [derefCheckedAux, hk, UseKind.isDeref, UseKind.isElemDeref, Bool.not_true, Bool.not_false,
        Bool.false_or, Bool.true_or, Bool.and_eq_true, Bool.true_and] at h
      simp only [predictAux, hk, UseKind.isDeref, UseKind.isElemDeref, Bool.true_and, Bool.false_and]
      have hne : pat u.param ≠ .nullElem := he _ (by simpa using h.1)
      simp [hne]
      exact ih c e h.2 hc he
    | cppDelete | elemFwdCpp | fwdCpp | fwdBuf | valueUse =>
      simp only [derefCheckedAux, hk, UseKind.isDeref, UseKind.isElemDeref, Bool.not_true, Bool.not_false,
        Bool.false_or, Bool.true_or, Bool.and_eq_true, Bool.true_and] at h
      simp only [predictAux, hk, UseKind.isDeref, UseKind.isElemDeref, Bool.true_and, Bool.false_and]
      simp
      exact ih c e h hc he

/-- A row whose dereferences are all checked never dereferences NULL, whatever
the argument pattern. -/
theorem Wrapper.predict_safe (w : Wrapper) (h : w.derefChecked = true) (pat : List ArgPat) :
    w.predict pat ≠ .crash ∧ w.predict pat ≠ .errOther :=
  predictAux_safe _ w.uses [] [] h (by simp) (by simp)

theorem predictAux_pass (depth : Nat → Nat) (pat : Nat → ArgPat)
    (hz : ∀ i, pat i = .zero → depth i = 0)
    (hn : ∀ i, pat i ≠ .null ∧ pat i ≠ .nullElem) :
    ∀ us : List Use,
      (us.all fun u => match u.kind with
        | .check => decide (1 ≤ depth u.param)
        | .elemCheck => decide (2 ≤ depth u.param)
        | _ => true) = true →
      predictAux pat us = .pass := by
  intro us
  induction us with
  | nil => intro _; simp [predictAux]
  | cons u us ih =>
    intro h
    simp only [List.all_cons, Bool.and_eq_true] at h
    have ih' := ih h.2
    have h1 := h.1
    cases hk : u.kind <;> simp only [hk] at h1 <;>
      simp only [predictAux, hk, UseKind.isDeref, UseKind.isElemDeref, Bool.true_and, Bool.false_and, (hn u.param).1,
        (hn u.param).2, if_false, ih'] <;> try simp
    -- check: the argument is not falsy
    · have hd : 1 ≤ depth u.param := by simpa using h1
      cases hp : pat u.param with
      | valid => simp [ArgPat.falsy, ih']
      | null => exact absurd hp (hn _).1
      | nullElem => exact absurd hp (hn _).2
      | zero => have := hz _ hp; omega

/-- A row that null-checks pointers only accepts every call without NULLs:
no by-value argument is rejected for being 0. -/
theorem Wrapper.predict_pass (w : Wrapper) (h : w.onlyPointersChecked = true) (pat : List ArgPat)
    (hz : ∀ i, pat.getD i .valid = .zero → w.ptrDepthOf i = 0)
    (hn : ∀ i, pat.getD i .valid ≠ .null ∧ pat.getD i .valid ≠ .nullElem) :
    w.predict pat = .pass :=
  predictAux_pass w.ptrDepthOf _ hz hn w.uses h

/-! ### the status machine -/

namespace CStatus

theorem run_spec (h : HandlerSpec) (hs : h.sound = true) :
    ∀ (ops : List Op) (m : String), run h ⟨m⟩ ops = (⟨specMsg ops m⟩, specRes ops m) := by
  simp only [HandlerSpec.sound, Bool.and_eq_true] at hs
  obtain ⟨⟨⟨⟨⟨⟨h1, h2⟩, h3⟩, _⟩, h5⟩, _⟩, _⟩ := hs
  intro ops
  induction ops with
  | nil => intro m; simp [run, specMsg, specRes]
  | cons o os ih =>
    intro m
    cases o with
    | call t =>
      cases t with
      | none => simp [run, step, specMsg, specRes, ih]
      | some w => simp [run, step, specMsg, specRes, ih, h1, h2]
    | reset => simp [run, step, specMsg, specRes, ih, h3]
    | getMessage => simp [run, step, specMsg, specRes, ih, h5]

theorem runT_state (h : HandlerSpec) (ht : h.threadLocal = true) (t : Nat) :
    ∀ (ops : List (Nat × Op)) (σ : Sts), (runT h σ ops).1 t = (run h (σ t) (proj t ops)).1 := by
  intro ops
  induction ops with
  | nil => intro σ; simp [runT, run, proj]
  | cons o os ih =>
    intro σ
    obtain ⟨k, op⟩ := o
    by_cases hk : k = t
    · subst hk
      simp [runT, stepT, slot, ht, proj, run, ih]
    · simp [runT, stepT, slot, ht, proj, hk, ih]
      have : ¬ t = k := fun e => hk e.symm
      simp [this]

/-- the results that thread `t` sees in an interleaved history -/
def resultsOf (t : Nat) (ops : List (Nat × Op)) (rs : List Res) : List Res :=
  ((ops.zip rs).filter (fun x => x.1.1 = t)).map (·.2)

theorem runT_results (h : HandlerSpec) (ht : h.threadLocal = true) (t : Nat) :
    ∀ (ops : List (Nat × Op)) (σ : Sts),
      resultsOf t ops (runT h σ ops).2 = (run h (σ t) (proj t ops)).2 := by
  intro ops
  induction ops with
  | nil => intro σ; simp [runT, run, proj, resultsOf]
  | cons o os ih =>
    intro σ
    obtain ⟨k, op⟩ := o
    by_cases hk : k = t
    · subst hk
      have := ih (fun j => if j = k then (step h (σ k) op).1 else σ j)
      simp [resultsOf] at this
      simp [runT, stepT, slot, ht, proj, run, resultsOf, this]
    · have := ih (fun j => if j = k then (step h (σ k) op).1 else σ j)
      have hne : ¬ t = k := fun e => hk e.symm
      simp [resultsOf, hne] at this
      simp [runT, stepT, slot, ht, proj, hk, resultsOf, this]

end CStatus

/-! ### the size-query helpers -/

theorem sizeQuery_contract {α} (h : HelperSpec) (hs : h.sound = true) (src term b : List α) (size : Nat)
    (hterm : term.length = h.writeExtra) (hb : b.length = size) :
    let req := src.length + h.reportExtra
    sizeQuery h src term none size = .ok none req
    ∧ (size < req → sizeQuery h src term (some b) size = .err (some b) size)
    ∧ (req ≤ size → sizeQuery h src term (some b) size = .ok (some (src ++ term ++ b.drop req)) size) := by
  simp only [HelperSpec.sound, Bool.and_eq_true, beq_iff_eq, decide_eq_true_eq] at hs
  obtain ⟨⟨⟨⟨_, h2⟩, h3⟩, h4⟩, h5⟩ := hs
  have htake : term.take h.writeExtra = term := by rw [← hterm]; exact List.take_length
  refine ⟨by simp [sizeQuery], ?_, ?_⟩
  · intro hlt
    have : h.reportExtra = 0 ∨ h.reportExtra = 1 := by omega
    cases this with
    | inl h0 =>
      have he : h.errWhenEqual = false := by
        cases hq : h.errWhenEqual with
        | false => rfl
        | true => rw [hq] at h3; simp [h0] at h3
      have : size < src.length := by omega
      simp [sizeQuery, h2, this]
    | inr h1 =>
      have he : h.errWhenEqual = true := by rw [h3]; simp [h1]
      have : size < src.length ∨ size = src.length := by omega
      cases this with
      | inl hl => simp [sizeQuery, h2, hl]
      | inr hl => simp [sizeQuery, h2, he, hl]
  · intro hge
    have : h.reportExtra = 0 ∨ h.reportExtra = 1 := by omega
    have hlen : (src ++ term).length = src.length + h.reportExtra := by simp [hterm, h4]
    have hnl : ¬ size < src.length := by omega
    have hne : h.errWhenEqual = true → ¬ size = src.length := by
      intro hq; rw [h3] at hq; have : h.reportExtra = 1 := by simpa using hq
      omega
    have hguard : ((h.errWhenLess && decide (size < src.length)) || (h.errWhenEqual && decide (size = src.length))) = false := by
      cases hq : h.errWhenEqual with
      | false => simp [hnl]
      | true => simp [hnl, hne hq]
    have hfit : src.length + h.reportExtra ≤ b.length := by omega
    simp only [sizeQuery, hguard, htake]
    simp [hfit, hterm, h4, List.append_assoc]

end Primitiv.CApi
