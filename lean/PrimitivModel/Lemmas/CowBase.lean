import PrimitivModel.Spec.Cow
/-
Lemmas for property C07 (family `cow`): slot lists, owner counting, the three
state primitives of Model/Cow.lean, the invariant and the abstraction to the
pure-value pool of Spec/Cow.lean.  Core Lean only.
-/
namespace Primitiv.Cow

/-! ### slot lists -/
section slots
variable {α β : Type}

@[simp] theorem getSlot_nil (i : Nat) : getSlot ([] : List (Option α)) i = none := by
  cases i <;> rfl

theorem getSlot_setSlot (p : List (Option α)) (i j : Nat) (v : Option α) :
    getSlot (setSlot p i v) j = if j = i then v else getSlot p j := by
  fun_induction setSlot p i v generalizing j <;> cases j <;> simp_all [getSlot]

@[simp] theorem getSlot_setSlot_same (p : List (Option α)) (i : Nat) (v : Option α) :
    getSlot (setSlot p i v) i = v := by simp [getSlot_setSlot]

theorem getSlot_setSlot_ne (p : List (Option α)) {i j : Nat} (v : Option α) (h : j ≠ i) :
    getSlot (setSlot p i v) j = getSlot p j := by simp [getSlot_setSlot, h]

theorem getSlot_of_le (p : List (Option α)) (i : Nat) (h : p.length ≤ i) : getSlot p i = none := by
  fun_induction getSlot p i <;> simp_all

theorem lt_of_getSlot {p : List (Option α)} {i : Nat} {x : α} (h : getSlot p i = some x) : i < p.length := by
  apply Decidable.byContradiction; intro hc
  rw [getSlot_of_le p i (by omega)] at h; cases h

theorem length_setSlot_of_lt (p : List (Option α)) (i : Nat) (v : Option α) (h : i < p.length) :
    (setSlot p i v).length = p.length := by
  fun_induction setSlot p i v <;> simp_all

theorem getSlot_append_one (p : List (Option α)) (v : Option α) (i : Nat) :
    getSlot (p ++ [v]) i = if i = p.length then v else getSlot p i := by
  induction p generalizing i with
  | nil => cases i <;> simp [getSlot]
  | cons o rest ih => cases i <;> simp [getSlot, ih]

theorem getSlot_map (f : α → β) (p : List (Option α)) (i : Nat) :
    getSlot (p.map (Option.map f)) i = (getSlot p i).map f := by
  fun_induction getSlot p i <;> simp_all [getSlot]

theorem map_setSlot (f : α → β) (p : List (Option α)) (i : Nat) (v : Option α) :
    (setSlot p i v).map (Option.map f) = setSlot (p.map (Option.map f)) i (v.map f) := by
  fun_induction setSlot p i v <;> simp_all [setSlot]

theorem setSlot_getSlot (p : List (Option α)) (i : Nat) (x : α) (h : getSlot p i = some x) :
    setSlot p i (some x) = p := by
  fun_induction getSlot p i <;> simp_all [setSlot]

theorem mem_getSlot {p : List (Option α)} {o : Option α} (h : o ∈ p) : ∃ i, getSlot p i = o := by
  induction p with
  | nil => cases h
  | cons a rest ih =>
    cases h with
    | head => exact ⟨0, rfl⟩
    | tail _ h' => obtain ⟨i, hi⟩ := ih h'; exact ⟨i + 1, hi⟩

end slots

/-! ### owner counting -/

def pointsTo (b : Nat) : Option Handle → Bool
  | some (.valid _ b') => b' == b
  | _ => false

/-- number of pool slots whose handle is buffer `b` -/
def refs : List (Option Handle) → Nat → Nat
  | [], _ => 0
  | o :: rest, b => (pointsTo b o).toNat + refs rest b

@[simp] theorem pointsTo_none (b : Nat) : pointsTo b none = false := rfl
@[simp] theorem pointsTo_invalid (b : Nat) : pointsTo b (some .invalid) = false := rfl
@[simp] theorem pointsTo_valid (b b' : Nat) (sh : Shape) : pointsTo b (some (.valid sh b')) = (b' == b) := rfl

theorem pointsTo_iff (b : Nat) (o : Option Handle) : pointsTo b o = true ↔ bufOf o = some b := by
  cases o with
  | none => simp [pointsTo, bufOf]
  | some h => cases h <;> simp [pointsTo, bufOf]

theorem refs_setSlot (p : List (Option Handle)) (i : Nat) (v : Option Handle) (b : Nat) :
    refs (setSlot p i v) b + (pointsTo b (getSlot p i)).toNat
      = refs p b + (pointsTo b v).toNat := by
  fun_induction setSlot p i v <;> simp_all [refs, getSlot] <;> omega

theorem refs_pos_of_getSlot {p : List (Option Handle)} {i : Nat} {sh : Shape} {b : Nat}
    (h : getSlot p i = some (.valid sh b)) : 0 < refs p b := by
  fun_induction getSlot p i <;> simp_all [refs] <;> omega

theorem refs_two_of_getSlot {p : List (Option Handle)} {i j : Nat} {sh sh' : Shape} {b : Nat}
    (hi : getSlot p i = some (.valid sh b)) (hj : getSlot p j = some (.valid sh' b)) (hne : i ≠ j) :
    2 ≤ refs p b := by
  have h1 := refs_setSlot p i none b
  have h2 : getSlot (setSlot p i none) j = some (.valid sh' b) := by
    rw [getSlot_setSlot_ne _ _ (Ne.symm hne)]; exact hj
  have h3 := refs_pos_of_getSlot h2
  simp [hi] at h1
  omega

theorem refs_zero_of_none {p : List (Option Handle)} {b : Nat}
    (h : ∀ i, bufOf (getSlot p i) ≠ some b) : refs p b = 0 := by
  induction p with
  | nil => rfl
  | cons o rest ih =>
    have h0 := h 0
    simp only [getSlot] at h0
    have : pointsTo b o = false := by
      cases hp : pointsTo b o with
      | false => rfl
      | true => exact absurd ((pointsTo_iff b o).1 hp) h0
    simp only [refs, this]
    have := ih (fun i => by have := h (i + 1); simpa [getSlot] using this)
    simp [this]

theorem exists_of_refs_pos {p : List (Option Handle)} {b : Nat} (h : 0 < refs p b) :
    ∃ i sh, getSlot p i = some (.valid sh b) := by
  induction p with
  | nil => simp [refs] at h
  | cons o rest ih =>
    by_cases hp : pointsTo b o = true
    · cases o with
      | none => simp [pointsTo] at hp
      | some hd =>
        cases hd with
        | invalid => simp [pointsTo] at hp
        | valid sh b' =>
          simp [pointsTo] at hp; subst hp
          exact ⟨0, sh, rfl⟩
    · simp [refs, hp] at h
      obtain ⟨i, sh, hi⟩ := ih h
      exact ⟨i + 1, sh, hi⟩

/-! ### the heap -/

def rcOf (hp : List (Option Buf)) (b : Nat) : Nat :=
  match getSlot hp b with
  | some bf => bf.rc
  | none => 0

def dataOf (hp : List (Option Buf)) (b : Nat) : List Int :=
  match getSlot hp b with
  | some bf => bf.data
  | none => []

theorem getSlot_incr (hp : List (Option Buf)) (b c : Nat) :
    getSlot (incr hp b) c = if c = b then (getSlot hp b).map (fun bf => { bf with rc := bf.rc + 1 }) else getSlot hp c := by
  unfold incr
  cases h : getSlot hp b with
  | none => by_cases hc : c = b <;> simp [hc, h]
  | some bf => by_cases hc : c = b <;> simp [hc, getSlot_setSlot]

theorem getSlot_decr (hp : List (Option Buf)) (b c : Nat) :
    getSlot (decr hp b) c = if c = b then
        (match getSlot hp b with
         | some bf => if bf.rc ≤ 1 then none else some { bf with rc := bf.rc - 1 }
         | none => none)
      else getSlot hp c := by
  unfold decr
  cases h : getSlot hp b with
  | none => by_cases hc : c = b <;> simp [hc, h]
  | some bf =>
    by_cases hc : c = b <;> by_cases hr : bf.rc ≤ 1 <;> simp [hc, hr, getSlot_setSlot]

theorem getSlot_writeBuf (hp : List (Option Buf)) (b c : Nat) (d : List Int) :
    getSlot (writeBuf hp b d) c = if c = b then (getSlot hp b).map (fun bf => { bf with data := d }) else getSlot hp c := by
  unfold writeBuf
  cases h : getSlot hp b with
  | none => by_cases hc : c = b <;> simp [hc, h]
  | some bf => by_cases hc : c = b <;> simp [hc, getSlot_setSlot]

theorem length_incr (hp : List (Option Buf)) (b : Nat) : (incr hp b).length = hp.length := by
  unfold incr
  cases h : getSlot hp b with
  | none => rfl
  | some bf => exact length_setSlot_of_lt _ _ _ (lt_of_getSlot h)

theorem length_decr (hp : List (Option Buf)) (b : Nat) : (decr hp b).length = hp.length := by
  unfold decr
  cases h : getSlot hp b with
  | none => rfl
  | some bf =>
    by_cases hr : bf.rc ≤ 1 <;> simp [hr] <;> exact length_setSlot_of_lt _ _ _ (lt_of_getSlot h)

theorem length_writeBuf (hp : List (Option Buf)) (b : Nat) (d : List Int) : (writeBuf hp b d).length = hp.length := by
  unfold writeBuf
  cases h : getSlot hp b with
  | none => rfl
  | some bf => exact length_setSlot_of_lt _ _ _ (lt_of_getSlot h)

theorem length_incrO (hp : List (Option Buf)) (o : Option Nat) : (incrO hp o).length = hp.length := by
  cases o <;> simp [incrO, length_incr]

theorem length_decrO (hp : List (Option Buf)) (o : Option Nat) : (decrO hp o).length = hp.length := by
  cases o <;> simp [decrO, length_decr]

end Primitiv.Cow
