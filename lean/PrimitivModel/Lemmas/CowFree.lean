import PrimitivModel.Lemmas.CowBase
/-
Buffer ids are never reused and a freed buffer stays freed: every operation
only ever touches live buffers or appends a new one.  (No invariant needed.)
-/
namespace Primitiv.Cow

/-- the heap `hp'` is a later stage of `hp` -/
def Evo (hp hp' : List (Option Buf)) : Prop :=
  hp.length ≤ hp'.length ∧ ∀ b, b < hp.length → getSlot hp b = none → getSlot hp' b = none

theorem Evo.refl (hp : List (Option Buf)) : Evo hp hp := ⟨Nat.le_refl _, fun _ _ h => h⟩

theorem Evo.trans {a b c : List (Option Buf)} (h1 : Evo a b) (h2 : Evo b c) : Evo a c :=
  ⟨Nat.le_trans h1.1 h2.1, fun x hx hn => h2.2 x (Nat.lt_of_lt_of_le hx h1.1) (h1.2 x hx hn)⟩

theorem evo_incr (hp : List (Option Buf)) (b : Nat) : Evo hp (incr hp b) := by
  refine ⟨by rw [length_incr]; exact Nat.le_refl _, ?_⟩
  intro c _ hn
  rw [getSlot_incr]
  by_cases hc : c = b
  · subst hc; simp [hn]
  · simp [hc, hn]

theorem evo_decr (hp : List (Option Buf)) (b : Nat) : Evo hp (decr hp b) := by
  refine ⟨by rw [length_decr]; exact Nat.le_refl _, ?_⟩
  intro c _ hn
  rw [getSlot_decr]
  by_cases hc : c = b
  · subst hc; simp [hn]
  · simp [hc, hn]

theorem evo_writeBuf (hp : List (Option Buf)) (b : Nat) (d : List Int) : Evo hp (writeBuf hp b d) := by
  refine ⟨by rw [length_writeBuf]; exact Nat.le_refl _, ?_⟩
  intro c _ hn
  rw [getSlot_writeBuf]
  by_cases hc : c = b
  · subst hc; simp [hn]
  · simp [hc, hn]

theorem evo_append (hp : List (Option Buf)) (x : Option Buf) : Evo hp (hp ++ [x]) := by
  refine ⟨by simp, ?_⟩
  intro c hc hn
  rw [getSlot_append_one]
  have : c ≠ hp.length := by omega
  simp [this, hn]

theorem evo_incrO (hp : List (Option Buf)) (o : Option Nat) : Evo hp (incrO hp o) := by
  cases o with
  | none => exact Evo.refl _
  | some b => exact evo_incr hp b

theorem evo_decrO (hp : List (Option Buf)) (o : Option Nat) : Evo hp (decrO hp o) := by
  cases o with
  | none => exact Evo.refl _
  | some b => exact evo_decr hp b

theorem evo_replace (s : State) (dst : Nat) (v : Option Handle) : Evo s.heap (replace s dst v).heap :=
  (evo_incrO _ _).trans (evo_decrO _ _)

theorem evo_allocInto (s : State) (dst : Nat) (sh : Shape) (vals : List Int) : Evo s.heap (allocInto s dst sh vals).heap :=
  (evo_decrO _ _).trans (evo_append _ _)

theorem evo_mutableHandle (s : State) (h : Nat) : Evo s.heap (mutableHandle s h).heap := by
  unfold mutableHandle
  split
  · split
    · split
      · exact evo_allocInto _ _ _ _
      · exact Evo.refl _
    · exact Evo.refl _
  · exact Evo.refl _

theorem evo_inplace1 (s : State) (h : Nat) (f : Nat → List Int → List Int) : Evo s.heap (inplace1 s h f).1.heap := by
  unfold inplace1
  have hm := evo_mutableHandle s h
  dsimp only
  split
  · split
    · exact hm.trans (evo_writeBuf _ _ _)
    · exact hm
  · exact hm

theorem evo_inplace2 (f : Int → Int → Int) (s : State) (h g : Nat) : Evo s.heap (inplace2 f s h g).1.heap := by
  unfold inplace2
  have hm := evo_mutableHandle s h
  split
  · split
    · split
      · exact Evo.refl _
      · dsimp only
        split
        · split
          · exact hm.trans (evo_writeBuf _ _ _)
          · exact hm
        · exact hm
    · exact Evo.refl _
  · exact Evo.refl _

theorem evo_copyOp (s : State) (h g : Nat) : Evo s.heap (copyOp s h g).1.heap := by
  unfold copyOp
  split
  · exact Evo.refl _
  · exact evo_replace _ _ _

theorem evo_viewOp (s : State) (h g : Nat) (rule : Shape → R Shape) : Evo s.heap (viewOp s h g rule).1.heap := by
  unfold viewOp
  split
  · exact Evo.refl _
  · exact Evo.refl _
  · split
    · exact Evo.refl _
    · exact Evo.refl _
    · exact evo_replace _ _ _

theorem evo_withShape (s : State) (dims : List Nat) (batch : Nat) (k : Shape → State × Out)
    (hk : ∀ sh, Evo s.heap (k sh).1.heap) : Evo s.heap (withShape s dims batch k).1.heap := by
  unfold withShape
  split
  · exact Evo.refl _
  · exact Evo.refl _
  · exact hk _

theorem evo_accum (s : State) (dst src : Nat) (sd ss : Shape) (K : List Int → List Int → List Int) :
    Evo s.heap (accum s dst src sd ss K).1.heap := by
  unfold accum
  have hm := evo_mutableHandle s dst
  dsimp only
  split
  · split
    · exact hm.trans (evo_writeBuf _ _ _)
    · exact hm
  · exact hm

theorem evo_bwOp (s : State) (gy gx : Nat) (ok : Shape → Shape → R Bool)
    (K : Shape → Shape → List Int → List Int → List Int) : Evo s.heap (bwOp s gy gx ok K).1.heap := by
  unfold bwOp
  split
  · split
    · exact Evo.refl _
    · split
      · split <;> (try exact Evo.refl _)
        exact evo_accum _ _ _ _ _ _
      · exact Evo.refl _
  · exact Evo.refl _

theorem evo_abBwOp (g : Int → Int → Int) (s : State) (gy ga gb : Nat) : Evo s.heap (abBwOp g s gy ga gb).1.heap := by
  unfold abBwOp
  split
  · split
    · exact Evo.refl _
    · split
      · split <;> (try exact Evo.refl _)
        dsimp only
        split
        · exact (evo_accum _ _ _ _ _ _).trans (evo_accum _ _ _ _ _ _)
        · exact evo_accum _ _ _ _ _ _
      · exact Evo.refl _
  · exact Evo.refl _

theorem evo_freshOp (s : State) (h g : Nat) (rule : Shape → R Shape) : Evo s.heap (freshOp s h g rule).1.heap := by
  unfold freshOp
  split
  · exact Evo.refl _
  · exact Evo.refl _
  · split
    · exact Evo.refl _
    · exact Evo.refl _
    · split
      · exact evo_allocInto _ _ _ _
      · exact Evo.refl _

theorem evo_step (s : State) (op : Op) : Evo s.heap (step s op).1.heap := by
  cases op with
  | new h dims batch vals =>
    apply evo_withShape; intro sh; try dsimp only
    split
    · exact Evo.refl _
    · exact evo_allocInto _ _ _ _
  | copy h g => exact evo_copyOp s h g
  | copyctor h g => exact evo_copyOp s h g
  | move h g =>
    simp only [step]
    split
    · exact Evo.refl _
    · split
      · exact Evo.refl _
      · exact (evo_replace _ _ _).trans (evo_replace _ _ _)
  | reshape h g dims batch =>
    simp only [step]
    split
    · exact Evo.refl _
    · apply evo_withShape; intro sh; exact evo_viewOp _ _ _ _
  | flatten h g => exact evo_viewOp _ _ _ _
  | reset h k =>
    simp only [step]
    split
    · exact Evo.refl _
    · exact Evo.refl _
    · exact evo_inplace1 _ _ _
  | resetv h vals =>
    simp only [step]
    split
    · exact Evo.refl _
    · exact Evo.refl _
    · split
      · exact Evo.refl _
      · exact evo_inplace1 _ _ _
  | iadd h g => exact evo_inplace2 _ _ _ _
  | isub h g => exact evo_inplace2 _ _ _ _
  | imul h k =>
    simp only [step]
    split
    · exact Evo.refl _
    · exact Evo.refl _
    · exact evo_inplace1 _ _ _
  | invalidate h =>
    simp only [step]
    split
    · exact Evo.refl _
    · exact evo_replace _ _ _
  | drop h =>
    simp only [step]
    split
    · exact Evo.refl _
    · exact evo_replace _ _ _
  | read h =>
    simp only [step]
    split
    · exact Evo.refl _
    · exact Evo.refl _
    · split <;> exact Evo.refl _
  | shape h => simp only [step]; split <;> exact Evo.refl _
  | valid h => simp only [step]; split <;> exact Evo.refl _
  | device h => simp only [step]; split <;> exact Evo.refl _
  | param p dims batch vals =>
    apply evo_withShape; intro sh; try dsimp only
    split
    · exact Evo.refl _
    · split
      · exact Evo.refl _
      · show Evo s.heap (allocInto (allocInto s (vslot p) sh vals) (gslot p) sh (List.replicate sh.size 0)).heap
        exact (evo_allocInto _ _ _ _).trans (evo_allocInto _ _ _ _)
  | pvalue p g => simp only [step]; split; exact evo_copyOp _ _ _; exact Evo.refl _
  | pgrad p g => simp only [step]; split; exact evo_copyOp _ _ _; exact Evo.refl _
  | ptensor p g => simp only [step]; split; exact evo_copyOp _ _ _; exact Evo.refl _
  | piaddValue p g =>
    simp only [step]
    split
    · exact Evo.refl _
    · split
      · exact evo_inplace2 _ _ _ _
      · exact Evo.refl _
  | pdrop p =>
    show Evo s.heap (replace (replace s (vslot p) none) (gslot p) none).heap
    exact (evo_replace _ _ _).trans (evo_replace _ _ _)
  | live => exact Evo.refl _
  | readall => simp only [step]; split <;> exact Evo.refl _
  | diadd h g => exact evo_inplace2 _ _ _ _
  | disub h g => exact evo_inplace2 _ _ _ _
  | dimul h k =>
    simp only [step]
    split
    · exact Evo.refl _
    · exact Evo.refl _
    · exact evo_inplace1 _ _ _
  | dsliceBw gy dim off gx => exact evo_bwOp _ _ _ _ _
  | dpickBw gy dim ids gx => exact evo_bwOp _ _ _ _ _
  | dflipBw gy dim gx => exact evo_bwOp _ _ _ _ _
  | dtransposeBw gy gx => exact evo_bwOp _ _ _ _ _
  | daddBw gy ga gb => exact evo_abBwOp _ _ _ _ _
  | dsubBw gy ga gb => exact evo_abBwOp _ _ _ _ _
  | piaddGrad p g =>
    simp only [step]
    split
    · exact Evo.refl _
    · split
      · exact evo_inplace2 _ _ _ _
      · exact Evo.refl _
  | fcopy h g => exact evo_freshOp _ _ _ _
  | fpositive h g =>
    simp only [step]
    split
    · exact Evo.refl _
    · exact Evo.refl _
    · exact evo_replace _ _ _
  | fconcat1 h g dim => exact evo_freshOp _ _ _ _
  | fbconcat1 h g => exact evo_freshOp _ _ _ _
  | probe fn h =>
    simp only [step]
    split
    · exact Evo.refl _
    · exact Evo.refl _
    · split <;> exact Evo.refl _

end Primitiv.Cow
