import PrimitivModel.Lemmas.CowBase
/-
The invariant of the copy-on-write heap (use count = number of owners, no
dangling handle, buffer length = shape size), the abstraction to the pure-value
pool, and the effect of the three state primitives on both.
-/
namespace Primitiv.Cow

theorem slots_ext {α : Type} : ∀ (p q : List (Option α)), p.length = q.length → (∀ i, getSlot p i = getSlot q i) → p = q
  | [], [], _, _ => rfl
  | [], _ :: _, h, _ => by simp at h
  | _ :: _, [], h, _ => by simp at h
  | a :: p, b :: q, h, hg => by
    have h0 := hg 0
    simp only [getSlot] at h0
    have := slots_ext p q (by simpa using h) (fun i => by simpa [getSlot] using hg (i + 1))
    simp [h0, this]

/-! ### use counts and contents under the heap primitives -/

theorem rcOf_incr (hp : List (Option Buf)) (b c : Nat) :
    rcOf (incr hp b) c = rcOf hp c + (if c = b ∧ (getSlot hp b).isSome then 1 else 0) := by
  unfold rcOf
  rw [getSlot_incr]
  by_cases hc : c = b
  · subst hc; cases h : getSlot hp c <;> simp
  · simp [hc]

theorem rcOf_decr (hp : List (Option Buf)) (b c : Nat) :
    rcOf (decr hp b) c = rcOf hp c - (if c = b then 1 else 0) := by
  unfold rcOf
  rw [getSlot_decr]
  by_cases hc : c = b
  · subst hc
    cases h : getSlot hp c with
    | none => simp
    | some bf => by_cases hr : bf.rc ≤ 1 <;> simp [hr] <;> omega
  · simp [hc]

/-- buffer `b` is live in `hp` with contents `d` -/
def dataLive (hp : List (Option Buf)) (b : Nat) (d : List Int) : Prop :=
  ∃ bf, getSlot hp b = some bf ∧ bf.data = d

theorem dataLive.eq_dataOf {hp : List (Option Buf)} {b : Nat} {d : List Int} (h : dataLive hp b d) : dataOf hp b = d := by
  obtain ⟨bf, h1, h2⟩ := h; simp [dataOf, h1, h2]

theorem dataLive.isSome {hp : List (Option Buf)} {b : Nat} {d : List Int} (h : dataLive hp b d) : (getSlot hp b).isSome = true := by
  obtain ⟨bf, h1, _⟩ := h; simp [h1]

theorem dataLive_incr {hp : List (Option Buf)} {c : Nat} {d : List Int} (b : Nat) (h : dataLive hp c d) :
    dataLive (incr hp b) c d := by
  obtain ⟨bf, h1, h2⟩ := h
  unfold dataLive
  rw [getSlot_incr]
  by_cases hc : c = b
  · subst hc; simp [h1, h2]
  · simp [hc, h1, h2]

theorem dataLive_decr {hp : List (Option Buf)} {c : Nat} {d : List Int} (b : Nat) (h : dataLive hp c d)
    (h2 : c = b → 2 ≤ rcOf hp b) : dataLive (decr hp b) c d := by
  obtain ⟨bf, h1, hd⟩ := h
  unfold dataLive
  rw [getSlot_decr]
  by_cases hc : c = b
  · subst hc
    have := h2 rfl
    simp [rcOf, h1] at this
    have hr : ¬ bf.rc ≤ 1 := by omega
    simp [h1, hr, hd]
  · simp [hc, h1, hd]

theorem dataLive_incrO {hp : List (Option Buf)} {c : Nat} {d : List Int} (o : Option Nat) (h : dataLive hp c d) :
    dataLive (incrO hp o) c d := by
  cases o with
  | none => exact h
  | some b => exact dataLive_incr b h

theorem dataLive_decrO {hp : List (Option Buf)} {c : Nat} {d : List Int} (o : Option Nat) (h : dataLive hp c d)
    (h2 : o = some c → 2 ≤ rcOf hp c) : dataLive (decrO hp o) c d := by
  cases o with
  | none => exact h
  | some b => exact dataLive_decr b h (fun hc => by subst hc; exact h2 rfl)

theorem rcOf_incrO (hp : List (Option Buf)) (o : Option Nat) (c : Nat) :
    rcOf (incrO hp o) c = rcOf hp c + (if o = some c ∧ (getSlot hp c).isSome then 1 else 0) := by
  cases o with
  | none => simp [incrO]
  | some b =>
    simp only [incrO, rcOf_incr]
    by_cases hc : c = b
    · subst hc; simp
    · have : b ≠ c := fun h => hc h.symm
      simp [hc, this]

theorem rcOf_decrO (hp : List (Option Buf)) (o : Option Nat) (c : Nat) :
    rcOf (decrO hp o) c = rcOf hp c - (if o = some c then 1 else 0) := by
  cases o with
  | none => simp [decrO]
  | some b =>
    simp only [decrO, rcOf_decr]
    by_cases hc : c = b
    · subst hc; simp
    · have : b ≠ c := fun h => hc h.symm
      simp [hc, this]

theorem pos_incr {hp : List (Option Buf)} (b : Nat) (h : ∀ c bf, getSlot hp c = some bf → 0 < bf.rc) :
    ∀ c bf, getSlot (incr hp b) c = some bf → 0 < bf.rc := by
  intro c bf hc
  rw [getSlot_incr] at hc
  by_cases hcb : c = b
  · subst hcb
    cases hg : getSlot hp c with
    | none => simp [hg] at hc
    | some bf0 => simp [hg] at hc; subst hc; simp
  · simp [hcb] at hc; exact h c bf hc

theorem pos_decr {hp : List (Option Buf)} (b : Nat) (h : ∀ c bf, getSlot hp c = some bf → 0 < bf.rc) :
    ∀ c bf, getSlot (decr hp b) c = some bf → 0 < bf.rc := by
  intro c bf hc
  rw [getSlot_decr] at hc
  by_cases hcb : c = b
  · subst hcb
    cases hg : getSlot hp c with
    | none => simp [hg] at hc
    | some bf0 =>
      by_cases hr : bf0.rc ≤ 1
      · simp [hg, hr] at hc
      · simp [hg, hr] at hc; subst hc; simp; omega
  · simp [hcb] at hc; exact h c bf hc

theorem pos_incrO {hp : List (Option Buf)} (o : Option Nat) (h : ∀ c bf, getSlot hp c = some bf → 0 < bf.rc) :
    ∀ c bf, getSlot (incrO hp o) c = some bf → 0 < bf.rc := by
  cases o with
  | none => exact h
  | some b => exact pos_incr b h

theorem pos_decrO {hp : List (Option Buf)} (o : Option Nat) (h : ∀ c bf, getSlot hp c = some bf → 0 < bf.rc) :
    ∀ c bf, getSlot (decrO hp o) c = some bf → 0 < bf.rc := by
  cases o with
  | none => exact h
  | some b => exact pos_decr b h

/-! ### invariant and abstraction -/

structure Inv (s : State) : Prop where
  /-- `use_count()` of every buffer = number of Tensor objects holding it (0 for freed ones) -/
  rc : ∀ b, rcOf s.heap b = refs s.pool b
  /-- a buffer whose count reached 0 is gone -/
  pos : ∀ b bf, getSlot s.heap b = some bf → 0 < bf.rc
  /-- no dangling handle, and the buffer has exactly `shape.size()` elements -/
  len : ∀ i sh b, getSlot s.pool i = some (.valid sh b) → ∃ bf, getSlot s.heap b = some bf ∧ bf.data.length = sh.size

def absHandle (hp : List (Option Buf)) : Handle → AVal
  | .invalid => none
  | .valid sh b => some (sh, dataOf hp b)

def absPool (hp : List (Option Buf)) (p : List (Option Handle)) : List (Option AVal) :=
  p.map (Option.map (absHandle hp))

def absState (s : State) : AState := ⟨absPool s.heap s.pool, s.pvalid⟩

theorem inv_init : Inv init := by
  constructor <;> intros <;> simp_all [init, rcOf, refs]

theorem getSlot_absPool (hp : List (Option Buf)) (p : List (Option Handle)) (i : Nat) :
    getSlot (absPool hp p) i = (getSlot p i).map (absHandle hp) := getSlot_map _ _ _

theorem absPool_congr {hp hp' : List (Option Buf)} {p : List (Option Handle)}
    (h : ∀ i sh b, getSlot p i = some (.valid sh b) → dataOf hp' b = dataOf hp b) :
    absPool hp' p = absPool hp p := by
  unfold absPool
  apply List.map_congr_left
  intro o ho
  obtain ⟨i, hi⟩ := mem_getSlot ho
  cases o with
  | none => rfl
  | some hd =>
    cases hd with
    | invalid => rfl
    | valid sh b => simp [absHandle, h i sh b hi]

/-- what may be stored by `replace`: nothing, an invalid handle, or a handle on a live buffer of the right length -/
def Storable (s : State) (v : Option Handle) : Prop :=
  ∀ sh b, v = some (.valid sh b) → ∃ bf, getSlot s.heap b = some bf ∧ bf.data.length = sh.size

theorem Inv.rc_pos {s : State} (hs : Inv s) {i : Nat} {sh : Shape} {b : Nat}
    (h : getSlot s.pool i = some (.valid sh b)) : 0 < rcOf s.heap b := by
  rw [hs.rc]; exact refs_pos_of_getSlot h

/-- every handle of the pool after `replace` still has its buffer, unchanged -/
theorem replace_keeps {s : State} (hs : Inv s) (dst : Nat) (v : Option Handle) (hv : Storable s v)
    (i : Nat) (sh : Shape) (b : Nat) (hi : getSlot (setSlot s.pool dst v) i = some (.valid sh b)) :
    ∃ bf, getSlot s.heap b = some bf ∧ bf.data.length = sh.size ∧ dataLive (replace s dst v).heap b bf.data := by
  have hlive : ∃ bf, getSlot s.heap b = some bf ∧ bf.data.length = sh.size := by
    rw [getSlot_setSlot] at hi
    by_cases hid : i = dst
    · simp [hid] at hi; exact hv sh b hi
    · simp [hid] at hi; exact hs.len i sh b hi
  obtain ⟨bf, hb, hl⟩ := hlive
  refine ⟨bf, hb, hl, ?_⟩
  have h0 : dataLive s.heap b bf.data := ⟨bf, hb, rfl⟩
  have h1 := dataLive_incrO (bufOf v) h0
  apply dataLive_decrO _ h1
  intro hold
  rw [rcOf_incrO]
  have hposb : 0 < rcOf s.heap b := by simp [rcOf, hb]; exact hs.pos b bf hb
  -- the old handle of dst is on b
  have hdst : ∃ sh', getSlot s.pool dst = some (.valid sh' b) := by
    cases hg : getSlot s.pool dst with
    | none => simp [hg, bufOf] at hold
    | some hd =>
      cases hd with
      | invalid => simp [hg, bufOf] at hold
      | valid sh' b' => simp [hg, bufOf] at hold; subst hold; exact ⟨sh', rfl⟩
  obtain ⟨sh', hd⟩ := hdst
  rw [getSlot_setSlot] at hi
  by_cases hid : i = dst
  · simp [hid] at hi
    simp [hi, bufOf, hb]
    omega
  · simp [hid] at hi
    have := refs_two_of_getSlot hi hd hid
    rw [← hs.rc] at this
    omega

theorem replace_inv {s : State} (hs : Inv s) (dst : Nat) (v : Option Handle) (hv : Storable s v) :
    Inv (replace s dst v) := by
  constructor
  · intro c
    show rcOf (decrO (incrO s.heap (bufOf v)) (bufOf (getSlot s.pool dst))) c = refs (setSlot s.pool dst v) c
    rw [rcOf_decrO, rcOf_incrO]
    have hr := refs_setSlot s.pool dst v c
    have hrc := hs.rc c
    -- pointsTo as bufOf
    have e1 : (pointsTo c (getSlot s.pool dst)).toNat = if bufOf (getSlot s.pool dst) = some c then 1 else 0 := by
      by_cases h : bufOf (getSlot s.pool dst) = some c
      · simp [h, (pointsTo_iff c _).2 h]
      · have : pointsTo c (getSlot s.pool dst) = false := by
          cases hp : pointsTo c (getSlot s.pool dst) with
          | false => rfl
          | true => exact absurd ((pointsTo_iff c _).1 hp) h
        simp [h, this]
    have e2 : (pointsTo c v).toNat = if bufOf v = some c then 1 else 0 := by
      by_cases h : bufOf v = some c
      · simp [h, (pointsTo_iff c _).2 h]
      · have : pointsTo c v = false := by
          cases hp : pointsTo c v with
          | false => rfl
          | true => exact absurd ((pointsTo_iff c _).1 hp) h
        simp [h, this]
    rw [e1, e2] at hr
    have hlive : bufOf v = some c → (getSlot s.heap c).isSome = true := by
      intro h
      cases v with
      | none => simp [bufOf] at h
      | some hd =>
        cases hd with
        | invalid => simp [bufOf] at h
        | valid sh b =>
          simp [bufOf] at h; subst h
          obtain ⟨bf, hb, _⟩ := hv sh b rfl
          simp [hb]
    have hold : bufOf (getSlot s.pool dst) = some c → 0 < refs s.pool c := by
      intro h
      cases hg : getSlot s.pool dst with
      | none => simp [hg, bufOf] at h
      | some hd =>
        cases hd with
        | invalid => simp [hg, bufOf] at h
        | valid sh b => simp [hg, bufOf] at h; subst h; exact refs_pos_of_getSlot hg
    by_cases h1 : bufOf v = some c <;> by_cases h2 : bufOf (getSlot s.pool dst) = some c <;>
      simp [h1, h2] at hr ⊢ <;> (try simp [hlive h1]) <;> (try have := hold h2) <;> omega
  · exact pos_decrO _ (pos_incrO _ hs.pos)
  · intro i sh b hi
    obtain ⟨bf, _, hl, bf', hb', hd⟩ := replace_keeps hs dst v hv i sh b hi
    exact ⟨bf', hb', by rw [hd]; exact hl⟩

theorem replace_abs {s : State} (hs : Inv s) (dst : Nat) (v : Option Handle) (hv : Storable s v) :
    absState (replace s dst v) = ⟨setSlot (absPool s.heap s.pool) dst (v.map (absHandle s.heap)), s.pvalid⟩ := by
  have : absPool (replace s dst v).heap (setSlot s.pool dst v) = absPool s.heap (setSlot s.pool dst v) := by
    apply absPool_congr
    intro i sh b hi
    obtain ⟨bf, hb, _, hd⟩ := replace_keeps hs dst v hv i sh b hi
    rw [hd.eq_dataOf]; simp [dataOf, hb]
  show AState.mk (absPool (replace s dst v).heap (setSlot s.pool dst v)) s.pvalid = _
  rw [this]
  simp [absPool, map_setSlot]

/-! ### allocInto -/

theorem rcOf_append_one (hp : List (Option Buf)) (x : Option Buf) (c : Nat) :
    rcOf (hp ++ [x]) c = if c = hp.length then (match x with | some bf => bf.rc | none => 0) else rcOf hp c := by
  unfold rcOf
  rw [getSlot_append_one]
  by_cases hc : c = hp.length
  · subst hc; simp; cases x <;> rfl
  · simp [hc]

theorem dataLive_append_one {hp : List (Option Buf)} {c : Nat} {d : List Int} (x : Option Buf) (h : dataLive hp c d) :
    dataLive (hp ++ [x]) c d := by
  obtain ⟨bf, h1, h2⟩ := h
  refine ⟨bf, ?_, h2⟩
  rw [getSlot_append_one]
  have := lt_of_getSlot h1
  have hc : c ≠ hp.length := by omega
  simp [hc, h1]

theorem rcOf_of_le (hp : List (Option Buf)) (c : Nat) (h : hp.length ≤ c) : rcOf hp c = 0 := by
  simp [rcOf, getSlot_of_le hp c h]

@[simp] theorem bufOf_none : bufOf none = none := rfl
@[simp] theorem bufOf_invalid : bufOf (some .invalid) = none := rfl
@[simp] theorem bufOf_valid (sh : Shape) (b : Nat) : bufOf (some (.valid sh b)) = some b := rfl

theorem length_setSlot {α : Type} (p : List (Option α)) (i : Nat) (v : Option α) :
    (setSlot p i v).length = max p.length (i + 1) := by
  fun_induction setSlot p i v <;> simp_all <;> omega

theorem bufOf_eq_some {o : Option Handle} {c : Nat} (h : bufOf o = some c) : ∃ sh, o = some (.valid sh c) := by
  cases o with
  | none => simp [bufOf] at h
  | some hd =>
    cases hd with
    | invalid => simp [bufOf] at h
    | valid sh b => simp [bufOf] at h; subst h; exact ⟨sh, rfl⟩

theorem toNat_pointsTo (c : Nat) (o : Option Handle) :
    (pointsTo c o).toNat = if bufOf o = some c then 1 else 0 := by
  by_cases h : bufOf o = some c
  · simp [h, (pointsTo_iff c _).2 h]
  · have : pointsTo c o = false := by
      cases hp : pointsTo c o with
      | false => rfl
      | true => exact absurd ((pointsTo_iff c _).1 hp) h
    simp [h, this]

theorem allocInto_keeps {s : State} (hs : Inv s) (dst : Nat) (sh : Shape) (vals : List Int)
    (i : Nat) (sh' : Shape) (b : Nat) (hi : getSlot (setSlot s.pool dst (some (.valid sh s.heap.length))) i = some (.valid sh' b)) :
    (i = dst ∧ sh' = sh ∧ b = s.heap.length ∧ dataLive (allocInto s dst sh vals).heap b vals) ∨
    (i ≠ dst ∧ ∃ bf, getSlot s.heap b = some bf ∧ bf.data.length = sh'.size ∧ dataLive (allocInto s dst sh vals).heap b bf.data) := by
  rw [getSlot_setSlot] at hi
  by_cases hid : i = dst
  · left
    simp [hid] at hi
    refine ⟨hid, hi.1.symm, hi.2.symm, ?_⟩
    rw [← hi.2]
    refine ⟨⟨vals, 1⟩, ?_, rfl⟩
    show getSlot (decrO s.heap _ ++ [_]) _ = _
    rw [getSlot_append_one, length_decrO]; simp
  · right
    simp [hid] at hi
    obtain ⟨bf, hb, hl⟩ := hs.len i sh' b hi
    refine ⟨hid, bf, hb, hl, ?_⟩
    show dataLive (decrO s.heap _ ++ [_]) b bf.data
    apply dataLive_append_one
    apply dataLive_decrO _ ⟨bf, hb, rfl⟩
    intro hold
    obtain ⟨sh2, hd⟩ := bufOf_eq_some hold
    have := refs_two_of_getSlot hi hd hid
    rw [← hs.rc] at this; exact this

theorem allocInto_inv {s : State} (hs : Inv s) (dst : Nat) (sh : Shape) (vals : List Int) (hl : vals.length = sh.size) :
    Inv (allocInto s dst sh vals) := by
  constructor
  · intro c
    show rcOf (decrO s.heap (bufOf (getSlot s.pool dst)) ++ [some ⟨vals, 1⟩]) c = refs (setSlot s.pool dst (some (.valid sh s.heap.length))) c
    rw [rcOf_append_one, length_decrO, rcOf_decrO]
    have hr := refs_setSlot s.pool dst (some (.valid sh s.heap.length)) c
    rw [toNat_pointsTo, toNat_pointsTo] at hr
    have hrc := hs.rc c
    have hold : bufOf (getSlot s.pool dst) = some c → 0 < refs s.pool c := by
      intro h; obtain ⟨sh2, hd⟩ := bufOf_eq_some h; exact refs_pos_of_getSlot hd
    by_cases hc : c = s.heap.length
    · have h0 := rcOf_of_le s.heap c (by omega)
      have hne : bufOf (getSlot s.pool dst) ≠ some c := by
        intro h; have := hold h; omega
      subst hc
      simp [hne] at hr ⊢
      omega
    · have hne : s.heap.length ≠ c := fun h => hc h.symm
      simp [hc, hne] at hr ⊢
      by_cases h2 : bufOf (getSlot s.pool dst) = some c
      · have := hold h2; simp [h2] at hr ⊢; omega
      · simp [h2] at hr ⊢; omega
  · intro c bf hc
    show 0 < bf.rc
    have hc' : getSlot (decrO s.heap (bufOf (getSlot s.pool dst)) ++ [some ⟨vals, 1⟩]) c = some bf := hc
    rw [getSlot_append_one] at hc'
    by_cases hcl : c = (decrO s.heap (bufOf (getSlot s.pool dst))).length
    · simp [hcl] at hc'; subst hc'; simp
    · simp [hcl] at hc'; exact pos_decrO _ hs.pos c bf hc'
  · intro i sh' b hi
    rcases allocInto_keeps hs dst sh vals i sh' b hi with ⟨_, hsh, _, bf', hb', hd⟩ | ⟨_, bf, _, hl', bf', hb', hd⟩
    · exact ⟨bf', hb', by rw [hd, hsh]; exact hl⟩
    · exact ⟨bf', hb', by rw [hd]; exact hl'⟩

theorem allocInto_abs {s : State} (hs : Inv s) (dst : Nat) (sh : Shape) (vals : List Int) :
    absState (allocInto s dst sh vals) = ⟨setSlot (absPool s.heap s.pool) dst (some (some (sh, vals))), s.pvalid⟩ := by
  show AState.mk (absPool (allocInto s dst sh vals).heap (setSlot s.pool dst (some (.valid sh s.heap.length)))) s.pvalid = _
  congr 1
  apply slots_ext
  · simp [absPool, length_setSlot]
  · intro i
    rw [getSlot_absPool, getSlot_setSlot, getSlot_setSlot, getSlot_absPool]
    by_cases hid : i = dst
    · simp [hid, absHandle]
      have := allocInto_keeps hs dst sh vals dst sh s.heap.length (by simp)
      rcases this with ⟨_, _, _, hd⟩ | ⟨h, _⟩
      · exact hd.eq_dataOf
      · exact absurd rfl h
    · simp [hid]
      cases hg : getSlot s.pool i with
      | none => rfl
      | some hd =>
        cases hd with
        | invalid => rfl
        | valid sh' b =>
          have hi : getSlot (setSlot s.pool dst (some (.valid sh s.heap.length))) i = some (.valid sh' b) := by
            rw [getSlot_setSlot_ne _ _ hid]; exact hg
          rcases allocInto_keeps hs dst sh vals i sh' b hi with ⟨h, _⟩ | ⟨_, bf, hb, _, hd⟩
          · exact absurd h hid
          · have e1 := hd.eq_dataOf
            have e2 : dataOf s.heap b = bf.data := by simp [dataOf, hb]
            simp [absHandle, e1, e2]

/-! ### writing through an exclusively owned handle -/

theorem rcOf_writeBuf (hp : List (Option Buf)) (b c : Nat) (d : List Int) : rcOf (writeBuf hp b d) c = rcOf hp c := by
  unfold rcOf
  rw [getSlot_writeBuf]
  by_cases hc : c = b
  · subst hc; cases getSlot hp c <;> simp
  · simp [hc]

theorem write_inv {s : State} (hs : Inv s) {h : Nat} {sh : Shape} {b : Nat} (hh : getSlot s.pool h = some (.valid sh b))
    (h1 : rcOf s.heap b = 1) (d : List Int) (hd : d.length = sh.size) :
    Inv { s with heap := writeBuf s.heap b d } := by
  constructor
  · intro c; show rcOf (writeBuf s.heap b d) c = _; rw [rcOf_writeBuf]; exact hs.rc c
  · intro c bf hc
    have hc' : getSlot (writeBuf s.heap b d) c = some bf := hc
    rw [getSlot_writeBuf] at hc'
    by_cases hcb : c = b
    · subst hcb
      cases hg : getSlot s.heap c with
      | none => simp [hg] at hc'
      | some bf0 => simp [hg] at hc'; subst hc'; exact hs.pos c bf0 hg
    · simp [hcb] at hc'; exact hs.pos c bf hc'
  · intro i sh' c hi
    have hi' : getSlot s.pool i = some (.valid sh' c) := hi
    obtain ⟨bf, hb, hl⟩ := hs.len i sh' c hi'
    show ∃ bf, getSlot (writeBuf s.heap b d) c = some bf ∧ _
    rw [getSlot_writeBuf]
    by_cases hcb : c = b
    · subst hcb
      have hih : i = h := by
        apply Decidable.byContradiction; intro hne
        have := refs_two_of_getSlot hi' hh hne
        rw [← hs.rc] at this; omega
      subst hih
      rw [hh] at hi'; simp at hi'
      subst hi'
      refine ⟨{ bf with data := d }, by simp [hb], ?_⟩
      simp [hd]
    · exact ⟨bf, by simp [hcb, hb], hl⟩

theorem write_abs {s : State} (hs : Inv s) {h : Nat} {sh : Shape} {b : Nat} (hh : getSlot s.pool h = some (.valid sh b))
    (h1 : rcOf s.heap b = 1) (d : List Int) :
    absState { s with heap := writeBuf s.heap b d } = ⟨setSlot (absPool s.heap s.pool) h (some (some (sh, d))), s.pvalid⟩ := by
  show AState.mk (absPool (writeBuf s.heap b d) s.pool) s.pvalid = _
  congr 1
  obtain ⟨bf, hb, _⟩ := hs.len h sh b hh
  apply slots_ext
  · have hlt : h < (absPool s.heap s.pool).length := by
      simp [absPool]; exact lt_of_getSlot hh
    rw [length_setSlot_of_lt _ _ _ hlt]; simp [absPool]
  · intro i
    rw [getSlot_absPool, getSlot_setSlot, getSlot_absPool]
    by_cases hih : i = h
    · subst hih
      simp [hh, absHandle, dataOf, getSlot_writeBuf, hb]
    · simp [hih]
      cases hg : getSlot s.pool i with
      | none => rfl
      | some hd =>
        cases hd with
        | invalid => rfl
        | valid sh' c =>
          have hcb : c ≠ b := by
            intro hcb; subst hcb
            have := refs_two_of_getSlot hg hh hih
            rw [← hs.rc] at this; omega
          simp [absHandle, dataOf, getSlot_writeBuf, hcb]

/-! ### mutable_handle -/

theorem mutableHandle_spec {s : State} (hs : Inv s) {h : Nat} {sh : Shape} {b : Nat}
    (hh : getSlot s.pool h = some (.valid sh b)) :
    Inv (mutableHandle s h) ∧ absState (mutableHandle s h) = absState s ∧
    (∃ b' bf', getSlot (mutableHandle s h).pool h = some (.valid sh b') ∧ getSlot (mutableHandle s h).heap b' = some bf' ∧
        bf'.rc = 1 ∧ bf'.data = dataOf s.heap b ∧ bf'.data.length = sh.size) ∧
    (∀ j, j ≠ h → getSlot (mutableHandle s h).pool j = getSlot s.pool j) := by
  obtain ⟨bf, hb, hl⟩ := hs.len h sh b hh
  have hpos := hs.pos b bf hb
  unfold mutableHandle
  simp only [hh, hb]
  by_cases hr : bf.rc > 1
  · simp only [hr, if_true]
    have htake : bf.data.take sh.size = bf.data := by rw [← hl]; simp
    rw [htake]
    refine ⟨allocInto_inv hs h sh bf.data hl, ?_, ?_, ?_⟩
    · rw [allocInto_abs hs]
      show _ = AState.mk (absPool s.heap s.pool) s.pvalid
      congr 1
      apply setSlot_getSlot
      rw [getSlot_absPool, hh]; simp [absHandle, dataOf, hb]
    · have := allocInto_keeps hs h sh bf.data h sh s.heap.length (by simp)
      rcases this with ⟨_, _, _, bf', hb', hd⟩ | ⟨hne, _⟩
      · refine ⟨s.heap.length, bf', by simp [allocInto], hb', ?_, by simp [hd, dataOf, hb], by rw [hd]; exact hl⟩
        have hrc := (allocInto_inv hs h sh bf.data hl).rc s.heap.length
        -- the fresh buffer has exactly one owner
        have hb2 : getSlot (allocInto s h sh bf.data).heap s.heap.length = some ⟨bf.data, 1⟩ := by
          show getSlot (decrO s.heap _ ++ [_]) _ = _
          rw [getSlot_append_one, length_decrO]; simp
        rw [hb2] at hb'; cases hb'; rfl
      · simp at hne
    · intro j hj
      show getSlot (setSlot s.pool h _) j = _
      exact getSlot_setSlot_ne _ _ hj
  · simp only [hr, if_false]
    refine ⟨hs, ?_, ⟨b, bf, hh, hb, by omega, by simp [dataOf, hb], hl⟩, ?_⟩ <;> simp

end Primitiv.Cow
