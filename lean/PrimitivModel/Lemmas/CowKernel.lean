import PrimitivModel.Model.Cow
/-
The in-place kernels of Model/Cow.lean: they keep the length of the destination
buffer, and when source and destination are the *same* buffer (`x += x`: same
object, hence same shape and same strides) the sequential loop reads every
element before it is overwritten, so the result is the one obtained from a
snapshot of the source.
-/
namespace Primitiv.Cow

theorem length_kstep (f : Int → Int → Int) (src : Option (List Int)) (D : List Int) (p : Nat × Nat) :
    (kstep f src D p).length = D.length := by simp [kstep]

theorem length_foldl_kstep (f : Int → Int → Int) (src : Option (List Int)) (L : List (Nat × Nat)) (D : List Int) :
    (L.foldl (kstep f src) D).length = D.length := by
  induction L generalizing D with
  | nil => rfl
  | cons p L ih => simp [List.foldl, ih, length_kstep]

theorem length_arith (f : Int → Int → Int) (sy sx : Shape) (D : List Int) (src : Option (List Int)) :
    (arith f sy sx D src).length = D.length := by
  simp [arith, kernel, length_foldl_kstep]

theorem length_scatter (f : Int → Int → Int) (idx : List (Nat × Nat)) (D S : List Int) :
    (scatter f idx D S).length = D.length := length_foldl_kstep f (some S) idx D

theorem length_sliceBwK (dim off : Nat) (sy sx : Shape) (D S : List Int) :
    (sliceBwK dim off sy sx D S).length = D.length := by
  unfold sliceBwK; split <;> simp [length_arith, length_scatter]

theorem length_fitTo (n : Nat) (D : List Int) : (fitTo n D).length = n := by
  simp [fitTo]; omega

theorem fitTo_self (D : List Int) : fitTo D.length D = D := by
  simp [fitTo]

theorem foldl_alias (f : Int → Int → Int) (D0 : List Int) (L : List (Nat × Nat)) (D : List Int)
    (hdiag : ∀ p ∈ L, p.1 = p.2) (hnd : L.Pairwise (fun p q => p.1 ≠ q.1))
    (hsame : ∀ p ∈ L, D.getD p.1 0 = D0.getD p.1 0) :
    L.foldl (kstep f none) D = L.foldl (kstep f (some D0)) D := by
  induction L generalizing D with
  | nil => rfl
  | cons p L ih =>
    have hp := hdiag p (by simp)
    have hs := hsame p (by simp)
    have hstep : kstep f none D p = kstep f (some D0) D p := by
      simp only [kstep, Option.getD]
      rw [← hp, hs]
    rw [List.pairwise_cons] at hnd
    simp only [List.foldl]
    rw [hstep]
    apply ih
    · intro q hq; exact hdiag q (by simp [hq])
    · exact hnd.2
    · intro q hq
      have hne := hnd.1 q hq
      rw [← hsame q (by simp [hq])]
      simp only [kstep, List.getD_eq_getElem?_getD]
      rw [List.getElem?_set_ne hne]

theorem kernelIdx_diag (vol bs k : Nat) : ∀ p ∈ kernelIdx vol bs k k, p.1 = p.2 := by
  intro p hp
  simp only [kernelIdx, List.mem_flatMap, List.mem_map] at hp
  obtain ⟨b, _, i, _, rfl⟩ := hp
  rfl

theorem kernelIdx_increasing (vol bs k : Nat) (h : bs ≤ 1 ∨ k = vol) :
    (kernelIdx vol bs k k).Pairwise (fun p q => p.1 < q.1) := by
  unfold kernelIdx
  rw [List.pairwise_flatMap]
  constructor
  · intro b _
    rw [List.pairwise_map]
    exact List.Pairwise.imp (fun {a c} (hac : a < c) => by simp; omega) List.pairwise_lt_range
  · apply List.Pairwise.imp_of_mem _ List.pairwise_lt_range
    intro b1 b2 hb1 hb2 hlt x hx y hy
    simp only [List.mem_map, List.mem_range] at hx hy hb1 hb2
    obtain ⟨i, hi, rfl⟩ := hx
    obtain ⟨j, hj, rfl⟩ := hy
    rcases h with h | h
    · omega
    · subst h
      show b1 * k + i < b2 * k + j
      have : (b1 + 1) * k ≤ b2 * k := Nat.mul_le_mul_right k (by omega)
      rw [Nat.add_mul] at this
      omega

/-- `x += x` / `x -= x` on one buffer: the in-place loop equals the loop over a snapshot. -/
theorem arith_alias (f : Int → Int → Int) (s : Shape) (D : List Int) :
    arith f s s D none = arith f s s D (some D) := by
  unfold arith kernel
  have hk : max s.batch s.batch ≤ 1 ∨ skipOf s = s.volume := by
    unfold skipOf Shape.hasBatch
    by_cases hb : s.batch > 1
    · right; simp [hb]
    · left; omega
  apply foldl_alias
  · exact kernelIdx_diag _ _ _
  · exact (kernelIdx_increasing _ _ _ hk).imp (fun h => Nat.ne_of_lt h)
  · intro _ _; rfl

end Primitiv.Cow
