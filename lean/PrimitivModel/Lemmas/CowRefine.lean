import PrimitivModel.Lemmas.CowInv
import PrimitivModel.Lemmas.CowKernel
import PrimitivModel.Lemmas.CowShape
/-
Every operation of the cow protocol, executed on the copy-on-write model, keeps
the invariant and has on the abstraction exactly the effect the pure-value
specification prescribes (`step_refines`).
-/
namespace Primitiv.Cow

/-! ### shape facts used by the views -/

theorem shape_new_ne_crash (dims : List Nat) (batch : Nat) : Shape.new dims batch ≠ .error .crash := by
  unfold Shape.new
  split
  · simp [throwError]
  · split
    · simp [throwError]
    · split <;> simp [throwError, pure, Except.pure]

theorem reshape_size {a b c : Shape} (h : ShapeOps.reshape a b = .ok c) : c.size = a.size := by
  unfold ShapeOps.reshape at h
  split at h
  · simp [throwError] at h
  · rename_i hc
    unfold Shape.resizeBatch Shape.updateBatch at h
    split at h
    · simp [throwError] at h
    · split at h
      · simp [throwError] at h
      · simp [pure, Except.pure] at h
        subst h
        simp only [Shape.size]
        have : a.volume = b.volume := by
          apply Decidable.byContradiction; intro hne; exact hc (Or.inl hne)
        rw [this]

theorem flatten_size {a c : Shape} (h : ShapeOps.flatten a = .ok c) : c.size = a.size := by
  unfold ShapeOps.flatten Shape.new at h
  split at h
  · simp [throwError] at h
  · simp only [Shape.prodChk] at h
    split at h
    · simp [throwError] at h
    · rename_i vol hv
      split at hv
      · simp at hv
      · simp at hv
        split at h
        · simp [throwError] at h
        · simp [pure, Except.pure] at h
          subst h; subst hv
          simp [Shape.size]

/-! ### the refinement relation for one step -/

def Ref (r : State × Out) (a : AState × Out) : Prop :=
  Inv r.1 ∧ absState r.1 = a.1 ∧ r.2 = a.2

theorem abs_get (s : State) (h : Nat) :
    getSlot (absState s).pool h = (getSlot s.pool h).map (absHandle s.heap) := getSlot_absPool _ _ _

theorem Ref.same {s : State} (hs : Inv s) (o : Out) : Ref (s, o) (absState s, o) := ⟨hs, rfl, rfl⟩

theorem storable_of_slot {s : State} (hs : Inv s) {h : Nat} {v : Handle} (hg : getSlot s.pool h = some v) :
    Storable s (some v) := by
  intro sh b e
  cases e
  exact hs.len h sh b hg

theorem storable_none (s : State) : Storable s none := by intro sh b e; cases e
theorem storable_invalid (s : State) : Storable s (some .invalid) := by intro sh b e; cases e

theorem replace_ref {s : State} (hs : Inv s) (dst : Nat) (v : Option Handle) (hv : Storable s v) (o : Out) :
    Ref (replace s dst v, o) (Spec.setT (absState s) dst (v.map (absHandle s.heap)), o) :=
  ⟨replace_inv hs dst v hv, replace_abs hs dst v hv, rfl⟩

theorem copyOp_ref {s : State} (hs : Inv s) (h g : Nat) : Ref (copyOp s h g) (Spec.copyOp (absState s) h g) := by
  unfold copyOp Spec.copyOp
  rw [abs_get]
  cases hg : getSlot s.pool h with
  | none => exact Ref.same hs _
  | some v => exact replace_ref hs g (some v) (storable_of_slot hs hg) .ok

theorem viewOp_ref {s : State} (hs : Inv s) (h g : Nat) (rule : Shape → R Shape)
    (hrule : ∀ a c, rule a = .ok c → c.size = a.size) :
    Ref (viewOp s h g rule) (Spec.viewOp (absState s) h g rule) := by
  unfold viewOp Spec.viewOp
  rw [abs_get]
  cases hg : getSlot s.pool h with
  | none => exact Ref.same hs _
  | some v =>
    cases v with
    | invalid => exact Ref.same hs _
    | valid sh b =>
      simp only [Option.map, absHandle]
      cases hr : rule sh with
      | error e => cases e <;> exact Ref.same hs _
      | ok rsh =>
        have hv : Storable s (some (.valid rsh b)) := by
          intro sh' b' e
          cases e
          obtain ⟨bf, hb, hl⟩ := hs.len h sh b hg
          exact ⟨bf, hb, by rw [hl, hrule sh rsh hr]⟩
        exact replace_ref hs g _ hv .ok

theorem withShape_ref {s : State} (dims : List Nat) (batch : Nat) (k : Shape → State × Out) (k' : Shape → AState × Out)
    (hs : Inv s) (hk : ∀ sh, Shape.new dims batch = .ok sh → Ref (k sh) (k' sh)) :
    Ref (withShape s dims batch k) (Spec.withShape (absState s) dims batch k') := by
  unfold withShape Spec.withShape
  cases hn : Shape.new dims batch with
  | error e => cases e <;> exact Ref.same hs _
  | ok sh => exact hk sh hn

theorem inv_pvalid {s : State} (hs : Inv s) (l : List Bool) : Inv { s with pvalid := l } :=
  ⟨hs.rc, hs.pos, hs.len⟩

theorem deref_of_slot {s : State} {b : Nat} {bf : Buf} {sh : Shape} (hb : getSlot s.heap b = some bf)
    (hl : bf.data.length = sh.size) : deref s sh b = some bf.data := by
  simp [deref, hb, hl]

theorem inplace1_ref {s : State} (hs : Inv s) {h : Nat} {sh : Shape} {b : Nat}
    (hh : getSlot s.pool h = some (.valid sh b)) (f : Nat → List Int → List Int)
    (hf : ∀ D : List Int, D.length = sh.size → (f sh.size D).length = sh.size) :
    Ref (inplace1 s h f) (Spec.inplace1 (absState s) h f) := by
  obtain ⟨hs1, habs, ⟨b', bf', hp', hb', hrc, hdata, hlen⟩, _⟩ := mutableHandle_spec hs hh
  unfold inplace1 Spec.inplace1
  rw [abs_get, hh]
  simp only [hp', deref_of_slot hb' hlen, Option.map, absHandle]
  have h1 : rcOf (mutableHandle s h).heap b' = 1 := by simp [rcOf, hb', hrc]
  refine ⟨write_inv hs1 hp' h1 _ (hf _ hlen), ?_, rfl⟩
  rw [write_abs hs1 hp' h1, hdata]
  have e1 : absPool (mutableHandle s h).heap (mutableHandle s h).pool = absPool s.heap s.pool := by
    have := congrArg AState.pool habs; exact this
  have e2 : (mutableHandle s h).pvalid = s.pvalid := by
    have := congrArg AState.pvalid habs; exact this
  rw [e1, e2]
  rfl

theorem inplace2_ref {s : State} (hs : Inv s) (f : Int → Int → Int) (h g : Nat) :
    Ref (inplace2 f s h g) (Spec.inplace2 f (absState s) h g) := by
  unfold inplace2 Spec.inplace2
  rw [abs_get, abs_get]
  cases hh : getSlot s.pool h with
  | none => exact Ref.same hs _
  | some hy =>
    cases hg : getSlot s.pool g with
    | none => exact Ref.same hs _
    | some hx =>
      cases hy with
      | invalid => cases hx <;> exact Ref.same hs _
      | valid sy by_ =>
        cases hx with
        | invalid => exact Ref.same hs _
        | valid sx bx =>
          simp only [Option.map, absHandle]
          by_cases hc : (!sx.hasSameDims sy || !sx.hasCompatibleBatch sy) = true
          · simp only [hc, if_true]; exact Ref.same hs _
          · have hc' : (!sx.hasSameDims sy || !sx.hasCompatibleBatch sy) = false := by simpa using hc
            simp only [hc', Bool.false_eq_true, if_false]
            obtain ⟨hs1, habs, ⟨b', bf', hp', hb', hrc, hdata, hlen⟩, hoth⟩ := mutableHandle_spec hs hh
            have h1 : rcOf (mutableHandle s h).heap b' = 1 := by simp [rcOf, hb', hrc]
            have e1 : absPool (mutableHandle s h).heap (mutableHandle s h).pool = absPool s.heap s.pool :=
              congrArg AState.pool habs
            have e2 : (mutableHandle s h).pvalid = s.pvalid := congrArg AState.pvalid habs
            by_cases hgh : g = h
            · -- `x += x`: the same object on both sides
              subst hgh
              rw [hh] at hg; cases hg
              simp only [hp', deref_of_slot hb' hlen, if_true]
              refine ⟨write_inv hs1 hp' h1 _ (by rw [length_arith]; exact hlen), ?_, rfl⟩
              rw [write_abs hs1 hp' h1, arith_alias, hdata, e1, e2]
              rfl
            · have hg1 : getSlot (mutableHandle s h).pool g = some (.valid sx bx) := by rw [hoth g hgh]; exact hg
              obtain ⟨bfx, hbx, hlx⟩ := hs1.len g sx bx hg1
              have hne : b' ≠ bx := by
                intro e; subst e
                have := refs_two_of_getSlot hp' hg1 (Ne.symm hgh)
                rw [← hs1.rc] at this; omega
              simp only [hp', hg1, deref_of_slot hb' hlen, deref_of_slot hbx hlx, hne, if_false]
              refine ⟨write_inv hs1 hp' h1 _ (by rw [length_arith]; exact hlen), ?_, rfl⟩
              rw [write_abs hs1 hp' h1, hdata, e1, e2]
              -- the source contents are those of the pre-state
              have hsrc : bfx.data = dataOf s.heap bx := by
                have := congrArg (fun p => getSlot p g) e1
                simp only [getSlot_absPool, hg1, hg, Option.map, absHandle] at this
                have := (Prod.mk.inj (Option.some.inj (Option.some.inj this))).2
                rw [← this]; simp [dataOf, hbx]
              rw [hsrc]
              rfl

/-! ### Device entry points called directly, functions of one operand -/

theorem valid_of_abs {s : State} {i : Nat} {sh : Shape} {X : List Int}
    (h : getSlot (absState s).pool i = some (some (sh, X))) :
    ∃ b, getSlot s.pool i = some (.valid sh b) ∧ X = dataOf s.heap b := by
  rw [abs_get] at h
  cases hg : getSlot s.pool i with
  | none => simp [hg] at h
  | some hd =>
    cases hd with
    | invalid => simp [hg, absHandle] at h
    | valid sh' b =>
      simp [hg, absHandle] at h
      exact ⟨b, by rw [h.1], h.2.symm⟩

theorem accum_ref {s : State} (hs : Inv s) {dst src : Nat} (hne : dst ≠ src) {sd ss : Shape} {bd bs : Nat}
    (hd : getSlot s.pool dst = some (.valid sd bd)) (hsrc : getSlot s.pool src = some (.valid ss bs))
    (K : List Int → List Int → List Int) (hK : ∀ D S, (K D S).length = D.length) :
    Ref (accum s dst src sd ss K) (Spec.accum (absState s) dst src K) := by
  obtain ⟨hs1, habs, ⟨b', bf', hp', hb', hrc, hdata, hlen⟩, hoth⟩ := mutableHandle_spec hs hd
  have h1 : rcOf (mutableHandle s dst).heap b' = 1 := by simp [rcOf, hb', hrc]
  have e1 : absPool (mutableHandle s dst).heap (mutableHandle s dst).pool = absPool s.heap s.pool :=
    congrArg AState.pool habs
  have e2 : (mutableHandle s dst).pvalid = s.pvalid := congrArg AState.pvalid habs
  have hg1 : getSlot (mutableHandle s dst).pool src = some (.valid ss bs) := by
    rw [hoth src (Ne.symm hne)]; exact hsrc
  obtain ⟨bfx, hbx, hlx⟩ := hs1.len src ss bs hg1
  have hsrc' : bfx.data = dataOf s.heap bs := by
    have := congrArg (fun p => getSlot p src) e1
    simp only [getSlot_absPool, hg1, hsrc, Option.map, absHandle] at this
    have := (Prod.mk.inj (Option.some.inj (Option.some.inj this))).2
    rw [← this]; simp [dataOf, hbx]
  unfold accum Spec.accum
  rw [abs_get, abs_get, hd, hsrc]
  simp only [hp', hg1, deref_of_slot hb' hlen, deref_of_slot hbx hlx, Option.map, absHandle]
  refine ⟨write_inv hs1 hp' h1 _ (by rw [hK]; exact hlen), ?_, rfl⟩
  rw [write_abs hs1 hp' h1, hdata, e1, e2, hsrc']
  rfl

theorem bwOp_ref {s : State} (hs : Inv s) (gy gx : Nat) (ok : Shape → Shape → R Bool)
    (K : Shape → Shape → List Int → List Int → List Int)
    (hK : ∀ sy sx D S, (K sy sx D S).length = D.length) :
    Ref (bwOp s gy gx ok K) (Spec.bwOp (absState s) gy gx ok K) := by
  unfold bwOp Spec.bwOp
  rw [abs_get, abs_get]
  cases hy : getSlot s.pool gy with
  | none => exact Ref.same hs _
  | some vy =>
    cases hx : getSlot s.pool gx with
    | none => exact Ref.same hs _
    | some vx =>
      simp only [Option.map]
      by_cases he : gy = gx
      · simp only [if_pos he]; exact Ref.same hs _
      · simp only [if_neg he]
        cases vy with
        | invalid => cases vx <;> exact Ref.same hs _
        | valid sy by_ =>
          cases vx with
          | invalid => exact Ref.same hs _
          | valid sx bx =>
            simp only [absHandle]
            cases hok : ok sy sx with
            | error e => cases e <;> exact Ref.same hs _
            | ok b =>
              cases b with
              | false => exact Ref.same hs _
              | true => exact accum_ref hs (Ne.symm he) hx hy _ (hK sy sx)

theorem abBwOp_ref {s : State} (hs : Inv s) (g : Int → Int → Int) (gy ga gb : Nat) :
    Ref (abBwOp g s gy ga gb) (Spec.abBwOp g (absState s) gy ga gb) := by
  unfold abBwOp Spec.abBwOp
  rw [abs_get, abs_get, abs_get]
  cases hy : getSlot s.pool gy with
  | none => exact Ref.same hs _
  | some vy =>
    cases ha : getSlot s.pool ga with
    | none => exact Ref.same hs _
    | some va =>
      cases hb : getSlot s.pool gb with
      | none => exact Ref.same hs _
      | some vb =>
        simp only [Option.map]
        by_cases he : gy = ga ∨ gy = gb ∨ ga = gb
        · simp only [if_pos he]; exact Ref.same hs _
        · simp only [if_neg he]
          have hne1 : ga ≠ gy := fun h => he (Or.inl h.symm)
          have hne2 : gb ≠ gy := fun h => he (Or.inr (Or.inl h.symm))
          have hne3 : gb ≠ ga := fun h => he (Or.inr (Or.inr h.symm))
          cases vy with
          | invalid => cases va <;> cases vb <;> exact Ref.same hs _
          | valid sy by_ =>
            cases va with
            | invalid => cases vb <;> exact Ref.same hs _
            | valid sa ba =>
              cases vb with
              | invalid => exact Ref.same hs _
              | valid sb bb =>
                simp only [absHandle]
                cases hok : abBwOk sy sa sb with
                | error e => cases e <;> exact Ref.same hs _
                | ok b =>
                  cases b with
                  | false => exact Ref.same hs _
                  | true =>
                    simp only []
                    have r1 := accum_ref hs hne1 ha hy (fun D S => arith (· + ·) sa sy D (some S))
                      (fun D S => length_arith _ _ _ _ _)
                    -- the first kernel succeeds on both sides
                    have ho1 : (Spec.accum (absState s) ga gy (fun D S => arith (· + ·) sa sy D (some S))).2 = .ok := by
                      unfold Spec.accum
                      rw [abs_get, abs_get, ha, hy]; rfl
                    have hm1 : (accum s ga gy sa sy (fun D S => arith (· + ·) sa sy D (some S))).2 = .ok := by
                      rw [r1.2.2]; exact ho1
                    rw [hm1, ho1]
                    simp only []
                    -- state after the first kernel: gy and gb are untouched in the abstraction
                    have habs1 := r1.2.1
                    have hy1 : getSlot (absState (accum s ga gy sa sy (fun D S => arith (· + ·) sa sy D (some S))).1).pool gy
                        = some (some (sy, dataOf s.heap by_)) := by
                      rw [habs1]
                      unfold Spec.accum
                      rw [abs_get, abs_get, ha, hy]
                      simp only [Option.map, absHandle, Spec.setT]
                      rw [getSlot_setSlot_ne _ _ (Ne.symm hne1), abs_get, hy]; rfl
                    have hb1 : getSlot (absState (accum s ga gy sa sy (fun D S => arith (· + ·) sa sy D (some S))).1).pool gb
                        = some (some (sb, dataOf s.heap bb)) := by
                      rw [habs1]
                      unfold Spec.accum
                      rw [abs_get, abs_get, ha, hy]
                      simp only [Option.map, absHandle, Spec.setT]
                      rw [getSlot_setSlot_ne _ _ hne3, abs_get, hb]; rfl
                    obtain ⟨by1, hy1', _⟩ := valid_of_abs hy1
                    obtain ⟨bb1, hb1', _⟩ := valid_of_abs hb1
                    have r2 := accum_ref r1.1 hne2 hb1' hy1' (fun D S => arith g sb sy D (some S))
                      (fun D S => length_arith _ _ _ _ _)
                    rw [habs1] at r2
                    exact r2

theorem freshOp_ref {s : State} (hs : Inv s) (h g : Nat) (rule : Shape → R Shape) :
    Ref (freshOp s h g rule) (Spec.freshOp (absState s) h g rule) := by
  unfold freshOp Spec.freshOp
  rw [abs_get]
  cases hg : getSlot s.pool h with
  | none => exact Ref.same hs _
  | some v =>
    cases v with
    | invalid => exact Ref.same hs _
    | valid sh b =>
      simp only [Option.map, absHandle]
      cases hr : rule sh with
      | error e => cases e <;> exact Ref.same hs _
      | ok rsh =>
        obtain ⟨bf, hb, hl⟩ := hs.len h sh b hg
        have htake : bf.data.take sh.size = bf.data := by rw [← hl]; simp
        have hd : dataOf s.heap b = bf.data := by simp [dataOf, hb]
        simp only [deref_of_slot hb hl, htake, hd]
        exact ⟨allocInto_inv hs g rsh _ (length_fitTo _ _), allocInto_abs hs g rsh _, rfl⟩

/-! ### readall -/

theorem readAll_ref {s : State} (l : List (Option Handle)) :
    ∀ (i : Nat), (∀ o ∈ l, ∀ sh b, o = some (.valid sh b) → ∃ bf, getSlot s.heap b = some bf ∧ bf.data.length = sh.size) →
    readAllFrom s i l = some (Spec.readAllFrom i (absPool s.heap l)) := by
  induction l with
  | nil => intro i _; rfl
  | cons o rest ih =>
    intro i hl
    have hrest := ih (i + 1) (fun o' ho' => hl o' (by simp [ho']))
    cases o with
    | none => simp [readAllFrom, viewSlot, hrest, absPool, Spec.readAllFrom] <;> try rfl
    | some hd =>
      cases hd with
      | invalid => simp [readAllFrom, viewSlot, hrest, absPool, Spec.readAllFrom, absHandle] <;> try rfl
      | valid sh b =>
        obtain ⟨bf, hb, hlen⟩ := hl _ (by simp) sh b rfl
        have htake : bf.data.take sh.size = bf.data := by rw [← hlen]; simp
        simp [readAllFrom, viewSlot, hrest, absPool, Spec.readAllFrom, absHandle, deref_of_slot hb hlen, htake, dataOf, hb] <;> try rfl

/-! ### every operation -/

theorem replace_abs' {s : State} (hs : Inv s) (dst : Nat) (v : Option Handle) (hv : Storable s v) :
    absState (replace s dst v) = Spec.setT (absState s) dst (v.map (absHandle s.heap)) :=
  replace_abs hs dst v hv

theorem allocInto_abs' {s : State} (hs : Inv s) (dst : Nat) (sh : Shape) (vals : List Int) :
    absState (allocInto s dst sh vals) = Spec.setT (absState s) dst (some (some (sh, vals))) :=
  allocInto_abs hs dst sh vals

theorem abs_pvalid (s : State) (l : List Bool) : absState { s with pvalid := l } = { absState s with pvalid := l } := rfl

theorem length_fill (n : Nat) (k : Int) (D : List Int) (h : D.length = n) : (fill n k D).length = n := by
  simp [fill, h]
theorem length_overwrite (n : Nat) (vals D : List Int) (h : D.length = n) (hv : vals.length = n) : (overwrite n vals D).length = n := by
  simp [overwrite, h, hv]
theorem length_scale (n : Nat) (k : Int) (D : List Int) (h : D.length = n) : (scale n k D).length = n := by
  simp [scale, h]

theorem step_ref {s : State} (hs : Inv s) (op : Op) (hop : op ≠ .live) :
    Ref (step s op) (Spec.step (absState s) op) := by
  cases op with
  | new h dims batch vals =>
    apply withShape_ref _ _ _ _ hs
    intro sh _
    try dsimp only
    by_cases hl : vals.length ≠ sh.size
    · simp only [if_pos hl]; exact Ref.same hs _
    · simp only [if_neg hl]
      have hl' : vals.length = sh.size := by simpa using hl
      exact ⟨allocInto_inv hs h sh vals hl', allocInto_abs' hs h sh vals, rfl⟩
  | copy h g => exact copyOp_ref hs h g
  | copyctor h g => exact copyOp_ref hs h g
  | move h g =>
    simp only [step, Spec.step]
    rw [abs_get]
    cases hg : getSlot s.pool h with
    | none => exact Ref.same hs _
    | some v =>
      by_cases hhg : h = g
      · simp only [hhg, if_true, Option.map]; exact Ref.same hs _
      · simp only [hhg, if_false, Option.map]
        have hv := storable_of_slot hs hg
        have i1 := replace_inv hs g (some v) hv
        have a1 := replace_abs' hs g (some v) hv
        have i2 := replace_inv i1 h (some .invalid) (storable_invalid _)
        have a2 := replace_abs' i1 h (some .invalid) (storable_invalid _)
        refine ⟨i2, ?_, rfl⟩
        show absState (replace (replace s g (some v)) h (some .invalid)) = _
        rw [a2, a1]; rfl
  | reshape h g dims batch =>
    simp only [step, Spec.step]
    rw [abs_get]
    cases hg : getSlot s.pool h with
    | none => exact Ref.same hs _
    | some v =>
      simp only [Option.map]
      apply withShape_ref _ _ _ _ hs
      intro nsh _
      exact viewOp_ref hs h g _ (fun a c hr => reshape_size hr)
  | flatten h g => exact viewOp_ref hs h g _ (fun a c hr => flatten_size hr)
  | reset h k =>
    simp only [step, Spec.step]
    cases hg : getSlot s.pool h with
    | none => simp only [Spec.inplace1, abs_get, hg, Option.map]; exact Ref.same hs _
    | some v =>
      cases v with
      | invalid => simp only [Spec.inplace1, abs_get, hg, Option.map, absHandle]; exact Ref.same hs _
      | valid sh b => exact inplace1_ref hs hg _ (fun D hD => length_fill _ _ _ hD)
  | resetv h vals =>
    simp only [step, Spec.step]
    rw [abs_get]
    cases hg : getSlot s.pool h with
    | none => exact Ref.same hs _
    | some v =>
      cases v with
      | invalid => exact Ref.same hs _
      | valid sh b =>
        simp only [Option.map, absHandle]
        by_cases hl : vals.length ≠ sh.size
        · simp only [if_pos hl]; exact Ref.same hs _
        · simp only [if_neg hl]
          have hl' : vals.length = sh.size := by simpa using hl
          exact inplace1_ref hs hg _ (fun D hD => length_overwrite _ _ _ hD hl')
  | iadd h g => exact inplace2_ref hs _ h g
  | isub h g => exact inplace2_ref hs _ h g
  | imul h k =>
    simp only [step, Spec.step]
    cases hg : getSlot s.pool h with
    | none => simp only [Spec.inplace1, abs_get, hg, Option.map]; exact Ref.same hs _
    | some v =>
      cases v with
      | invalid => simp only [Spec.inplace1, abs_get, hg, Option.map, absHandle]; exact Ref.same hs _
      | valid sh b => exact inplace1_ref hs hg _ (fun D hD => length_scale _ _ _ hD)
  | invalidate h =>
    simp only [step, Spec.step]
    rw [abs_get]
    cases hg : getSlot s.pool h with
    | none => exact Ref.same hs _
    | some v => exact replace_ref hs h (some .invalid) (storable_invalid _) .ok
  | drop h =>
    simp only [step, Spec.step]
    rw [abs_get]
    cases hg : getSlot s.pool h with
    | none => exact Ref.same hs _
    | some v => exact replace_ref hs h none (storable_none _) .ok
  | read h =>
    simp only [step, Spec.step]
    rw [abs_get]
    cases hg : getSlot s.pool h with
    | none => exact Ref.same hs _
    | some v =>
      cases v with
      | invalid => exact Ref.same hs _
      | valid sh b =>
        obtain ⟨bf, hb, hl⟩ := hs.len h sh b hg
        have htake : bf.data.take sh.size = bf.data := by rw [← hl]; simp
        simp only [Option.map, absHandle, deref_of_slot hb hl, htake]
        have : dataOf s.heap b = bf.data := by simp [dataOf, hb]
        rw [this]; exact Ref.same hs _
  | shape h =>
    simp only [step, Spec.step]
    rw [abs_get]
    cases hg : getSlot s.pool h with
    | none => exact Ref.same hs _
    | some v => cases v <;> exact Ref.same hs _
  | valid h =>
    simp only [step, Spec.step]
    rw [abs_get]
    cases hg : getSlot s.pool h with
    | none => exact Ref.same hs _
    | some v => cases v <;> exact Ref.same hs _
  | device h =>
    simp only [step, Spec.step]
    rw [abs_get]
    cases hg : getSlot s.pool h with
    | none => exact Ref.same hs _
    | some v => cases v <;> exact Ref.same hs _
  | param p dims batch vals =>
    apply withShape_ref _ _ _ _ hs
    intro sh _
    try dsimp only
    by_cases hl : vals.length ≠ sh.size
    · simp only [if_pos hl]; exact Ref.same hs _
    · simp only [if_neg hl]
      have hl' : vals.length = sh.size := by simpa using hl
      by_cases hb : sh.hasBatch = true
      · simp only [if_pos hb]; exact Ref.same hs _
      · simp only [if_neg hb]
        have i1 := allocInto_inv hs (vslot p) sh vals hl'
        have a1 := allocInto_abs' hs (vslot p) sh vals
        have i2 := allocInto_inv i1 (gslot p) sh (List.replicate sh.size 0) (by simp)
        have a2 := allocInto_abs' i1 (gslot p) sh (List.replicate sh.size 0)
        refine ⟨inv_pvalid i2 _, ?_, rfl⟩
        rw [abs_pvalid, a2, a1]; rfl
  | pvalue p g =>
    simp only [step, Spec.step]
    have : (absState s).pvalid = s.pvalid := rfl
    rw [this]
    by_cases hf : s.pvalid.getD p false = true
    · simp only [hf, if_true]; exact copyOp_ref hs _ g
    · simp only [hf]; exact Ref.same hs _
  | pgrad p g =>
    simp only [step, Spec.step]
    have : (absState s).pvalid = s.pvalid := rfl
    rw [this]
    by_cases hf : s.pvalid.getD p false = true
    · simp only [hf, if_true]; exact copyOp_ref hs _ g
    · simp only [hf]; exact Ref.same hs _
  | ptensor p g =>
    simp only [step, Spec.step]
    have : (absState s).pvalid = s.pvalid := rfl
    rw [this]
    by_cases hf : s.pvalid.getD p false = true
    · simp only [hf, if_true]; exact copyOp_ref hs _ g
    · simp only [hf]; exact Ref.same hs _
  | piaddValue p g =>
    simp only [step, Spec.step]
    have : (absState s).pvalid = s.pvalid := rfl
    rw [this, abs_get]
    cases hg : getSlot s.pool g with
    | none => exact Ref.same hs _
    | some v =>
      simp only [Option.map]
      by_cases hf : s.pvalid.getD p false = true
      · simp only [hf, if_true]; exact inplace2_ref hs _ _ g
      · simp only [hf]; exact Ref.same hs _
  | pdrop p =>
    simp only [step, Spec.step]
    have i1 := replace_inv hs (vslot p) none (storable_none _)
    have a1 := replace_abs' hs (vslot p) none (storable_none _)
    have i2 := replace_inv i1 (gslot p) none (storable_none _)
    have a2 := replace_abs' i1 (gslot p) none (storable_none _)
    refine ⟨inv_pvalid i2 _, ?_, rfl⟩
    rw [abs_pvalid, a2, a1]; rfl
  | diadd h g => exact inplace2_ref hs _ h g
  | disub h g => exact inplace2_ref hs _ h g
  | dimul h k =>
    simp only [step, Spec.step]
    cases hg : getSlot s.pool h with
    | none => simp only [Spec.inplace1, abs_get, hg, Option.map]; exact Ref.same hs _
    | some v =>
      cases v with
      | invalid => simp only [Spec.inplace1, abs_get, hg, Option.map, absHandle]; exact Ref.same hs _
      | valid sh b => exact inplace1_ref hs hg _ (fun D hD => length_scale _ _ _ hD)
  | dsliceBw gy dim off gx => exact bwOp_ref hs _ _ _ _ (fun _ _ _ _ => length_sliceBwK _ _ _ _ _ _)
  | dpickBw gy dim ids gx => exact bwOp_ref hs _ _ _ _ (fun _ _ _ _ => length_scatter _ _ _ _)
  | dflipBw gy dim gx => exact bwOp_ref hs _ _ _ _ (fun _ _ _ _ => length_scatter _ _ _ _)
  | dtransposeBw gy gx => exact bwOp_ref hs _ _ _ _ (fun _ _ _ _ => length_arith _ _ _ _ _)
  | daddBw gy ga gb => exact abBwOp_ref hs _ _ _ _
  | dsubBw gy ga gb => exact abBwOp_ref hs _ _ _ _
  | piaddGrad p g =>
    simp only [step, Spec.step]
    have : (absState s).pvalid = s.pvalid := rfl
    rw [this, abs_get]
    cases hg : getSlot s.pool g with
    | none => exact Ref.same hs _
    | some v =>
      simp only [Option.map]
      by_cases hf : s.pvalid.getD p false = true
      · simp only [hf, if_true]; exact inplace2_ref hs _ _ g
      · simp only [hf]; exact Ref.same hs _
  | fcopy h g => exact freshOp_ref hs h g _
  | fpositive h g =>
    simp only [step, Spec.step]
    rw [abs_get]
    cases hg : getSlot s.pool h with
    | none => exact Ref.same hs _
    | some v =>
      cases v with
      | invalid => exact Ref.same hs _
      | valid sh b => exact replace_ref hs g (some (.valid sh b)) (storable_of_slot hs hg) .ok
  | fconcat1 h g dim => exact freshOp_ref hs h g _
  | fbconcat1 h g => exact freshOp_ref hs h g _
  | probe fn h =>
    simp only [step, Spec.step]
    rw [abs_get]
    cases hg : getSlot s.pool h with
    | none => exact Ref.same hs _
    | some v =>
      cases v with
      | invalid => exact Ref.same hs _
      | valid sh b =>
        simp only [Option.map, absHandle]
        by_cases hp : probeOk fn sh = true
        · simp only [if_pos hp]; exact Ref.same hs _
        · simp only [if_neg hp]; exact Ref.same hs _
  | live => exact absurd rfl hop
  | readall =>
    simp only [step, Spec.step]
    have := readAll_ref (s := s) s.pool 0 (by
      intro o ho sh b e
      obtain ⟨i, hi⟩ := mem_getSlot ho
      exact hs.len i sh b (by rw [hi, e]))
    rw [this]
    exact Ref.same hs _

/-- One step of the model: the invariant is kept, the abstract state moves as the
specification says, and (except for `live`, which the abstract state cannot
answer) the answer is the specified one. -/
theorem step_refines {s : State} (hs : Inv s) (op : Op) :
    Inv (step s op).1 ∧ absState (step s op).1 = (Spec.step (absState s) op).1 ∧
    (op ≠ .live → (step s op).2 = (Spec.step (absState s) op).2) := by
  by_cases hop : op = .live
  · subst hop; exact ⟨hs, rfl, fun h => absurd rfl h⟩
  · obtain ⟨h1, h2, h3⟩ := step_ref hs op hop
    exact ⟨h1, h2, fun _ => h3⟩

/-! ### the specification changes its targets only -/

theorem spec_setT_ne (a : AState) (h j : Nat) (v : Option AVal) (hne : j ≠ h) :
    getSlot (Spec.setT a h v).pool j = getSlot a.pool j := getSlot_setSlot_ne _ _ hne

theorem spec_copyOp_iso (a : AState) (h g j : Nat) (hne : j ≠ g) :
    getSlot (Spec.copyOp a h g).1.pool j = getSlot a.pool j := by
  unfold Spec.copyOp; split <;> simp [spec_setT_ne, hne]

theorem spec_viewOp_iso (a : AState) (h g j : Nat) (rule : Shape → R Shape) (hne : j ≠ g) :
    getSlot (Spec.viewOp a h g rule).1.pool j = getSlot a.pool j := by
  unfold Spec.viewOp; split <;> (try rfl)
  split <;> simp [spec_setT_ne, hne]

theorem spec_inplace1_iso (a : AState) (h j : Nat) (f : Nat → List Int → List Int) (hne : j ≠ h) :
    getSlot (Spec.inplace1 a h f).1.pool j = getSlot a.pool j := by
  unfold Spec.inplace1; split <;> simp [spec_setT_ne, hne]

theorem spec_inplace2_iso (f : Int → Int → Int) (a : AState) (h g j : Nat) (hne : j ≠ h) :
    getSlot (Spec.inplace2 f a h g).1.pool j = getSlot a.pool j := by
  unfold Spec.inplace2
  split
  · split
    · split <;> simp [spec_setT_ne, hne]
    · rfl
  · rfl

theorem spec_accum_iso (a : AState) (dst src j : Nat) (K : List Int → List Int → List Int) (hne : j ≠ dst) :
    getSlot (Spec.accum a dst src K).1.pool j = getSlot a.pool j := by
  unfold Spec.accum; split <;> simp [spec_setT_ne, hne]

theorem spec_bwOp_iso (a : AState) (gy gx j : Nat) (ok : Shape → Shape → R Bool)
    (K : Shape → Shape → List Int → List Int → List Int) (hne : j ≠ gx) :
    getSlot (Spec.bwOp a gy gx ok K).1.pool j = getSlot a.pool j := by
  unfold Spec.bwOp
  split
  · split
    · rfl
    · split
      · split <;> (try rfl)
        exact spec_accum_iso _ _ _ _ _ hne
      · rfl
  · rfl

theorem spec_abBwOp_iso (g : Int → Int → Int) (a : AState) (gy ga gb j : Nat) (h1 : j ≠ ga) (h2 : j ≠ gb) :
    getSlot (Spec.abBwOp g a gy ga gb).1.pool j = getSlot a.pool j := by
  unfold Spec.abBwOp
  split
  · split
    · rfl
    · split
      · split <;> (try rfl)
        dsimp only
        split
        · rw [spec_accum_iso _ _ _ _ _ h2, spec_accum_iso _ _ _ _ _ h1]
        · exact spec_accum_iso _ _ _ _ _ h1
      · rfl
  · rfl

theorem spec_freshOp_iso (a : AState) (h g j : Nat) (rule : Shape → R Shape) (hne : j ≠ g) :
    getSlot (Spec.freshOp a h g rule).1.pool j = getSlot a.pool j := by
  unfold Spec.freshOp; split <;> (try rfl)
  split <;> simp [spec_setT_ne, hne]

theorem spec_withShape_iso (a : AState) (dims : List Nat) (batch : Nat) (k : Shape → AState × Out) (j : Nat)
    (hk : ∀ sh, getSlot (k sh).1.pool j = getSlot a.pool j) :
    getSlot (Spec.withShape a dims batch k).1.pool j = getSlot a.pool j := by
  unfold Spec.withShape; split <;> simp [hk]

theorem spec_isolation (a : AState) (op : Op) (j : Nat) (hj : j ∉ Spec.targets op) :
    getSlot (Spec.step a op).1.pool j = getSlot a.pool j := by
  cases op with
  | new h dims batch vals =>
    simp [Spec.targets] at hj
    apply spec_withShape_iso; intro sh; (try dsimp only); split <;> simp [spec_setT_ne, hj]
  | copy h g => simp [Spec.targets] at hj; exact spec_copyOp_iso _ _ _ _ hj
  | copyctor h g => simp [Spec.targets] at hj; exact spec_copyOp_iso _ _ _ _ hj
  | move h g =>
    simp [Spec.targets] at hj
    simp only [Spec.step]
    split
    · rfl
    · split
      · rfl
      · simp [spec_setT_ne, hj.1, hj.2]
  | reshape h g dims batch =>
    simp [Spec.targets] at hj
    simp only [Spec.step]
    split
    · rfl
    · apply spec_withShape_iso; intro sh; exact spec_viewOp_iso _ _ _ _ _ hj
  | flatten h g => simp [Spec.targets] at hj; exact spec_viewOp_iso _ _ _ _ _ hj
  | reset h k => simp [Spec.targets] at hj; exact spec_inplace1_iso _ _ _ _ hj
  | resetv h vals =>
    simp [Spec.targets] at hj
    simp only [Spec.step]
    split
    · rfl
    · rfl
    · split
      · rfl
      · exact spec_inplace1_iso _ _ _ _ hj
  | iadd h g => simp [Spec.targets] at hj; exact spec_inplace2_iso _ _ _ _ _ hj
  | isub h g => simp [Spec.targets] at hj; exact spec_inplace2_iso _ _ _ _ _ hj
  | imul h k => simp [Spec.targets] at hj; exact spec_inplace1_iso _ _ _ _ hj
  | invalidate h =>
    simp [Spec.targets] at hj
    simp only [Spec.step]; split <;> simp [spec_setT_ne, hj]
  | drop h =>
    simp [Spec.targets] at hj
    simp only [Spec.step]; split <;> simp [spec_setT_ne, hj]
  | read h => simp only [Spec.step]; split <;> rfl
  | shape h => simp only [Spec.step]; split <;> rfl
  | valid h => simp only [Spec.step]; split <;> rfl
  | device h => simp only [Spec.step]; split <;> rfl
  | param p dims batch vals =>
    simp [Spec.targets] at hj
    apply spec_withShape_iso; intro sh; try dsimp only
    split
    · rfl
    · split
      · rfl
      · simp [spec_setT_ne, hj.1, hj.2]
  | pvalue p g => simp [Spec.targets] at hj; simp only [Spec.step]; split; exact spec_copyOp_iso _ _ _ _ hj; rfl
  | pgrad p g => simp [Spec.targets] at hj; simp only [Spec.step]; split; exact spec_copyOp_iso _ _ _ _ hj; rfl
  | ptensor p g => simp [Spec.targets] at hj; simp only [Spec.step]; split; exact spec_copyOp_iso _ _ _ _ hj; rfl
  | piaddValue p g =>
    simp [Spec.targets] at hj
    simp only [Spec.step]
    split
    · rfl
    · split
      · exact spec_inplace2_iso _ _ _ _ _ hj
      · rfl
  | pdrop p =>
    simp [Spec.targets] at hj
    simp only [Spec.step]
    simp [spec_setT_ne, hj.1, hj.2]
  | diadd h g => simp [Spec.targets] at hj; exact spec_inplace2_iso _ _ _ _ _ hj
  | disub h g => simp [Spec.targets] at hj; exact spec_inplace2_iso _ _ _ _ _ hj
  | dimul h k => simp [Spec.targets] at hj; exact spec_inplace1_iso _ _ _ _ hj
  | dsliceBw gy dim off gx => simp [Spec.targets] at hj; exact spec_bwOp_iso _ _ _ _ _ _ hj
  | dpickBw gy dim ids gx => simp [Spec.targets] at hj; exact spec_bwOp_iso _ _ _ _ _ _ hj
  | dflipBw gy dim gx => simp [Spec.targets] at hj; exact spec_bwOp_iso _ _ _ _ _ _ hj
  | dtransposeBw gy gx => simp [Spec.targets] at hj; exact spec_bwOp_iso _ _ _ _ _ _ hj
  | daddBw gy ga gb => simp [Spec.targets] at hj; exact spec_abBwOp_iso _ _ _ _ _ _ hj.1 hj.2
  | dsubBw gy ga gb => simp [Spec.targets] at hj; exact spec_abBwOp_iso _ _ _ _ _ _ hj.1 hj.2
  | piaddGrad p g =>
    simp [Spec.targets] at hj
    simp only [Spec.step]
    split
    · rfl
    · split
      · exact spec_inplace2_iso _ _ _ _ _ hj
      · rfl
  | fcopy h g => simp [Spec.targets] at hj; exact spec_freshOp_iso _ _ _ _ _ hj
  | fpositive h g =>
    simp [Spec.targets] at hj
    simp only [Spec.step]; split <;> simp [spec_setT_ne, hj]
  | fconcat1 h g dim => simp [Spec.targets] at hj; exact spec_freshOp_iso _ _ _ _ _ hj
  | fbconcat1 h g => simp [Spec.targets] at hj; exact spec_freshOp_iso _ _ _ _ _ hj
  | probe fn h => simp only [Spec.step]; split <;> (try rfl); split <;> rfl
  | live => rfl
  | readall => rfl

/-! ### the specification never answers `crash`; small facts about runs -/

theorem reshape_ne_crash (a b : Shape) : ShapeOps.reshape a b ≠ .error .crash := by
  unfold ShapeOps.reshape Shape.resizeBatch Shape.updateBatch
  split
  · simp [throwError]
  · split
    · simp [throwError]
    · split <;> simp [throwError, pure, Except.pure]

theorem flatten_ne_crash (a : Shape) : ShapeOps.flatten a ≠ .error .crash := shape_new_ne_crash _ _

/-- every shape stored in the abstract pool is free of 0-axes -/
def ANZ (a : AState) : Prop := ∀ i sh vs, getSlot a.pool i = some (some (sh, vs)) → NZ sh

theorem anz_init : ANZ Spec.init := by intro i sh vs h; simp [Spec.init] at h

theorem anz_setT {a : AState} (ha : ANZ a) (h : Nat) (v : Option AVal)
    (hv : ∀ sh vs, v = some (some (sh, vs)) → NZ sh) : ANZ (Spec.setT a h v) := by
  intro i sh vs hi
  simp only [Spec.setT, getSlot_setSlot] at hi
  by_cases hih : i = h
  · simp [hih] at hi; exact hv sh vs hi
  · simp [hih] at hi; exact ha i sh vs hi

theorem anz_pvalid {a : AState} (ha : ANZ a) (l : List Bool) : ANZ { a with pvalid := l } := ha

theorem copyOp_anz {a : AState} (ha : ANZ a) (h g : Nat) : ANZ (Spec.copyOp a h g).1 := by
  unfold Spec.copyOp
  split
  · exact ha
  · rename_i v hv
    exact anz_setT ha g _ (fun sh vs e => by cases e; exact ha h sh vs hv)

theorem viewOp_anz {a : AState} (ha : ANZ a) (h g : Nat) (rule : Shape → R Shape)
    (hr : ∀ x c, NZ x → rule x = .ok c → NZ c) : ANZ (Spec.viewOp a h g rule).1 := by
  unfold Spec.viewOp
  split
  · exact ha
  · exact ha
  · rename_i sh vs hv
    split
    · exact ha
    · exact ha
    · rename_i rsh hrsh
      exact anz_setT ha g _ (fun sh' vs' e => by cases e; exact hr sh rsh (ha h sh vs hv) hrsh)

theorem inplace1_anz {a : AState} (ha : ANZ a) (h : Nat) (f : Nat → List Int → List Int) :
    ANZ (Spec.inplace1 a h f).1 := by
  unfold Spec.inplace1
  split
  · exact ha
  · exact ha
  · rename_i sh vs hv
    exact anz_setT ha h _ (fun sh' vs' e => by cases e; exact ha h sh vs hv)

theorem inplace2_anz {a : AState} (ha : ANZ a) (f : Int → Int → Int) (h g : Nat) :
    ANZ (Spec.inplace2 f a h g).1 := by
  unfold Spec.inplace2
  split
  · rename_i vy vx hy hx
    split
    · rename_i sy Y sx X
      split
      · exact ha
      · exact anz_setT ha h _ (fun sh' vs' e => by cases e; exact ha h sy Y hy)
    · exact ha
  · exact ha

theorem accum_anz {a : AState} (ha : ANZ a) (dst src : Nat) (K : List Int → List Int → List Int) :
    ANZ (Spec.accum a dst src K).1 := by
  unfold Spec.accum
  split
  · rename_i sd Y ss X hd hs
    exact anz_setT ha dst _ (fun sh' vs' e => by cases e; exact ha dst sd Y hd)
  · exact ha

theorem bwOp_anz {a : AState} (ha : ANZ a) (gy gx : Nat) (ok : Shape → Shape → R Bool)
    (K : Shape → Shape → List Int → List Int → List Int) : ANZ (Spec.bwOp a gy gx ok K).1 := by
  unfold Spec.bwOp
  split
  · split
    · exact ha
    · split
      · split <;> (try exact ha)
        exact accum_anz ha _ _ _
      · exact ha
  · exact ha

theorem abBwOp_anz {a : AState} (ha : ANZ a) (g : Int → Int → Int) (gy ga gb : Nat) :
    ANZ (Spec.abBwOp g a gy ga gb).1 := by
  unfold Spec.abBwOp
  split
  · split
    · exact ha
    · split
      · split <;> (try exact ha)
        dsimp only
        split
        · exact accum_anz (accum_anz ha _ _ _) _ _ _
        · exact accum_anz ha _ _ _
      · exact ha
  · exact ha

theorem freshOp_anz {a : AState} (ha : ANZ a) (h g : Nat) (rule : Shape → R Shape)
    (hr : ∀ x c, NZ x → rule x = .ok c → NZ c) : ANZ (Spec.freshOp a h g rule).1 := by
  unfold Spec.freshOp
  split
  · exact ha
  · exact ha
  · rename_i sh vs hv
    split
    · exact ha
    · exact ha
    · rename_i rsh hrsh
      exact anz_setT ha g _ (fun sh' vs' e => by cases e; exact hr sh rsh (ha h sh vs hv) hrsh)

theorem withShape_anz {a : AState} (ha : ANZ a) (dims : List Nat) (batch : Nat) (k : Shape → AState × Out)
    (hk : ∀ sh, Shape.new dims batch = .ok sh → ANZ (k sh).1) : ANZ (Spec.withShape a dims batch k).1 := by
  unfold Spec.withShape
  split
  · exact ha
  · exact ha
  · rename_i sh hsh; exact hk sh hsh

theorem step_anz {a : AState} (ha : ANZ a) (op : Op) : ANZ (Spec.step a op).1 := by
  cases op with
  | new h dims batch vals =>
    apply withShape_anz ha; intro sh hsh; (try dsimp only)
    split
    · exact ha
    · exact anz_setT ha h _ (fun sh' vs' e => by cases e; exact shape_new_nz hsh)
  | copy h g => exact copyOp_anz ha h g
  | copyctor h g => exact copyOp_anz ha h g
  | move h g =>
    simp only [Spec.step]
    split
    · exact ha
    · rename_i v hv
      split
      · exact ha
      · apply anz_setT _ h _ (fun sh' vs' e => by cases e)
        exact anz_setT ha g _ (fun sh vs e => by cases e; exact ha h sh vs hv)
  | reshape h g dims batch =>
    simp only [Spec.step]
    split
    · exact ha
    · apply withShape_anz ha; intro nsh hn
      exact viewOp_anz ha h g _ (fun x c _ hc => reshape_nz hc (shape_new_nz hn))
  | flatten h g => exact viewOp_anz ha h g _ (fun x c _ hc => flatten_nz hc)
  | reset h k => exact inplace1_anz ha h _
  | resetv h vals =>
    simp only [Spec.step]
    split
    · exact ha
    · exact ha
    · split
      · exact ha
      · exact inplace1_anz ha h _
  | iadd h g => exact inplace2_anz ha _ h g
  | isub h g => exact inplace2_anz ha _ h g
  | imul h k => exact inplace1_anz ha h _
  | invalidate h =>
    simp only [Spec.step]
    split
    · exact ha
    · exact anz_setT ha h _ (fun sh' vs' e => by cases e)
  | drop h =>
    simp only [Spec.step]
    split
    · exact ha
    · exact anz_setT ha h _ (fun sh' vs' e => by cases e)
  | read h => simp only [Spec.step]; split <;> exact ha
  | shape h => simp only [Spec.step]; split <;> exact ha
  | valid h => simp only [Spec.step]; split <;> exact ha
  | device h => simp only [Spec.step]; split <;> exact ha
  | param p dims batch vals =>
    apply withShape_anz ha; intro sh hsh; (try dsimp only)
    split
    · exact ha
    · split
      · exact ha
      · apply anz_pvalid
        apply anz_setT _ _ _ (fun sh' vs' e => by cases e; exact shape_new_nz hsh)
        exact anz_setT ha _ _ (fun sh' vs' e => by cases e; exact shape_new_nz hsh)
  | pvalue p g => simp only [Spec.step]; split; exact copyOp_anz ha _ g; exact ha
  | pgrad p g => simp only [Spec.step]; split; exact copyOp_anz ha _ g; exact ha
  | ptensor p g => simp only [Spec.step]; split; exact copyOp_anz ha _ g; exact ha
  | piaddValue p g =>
    simp only [Spec.step]
    split
    · exact ha
    · split
      · exact inplace2_anz ha _ _ g
      · exact ha
  | pdrop p =>
    simp only [Spec.step]
    apply anz_pvalid
    apply anz_setT _ _ _ (fun sh' vs' e => by cases e)
    exact anz_setT ha _ _ (fun sh' vs' e => by cases e)
  | live => exact ha
  | readall => exact ha
  | diadd h g => exact inplace2_anz ha _ h g
  | disub h g => exact inplace2_anz ha _ h g
  | dimul h k => exact inplace1_anz ha h _
  | dsliceBw gy dim off gx => exact bwOp_anz ha _ _ _ _
  | dpickBw gy dim ids gx => exact bwOp_anz ha _ _ _ _
  | dflipBw gy dim gx => exact bwOp_anz ha _ _ _ _
  | dtransposeBw gy gx => exact bwOp_anz ha _ _ _ _
  | daddBw gy ga gb => exact abBwOp_anz ha _ _ _ _
  | dsubBw gy ga gb => exact abBwOp_anz ha _ _ _ _
  | piaddGrad p g =>
    simp only [Spec.step]
    split
    · exact ha
    · split
      · exact inplace2_anz ha _ _ g
      · exact ha
  | fcopy h g => exact freshOp_anz ha h g _ (fun x c hx hc => by simp [pure, Except.pure] at hc; subst hc; exact hx)
  | fpositive h g =>
    simp only [Spec.step]
    split
    · exact ha
    · exact ha
    · rename_i v hv
      exact anz_setT ha g _ (fun sh vs e => by cases e; exact ha h sh vs hv)
  | fconcat1 h g dim => exact freshOp_anz ha h g _ (fun x c hx hc => concat1_nz hx hc)
  | fbconcat1 h g => exact freshOp_anz ha h g _ (fun x c hx hc => bconcat1_nz hx hc)
  | probe fn h => simp only [Spec.step]; split <;> (try exact ha); split <;> exact ha

theorem run_anz {a : AState} (ha : ANZ a) (ops : List Op) : ANZ (Spec.run a ops).1 := by
  induction ops generalizing a with
  | nil => exact ha
  | cons op ops ih => exact ih (step_anz ha op)

theorem spec_accum_ne_crash (a : AState) (dst src : Nat) (K : List Int → List Int → List Int) :
    (Spec.accum a dst src K).2 ≠ .crash := by
  unfold Spec.accum; split <;> simp

theorem spec_bwOp_ne_crash {a : AState} (ha : ANZ a) (gy gx : Nat) (ok : Shape → Shape → R Bool)
    (K : Shape → Shape → List Int → List Int → List Int)
    (hok : ∀ sy sx, NZ sx → ok sy sx ≠ .error .crash) : (Spec.bwOp a gy gx ok K).2 ≠ .crash := by
  unfold Spec.bwOp
  split
  · rename_i vy vx hy hx
    split
    · simp
    · split
      · rename_i sy Y sx X
        split
        · rename_i hc; exact absurd hc (hok sy sx (ha gx sx X hx))
        · simp
        · simp
        · exact spec_accum_ne_crash _ _ _ _
      · simp
  · simp

theorem spec_abBwOp_ne_crash (g : Int → Int → Int) (a : AState) (gy ga gb : Nat) :
    (Spec.abBwOp g a gy ga gb).2 ≠ .crash := by
  unfold Spec.abBwOp
  split
  · split
    · simp
    · split
      · split
        · rename_i hc; exact absurd hc (abBwOk_ne_crash _ _ _)
        · simp
        · simp
        · dsimp only
          split
          · exact spec_accum_ne_crash _ _ _ _
          · exact spec_accum_ne_crash _ _ _ _
      · simp
  · simp

theorem spec_freshOp_ne_crash {a : AState} (ha : ANZ a) (h g : Nat) (rule : Shape → R Shape)
    (hr : ∀ sh, NZ sh → rule sh ≠ .error .crash) : (Spec.freshOp a h g rule).2 ≠ .crash := by
  unfold Spec.freshOp
  split
  · simp
  · simp
  · rename_i sh vs hv
    split
    · rename_i hc; exact absurd hc (hr sh (ha h sh vs hv))
    · simp
    · simp

/-- the specification never answers `crash` (on pools without 0-axes, which is
what every history produces: `run_anz`) -/
theorem spec_never_crashes {a : AState} (ha : ANZ a) (op : Op) : (Spec.step a op).2 ≠ .crash := by
  have hnew := shape_new_ne_crash
  have hre := reshape_ne_crash
  have hfl := flatten_ne_crash
  cases op
  case dsliceBw gy dim off gx => exact spec_bwOp_ne_crash ha _ _ _ _ (fun sy sx _ => sliceBwOk_ne_crash _ _ _ _)
  case dpickBw gy dim ids gx => exact spec_bwOp_ne_crash ha _ _ _ _ (fun sy sx hx => pickBwOk_ne_crash _ _ _ hx)
  case dflipBw gy dim gx => exact spec_bwOp_ne_crash ha _ _ _ _ (fun sy sx _ => flipBwOk_ne_crash _ _)
  case dtransposeBw gy gx => exact spec_bwOp_ne_crash ha _ _ _ _ (fun sy sx _ => transposeBwOk_ne_crash _ _)
  case daddBw gy ga gb => exact spec_abBwOp_ne_crash _ _ _ _ _
  case dsubBw gy ga gb => exact spec_abBwOp_ne_crash _ _ _ _ _
  case fcopy h g => exact spec_freshOp_ne_crash ha _ _ _ (fun sh _ => by simp [pure, Except.pure])
  case fconcat1 h g dim => exact spec_freshOp_ne_crash ha _ _ _ (fun sh hs => concat1_ne_crash hs _)
  case fbconcat1 h g => exact spec_freshOp_ne_crash ha _ _ _ (fun sh _ => bconcat1_ne_crash _)
  all_goals
    simp only [Spec.step, Spec.copyOp, Spec.viewOp, Spec.inplace1, Spec.inplace2, Spec.withShape] <;>
    (repeat' split) <;> simp_all

theorem run_snoc (s : State) (ops : List Op) (op : Op) :
    (run s (ops ++ [op])).1 = (step (run s ops).1 op).1 := by
  induction ops generalizing s with
  | nil => rfl
  | cons o ops ih => simp only [List.cons_append, run]; exact ih _

theorem filter_isSome_of_all_none (hp : List (Option Buf)) (h : ∀ b, getSlot hp b = none) :
    (hp.filter Option.isSome).length = 0 := by
  induction hp with
  | nil => rfl
  | cons o rest ih =>
    have h0 := h 0
    simp only [getSlot] at h0
    subst h0
    simpa using ih (fun b => by simpa [getSlot] using h (b + 1))

/-! ### invalid operands of the Device entry points -/

theorem bwOp_invalid {s : State} {gy gx : Nat} (ok : Shape → Shape → R Bool)
    (K : Shape → Shape → List Int → List Int → List Int) (hne : gy ≠ gx)
    (hy : (getSlot s.pool gy).isSome = true) (hx : (getSlot s.pool gx).isSome = true)
    (hinv : getSlot s.pool gy = some .invalid ∨ getSlot s.pool gx = some .invalid) :
    bwOp s gy gx ok K = (s, .err) := by
  unfold bwOp
  cases h1 : getSlot s.pool gy with
  | none => simp [h1] at hy
  | some vy =>
    cases h2 : getSlot s.pool gx with
    | none => simp [h2] at hx
    | some vx =>
      simp only [if_neg hne]
      rcases hinv with h | h
      · rw [h1] at h; cases h; cases vx <;> rfl
      · rw [h2] at h; cases h; cases vy <;> rfl

theorem abBwOp_invalid {s : State} {gy ga gb : Nat} (g : Int → Int → Int)
    (hne : ¬(gy = ga ∨ gy = gb ∨ ga = gb))
    (hy : (getSlot s.pool gy).isSome = true) (ha : (getSlot s.pool ga).isSome = true)
    (hb : (getSlot s.pool gb).isSome = true)
    (hinv : getSlot s.pool gy = some .invalid ∨ getSlot s.pool ga = some .invalid ∨ getSlot s.pool gb = some .invalid) :
    abBwOp g s gy ga gb = (s, .err) := by
  unfold abBwOp
  cases h1 : getSlot s.pool gy with
  | none => simp [h1] at hy
  | some vy =>
    cases h2 : getSlot s.pool ga with
    | none => simp [h2] at ha
    | some va =>
      cases h3 : getSlot s.pool gb with
      | none => simp [h3] at hb
      | some vb =>
        simp only [if_neg hne]
        rcases hinv with h | h | h
        · rw [h1] at h; cases h; cases va <;> cases vb <;> rfl
        · rw [h2] at h; cases h; cases vy <;> cases vb <;> rfl
        · rw [h3] at h; cases h; cases vy <;> cases va <;> rfl

end Primitiv.Cow
