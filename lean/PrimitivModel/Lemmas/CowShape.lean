import PrimitivModel.Model.Cow
/-
Shape facts used by property C07: no shape the constructor builds has an axis of
extent 0, the rules used by the cow family keep that, and under it none of them
reaches the division by zero of `update_dim`.
-/
namespace Primitiv.Cow

/-- no axis of extent 0 -/
def NZ (sh : Shape) : Prop := ∀ d ∈ sh.dims, d ≠ 0

theorem mem_trim {l : List Nat} {x : Nat} (h : x ∈ trim l) : x ∈ l := by
  fun_induction trim l <;> simp_all
  rename_i ih
  rcases h with h | h | h
  · exact Or.inl h
  · exact Or.inr (ih (Or.inl h))
  · exact Or.inr (ih (Or.inr h))

theorem get_ne_zero {sh : Shape} (h : NZ sh) (d : Nat) : sh.get d ≠ 0 := by
  unfold Shape.get
  rw [List.getD_eq_getElem?_getD]
  cases hg : sh.dims[d]? with
  | none => simp
  | some x => simp; exact h x (List.mem_of_getElem? hg)

theorem prodChk_nz : ∀ (dims : List Nat) (v r : Nat), Shape.prodChk dims v = some r → r ≠ 0 → ∀ d ∈ dims, d ≠ 0
  | [], _, _, _, _ => by simp
  | d :: ds, v, r, h, hr => by
    simp only [Shape.prodChk] at h
    split at h
    · cases h
    · have ih := prodChk_nz ds (v * d) r h hr
      intro x hx
      simp at hx
      rcases hx with hx | hx
      · subst hx
        intro h0; subst h0
        -- the running product is 0 from here on
        have : ∀ (l : List Nat) (r : Nat), Shape.prodChk l 0 = some r → r = 0 := by
          intro l
          induction l with
          | nil => intro r hr; simp [Shape.prodChk] at hr; exact hr.symm
          | cons a l ih => intro r hr; simp [Shape.prodChk] at hr; exact ih r hr
        exact hr (this ds r (by simpa using h))
      · exact ih x hx

theorem shape_new_nz {dims : List Nat} {batch : Nat} {sh : Shape} (h : Shape.new dims batch = .ok sh) : NZ sh := by
  unfold Shape.new at h
  split at h
  · simp [throwError] at h
  · split at h
    · simp [throwError] at h
    · rename_i vol hv
      split at h
      · simp [throwError] at h
      · rename_i hc
        simp [pure, Except.pure] at h
        subst h
        intro d hd
        have hvol : vol ≠ 0 := by intro h0; exact hc (Or.inl h0)
        exact prodChk_nz dims 1 vol hv hvol d (mem_trim hd)

theorem reshape_nz {a b c : Shape} (h : ShapeOps.reshape a b = .ok c) (hb : NZ b) : NZ c := by
  unfold ShapeOps.reshape at h
  split at h
  · simp [throwError] at h
  · unfold Shape.resizeBatch Shape.updateBatch at h
    split at h
    · simp [throwError] at h
    · split at h
      · simp [throwError] at h
      · simp [pure, Except.pure] at h
        subst h; exact hb

theorem flatten_nz {a c : Shape} (h : ShapeOps.flatten a = .ok c) : NZ c := shape_new_nz h

theorem updateDim_ne_crash {s : Shape} (hs : NZ s) (dim m : Nat) : s.updateDim dim m ≠ .error .crash := by
  unfold Shape.updateDim
  have := get_ne_zero hs dim
  split
  · simp [throwError]
  · split
    · simp [throwError]
    · simp only [this, if_false]
      split <;> simp [throwError, pure, Except.pure]

theorem updateDim_nz {s r : Shape} (hs : NZ s) {dim m : Nat} (h : s.updateDim dim m = .ok r) : NZ r := by
  unfold Shape.updateDim at h
  split at h
  · simp [throwError] at h
  · split at h
    · simp [throwError] at h
    · rename_i hm
      simp only [get_ne_zero hs dim, if_false] at h
      split at h
      · simp [throwError] at h
      · simp [pure, Except.pure] at h
        subst h
        intro d hd
        have hd' := List.mem_or_eq_of_mem_set (mem_trim hd)
        rcases hd' with hd' | hd'
        · split at hd'
          · simp at hd'
            rcases hd' with hd' | hd'
            · exact hs d hd'
            · omega
          · exact hs d hd'
        · omega

theorem updateBatch_nz {s r : Shape} (hs : NZ s) {b : Nat} (h : s.updateBatch b = .ok r) : NZ r := by
  unfold Shape.updateBatch at h
  split at h
  · simp [throwError] at h
  · split at h
    · simp [throwError] at h
    · simp [pure, Except.pure] at h; subst h; exact hs

theorem updateBatch_ne_crash (s : Shape) (b : Nat) : s.updateBatch b ≠ .error .crash := by
  unfold Shape.updateBatch
  split
  · simp [throwError]
  · split <;> simp [throwError, pure, Except.pure]

theorem concat1_ne_crash {sh : Shape} (hs : NZ sh) (dim : Nat) : ShapeOps.concat [sh] dim ≠ .error .crash := by
  simp only [ShapeOps.concat, ShapeOps.concatLoop, bind, Except.bind, pure, Except.pure]
  split
  · simp [throwError]
  · exact updateDim_ne_crash hs _ _

theorem concat1_nz {sh r : Shape} (hs : NZ sh) {dim : Nat} (h : ShapeOps.concat [sh] dim = .ok r) : NZ r := by
  simp only [ShapeOps.concat, ShapeOps.concatLoop, bind, Except.bind, pure, Except.pure] at h
  split at h
  · simp [throwError] at h
  · exact updateDim_nz hs h

theorem bconcat1_ne_crash (sh : Shape) : ShapeOps.batchConcat [sh] ≠ .error .crash := by
  simp only [ShapeOps.batchConcat, ShapeOps.batchConcatLoop, bind, Except.bind, pure, Except.pure]
  split
  · simp [throwError]
  · exact updateBatch_ne_crash _ _

theorem bconcat1_nz {sh r : Shape} (hs : NZ sh) (h : ShapeOps.batchConcat [sh] = .ok r) : NZ r := by
  simp only [ShapeOps.batchConcat, ShapeOps.batchConcatLoop, bind, Except.bind, pure, Except.pure] at h
  split at h
  · simp [throwError] at h
  · exact updateBatch_nz hs h

theorem sliceBwOk_ne_crash (dim off : Nat) (sy sx : Shape) : sliceBwOk dim off sy sx ≠ .error .crash := by
  have hl : ∀ (s : Shape) (d : Nat), ∃ n, s.looLen d = .ok n := by
    intro s d; unfold Shape.looLen; split <;> exact ⟨_, rfl⟩
  obtain ⟨n1, h1⟩ := hl sy dim
  obtain ⟨n2, h2⟩ := hl sx dim
  simp [sliceBwOk, Shape.hasSameLooDims, h1, h2, bind, Except.bind, pure, Except.pure]

theorem flipBwOk_ne_crash (sy sx : Shape) : flipBwOk sy sx ≠ .error .crash := by
  simp [flipBwOk, pure, Except.pure]

theorem shape_new_ne_crash' (dims : List Nat) (batch : Nat) : Shape.new dims batch ≠ .error .crash := by
  unfold Shape.new
  split
  · simp [throwError]
  · split
    · simp [throwError]
    · split <;> simp [throwError, pure, Except.pure]

theorem transposeBwOk_ne_crash (sy sx : Shape) : transposeBwOk sy sx ≠ .error .crash := by
  simp only [transposeBwOk, ShapeOps.transpose, bind, Except.bind, pure, Except.pure]
  split
  · rename_i e h
    split at h
    · simp [throwError] at h; rw [← h]; simp
    · intro hc; cases hc; exact shape_new_ne_crash' _ _ h
  · simp

theorem abBwOk_ne_crash (sy sa sb : Shape) : abBwOk sy sa sb ≠ .error .crash := by
  simp only [abBwOk, ShapeOps.elementwise, bind, Except.bind, pure, Except.pure]
  split
  · rename_i e h
    split at h
    · simp [throwError] at h; rw [← h]; simp
    · intro hc; cases hc; exact updateBatch_ne_crash _ _ h
  · simp

theorem pickBwOk_ne_crash (dim : Nat) (ids : List Nat) (sy : Shape) {sx : Shape} (hx : NZ sx) :
    pickBwOk dim ids sy sx ≠ .error .crash := by
  simp only [pickBwOk, ShapeOps.pick, bind, Except.bind, pure, Except.pure]
  split
  · rename_i e h
    split at h
    · simp [throwError] at h; rw [← h]; simp
    · split at h
      · simp [throwError] at h; rw [← h]; simp
      · split at h
        · rename_i e' h'
          intro hc; cases hc; cases h
          exact updateDim_ne_crash hx _ _ h'
        · intro hc; cases hc; exact updateBatch_ne_crash _ _ h
  · simp

end Primitiv.Cow
