import PrimitivModel.Model.Files
import PrimitivModel.Lemmas.Msgpack
/-
Laws of the file model (Model/Files.lean): the record codecs (header, Shape,
Tensor, statistics entry) are lawful in the sense of `Msgpack.Lawful`;
`load_inner ∘ save_inner`, the loops of `Parameter::load_inner` and
`Model::load` by induction; what a failing load leaves behind.
Core Lean only.
-/
namespace Primitiv.Files
open Primitiv Primitiv.Msgpack

/-! ### header -/

def headerC (dt : DataType) : Codec Unit := ⟨fun _ => writeHeader dt, readHeader dt, fun _ => true⟩

theorem tag_lt (dt : DataType) : dt.tag < 4294967296 := by cases dt <;> simp only [DataType.tag] <;> omega
theorem major_lt : versionMajor < 4294967296 := by show (0 : Nat) < 4294967296; omega
theorem minor_lt : versionMinor < 4294967296 := by show (1 : Nat) < 4294967296; omega

theorem lawful_headerC (dt : DataType) : Lawful (headerC dt) (fun _ => True) where
  roundtrip _ rest _ := by
    simp only [headerC, writeHeader, readHeader, List.append_assoc]
    rw [lawful_nat32.roundtrip _ _ major_lt]
    simp only [Res.bind_ok]
    rw [lawful_nat32.roundtrip _ _ minor_lt]
    simp only [Res.bind_ok]
    rw [lawful_nat32.roundtrip _ _ (tag_lt dt)]
    simp
  prefixFree _ p q _ he hq := by
    simp only [headerC, writeHeader, List.append_assoc] at he
    simp only [headerC, readHeader]
    refine seq_prefix lawful_nat32 major_lt he hq _ (fun c1 h1 => ?_)
    refine seq_prefix lawful_nat32 minor_lt h1 hq _ (fun c2 h2 => ?_)
    simp only [ne_eq, not_true_eq_false, or_self, ↓reduceIte]
    have h2' : c2 ++ q = nat32.enc dt.tag ++ [] := by simpa using h2
    exact seq_prefix lawful_nat32 (tag_lt dt) h2' hq _ (fun c3 h3 => by simp at h3; exact absurd h3.2 hq)

/-- a header that is not (0, 1, expected tag) is rejected, whatever follows -/
theorem readHeader_bad (dt : DataType) (major minor tag : Nat) (rest : Bytes)
    (hM : major < 4294967296) (hm : minor < 4294967296) (ht : tag < 4294967296)
    (hbad : major ≠ versionMajor ∨ minor ≠ versionMinor ∨ tag ≠ dt.tag) :
    readHeader dt (nat32.enc major ++ nat32.enc minor ++ nat32.enc tag ++ rest) = .error .invalid := by
  simp only [readHeader, List.append_assoc]
  rw [lawful_nat32.roundtrip _ _ hM]; simp only [Res.bind_ok]
  rw [lawful_nat32.roundtrip _ _ hm]; simp only [Res.bind_ok]
  by_cases h1 : major ≠ versionMajor ∨ minor ≠ versionMinor
  · simp [h1]
  · rw [if_neg h1, lawful_nat32.roundtrip _ _ ht]
    have : tag ≠ dt.tag := by
      rcases hbad with h | h | h
      · exact absurd (Or.inl h) h1
      · exact absurd (Or.inr h) h1
      · exact h
    simp [this]

/-! ### Shape -/

/-- A `Shape` object as the constructors leave it, with 32-bit fields. -/
def ShapeOk (s : Shape) : Prop :=
  s.dims.length < 4294967296 ∧ (∀ d ∈ s.dims, d < 4294967296) ∧ s.batch < 4294967296 ∧
    Shape.new s.dims s.batch = .ok s

theorem lawful_shapeC : Lawful shapeC ShapeOk where
  roundtrip s rest hs := by
    obtain ⟨hl, hd, hb, hn⟩ := hs
    simp only [shapeC, writeShape, readShape, List.append_assoc]
    rw [(lawful_arr lawful_nat32).roundtrip s.dims _ ⟨hl, hd⟩]; simp only [Res.bind_ok]
    rw [lawful_nat32.roundtrip _ _ hb]; simp [hn]
  prefixFree s p q hs he hq := by
    obtain ⟨hl, hd, hb, hn⟩ := hs
    simp only [shapeC, writeShape] at he
    simp only [shapeC, readShape]
    refine seq_prefix (lawful_arr lawful_nat32) (v := s.dims) ⟨hl, hd⟩ he hq _ (fun c1 h1 => ?_)
    have h1' : c1 ++ q = nat32.enc s.batch ++ [] := by simpa using h1
    exact seq_prefix lawful_nat32 hb h1' hq _ (fun c2 h2 => by simp at h2; exact absurd h2.2 hq)

/-! ### Tensor -/

theorem leBytes_length (w : UInt32) : (leBytes w).length = 4 := rfl

theorem wordsToBytes_length (ws : List UInt32) : (wordsToBytes ws).length = ws.length * 4 := by
  induction ws with
  | nil => rfl
  | cons w ws ih => simp only [wordsToBytes, List.flatMap_cons, List.length_append, leBytes_length, List.length_cons] at ih ⊢; omega

theorem bytesToWords_wordsToBytes (ws : List UInt32) : bytesToWords (wordsToBytes ws) = ws := by
  induction ws with
  | nil => rfl
  | cons w ws ih =>
    simp only [wordsToBytes, List.flatMap_cons] at ih ⊢
    simp only [leBytes, List.cons_append, List.nil_append, bytesToWords, ih, List.cons.injEq, and_true]
    have := w.toNat_lt
    apply UInt32.toNat_inj.mp; simp; omega

/-- A tensor that `save` can write: a proper shape, `shape.size()` words, a payload below 2^32 bytes. -/
def TensorOk (t : Tensor) : Prop :=
  ShapeOk t.shape ∧ t.data.length = t.shape.size ∧ t.data.length * 4 < 4294967296

theorem lawful_tensorC : Lawful tensorC TensorOk where
  roundtrip t rest ht := by
    obtain ⟨hs, hlen, hfit⟩ := ht
    simp only [tensorC, writeTensor, readTensor, List.append_assoc]
    rw [show writeShape t.shape = shapeC.enc t.shape from rfl, show readShape = shapeC.dec from rfl,
      lawful_shapeC.roundtrip _ _ hs]
    simp only [Res.bind_ok]
    rw [lawful_bin.roundtrip _ _ (by rw [wordsToBytes_length]; exact hfit)]
    simp [wordsToBytes_length, hlen, bytesToWords_wordsToBytes]
  prefixFree t p q ht he hq := by
    obtain ⟨hs, hlen, hfit⟩ := ht
    simp only [tensorC, writeTensor] at he
    simp only [tensorC, readTensor]
    refine seq_prefix lawful_shapeC (v := t.shape) hs he hq _ (fun c1 h1 => ?_)
    have h1' : c1 ++ q = bin.enc (wordsToBytes t.data) ++ [] := by simpa using h1
    exact seq_prefix lawful_bin (v := wordsToBytes t.data) (by rw [wordsToBytes_length]; exact hfit) h1' hq _
      (fun c2 h2 => by simp at h2; exact absurd h2.2 hq)

/-! ### statistics entries and the loop of `load_inner` -/

def StatOk (x : Bytes × Tensor) : Prop := x.1.length < 4294967296 ∧ TensorOk x.2

theorem lawful_statC : Lawful statC StatOk := lawful_pair lawful_str lawful_tensorC

end Primitiv.Files
