import PrimitivModel.Model.Files
import PrimitivModel.Lemmas.Msgpack
/-
Laws of the file model (Model/Files.lean): the record codecs (header, Shape,
Tensor, statistics entry) are lawful in the sense of `Msgpack.Lawful`;
`load_inner ∘ save_inner`, the loops of `Parameter::load_inner` and
`Model::load` by induction; what a failing load leaves behind.
Core Lean only.
-/
namespace Primitiv.Files
open Primitiv Primitiv.Msgpack

/-! ### header -/

def headerC (dt : DataType) : Codec Unit := ⟨fun _ => writeHeader dt, readHeader dt, fun _ => true⟩

theorem tag_lt (dt : DataType) : dt.tag < 4294967296 := by cases dt <;> simp only [DataType.tag] <;> omega
theorem major_lt : versionMajor < 4294967296 := by show (0 : Nat) < 4294967296; omega
theorem minor_lt : versionMinor < 4294967296 := by show (1 : Nat) < 4294967296; omega

/-- `readHeader` with the expected numbers as parameters -/
def readHeaderG (M m t : Nat) (bs : Bytes) : Res Unit :=
  (nat32.dec bs).bind fun major r => (nat32.dec r).bind fun minor r' =>
    if major ≠ M ∨ minor ≠ m then .error .invalid
    else (nat32.dec r').bind fun observed r'' =>
      if observed ≠ t then .error .invalid else .ok () r''

theorem readHeader_eq (dt : DataType) : readHeader dt = readHeaderG versionMajor versionMinor dt.tag := rfl

theorem readHeaderG_roundtrip (M m t : Nat) (hM : M < 4294967296) (hm : m < 4294967296) (ht : t < 4294967296)
    (rest : Bytes) : readHeaderG M m t (nat32.enc M ++ nat32.enc m ++ nat32.enc t ++ rest) = .ok () rest := by
  simp only [readHeaderG, List.append_assoc]
  rw [lawful_nat32.roundtrip M _ hM]; simp only [Res.bind_ok]
  rw [lawful_nat32.roundtrip m _ hm]; simp only [Res.bind_ok]
  rw [lawful_nat32.roundtrip t _ ht]; simp

theorem readHeaderG_prefix (M m t : Nat) (hM : M < 4294967296) (hm : m < 4294967296) (ht : t < 4294967296)
    (p q : Bytes) (he : p ++ q = nat32.enc M ++ nat32.enc m ++ nat32.enc t) (hq : q ≠ []) :
    readHeaderG M m t p = .error .eof := by
  simp only [List.append_assoc] at he
  simp only [readHeaderG]
  refine seq_prefix lawful_nat32 hM he hq _ (fun c1 h1 => ?_)
  refine seq_prefix lawful_nat32 hm h1 hq _ (fun c2 h2 => ?_)
  simp only [ne_eq, not_true_eq_false, or_self, ↓reduceIte]
  have h2' : c2 ++ q = nat32.enc t ++ [] := by simpa using h2
  exact seq_prefix lawful_nat32 ht h2' hq _ (fun c3 h3 => by simp at h3; exact absurd h3.2 hq)

theorem lawful_headerC (dt : DataType) : Lawful (headerC dt) (fun _ => True) where
  roundtrip _ rest _ := by
    show readHeader dt (writeHeader dt ++ rest) = _
    rw [readHeader_eq]
    exact readHeaderG_roundtrip _ _ _ major_lt minor_lt (tag_lt dt) rest
  prefixFree _ p q _ he hq := by
    show readHeader dt p = _
    rw [readHeader_eq]
    exact readHeaderG_prefix _ _ _ major_lt minor_lt (tag_lt dt) p q he hq

/-- a header that is not (0, 1, expected tag) is rejected, whatever follows -/
theorem readHeaderG_bad (M m t major minor tag : Nat) (rest : Bytes)
    (hM : major < 4294967296) (hm : minor < 4294967296) (ht : tag < 4294967296)
    (hbad : major ≠ M ∨ minor ≠ m ∨ tag ≠ t) :
    readHeaderG M m t (nat32.enc major ++ nat32.enc minor ++ nat32.enc tag ++ rest) = .error .invalid := by
  simp only [readHeaderG, List.append_assoc]
  rw [lawful_nat32.roundtrip major _ hM]; simp only [Res.bind_ok]
  rw [lawful_nat32.roundtrip minor _ hm]; simp only [Res.bind_ok]
  by_cases h1 : major ≠ M ∨ minor ≠ m
  · simp [h1]
  · rw [if_neg h1, lawful_nat32.roundtrip tag _ ht]
    have : tag ≠ t := by
      rcases hbad with h | h | h
      · exact absurd (Or.inl h) h1
      · exact absurd (Or.inr h) h1
      · exact h
    simp [this]

theorem readHeader_bad (dt : DataType) (major minor tag : Nat) (rest : Bytes)
    (hM : major < 4294967296) (hm : minor < 4294967296) (ht : tag < 4294967296)
    (hbad : major ≠ versionMajor ∨ minor ≠ versionMinor ∨ tag ≠ dt.tag) :
    readHeader dt (nat32.enc major ++ nat32.enc minor ++ nat32.enc tag ++ rest) = .error .invalid := by
  rw [readHeader_eq]; exact readHeaderG_bad _ _ _ major minor tag rest hM hm ht hbad

/-! ### Shape -/

/-- A `Shape` object as the constructors leave it, with 32-bit fields. -/
def ShapeOk (s : Shape) : Prop :=
  s.dims.length < 4294967296 ∧ (∀ d ∈ s.dims, d < 4294967296) ∧ s.batch < 4294967296 ∧
    Shape.new s.dims s.batch = .ok s

theorem lawful_shapeC : Lawful shapeC ShapeOk where
  roundtrip s rest hs := by
    obtain ⟨hl, hd, hb, hn⟩ := hs
    simp only [shapeC, writeShape, readShape, List.append_assoc]
    rw [(lawful_arr lawful_nat32).roundtrip s.dims _ ⟨hl, hd⟩]; simp only [Res.bind_ok]
    rw [lawful_nat32.roundtrip _ _ hb]; simp [hn]
  prefixFree s p q hs he hq := by
    obtain ⟨hl, hd, hb, hn⟩ := hs
    simp only [shapeC, writeShape] at he
    simp only [shapeC, readShape]
    refine seq_prefix (lawful_arr lawful_nat32) (v := s.dims) ⟨hl, hd⟩ he hq _ (fun c1 h1 => ?_)
    have h1' : c1 ++ q = nat32.enc s.batch ++ [] := by simpa using h1
    exact seq_prefix lawful_nat32 hb h1' hq _ (fun c2 h2 => by simp at h2; exact absurd h2.2 hq)

/-! ### Tensor -/

theorem leBytes_length (w : UInt32) : (leBytes w).length = 4 := rfl

theorem wordsToBytes_length (ws : List UInt32) : (wordsToBytes ws).length = ws.length * 4 := by
  induction ws with
  | nil => rfl
  | cons w ws ih => simp only [wordsToBytes, List.flatMap_cons, List.length_append, leBytes_length, List.length_cons] at ih ⊢; omega

theorem bytesToWords_wordsToBytes (ws : List UInt32) : bytesToWords (wordsToBytes ws) = ws := by
  induction ws with
  | nil => rfl
  | cons w ws ih =>
    simp only [wordsToBytes, List.flatMap_cons] at ih ⊢
    simp only [leBytes, List.cons_append, List.nil_append, bytesToWords, ih, List.cons.injEq, and_true]
    have := w.toNat_lt
    apply UInt32.toNat_inj.mp; simp; omega

/-- A tensor that `save` can write: a proper shape, `shape.size()` words, a payload below 2^32 bytes. -/
def TensorOk (t : Tensor) : Prop :=
  ShapeOk t.shape ∧ t.data.length = t.shape.size ∧ t.data.length * 4 < 4294967296

theorem lawful_tensorC : Lawful tensorC TensorOk where
  roundtrip t rest ht := by
    obtain ⟨hs, hlen, hfit⟩ := ht
    simp only [tensorC, writeTensor, readTensor, List.append_assoc]
    rw [show writeShape t.shape = shapeC.enc t.shape from rfl, show readShape = shapeC.dec from rfl,
      lawful_shapeC.roundtrip _ _ hs]
    simp only [Res.bind_ok]
    rw [lawful_bin.roundtrip _ _ (by rw [wordsToBytes_length]; exact hfit)]
    simp [wordsToBytes_length, hlen, bytesToWords_wordsToBytes]
  prefixFree t p q ht he hq := by
    obtain ⟨hs, hlen, hfit⟩ := ht
    simp only [tensorC, writeTensor] at he
    simp only [tensorC, readTensor]
    refine seq_prefix lawful_shapeC (v := t.shape) hs he hq _ (fun c1 h1 => ?_)
    have h1' : c1 ++ q = bin.enc (wordsToBytes t.data) ++ [] := by simpa using h1
    exact seq_prefix lawful_bin (v := wordsToBytes t.data) (by rw [wordsToBytes_length]; exact hfit) h1' hq _
      (fun c2 h2 => by simp at h2; exact absurd h2.2 hq)

/-! ### statistics entries and the loop of `load_inner` -/

def StatOk (x : Bytes × Tensor) : Prop := x.1.length < 4294967296 ∧ TensorOk x.2

theorem lawful_statC : Lawful statC StatOk := lawful_pair lawful_str lawful_tensorC

theorem statC_enc (x : Bytes × Tensor) : statC.enc x = str.enc x.1 ++ tensorC.enc x.2 := rfl

theorem readStats_roundtrip (ws : Bool) :
    ∀ (l : List (Bytes × Tensor)) (rest : Bytes) (acc : List (Bytes × Tensor)), (∀ x ∈ l, StatOk x) →
      readStats ws l.length (encList statC l ++ rest) acc = .ok (if ws then l.foldl emplace acc else acc) rest
  | [], rest, acc, _ => by cases ws <;> simp [readStats, encList]
  | x :: xs, rest, acc, h => by
    have hx : StatOk x := h x (by simp)
    have hxs : ∀ y ∈ xs, StatOk y := fun y hy => h y (by simp [hy])
    have ih := readStats_roundtrip ws xs rest (if ws then emplace acc x else acc) hxs
    simp only [encList] at ih
    simp only [encList, List.flatMap_cons, List.length_cons, readStats, statC_enc, List.append_assoc]
    rw [lawful_str.roundtrip x.1 _ hx.1]; simp only [Res.bind_ok]
    rw [show readTensor = tensorC.dec from rfl, lawful_tensorC.roundtrip x.2 _ hx.2]
    simp only [Res.bind_ok]
    rw [ih]; cases ws <;> simp

theorem readStats_prefix (ws : Bool) :
    ∀ (l : List (Bytes × Tensor)) (p q : Bytes) (acc : List (Bytes × Tensor)), (∀ x ∈ l, StatOk x) →
      p ++ q = encList statC l → q ≠ [] → readStats ws l.length p acc = .error .eof
  | [], p, q, acc, _, he, hq => by simp [encList] at he; exact absurd he.2 hq
  | x :: xs, p, q, acc, h, he, hq => by
    have hx : StatOk x := h x (by simp)
    have hxs : ∀ y ∈ xs, StatOk y := fun y hy => h y (by simp [hy])
    simp only [encList, List.flatMap_cons, statC_enc, List.append_assoc] at he
    simp only [List.length_cons, readStats]
    refine seq_prefix lawful_str (v := x.1) hx.1 he hq _ (fun c1 h1 => ?_)
    show (tensorC.dec c1).bind _ = _
    refine seq_prefix lawful_tensorC (v := x.2) hx.2 h1 hq _ (fun c2 h2 => ?_)
    exact readStats_prefix ws xs c2 q _ hxs h2 hq

/-- A parameter `save` can write and `load` accepts: batch 1, distinct statistics names. -/
def ParamOk (p : Param) : Prop :=
  TensorOk p.value ∧ p.value.shape.hasBatch = false ∧ p.stats.length < 4294967296 ∧
    (∀ x ∈ p.stats, StatOk x) ∧ (p.stats.map Prod.fst).Nodup

/-- what `load` makes of a saved parameter: value and shape from the file, zero gradient,
the given device, the statistics if they were saved and asked for -/
def loaded (p : Param) (stats : Bool) (dev : Dev) : Param :=
  ⟨p.value.shape, dev, p.value, Tensor.zeros p.value.shape, if stats then p.stats else []⟩

theorem loadInner_saveInner (p : Param) (wsS wsL : Bool) (dev : Dev) (rest : Bytes) (h : ParamOk p) :
    loadInner (saveInner p wsS ++ rest) wsL dev = .ok (loaded p (wsS && wsL) dev) rest := by
  obtain ⟨hv, hb, hn, hst, hnd⟩ := h
  simp only [loadInner, saveInner, List.append_assoc]
  rw [show writeTensor p.value = tensorC.enc p.value from rfl, show readTensor = tensorC.dec from rfl,
    lawful_tensorC.roundtrip p.value _ hv]
  simp only [Res.bind_ok]
  cases wsS
  · have h0 : (0 : Nat) < 4294967296 := by omega
    simp only [Bool.false_eq_true, ↓reduceIte]
    rw [lawful_nat32.roundtrip _ _ h0]
    simp [readStats, hb, loaded]
  · simp only [↓reduceIte, List.append_assoc]
    rw [lawful_nat32.roundtrip _ _ hn]; simp only [Res.bind_ok]
    rw [readStats_roundtrip wsL p.stats rest [] hst]
    have he : p.stats.foldl emplace [] = p.stats := emplaceAll_nodup p.stats hnd
    cases wsL <;> simp [hb, loaded, he]

theorem loadInner_prefix (p : Param) (wsS wsL : Bool) (dev : Dev) (pre q : Bytes) (h : ParamOk p)
    (he : pre ++ q = saveInner p wsS) (hq : q ≠ []) : loadInner pre wsL dev = .error .eof := by
  obtain ⟨hv, hb, hn, hst, hnd⟩ := h
  simp only [saveInner] at he
  simp only [loadInner]
  refine seq_prefix lawful_tensorC (v := p.value) hv he hq _ (fun c1 h1 => ?_)
  cases wsS
  · have h0 : (0 : Nat) < 4294967296 := by omega
    simp only [Bool.false_eq_true, ↓reduceIte] at h1
    have h1' : c1 ++ q = nat32.enc 0 ++ [] := by simpa using h1
    exact seq_prefix lawful_nat32 h0 h1' hq _ (fun c2 h2 => by simp at h2; exact absurd h2.2 hq)
  · simp only [↓reduceIte] at h1
    refine seq_prefix lawful_nat32 hn h1 hq _ (fun c2 h2 => ?_)
    rw [readStats_prefix wsL p.stats c2 q [] hst h2 hq]; rfl

end Primitiv.Files
