import PrimitivModel.Model.Files
import PrimitivModel.Lemmas.Msgpack
/-
Laws of the file model (Model/Files.lean): the record codecs (header, Shape,
Tensor, statistics entry) are lawful in the sense of `Msgpack.Lawful`;
`load_inner ∘ save_inner`, the loops of `Parameter::load_inner` and
`Model::load` by induction; what a failing load leaves behind.
Core Lean only.
-/
namespace Primitiv.Files
open Primitiv Primitiv.Msgpack

/-! ### header -/

def headerC (dt : DataType) : Codec Unit := ⟨fun _ => writeHeader dt, readHeader dt, fun _ => true⟩

theorem tag_lt (dt : DataType) : dt.tag < 4294967296 := by cases dt <;> simp only [DataType.tag] <;> omega
theorem major_lt : versionMajor < 4294967296 := by show (0 : Nat) < 4294967296; omega
theorem minor_lt : versionMinor < 4294967296 := by show (1 : Nat) < 4294967296; omega

/-- `readHeader` with the expected numbers as parameters -/
def readHeaderG (M m t : Nat) (bs : Bytes) : Res Unit :=
  (nat32.dec bs).bind fun major r => (nat32.dec r).bind fun minor r' =>
    if major ≠ M ∨ minor ≠ m then .error .invalid
    else (nat32.dec r').bind fun observed r'' =>
      if observed ≠ t then .error .invalid else .ok () r''

theorem readHeader_eq (dt : DataType) : readHeader dt = readHeaderG versionMajor versionMinor dt.tag := rfl

theorem readHeaderG_roundtrip (M m t : Nat) (hM : M < 4294967296) (hm : m < 4294967296) (ht : t < 4294967296)
    (rest : Bytes) : readHeaderG M m t (nat32.enc M ++ nat32.enc m ++ nat32.enc t ++ rest) = .ok () rest := by
  simp only [readHeaderG, List.append_assoc]
  rw [lawful_nat32.roundtrip M _ hM]; simp only [Res.bind_ok]
  rw [lawful_nat32.roundtrip m _ hm]; simp only [Res.bind_ok]
  rw [lawful_nat32.roundtrip t _ ht]; simp

theorem readHeaderG_prefix (M m t : Nat) (hM : M < 4294967296) (hm : m < 4294967296) (ht : t < 4294967296)
    (p q : Bytes) (he : p ++ q = nat32.enc M ++ nat32.enc m ++ nat32.enc t) (hq : q ≠ []) :
    readHeaderG M m t p = .error .eof := by
  simp only [List.append_assoc] at he
  simp only [readHeaderG]
  refine seq_prefix lawful_nat32 hM he hq _ (fun c1 h1 => ?_)
  refine seq_prefix lawful_nat32 hm h1 hq _ (fun c2 h2 => ?_)
  simp only [ne_eq, not_true_eq_false, or_self, ↓reduceIte]
  have h2' : c2 ++ q = nat32.enc t ++ [] := by simpa using h2
  exact seq_prefix lawful_nat32 ht h2' hq _ (fun c3 h3 => by simp at h3; exact absurd h3.2 hq)

theorem lawful_headerC (dt : DataType) : Lawful (headerC dt) (fun _ => True) where
  roundtrip _ rest _ := by
    show readHeader dt (writeHeader dt ++ rest) = _
    rw [readHeader_eq]
    exact readHeaderG_roundtrip _ _ _ major_lt minor_lt (tag_lt dt) rest
  prefixFree _ p q _ he hq := by
    show readHeader dt p = _
    rw [readHeader_eq]
    exact readHeaderG_prefix _ _ _ major_lt minor_lt (tag_lt dt) p q he hq

/-- a header that is not (0, 1, expected tag) is rejected, whatever follows -/
theorem readHeaderG_bad (M m t major minor tag : Nat) (rest : Bytes)
    (hM : major < 4294967296) (hm : minor < 4294967296) (ht : tag < 4294967296)
    (hbad : major ≠ M ∨ minor ≠ m ∨ tag ≠ t) :
    readHeaderG M m t (nat32.enc major ++ nat32.enc minor ++ nat32.enc tag ++ rest) = .error .invalid := by
  simp only [readHeaderG, List.append_assoc]
  rw [lawful_nat32.roundtrip major _ hM]; simp only [Res.bind_ok]
  rw [lawful_nat32.roundtrip minor _ hm]; simp only [Res.bind_ok]
  by_cases h1 : major ≠ M ∨ minor ≠ m
  · simp [h1]
  · rw [if_neg h1, lawful_nat32.roundtrip tag _ ht]
    have : tag ≠ t := by
      rcases hbad with h | h | h
      · exact absurd (Or.inl h) h1
      · exact absurd (Or.inr h) h1
      · exact h
    simp [this]

theorem readHeader_bad (dt : DataType) (major minor tag : Nat) (rest : Bytes)
    (hM : major < 4294967296) (hm : minor < 4294967296) (ht : tag < 4294967296)
    (hbad : major ≠ versionMajor ∨ minor ≠ versionMinor ∨ tag ≠ dt.tag) :
    readHeader dt (nat32.enc major ++ nat32.enc minor ++ nat32.enc tag ++ rest) = .error .invalid := by
  rw [readHeader_eq]; exact readHeaderG_bad _ _ _ major minor tag rest hM hm ht hbad

/-! ### Shape -/

/-- A `Shape` object as the constructors leave it, with 32-bit fields. -/
def ShapeOk (s : Shape) : Prop :=
  s.dims.length < 4294967296 ∧ (∀ d ∈ s.dims, d < 4294967296) ∧ s.batch < 4294967296 ∧
    Shape.new s.dims s.batch = .ok s

theorem lawful_shapeC : Lawful shapeC ShapeOk where
  roundtrip s rest hs := by
    obtain ⟨hl, hd, hb, hn⟩ := hs
    simp only [shapeC, writeShape, readShape, List.append_assoc]
    rw [(lawful_arr lawful_nat32).roundtrip s.dims _ ⟨hl, hd⟩]; simp only [Res.bind_ok]
    rw [lawful_nat32.roundtrip _ _ hb]; simp [hn]
  prefixFree s p q hs he hq := by
    obtain ⟨hl, hd, hb, hn⟩ := hs
    simp only [shapeC, writeShape] at he
    simp only [shapeC, readShape]
    refine seq_prefix (lawful_arr lawful_nat32) (v := s.dims) ⟨hl, hd⟩ he hq _ (fun c1 h1 => ?_)
    have h1' : c1 ++ q = nat32.enc s.batch ++ [] := by simpa using h1
    exact seq_prefix lawful_nat32 hb h1' hq _ (fun c2 h2 => by simp at h2; exact absurd h2.2 hq)

/-! ### Tensor -/

theorem leBytes_length (w : UInt32) : (leBytes w).length = 4 := rfl

theorem wordsToBytes_length (ws : List UInt32) : (wordsToBytes ws).length = ws.length * 4 := by
  induction ws with
  | nil => rfl
  | cons w ws ih => simp only [wordsToBytes, List.flatMap_cons, List.length_append, leBytes_length, List.length_cons] at ih ⊢; omega

theorem bytesToWords_wordsToBytes (ws : List UInt32) : bytesToWords (wordsToBytes ws) = ws := by
  induction ws with
  | nil => rfl
  | cons w ws ih =>
    simp only [wordsToBytes, List.flatMap_cons] at ih ⊢
    simp only [leBytes, List.cons_append, List.nil_append, bytesToWords, ih, List.cons.injEq, and_true]
    have := w.toNat_lt
    apply UInt32.toNat_inj.mp; simp; omega

/-- A tensor that `save` can write: a proper shape, `shape.size()` words, a payload below 2^32 bytes. -/
def TensorOk (t : Tensor) : Prop :=
  ShapeOk t.shape ∧ t.data.length = t.shape.size ∧ t.data.length * 4 < 4294967296

theorem lawful_tensorC : Lawful tensorC TensorOk where
  roundtrip t rest ht := by
    obtain ⟨hs, hlen, hfit⟩ := ht
    simp only [tensorC, writeTensor, readTensor, List.append_assoc]
    rw [show writeShape t.shape = shapeC.enc t.shape from rfl, show readShape = shapeC.dec from rfl,
      lawful_shapeC.roundtrip _ _ hs]
    simp only [Res.bind_ok]
    rw [lawful_bin.roundtrip _ _ (by rw [wordsToBytes_length]; exact hfit)]
    simp [wordsToBytes_length, hlen, bytesToWords_wordsToBytes]
  prefixFree t p q ht he hq := by
    obtain ⟨hs, hlen, hfit⟩ := ht
    simp only [tensorC, writeTensor] at he
    simp only [tensorC, readTensor]
    refine seq_prefix lawful_shapeC (v := t.shape) hs he hq _ (fun c1 h1 => ?_)
    have h1' : c1 ++ q = bin.enc (wordsToBytes t.data) ++ [] := by simpa using h1
    exact seq_prefix lawful_bin (v := wordsToBytes t.data) (by rw [wordsToBytes_length]; exact hfit) h1' hq _
      (fun c2 h2 => by simp at h2; exact absurd h2.2 hq)

/-! ### statistics entries and the loop of `load_inner` -/

def StatOk (x : Bytes × Tensor) : Prop := x.1.length < 4294967296 ∧ TensorOk x.2

theorem lawful_statC : Lawful statC StatOk := lawful_pair lawful_str lawful_tensorC

theorem statC_enc (x : Bytes × Tensor) : statC.enc x = str.enc x.1 ++ tensorC.enc x.2 := rfl

theorem readStats_roundtrip (ws : Bool) :
    ∀ (l : List (Bytes × Tensor)) (rest : Bytes) (acc : List (Bytes × Tensor)), (∀ x ∈ l, StatOk x) →
      readStats ws l.length (encList statC l ++ rest) acc = .ok (if ws then l.foldl emplace acc else acc) rest
  | [], rest, acc, _ => by cases ws <;> simp [readStats, encList]
  | x :: xs, rest, acc, h => by
    have hx : StatOk x := h x (by simp)
    have hxs : ∀ y ∈ xs, StatOk y := fun y hy => h y (by simp [hy])
    have ih := readStats_roundtrip ws xs rest (if ws then emplace acc x else acc) hxs
    simp only [encList] at ih
    simp only [encList, List.flatMap_cons, List.length_cons, readStats, statC_enc, List.append_assoc]
    rw [lawful_str.roundtrip x.1 _ hx.1]; simp only [Res.bind_ok]
    rw [show readTensor = tensorC.dec from rfl, lawful_tensorC.roundtrip x.2 _ hx.2]
    simp only [Res.bind_ok]
    rw [ih]; cases ws <;> simp

theorem readStats_prefix (ws : Bool) :
    ∀ (l : List (Bytes × Tensor)) (p q : Bytes) (acc : List (Bytes × Tensor)), (∀ x ∈ l, StatOk x) →
      p ++ q = encList statC l → q ≠ [] → readStats ws l.length p acc = .error .eof
  | [], p, q, acc, _, he, hq => by simp [encList] at he; exact absurd he.2 hq
  | x :: xs, p, q, acc, h, he, hq => by
    have hx : StatOk x := h x (by simp)
    have hxs : ∀ y ∈ xs, StatOk y := fun y hy => h y (by simp [hy])
    simp only [encList, List.flatMap_cons, statC_enc, List.append_assoc] at he
    simp only [List.length_cons, readStats]
    refine seq_prefix lawful_str (v := x.1) hx.1 he hq _ (fun c1 h1 => ?_)
    show (tensorC.dec c1).bind _ = _
    refine seq_prefix lawful_tensorC (v := x.2) hx.2 h1 hq _ (fun c2 h2 => ?_)
    exact readStats_prefix ws xs c2 q _ hxs h2 hq

/-- A parameter `save` can write and `load` accepts: batch 1, distinct statistics names. -/
def ParamOk (p : Param) : Prop :=
  TensorOk p.value ∧ p.value.shape.hasBatch = false ∧ p.stats.length < 4294967296 ∧
    (∀ x ∈ p.stats, StatOk x) ∧ (p.stats.map Prod.fst).Nodup

/-- what `load` makes of a saved parameter: value and shape from the file, zero gradient,
the given device, the statistics if they were saved and asked for -/
def loaded (p : Param) (stats : Bool) (dev : Dev) : Param :=
  ⟨p.value.shape, dev, p.value, Tensor.zeros p.value.shape, if stats then p.stats else []⟩

theorem loadInner_saveInner (p : Param) (wsS wsL : Bool) (dev : Dev) (rest : Bytes) (h : ParamOk p) :
    loadInner (saveInner p wsS ++ rest) wsL dev = .ok (loaded p (wsS && wsL) dev) rest := by
  obtain ⟨hv, hb, hn, hst, hnd⟩ := h
  simp only [loadInner, saveInner, List.append_assoc]
  rw [show writeTensor p.value = tensorC.enc p.value from rfl, show readTensor = tensorC.dec from rfl,
    lawful_tensorC.roundtrip p.value _ hv]
  simp only [Res.bind_ok]
  cases wsS
  · have h0 : (0 : Nat) < 4294967296 := by omega
    simp only [Bool.false_eq_true, ↓reduceIte]
    rw [lawful_nat32.roundtrip _ _ h0]
    simp [readStats, hb, loaded]
  · simp only [↓reduceIte, List.append_assoc]
    rw [lawful_nat32.roundtrip _ _ hn]; simp only [Res.bind_ok]
    rw [readStats_roundtrip wsL p.stats rest [] hst]
    have he : p.stats.foldl emplace [] = p.stats := emplaceAll_nodup p.stats hnd
    cases wsL <;> simp [hb, loaded, he]

theorem loadInner_prefix (p : Param) (wsS wsL : Bool) (dev : Dev) (pre q : Bytes) (h : ParamOk p)
    (he : pre ++ q = saveInner p wsS) (hq : q ≠ []) : loadInner pre wsL dev = .error .eof := by
  obtain ⟨hv, hb, hn, hst, hnd⟩ := h
  simp only [saveInner] at he
  simp only [loadInner]
  refine seq_prefix lawful_tensorC (v := p.value) hv he hq _ (fun c1 h1 => ?_)
  cases wsS
  · have h0 : (0 : Nat) < 4294967296 := by omega
    simp only [Bool.false_eq_true, ↓reduceIte] at h1
    have h1' : c1 ++ q = nat32.enc 0 ++ [] := by simpa using h1
    exact seq_prefix lawful_nat32 h0 h1' hq _ (fun c2 h2 => by simp at h2; exact absurd h2.2 hq)
  · simp only [↓reduceIte] at h1
    refine seq_prefix lawful_nat32 hn h1 hq _ (fun c2 h2 => ?_)
    rw [readStats_prefix wsL p.stats c2 q [] hst h2 hq]; rfl

/-! ### Parameter::save / load -/

theorem Param.save_eq {p : Param} {ws : Bool} {file : Bytes} (h : Param.save (some p) ws = some file) :
    file = (headerC .parameter).enc () ++ saveInner p ws := by
  simp only [Param.save] at h
  split at h
  · simpa [headerC] using h.symm
  · cases h

theorem Param.parse_save (p : Param) (wsS wsL : Bool) (dev : Dev) (file trailing : Bytes)
    (hp : ParamOk p) (hs : Param.save (some p) wsS = some file) :
    Param.parse (file ++ trailing) wsL dev = .ok (loaded p (wsS && wsL) dev) trailing := by
  rw [Param.save_eq hs]
  simp only [Param.parse, List.append_assoc]
  rw [show readHeader .parameter = (headerC .parameter).dec from rfl,
    (lawful_headerC .parameter).roundtrip () _ trivial]
  simp only [Res.bind_ok]
  exact loadInner_saveInner p wsS wsL dev trailing hp

theorem Param.parse_truncated (p : Param) (wsS wsL : Bool) (dev : Dev) (file pre q : Bytes)
    (hp : ParamOk p) (hs : Param.save (some p) wsS = some file) (he : pre ++ q = file) (hq : q ≠ []) :
    Param.parse pre wsL dev = .error .eof := by
  rw [Param.save_eq hs] at he
  simp only [Param.parse]
  rw [show readHeader .parameter = (headerC .parameter).dec from rfl]
  exact seq_prefix (lawful_headerC .parameter) (v := ()) trivial he hq _
      (fun c hc => loadInner_prefix p wsS wsL dev c q hp hc hq)

theorem Param.load_save (old : PState) (p : Param) (wsS wsL : Bool) (dev : Dev) (file trailing : Bytes)
    (hp : ParamOk p) (hs : Param.save (some p) wsS = some file) :
    Param.load old (file ++ trailing) wsL dev = (none, some (loaded p (wsS && wsL) dev)) := by
  rw [Param.load, Param.parse_save p wsS wsL dev file trailing hp hs]; rfl

theorem Param.load_truncated (old : PState) (p : Param) (wsS wsL : Bool) (dev : Dev) (file pre q : Bytes)
    (hp : ParamOk p) (hs : Param.save (some p) wsS = some file) (he : pre ++ q = file) (hq : q ≠ []) :
    Param.load old pre wsL dev = (some .eof, old) := by
  rw [Param.load, Param.parse_truncated p wsS wsL dev file pre q hp hs he hq]; rfl

/-- whatever the bytes: a failing `Parameter::load` leaves the object exactly as it was -/
theorem Param.load_atomic (old : PState) (file : Bytes) (ws : Bool) (dev : Dev) (e : DErr) (st : PState)
    (h : Param.load old file ws dev = (some e, st)) : st = old := by
  rw [Param.load] at h
  cases hp : Param.parse file ws dev with
  | ok p r => rw [hp] at h; cases h
  | error e' => rw [hp] at h; exact (Prod.mk.inj h).2.symm

theorem Param.load_bad_header (old : PState) (major minor tag : Nat) (rest : Bytes) (ws : Bool) (dev : Dev)
    (hM : major < 4294967296) (hm : minor < 4294967296) (ht : tag < 4294967296)
    (hbad : major ≠ versionMajor ∨ minor ≠ versionMinor ∨ tag ≠ DataType.parameter.tag) :
    Param.load old (nat32.enc major ++ nat32.enc minor ++ nat32.enc tag ++ rest) ws dev = (some .invalid, old) := by
  rw [Param.load, Param.parse, readHeader_bad .parameter major minor tag rest hM hm ht hbad]; rfl

/-! ### Model::save / load -/

def PathOk (k : Path) : Prop := k.length < 4294967296 ∧ ∀ n ∈ k, n.length < 4294967296

theorem lawful_pathC : Lawful pathC PathOk := lawful_arr lawful_str

def EntryOk (e : Path × Param) : Prop := PathOk e.1 ∧ ParamOk e.2

def hasKey (st : MState) (k : Path) : Bool := st.any fun e => e.1 = k

theorem hasKey_setParam (st : MState) (k k' : Path) (p : Param) : hasKey (setParam st k p) k' = hasKey st k' := by
  induction st with
  | nil => rfl
  | cons e st ih =>
    simp only [hasKey, setParam, List.map_cons, List.any_cons] at ih ⊢
    rw [ih]; by_cases h : e.1 = k <;> simp [h]

/-- the state after the records `es` have been loaded one after the other -/
def applyEntries (ws : Bool) (dev : Dev) (es : List (Path × Param)) (st : MState) : MState :=
  es.foldl (fun s e => setParam s e.1 (loaded e.2 ws dev)) st

theorem hasKey_applyEntries (ws : Bool) (dev : Dev) (es : List (Path × Param)) (st : MState) (k : Path) :
    hasKey (applyEntries ws dev es st) k = hasKey st k := by
  induction es generalizing st with
  | nil => rfl
  | cons e es ih => simp only [applyEntries, List.foldl_cons] at ih ⊢; rw [ih, hasKey_setParam]

theorem loadEntries_step_ok (wsS wsL : Bool) (dev : Dev) (e : Path × Param) (n : Nat) (rest : Bytes) (st : MState)
    (he : EntryOk e) (hk : hasKey st e.1 = true) :
    loadEntries wsL dev (n + 1) (entryBytes wsS e ++ rest) st =
      loadEntries wsL dev n rest (setParam st e.1 (loaded e.2 (wsS && wsL) dev)) := by
  simp only [loadEntries, entryBytes, List.append_assoc]
  rw [lawful_pathC.roundtrip e.1 _ he.1]
  simp only [hasKey] at hk
  simp only [hk, Bool.not_true, Bool.false_eq_true, ↓reduceIte]
  rw [loadInner_saveInner e.2 wsS wsL dev rest he.2]

theorem loadEntries_roundtrip (wsS wsL : Bool) (dev : Dev) :
    ∀ (es : List (Path × Param)) (rest : Bytes) (st : MState), (∀ e ∈ es, EntryOk e) →
      (∀ e ∈ es, hasKey st e.1 = true) →
      loadEntries wsL dev es.length (es.flatMap (entryBytes wsS) ++ rest) st =
        (none, applyEntries (wsS && wsL) dev es st)
  | [], rest, st, _, _ => by simp [loadEntries, applyEntries]
  | e :: es, rest, st, hok, hk => by
    have he : EntryOk e := hok e (by simp)
    simp only [List.flatMap_cons, List.length_cons, List.append_assoc]
    rw [loadEntries_step_ok wsS wsL dev e es.length _ st he (hk e (by simp))]
    rw [loadEntries_roundtrip wsS wsL dev es rest _ (fun x hx => hok x (by simp [hx]))
      (fun x hx => by rw [hasKey_setParam]; exact hk x (by simp [hx]))]
    simp [applyEntries]

/-- a truncated model body: EOF, and exactly the records that precede the cut have been loaded -/
theorem loadEntries_prefix (wsS wsL : Bool) (dev : Dev) :
    ∀ (es : List (Path × Param)) (p q : Bytes) (st : MState), (∀ e ∈ es, EntryOk e) →
      (∀ e ∈ es, hasKey st e.1 = true) → p ++ q = es.flatMap (entryBytes wsS) → q ≠ [] →
      ∃ j, j < es.length ∧
        loadEntries wsL dev es.length p st = (some .eof, applyEntries (wsS && wsL) dev (es.take j) st)
  | [], p, q, st, _, _, he, hq => by simp at he; exact absurd he.2 hq
  | e :: es, p, q, st, hok, hk, he, hq => by
    have hE : EntryOk e := hok e (by simp)
    have hK : hasKey st e.1 = true := hk e (by simp)
    simp only [List.flatMap_cons] at he
    rcases prefix_split he hq with ⟨a, ha, hpa⟩ | ⟨c, hpc, hc⟩
    · -- the cut is inside the first record
      refine ⟨0, by simp, ?_⟩
      simp only [List.length_cons, loadEntries, List.take_zero, applyEntries, List.foldl_nil]
      simp only [entryBytes] at hpa
      rcases prefix_split hpa ha with ⟨a', ha', hpa'⟩ | ⟨c', hpc', hc'⟩
      · rw [lawful_pathC.prefixFree e.1 p a' hE.1 hpa' ha']
      · subst hpc'
        rw [lawful_pathC.roundtrip e.1 c' hE.1]
        simp only [hasKey] at hK
        simp only [hK, Bool.not_true, Bool.false_eq_true, ↓reduceIte]
        rw [loadInner_prefix e.2 wsS wsL dev c' a hE.2 hc' ha]
    · subst hpc
      simp only [List.length_cons]
      rw [loadEntries_step_ok wsS wsL dev e es.length c st hE hK]
      obtain ⟨j, hj, hres⟩ := loadEntries_prefix wsS wsL dev es c q _ (fun x hx => hok x (by simp [hx]))
        (fun x hx => by rw [hasKey_setParam]; exact hk x (by simp [hx])) hc hq
      exact ⟨j + 1, by omega, by rw [hres]; simp [applyEntries]⟩

theorem setParam_keys (st : MState) (k : Path) (p : Param) : (setParam st k p).map Prod.fst = st.map Prod.fst := by
  induction st with
  | nil => rfl
  | cons e st ih =>
    simp only [setParam, List.map_cons, List.cons.injEq] at ih ⊢
    exact ⟨by by_cases h : e.1 = k <;> simp [h], ih⟩

theorem applyEntries_keys (ws : Bool) (dev : Dev) (es : List (Path × Param)) (st : MState) :
    (applyEntries ws dev es st).map Prod.fst = st.map Prod.fst := by
  induction es generalizing st with
  | nil => rfl
  | cons e es ih => simp only [applyEntries, List.foldl_cons] at ih ⊢; rw [ih, setParam_keys]

theorem mem_setParam_self (st : MState) (k : Path) (p : Param) (h : hasKey st k = true) :
    (k, some p) ∈ setParam st k p := by
  simp only [hasKey, List.any_eq_true, decide_eq_true_eq] at h
  obtain ⟨e, he, hk⟩ := h
  simp only [setParam, List.mem_map]
  exact ⟨e, he, by simp [hk]⟩

theorem mem_setParam_other (st : MState) (k : Path) (p : Param) (x : Path × PState) (hx : x ∈ st) (hne : x.1 ≠ k) :
    x ∈ setParam st k p := by
  simp only [setParam, List.mem_map]
  exact ⟨x, hx, by simp [hne]⟩

theorem applyEntries_other (ws : Bool) (dev : Dev) (es : List (Path × Param)) (st : MState) (x : Path × PState)
    (hx : x ∈ st) (hne : x.1 ∉ es.map Prod.fst) : x ∈ applyEntries ws dev es st := by
  induction es generalizing st with
  | nil => exact hx
  | cons e es ih =>
    simp only [List.map_cons, List.mem_cons, not_or] at hne
    simp only [applyEntries, List.foldl_cons] at ih ⊢
    exact ih _ (mem_setParam_other st e.1 _ x hx hne.1) hne.2

/-- after loading records with distinct names that all exist: every one of them is in place -/
theorem applyEntries_mem (ws : Bool) (dev : Dev) (es : List (Path × Param)) (st : MState)
    (hnd : (es.map Prod.fst).Nodup) (hk : ∀ e ∈ es, hasKey st e.1 = true) :
    ∀ e ∈ es, (e.1, some (loaded e.2 ws dev)) ∈ applyEntries ws dev es st := by
  induction es generalizing st with
  | nil => intro e he; cases he
  | cons e0 es ih =>
    intro e he
    simp only [List.map_cons, List.nodup_cons] at hnd
    have hk0 := hk e0 (by simp)
    rcases List.mem_cons.mp he with rfl | he'
    · exact applyEntries_other ws dev es _ _ (mem_setParam_self st _ _ hk0) hnd.1
    · exact ih (setParam st e0.1 (loaded e0.2 ws dev)) hnd.2
        (fun x hx => by rw [hasKey_setParam]; exact hk x (by simp [hx])) e he'

theorem allValid_spec : ∀ (l : MState) (es : List (Path × Param)), allValid l = some es →
    l = es.map fun e => (e.1, some e.2)
  | [], es, h => by simp [allValid] at h; subst h; rfl
  | (k, some p) :: r, es, h => by
    simp only [allValid, Option.map_eq_some_iff] at h
    obtain ⟨l', hl', rfl⟩ := h
    simp [allValid_spec r l' hl']
  | (k, none) :: r, es, h => by simp [allValid] at h

theorem sortEntries_perm {α : Type} (m : List (Path × α)) : (sortEntries m).Perm m := List.mergeSort_perm _ _

theorem Model.save_eq {m : MState} {ws : Bool} {file : Bytes} (h : Model.save m ws = some file) :
    ∃ es, sortEntries m = es.map (fun e => (e.1, some e.2)) ∧
      file = (headerC .model).enc () ++ modelBody es ws := by
  simp only [Model.save] at h
  split at h
  · cases h
  · rename_i es hes
    split at h
    · exact ⟨es, allValid_spec _ _ hes, by simpa [headerC] using h.symm⟩
    · cases h

/-- What the round trip needs of a model: distinct names, saveable parameters, fewer than 2^32 of them. -/
def ModelOk (m : MState) : Prop :=
  m.length < 4294967296 ∧ (m.map Prod.fst).Nodup ∧ ∀ k p, (k, some p) ∈ m → PathOk k ∧ ParamOk p

theorem Model.es_props {m : MState} {es : List (Path × Param)} (hm : ModelOk m)
    (hes : sortEntries m = es.map (fun e => (e.1, some e.2))) :
    es.length < 4294967296 ∧ (es.map Prod.fst).Nodup ∧ (∀ e ∈ es, EntryOk e) ∧
      (∀ e, e ∈ es ↔ (e.1, some e.2) ∈ m) ∧ (∀ k, k ∈ es.map Prod.fst ↔ k ∈ m.map Prod.fst) := by
  have hperm := sortEntries_perm m
  rw [hes] at hperm
  have hlen : es.length = m.length := by simpa using hperm.length_eq
  have hkeys : (es.map Prod.fst).Perm (m.map Prod.fst) := by
    have := hperm.map Prod.fst
    simpa [List.map_map, Function.comp_def] using this
  have hmem : ∀ e, e ∈ es ↔ (e.1, some e.2) ∈ m := by
    intro e
    rw [← hperm.mem_iff]
    simp only [List.mem_map]
    constructor
    · intro h; exact ⟨e, h, rfl⟩
    · rintro ⟨e', he', heq⟩
      obtain ⟨h1, h2⟩ := Prod.mk.inj heq
      have : e' = e := Prod.ext h1 (Option.some.inj h2)
      exact this ▸ he'
  refine ⟨hlen ▸ hm.1, hkeys.nodup_iff.mpr hm.2.1, ?_, hmem, fun k => hkeys.mem_iff⟩
  intro e he
  exact hm.2.2 e.1 e.2 ((hmem e).mp he)

theorem Model.parseCount_body (n : Nat) (hn : n < 4294967296) (rest : Bytes) :
    Model.parseCount ((headerC .model).enc () ++ (nat32.enc n ++ rest)) = .ok n rest := by
  simp only [Model.parseCount]
  rw [show readHeader .model = (headerC .model).dec from rfl, (lawful_headerC .model).roundtrip () _ trivial]
  simp only [Res.bind_ok]
  exact lawful_nat32.roundtrip n rest hn

/-- C13: a saved model loaded into a model with the same parameter names -/
theorem Model.load_save (m target : MState) (wsS wsL : Bool) (dev : Dev) (file trailing : Bytes)
    (hm : ModelOk m) (hs : Model.save m wsS = some file)
    (ht : ∀ k ∈ m.map Prod.fst, hasKey target k = true) :
    ∃ post, Model.load target (file ++ trailing) wsL dev = (none, post) ∧
      post.map Prod.fst = target.map Prod.fst ∧
      (∀ k p, (k, some p) ∈ m → (k, some (loaded p (wsS && wsL) dev)) ∈ post) ∧
      (∀ x ∈ target, x.1 ∉ m.map Prod.fst → x ∈ post) := by
  obtain ⟨es, hes, hfile⟩ := Model.save_eq hs
  obtain ⟨hlen, hnd, hok, hmem, hkeys⟩ := Model.es_props hm hes
  have hk : ∀ e ∈ es, hasKey target e.1 = true := fun e he =>
    ht e.1 ((hkeys e.1).mp (List.mem_map_of_mem he))
  refine ⟨applyEntries (wsS && wsL) dev es target, ?_, applyEntries_keys _ _ _ _, ?_, ?_⟩
  · rw [Model.load, hfile]
    simp only [modelBody, List.append_assoc]
    rw [Model.parseCount_body es.length hlen]
    exact loadEntries_roundtrip wsS wsL dev es trailing target hok hk
  · intro k p hkp
    exact applyEntries_mem _ dev es target hnd hk (k, p) ((hmem (k, p)).mpr hkp)
  · intro x hx hne
    exact applyEntries_other _ dev es target x hx (fun h => hne ((hkeys x.1).mp h))

/-- C14: a model file cut anywhere: EOF; the parameters whose records precede the cut are
replaced by exactly those records, all others are untouched -/
theorem Model.load_truncated (m target : MState) (wsS wsL : Bool) (dev : Dev) (file pre q : Bytes)
    (hm : ModelOk m) (hs : Model.save m wsS = some file)
    (ht : ∀ k ∈ m.map Prod.fst, hasKey target k = true) (he : pre ++ q = file) (hq : q ≠ []) :
    ∃ (es : List (Path × Param)) (j : Nat), sortEntries m = es.map (fun e => (e.1, some e.2)) ∧ j ≤ es.length ∧
      Model.load target pre wsL dev = (some .eof, applyEntries (wsS && wsL) dev (es.take j) target) := by
  obtain ⟨es, hes, hfile⟩ := Model.save_eq hs
  obtain ⟨hlen, hnd, hok, hmem, hkeys⟩ := Model.es_props hm hes
  have hk : ∀ e ∈ es, hasKey target e.1 = true := fun e he =>
    ht e.1 ((hkeys e.1).mp (List.mem_map_of_mem he))
  refine ⟨es, ?_⟩
  rw [hfile] at he
  simp only [modelBody] at he
  rw [Model.load]
  rcases prefix_split he hq with ⟨a, ha, hpa⟩ | ⟨c, hpc, hc⟩
  · refine ⟨0, hes, Nat.zero_le _, ?_⟩
    have : Model.parseCount pre = .error .eof := by
      simp only [Model.parseCount]
      rw [show readHeader .model = (headerC .model).dec from rfl, (lawful_headerC .model).prefixFree () pre a trivial hpa ha]
      rfl
    rw [this]; rfl
  · subst hpc
    rcases prefix_split hc hq with ⟨a, ha, hpa⟩ | ⟨c2, hpc2, hc2⟩
    · refine ⟨0, hes, Nat.zero_le _, ?_⟩
      have : Model.parseCount ((headerC .model).enc () ++ c) = .error .eof := by
        simp only [Model.parseCount]
        rw [show readHeader .model = (headerC .model).dec from rfl, (lawful_headerC .model).roundtrip () _ trivial]
        simp only [Res.bind_ok]
        exact lawful_nat32.prefixFree es.length c a hlen hpa ha
      rw [this]; rfl
    · subst hpc2
      rw [Model.parseCount_body es.length hlen]
      obtain ⟨j, hj, hres⟩ := loadEntries_prefix wsS wsL dev es c2 q target hok hk hc2 hq
      exact ⟨j, hes, Nat.le_of_lt hj, hres⟩

/-- C14, any bytes at all: whatever `Model::load` does, every Parameter afterwards is either
untouched or exactly a record that `load_inner` parsed completely; names never change -/
theorem loadEntries_atomic (ws : Bool) (dev : Dev) :
    ∀ (n : Nat) (bs : Bytes) (st : MState) (r : Option DErr) (post : MState),
      loadEntries ws dev n bs st = (r, post) →
      post.map Prod.fst = st.map Prod.fst ∧
        ∀ x ∈ post, x ∈ st ∨ ∃ bs' p rest, loadInner bs' ws dev = .ok p rest ∧ x.2 = some p
  | 0, bs, st, r, post, h => by
    simp only [loadEntries] at h
    obtain ⟨_, rfl⟩ := Prod.mk.inj h
    exact ⟨rfl, fun x hx => Or.inl hx⟩
  | n + 1, bs, st, r, post, h => by
    simp only [loadEntries] at h
    split at h
    · obtain ⟨_, rfl⟩ := Prod.mk.inj h; exact ⟨rfl, fun x hx => Or.inl hx⟩
    · rename_i key r1 _
      split at h
      · obtain ⟨_, rfl⟩ := Prod.mk.inj h; exact ⟨rfl, fun x hx => Or.inl hx⟩
      · split at h
        · obtain ⟨_, rfl⟩ := Prod.mk.inj h; exact ⟨rfl, fun x hx => Or.inl hx⟩
        · rename_i p r2 hp
          obtain ⟨hkeys, hall⟩ := loadEntries_atomic ws dev n r2 _ r post h
          refine ⟨by rw [hkeys, setParam_keys], fun x hx => ?_⟩
          rcases hall x hx with h1 | h1
          · simp only [setParam, List.mem_map] at h1
            obtain ⟨e, he, hex⟩ := h1
            by_cases hk : e.1 = key
            · right; refine ⟨r1, p, r2, hp, ?_⟩; rw [← hex]; simp [hk]
            · left; rw [← hex]; simpa [hk] using he
          · exact Or.inr h1

theorem Model.load_atomic (old : MState) (file : Bytes) (ws : Bool) (dev : Dev) (r : Option DErr) (post : MState)
    (h : Model.load old file ws dev = (r, post)) :
    post.map Prod.fst = old.map Prod.fst ∧
      ∀ x ∈ post, x ∈ old ∨ ∃ bs' p rest, loadInner bs' ws dev = .ok p rest ∧ x.2 = some p := by
  rw [Model.load] at h
  cases hc : Model.parseCount file with
  | error e => rw [hc] at h; simp only [Model.loadFrom] at h; obtain ⟨_, rfl⟩ := Prod.mk.inj h; exact ⟨rfl, fun x hx => Or.inl hx⟩
  | ok n r1 => rw [hc] at h; exact loadEntries_atomic ws dev n r1 old r post h

/-! ### further rejections -/

theorem Model.load_bad_header (old : MState) (major minor tag : Nat) (rest : Bytes) (ws : Bool) (dev : Dev)
    (hM : major < 4294967296) (hm : minor < 4294967296) (ht : tag < 4294967296)
    (hbad : major ≠ versionMajor ∨ minor ≠ versionMinor ∨ tag ≠ DataType.model.tag) :
    Model.load old (nat32.enc major ++ nat32.enc minor ++ nat32.enc tag ++ rest) ws dev = (some .invalid, old) := by
  rw [Model.load, Model.parseCount, readHeader_bad .model major minor tag rest hM hm ht hbad]; rfl

/-- a record whose name the model does not have: Error, nothing loaded from it -/
theorem loadEntries_unknown_name (ws : Bool) (dev : Dev) (n : Nat) (k : Path) (rest : Bytes) (st : MState)
    (hk : PathOk k) (hno : hasKey st k = false) :
    loadEntries ws dev (n + 1) (pathC.enc k ++ rest) st = (some .invalid, st) := by
  simp only [loadEntries]
  rw [lawful_pathC.roundtrip k rest hk]
  simp only [hasKey] at hno
  simp [hno]

/-- payload length and shape disagree: Error -/
theorem readTensor_length_mismatch (s : Shape) (data rest : Bytes) (hs : ShapeOk s)
    (hd : data.length < 4294967296) (hne : data.length ≠ s.size * 4) :
    readTensor (writeShape s ++ bin.enc data ++ rest) = .error .invalid := by
  simp only [readTensor, List.append_assoc]
  rw [show writeShape s = shapeC.enc s from rfl, show readShape = shapeC.dec from rfl,
    lawful_shapeC.roundtrip s _ hs]
  simp only [Res.bind_ok]
  rw [lawful_bin.roundtrip data rest hd]
  simp [hne]

/-- a complete, well-formed record whose value has a minibatch: Error (`assert_shape`) -/
theorem loadInner_batch (p : Param) (wsS wsL : Bool) (dev : Dev) (rest : Bytes)
    (hv : TensorOk p.value) (hb : p.value.shape.hasBatch = true) (hn : p.stats.length < 4294967296)
    (hst : ∀ x ∈ p.stats, StatOk x) :
    loadInner (saveInner p wsS ++ rest) wsL dev = .error .invalid := by
  simp only [loadInner, saveInner, List.append_assoc]
  rw [show writeTensor p.value = tensorC.enc p.value from rfl, show readTensor = tensorC.dec from rfl,
    lawful_tensorC.roundtrip p.value _ hv]
  simp only [Res.bind_ok]
  cases wsS
  · have h0 : (0 : Nat) < 4294967296 := by omega
    simp only [Bool.false_eq_true, ↓reduceIte]
    rw [lawful_nat32.roundtrip _ _ h0]
    simp [readStats, hb]
  · simp only [↓reduceIte, List.append_assoc]
    rw [lawful_nat32.roundtrip _ _ hn]; simp only [Res.bind_ok]
    rw [readStats_roundtrip wsL p.stats rest [] hst]
    simp [hb]

/-! ### Optimizer -/

def OptOk (o : Opt) : Prop := o.hyper.length = o.kind.keys.length

theorem Opt.load_atomic (old : Opt) (file : Bytes) (e : DErr) (st : Opt)
    (h : Opt.load old file = (some e, st)) : st = old := by
  rw [Opt.load] at h
  cases hp : Opt.parse file with
  | ok c r => rw [hp] at h; cases h
  | error e' => rw [hp] at h; exact (Prod.mk.inj h).2.symm

theorem Opt.load_bad_header (old : Opt) (major minor tag : Nat) (rest : Bytes)
    (hM : major < 4294967296) (hm : minor < 4294967296) (ht : tag < 4294967296)
    (hbad : major ≠ versionMajor ∨ minor ≠ versionMinor ∨ tag ≠ DataType.optimizer.tag) :
    Opt.load old (nat32.enc major ++ nat32.enc minor ++ nat32.enc tag ++ rest) = (some .invalid, old) := by
  rw [Opt.load, Opt.parse, readHeader_bad .optimizer major minor tag rest hM hm ht hbad]; rfl

theorem lawful_uintMapC : Lawful uintMapC (MapOk (fun s : Bytes => s.length < 4294967296) (fun _ => True)) :=
  lawful_map lawful_str (lawful_scalar32 _)
theorem lawful_floatMapC : Lawful floatMapC (MapOk (fun s : Bytes => s.length < 4294967296) (fun _ => True)) :=
  lawful_map lawful_str (lawful_scalar32 _)

theorem Opt.save_eq (o : Opt) :
    o.save = (headerC .optimizer).enc () ++ (uintMapC.enc o.uintConfigs ++ floatMapC.enc o.floatConfigs) := by
  simp [Opt.save, headerC]

theorem Opt.parse_maps (uc fc : List (Bytes × UInt32)) (rest : Bytes)
    (hu : MapOk (fun s : Bytes => s.length < 4294967296) (fun _ => True) uc)
    (hf : MapOk (fun s : Bytes => s.length < 4294967296) (fun _ => True) fc) :
    Opt.parse ((headerC .optimizer).enc () ++ (uintMapC.enc uc ++ floatMapC.enc fc) ++ rest) = .ok (uc, fc) rest := by
  simp only [Opt.parse, List.append_assoc]
  rw [show readHeader .optimizer = (headerC .optimizer).dec from rfl,
    (lawful_headerC .optimizer).roundtrip () _ trivial]
  simp only [Res.bind_ok]
  rw [lawful_uintMapC.roundtrip uc _ hu]; simp only [Res.bind_ok]
  rw [lawful_floatMapC.roundtrip fc _ hf]; rfl

theorem Opt.parse_prefix (uc fc : List (Bytes × UInt32)) (pre q : Bytes)
    (hu : MapOk (fun s : Bytes => s.length < 4294967296) (fun _ => True) uc)
    (hf : MapOk (fun s : Bytes => s.length < 4294967296) (fun _ => True) fc)
    (he : pre ++ q = (headerC .optimizer).enc () ++ (uintMapC.enc uc ++ floatMapC.enc fc)) (hq : q ≠ []) :
    Opt.parse pre = .error .eof := by
  simp only [Opt.parse]
  rw [show readHeader .optimizer = (headerC .optimizer).dec from rfl]
  refine seq_prefix (lawful_headerC .optimizer) (v := ()) trivial he hq _ (fun c1 h1 => ?_)
  refine seq_prefix lawful_uintMapC (v := uc) hu h1 hq _ (fun c2 h2 => ?_)
  have h2' : c2 ++ q = floatMapC.enc fc ++ [] := by simpa using h2
  exact seq_prefix lawful_floatMapC (v := fc) hf h2' hq _ (fun c3 h3 => by simp at h3; exact absurd h3.2 hq)

/-! ### Optimizer: get_configs / set_configs -/

abbrev KeyOk : Bytes → Prop := fun s => s.length < 4294967296

theorem len1 {α : Type} {l : List α} (h : l.length = 1) : ∃ a, l = [a] := by
  rcases l with _ | ⟨a, _ | ⟨b, t⟩⟩ <;> simp at h ⊢
theorem len2 {α : Type} {l : List α} (h : l.length = 2) : ∃ a b, l = [a, b] := by
  rcases l with _ | ⟨a, _ | ⟨b, _ | ⟨c, t⟩⟩⟩ <;> simp at h ⊢
theorem len3 {α : Type} {l : List α} (h : l.length = 3) : ∃ a b c, l = [a, b, c] := by
  rcases l with _ | ⟨a, _ | ⟨b, _ | ⟨c, _ | ⟨d, t⟩⟩⟩⟩ <;> simp at h ⊢
theorem len4 {α : Type} {l : List α} (h : l.length = 4) : ∃ a b c d, l = [a, b, c, d] := by
  rcases l with _ | ⟨a, _ | ⟨b, _ | ⟨c, _ | ⟨d, _ | ⟨e, t⟩⟩⟩⟩⟩ <;> simp at h ⊢

theorem uintConfigs_ok (o : Opt) : MapOk KeyOk (fun _ => True) o.uintConfigs := by
  refine ⟨by simp [Opt.uintConfigs], ?_, by simp [Opt.uintConfigs]⟩
  intro x hx
  simp only [Opt.uintConfigs, List.mem_singleton] at hx
  subst hx
  exact ⟨by simp [KeyOk, kOptimizer_epoch], trivial⟩

section
attribute [local simp] Opt.floatConfigs Opt.uintConfigs OptKind.keys KeyOk kOptimizer_epoch kOptimizer_lr_scale
  kOptimizer_l2_strength kOptimizer_clip_threshold kSGD_eta kMomentumSGD_eta kMomentumSGD_momentum kAdaGrad_eta
  kAdaGrad_eps kRMSProp_eta kRMSProp_alpha kRMSProp_eps kAdaDelta_rho kAdaDelta_eps kAdam_alpha kAdam_beta1
  kAdam_beta2 kAdam_eps

theorem floatConfigs_ok (o : Opt) (h : OptOk o) : MapOk KeyOk (fun _ => True) o.floatConfigs := by
  obtain ⟨kind, epoch, lr, l2, clip, hyper⟩ := o
  simp only [OptOk] at h
  cases kind <;> simp only [OptKind.keys, List.length_cons, List.length_nil] at h
  · obtain ⟨a, rfl⟩ := len1 h
    exact ⟨by simp, by simp, by simp⟩
  · obtain ⟨a, b, rfl⟩ := len2 h
    exact ⟨by simp, by simp, by simp⟩
  · obtain ⟨a, b, rfl⟩ := len2 h
    exact ⟨by simp, by simp, by simp⟩
  · obtain ⟨a, b, c, rfl⟩ := len3 h
    exact ⟨by simp, by simp, by simp⟩
  · obtain ⟨a, b, rfl⟩ := len2 h
    exact ⟨by simp, by simp, by simp⟩
  · obtain ⟨a, b, c, d, rfl⟩ := len4 h
    exact ⟨by simp, by simp, by simp⟩

/-- `set_configs(get_configs(o))` on any optimizer of the same algorithm gives `o`'s settings -/
theorem setConfigs_getConfigs (old o : Opt) (hk : old.kind = o.kind) (ho : OptOk o) (hold : OptOk old) :
    old.setConfigs o.uintConfigs o.floatConfigs = o := by
  obtain ⟨kind, epoch, lr, l2, clip, hyper⟩ := o
  obtain ⟨kind', epoch', lr', l2', clip', hyper'⟩ := old
  simp only at hk
  subst hk
  simp only [OptOk] at ho hold
  cases kind' <;> simp only [OptKind.keys, List.length_cons, List.length_nil] at ho hold
  · obtain ⟨a, rfl⟩ := len1 ho
    obtain ⟨a', rfl⟩ := len1 hold
    simp [Opt.setConfigs, setConfig, setHyper, List.lookup]
  · obtain ⟨a, b, rfl⟩ := len2 ho
    obtain ⟨a', b', rfl⟩ := len2 hold
    simp [Opt.setConfigs, setConfig, setHyper, List.lookup]
  · obtain ⟨a, b, rfl⟩ := len2 ho
    obtain ⟨a', b', rfl⟩ := len2 hold
    simp [Opt.setConfigs, setConfig, setHyper, List.lookup]
  · obtain ⟨a, b, c, rfl⟩ := len3 ho
    obtain ⟨a', b', c', rfl⟩ := len3 hold
    simp [Opt.setConfigs, setConfig, setHyper, List.lookup]
  · obtain ⟨a, b, rfl⟩ := len2 ho
    obtain ⟨a', b', rfl⟩ := len2 hold
    simp [Opt.setConfigs, setConfig, setHyper, List.lookup]
  · obtain ⟨a, b, c, d, rfl⟩ := len4 ho
    obtain ⟨a', b', c', d', rfl⟩ := len4 hold
    simp [Opt.setConfigs, setConfig, setHyper, List.lookup]
end

/-- C13: optimizer round trip -/
theorem Opt.load_save (old o : Opt) (trailing : Bytes) (hk : old.kind = o.kind) (ho : OptOk o) (hold : OptOk old) :
    Opt.load old (o.save ++ trailing) = (none, o) := by
  rw [Opt.load, Opt.save_eq, Opt.parse_maps _ _ trailing (uintConfigs_ok o) (floatConfigs_ok o ho)]
  simp only [commitOpt]
  rw [setConfigs_getConfigs old o hk ho hold]

/-- C14: a truncated optimizer file is rejected and the optimizer keeps its settings -/
theorem Opt.load_truncated (old o : Opt) (pre q : Bytes) (ho : OptOk o) (he : pre ++ q = o.save) (hq : q ≠ []) :
    Opt.load old pre = (some .eof, old) := by
  rw [Opt.save_eq] at he
  rw [Opt.load, Opt.parse_prefix _ _ pre q (uintConfigs_ok o) (floatConfigs_ok o ho) he hq]; rfl

/-! ### every Shape the constructors can produce is `ShapeOk` -/

theorem trim_cons (d : Nat) (ds : List Nat) :
    trim (d :: ds) = (match trim ds with | [] => if d = 1 then [] else [d] | t :: ts => d :: t :: ts) := rfl

theorem trim_length_le : ∀ (ds : List Nat), (trim ds).length ≤ ds.length
  | [] => by simp [trim]
  | d :: ds => by
    have ih := trim_length_le ds
    rw [trim_cons]
    split
    · split <;> simp
    · rename_i t ts heq; rw [heq] at ih; simp at ih ⊢; omega

theorem trim_mem : ∀ (ds : List Nat) (x : Nat), x ∈ trim ds → x ∈ ds
  | [], x, h => by simp [trim] at h
  | d :: ds, x, h => by
    have ih := trim_mem ds x
    rw [trim_cons] at h
    split at h
    · split at h
      · cases h
      · simp at h; simp [h]
    · rename_i t ts heq
      rw [heq] at ih
      rcases List.mem_cons.mp h with rfl | h'
      · simp
      · exact List.mem_cons_of_mem _ (ih h')

theorem trim_trim : ∀ (ds : List Nat), trim (trim ds) = trim ds
  | [] => rfl
  | d :: ds => by
    have ih := trim_trim ds
    rw [trim_cons]
    split
    · split
      · rfl
      · rename_i hd; simp [trim, hd]
    · rename_i t ts heq
      rw [heq] at ih
      rw [trim_cons, ih]

theorem prodChk_trim : ∀ (ds : List Nat) (v : Nat), v ≤ MAXU → Shape.prodChk (trim ds) v = Shape.prodChk ds v
  | [], v, _ => rfl
  | d :: ds, v, hv => by
    rw [trim_cons]
    rw [show Shape.prodChk (d :: ds) v = if v * d > MAXU then none else Shape.prodChk ds (v * d) from rfl]
    split
    · rename_i heq
      split
      · rename_i hd
        subst hd
        have ih := prodChk_trim ds (v * 1) (by omega)
        rw [heq] at ih
        have : ¬ v * 1 > MAXU := by omega
        simp only [Shape.prodChk, this, ↓reduceIte, ← ih]; simp
      · by_cases hvd : v * d > MAXU
        · simp [Shape.prodChk, hvd]
        · have ih := prodChk_trim ds (v * d) (by omega)
          rw [heq] at ih
          simp only [Shape.prodChk, hvd, ↓reduceIte, ← ih]
    · rename_i t ts heq
      rw [show Shape.prodChk (d :: t :: ts) v = if v * d > MAXU then none else Shape.prodChk (t :: ts) (v * d) from rfl]
      by_cases hvd : v * d > MAXU
      · simp [hvd]
      · have ih := prodChk_trim ds (v * d) (by omega)
        rw [heq] at ih
        rw [if_neg hvd, if_neg hvd, ih]

/-- `Shape(dims, batch)` with 32-bit arguments yields a shape in the form `write_shape`/`read_shape` preserve -/
theorem shapeOk_of_new (dims : List Nat) (batch : Nat) (s : Shape)
    (hd : ∀ d ∈ dims, d < 4294967296) (hb : batch < 4294967296) (h : Shape.new dims batch = .ok s) : ShapeOk s := by
  simp only [Shape.new] at h
  split at h
  · cases h
  · rename_i hlen
    split at h
    · cases h
    · rename_i vol hvol
      split at h
      · cases h
      · rename_i hcond
        have hs : s = ⟨trim dims, batch, vol⟩ := by
          simp only [pure, Except.pure] at h
          exact (Except.ok.inj h).symm
        subst hs
        have hl := trim_length_le dims
        refine ⟨by simp only; omega, fun d hdm => hd d (trim_mem dims d hdm), hb, ?_⟩
        simp only [Shape.new]
        have h1 : ¬ (trim dims).length > 8 := by omega
        have h2 : Shape.prodChk (trim dims) 1 = some vol := by rw [prodChk_trim dims 1 (by simp [MAXU])]; exact hvol
        simp only [h1, ↓reduceIte, h2, hcond, trim_trim]
        rfl

/-! ### a concrete instance of the hypotheses -/

/-- a 2×3 parameter on the naive device with a NaN payload, −0.0, a denormal and ±∞, a non-zero
gradient and two statistics (one of them minibatched) -/
def exampleParam : Param :=
  let s : Shape := ⟨[2, 3], 1, 6⟩
  ⟨s, .naive, ⟨s, [0x7fc00001, 0x80000000, 0x00000001, 0x7f800000, 0xff800000, 0x3f800000]⟩,
   ⟨s, [1, 2, 3, 4, 5, 6]⟩,
   [([109], ⟨⟨[2], 1, 2⟩, [1, 0x80000000]⟩), ([], ⟨⟨[], 2, 1⟩, [2, 3]⟩)]⟩

theorem exampleShapeOk : ShapeOk ⟨[2, 3], 1, 6⟩ := by
  refine ⟨by simp, by simp, by simp, rfl⟩

theorem exampleParamOk : ParamOk exampleParam := by
  refine ⟨⟨exampleShapeOk, rfl, by simp [exampleParam]⟩, rfl, by simp [exampleParam], ?_, by simp [exampleParam]⟩
  intro x hx
  simp only [exampleParam, List.mem_cons, List.mem_nil_iff, or_false] at hx
  rcases hx with rfl | rfl
  · exact ⟨by simp, ⟨by simp, by simp, by simp, rfl⟩, rfl, by simp⟩
  · exact ⟨by simp, ⟨by simp, by simp, by simp, rfl⟩, rfl, by simp⟩

end Primitiv.Files
