import PrimitivModel.Lemmas.GraphForward
/-
Helper lemmas for Props/C10 (failures are exceptions and change nothing), on top of
Lemmas/GraphForward.lean: the evolution of the fault schedule `State.failIn` over a request
(`FailEvol`, `forward_failEvol`), the consistency invariant `Consistent` (every stored value is
what its operator computes from the current values of its arguments), agreement of a failed
attempt plus retry with a run that never failed — set-based for deterministic operators
(`Ext.agree_sub`, `retry_clean`, `retry_same_set`) and exact, random sources included
(`State.clr`, `evalSelf_clr`, `Resumes`, `forwardRec_resume`, `forward_resume`) — the forward phase of
`backward` (`backward_fwd_error`, `backward_memo`, `backward_fwd_ok`) and
`forward_error_unevaluated`.  Core Lean only.
-/
namespace Primitiv.Graph
variable {τ : Type}

/-! ## The fault schedule -/

/-- whether the fault schedule applies to the forward of an operator of this kind -/
def Kind.faulty : Kind τ → Bool
  | .op sem => sem.faulty
  | .rnd => true
  | .param _ => false

def State.isFaulty (s : State τ) (k : Nat) : Bool :=
  match s.ops[k]? with
  | some o => o.kind.faulty
  | none => false

theorem Ext.isFaulty {s s' : State τ} {l : List Nat} (h : Ext s s' l) : s'.isFaulty = s.isFaulty := by
  funext k
  unfold State.isFaulty
  rcases h.cases k with ⟨h1, h2⟩ | ⟨o, o', h1, h2, he⟩
  · simp [h1, h2]
  · simp [h1, h2, he.kind]

/-- How the fault schedule evolves over a call that ran the forward of `m` schedulable operators
successfully: with nothing scheduled nothing happens; with `some k` scheduled a successful call
has counted down by `m ≤ k`; a failed call either hit the scheduled failure (exactly `k` forwards
succeeded before it, the schedule is now empty) or failed by itself (an operator's own `forward`
threw) with the counter decremented by the forwards that ran. -/
def FailEvol (fi : Option Nat) (m : Nat) (ok : Bool) (fi' : Option Nat) : Prop :=
  match fi with
  | none => fi' = none
  | some k =>
    if ok then m ≤ k ∧ fi' = some (k - m)
    else (m = k ∧ fi' = none) ∨ (m ≤ k ∧ fi' = some (k - m)) ∨ (m < k ∧ fi' = some (k - m - 1))

theorem FailEvol.zero (fi : Option Nat) : FailEvol fi 0 true fi := by
  cases fi <;> simp [FailEvol]

theorem FailEvol.trans {fi fi1 fi2 : Option Nat} {m1 m2 : Nat} {b : Bool}
    (h1 : FailEvol fi m1 true fi1) (h2 : FailEvol fi1 m2 b fi2) : FailEvol fi (m1 + m2) b fi2 := by
  cases fi with
  | none =>
    simp only [FailEvol] at h1 ⊢
    subst h1
    simpa [FailEvol] using h2
  | some k =>
    simp only [FailEvol, if_true] at h1 ⊢
    obtain ⟨hm, rfl⟩ := h1
    simp only [FailEvol] at h2
    cases b with
    | true =>
      simp only [if_true] at h2 ⊢
      refine ⟨by omega, ?_⟩
      rw [h2.2]; congr 1; omega
    | false =>
      simp only [Bool.false_eq_true, if_false] at h2 ⊢
      rcases h2 with ⟨h, rfl⟩ | ⟨h, rfl⟩ | ⟨h, rfl⟩
      · exact .inl ⟨by omega, rfl⟩
      · exact .inr (.inl ⟨by omega, by congr 1; omega⟩)
      · exact .inr (.inr ⟨by omega, by congr 1; omega⟩)

def isOk {α : Type} : Except Err α → Bool
  | .ok _ => true
  | .error _ => false

theorem storeValues_log (s : State τ) (k : Nat) (ys : List τ) : (s.storeValues k ys).log = s.log := by
  unfold State.storeValues; split <;> rfl
theorem storeValues_failIn (s : State τ) (k : Nat) (ys : List τ) : (s.storeValues k ys).failIn = s.failIn := by
  unfold State.storeValues; split <;> rfl

/-- the fault schedule over the operator's own forward -/
theorem evalSelf_failEvol {s1 : State τ} {a : Addr} {o : OpInfo τ} {n : NodeInfo τ} {xs : List τ}
    (w : WF s1) (ho : s1.ops[a.oid]? = some o) (hn : o.rets[a.vid]? = some n)
    (hnp : o.kind.isParam = false) :
    ∃ l2, (evalSelf o.kind n a s1 xs).1.log = s1.log ++ l2 ∧
      FailEvol s1.failIn (l2.countP s1.isFaulty) (isOk (evalSelf o.kind n a s1 xs).2)
        (evalSelf o.kind n a s1 xs).1.failIn := by
  have hfa : s1.isFaulty a.oid = o.kind.faulty := by simp [State.isFaulty, ho]
  have kok := w.kind_ok _ o ho
  cases hk : o.kind with
  | param p => simp [hk, Kind.isParam] at hnp
  | rnd =>
    rw [hk] at hfa
    unfold evalSelf
    simp only [if_true]
    cases hf : s1.failIn with
    | none =>
      refine ⟨[a.oid], by simp [storeValues_log], ?_⟩
      simp [FailEvol, storeValues_failIn]
    | some m =>
      cases m with
      | zero => exact ⟨[], by simp, by simp [FailEvol, isOk]⟩
      | succ m =>
        refine ⟨[a.oid], by simp [storeValues_log], ?_⟩
        simp [FailEvol, storeValues_failIn, isOk, hfa, Kind.faulty]
  | op sem =>
    rw [hk] at hfa kok
    simp only [KindOK] at kok
    simp only [Kind.faulty] at hfa
    -- after the fault schedule has been consulted (`sB` carries the new counter)
    have tail : ∀ (sB : State τ), sB.log = s1.log → FailEvol s1.failIn 0 false sB.failIn →
        FailEvol s1.failIn (if sem.faulty = true then 1 else 0) true sB.failIn →
        ∀ res : State τ × Except Err τ,
        res = (match sem.fwd xs with
          | none => (sB, .error .error)
          | some ys =>
            match ys[a.vid]? with
            | some v => (({ sB with log := sB.log ++ [a.oid] }).storeValues a.oid ys, .ok v)
            | none => (({ sB with log := sB.log ++ [a.oid] }).storeValues a.oid ys, .error .crash)) →
        ∃ l2, res.1.log = s1.log ++ l2 ∧
          FailEvol s1.failIn (l2.countP s1.isFaulty) (isOk res.2) res.1.failIn := by
      intro sB hlog herr hok res hres
      cases hfw : sem.fwd xs with
      | none => rw [hfw] at hres; subst hres; exact ⟨[], by simp [hlog], herr⟩
      | some ys =>
        rw [hfw] at hres
        have hlen := kok xs ys hfw
        have hvid : a.vid < ys.length := Nat.lt_of_lt_of_le (List.getElem?_eq_some_iff.1 hn).1 hlen
        simp only [List.getElem?_eq_getElem hvid] at hres
        subst hres
        refine ⟨[a.oid], by simp [storeValues_log, hlog], ?_⟩
        show FailEvol s1.failIn ([a.oid].countP s1.isFaulty) true (State.storeValues _ a.oid ys).failIn
        rw [List.countP_singleton, hfa, storeValues_failIn]
        exact hok
    unfold evalSelf
    rcases Bool.eq_false_or_eq_true sem.faulty with hfl | hfl
    · simp only [hfl, if_true]
      cases hf : s1.failIn with
      | none =>
        have t := tail { s1 with failIn := none } rfl (by simp [FailEvol, hf]) (by simp [FailEvol, hf]) _ rfl
        rw [hf] at t
        exact t
      | some m =>
        cases m with
        | zero => exact ⟨[], by simp, by simp [FailEvol, isOk]⟩
        | succ m =>
          have t := tail { s1 with failIn := some m } rfl (by simp [FailEvol, hf]) (by simp [FailEvol, hf, hfl]) _ rfl
          rw [hf] at t
          exact t
    · simp only [hfl, Bool.false_eq_true, if_false]
      refine tail s1 rfl ?_ ?_ _ rfl
      · cases hf : s1.failIn <;> simp [FailEvol]
      · cases hf : s1.failIn <;> simp [FailEvol, hfl]

/-- the evolution of the fault schedule over a call -/
def FailSpec {α : Type} (s : State τ) (res : State τ × Except Err α) : Prop :=
  ∃ l, res.1.log = s.log ++ l ∧ FailEvol s.failIn (l.countP s.isFaulty) (isOk res.2) res.1.failIn

theorem forwardArgs_failEvol (ev : State τ → Addr → State τ × Except Err τ) (fuel : Nat)
    (hev : ∀ s b, WF s → s.validAddr b = true → b.oid < fuel → FwdSpec s b (ev s b) ∧ FailSpec s (ev s b))
    (s : State τ) (bs : List Addr) (w : WF s) (hbs : ∀ b ∈ bs, s.validAddr b = true ∧ b.oid < fuel) :
    FailSpec s (forwardArgsWith ev s bs) := by
  induction bs generalizing s with
  | nil => exact ⟨[], by simp [forwardArgsWith], FailEvol.zero _⟩
  | cons b rest ih =>
    have hb := hbs b List.mem_cons_self
    obtain ⟨sp, fs⟩ := hev s b w hb.1 hb.2
    unfold forwardArgsWith
    cases h1 : ev s b with
    | mk s1 r1 =>
      rw [h1] at sp fs
      obtain ⟨l1, hl1, fe1⟩ := fs
      simp only at hl1 fe1
      cases r1 with
      | error e => exact ⟨l1, hl1, fe1⟩
      | ok v =>
        obtain ⟨l1', p1⟩ := sp.post
        simp only at p1 ⊢
        obtain ⟨l2, hl2, fe2⟩ := ih s1 (p1.ext.wf w) (fun b' hb' => by
          rw [p1.ext.validAddr]; exact hbs b' (List.mem_cons_of_mem _ hb'))
        rw [p1.ext.isFaulty] at fe2
        cases h2 : forwardArgsWith ev s1 rest with
        | mk s2 r2 =>
          rw [h2] at hl2 fe2
          simp only at hl2 fe2
          have fe := FailEvol.trans fe1 fe2
          rw [← List.countP_append] at fe
          cases r2 with
          | error e => exact ⟨l1 ++ l2, by simp [hl2, hl1], fe⟩
          | ok vs => exact ⟨l1 ++ l2, by simp [hl2, hl1], fe⟩

theorem forwardRec_failEvol (T : TOps τ) (fuel : Nat) :
    ∀ (s : State τ) (a : Addr), WF s → s.validAddr a = true → a.oid < fuel →
      FailSpec s (forwardRec T fuel s a) := by
  induction fuel with
  | zero => intro s a _ _ h; omega
  | succ fuel ih =>
    intro s a w hv hlt
    obtain ⟨o, ho, hvid⟩ := validAddr_iff.1 hv
    obtain ⟨n, hn⟩ : ∃ n, o.rets[a.vid]? = some n := ⟨_, List.getElem?_eq_getElem hvid⟩
    have kok := w.kind_ok _ o ho
    by_cases hnp : o.kind.isParam = true
    · rw [forwardRec_unfold]
      simp only [ho]
      cases hk : o.kind with
      | rnd => simp [hk, Kind.isParam] at hnp
      | op sem => simp [hk, Kind.isParam] at hnp
      | param p =>
        rw [hk] at kok; simp only [KindOK] at kok
        have h0 : a.vid = 0 := by omega
        simp only [h0, if_true]
        exact ⟨[], by simp, FailEvol.zero _⟩
    · have hnp : o.kind.isParam = false := by simpa using hnp
      rw [forwardRec_succ_nonparam T fuel ho hnp]
      simp only [hn]
      cases hval : n.value with
      | some v => exact ⟨[], by simp, FailEvol.zero _⟩
      | none =>
        simp only
        have hargs := w.args_lt _ o ho
        have hbs : ∀ b ∈ o.args, s.validAddr b = true ∧ b.oid < fuel :=
          fun b hb => ⟨(hargs b hb).2, by have := (hargs b hb).1; omega⟩
        have sp := forwardArgs_spec (forwardRec T fuel) fuel (forwardRec_spec T fuel) s o.args w hbs
        have fs := forwardArgs_failEvol (forwardRec T fuel) fuel
          (fun s' b w' hv' hlt' => ⟨forwardRec_spec T fuel s' b w' hv' hlt', ih s' b w' hv' hlt'⟩) s o.args w hbs
        cases h1 : forwardArgsWith (forwardRec T fuel) s o.args with
        | mk s1 r1 =>
          rw [h1] at sp fs
          obtain ⟨l1, hl1, fe1⟩ := fs
          simp only at hl1 fe1
          cases r1 with
          | error e => exact ⟨l1, hl1, fe1⟩
          | ok xs =>
            obtain ⟨l1', p1⟩ := sp.post
            simp only at p1 ⊢
            have ho1 : s1.ops[a.oid]? = some o := by
              rw [p1.ext.same]; exact ho
              intro hmem
              obtain ⟨b, hb, hkb⟩ := p1.anc _ hmem
              have := w.anc_le hkb
              have := (hargs b hb).1
              omega
            obtain ⟨l2, hl2, fe2⟩ := evalSelf_failEvol (xs := xs) (p1.ext.wf w) ho1 hn hnp
            rw [p1.ext.isFaulty] at fe2
            have fe := FailEvol.trans fe1 fe2
            rw [← List.countP_append] at fe
            exact ⟨l1 ++ l2, by simp [hl2, hl1], fe⟩

theorem forward_failEvol (T : TOps τ) {s : State τ} (w : WF s) {a : Addr} (hv : s.validAddr a = true) :
    FailSpec s (forward T s a) := by
  unfold forward
  rw [if_pos hv]
  exact forwardRec_failEvol T _ s a w hv (Nat.lt_succ_self _)

/-! ## Consistency: every stored value is what its operator computes from its arguments -/

/-- every evaluated operator satisfies its local equation in the current state -/
def Consistent (s : State τ) : Prop := ∀ k, s.evaluated k → LocalEq s k

theorem Ext.consistent {s s' : State τ} {l : List Nat} (h : Ext s s' l) (c : Consistent s) : Consistent s' := by
  intro k hk
  by_cases hl : k ∈ l
  · exact h.loc k hl
  · rcases (h.evaluated k).1 hk with h1 | h1
    · exact LocalEq.mono h hl (c k h1)
    · exact absurd h1 hl

theorem SameVals.localEq {s s' : State τ} (h : SameVals s s') {k : Nat} (he : LocalEq s k) : LocalEq s' k := by
  intro o' ho'
  rcases h.cases k with ⟨_, h2⟩ | ⟨o, o2, h1, h2, hs⟩
  · rw [ho'] at h2; cases h2
  · rw [ho'] at h2; cases h2
    obtain ⟨e1, e2, _, e4, _⟩ := strip_eq_iff hs
    obtain ⟨xs, hxs, hsem⟩ := he o h1
    refine ⟨xs, ?_, ?_⟩
    · rw [e2, ← hxs]; exact mapM_congr (fun b _ => h.valueOf? b)
    · intro sem hk
      obtain ⟨ys, hys, hv⟩ := hsem sem (e1 ▸ hk)
      refine ⟨ys, hys, fun i n' hn' => ?_⟩
      have := map_value_getElem? e4 i
      rw [hn'] at this
      cases hn : o.rets[i]? with
      | none => simp [hn] at this
      | some n =>
        simp only [hn, Option.map_some, Option.some.injEq] at this
        rw [this]; exact hv i n hn

theorem SameVals.consistent {s s' : State τ} (h : SameVals s s') (c : Consistent s) : Consistent s' :=
  fun k hk => h.localEq (c k ((h.evaluated k).1 hk))

theorem Consistent.push {s : State τ} (w : WF s) (c : Consistent s) {o : OpInfo τ}
    (hnone : ∀ n ∈ o.rets, n.value = none) : Consistent (s.push o) := by
  intro k hk o' ho'
  rw [evaluated_push hnone] at hk
  rcases push_getElem?_cases ho' with h | ⟨rfl, _⟩
  · obtain ⟨xs, hxs, hsem⟩ := c k hk o' h
    refine ⟨xs, ?_, hsem⟩
    rw [← hxs]
    apply mapM_congr
    intro b hb
    exact State.valueOf?_congr (s := s) (s' := s.push o)
      (push_getElem?_lt (validAddr_oid_lt (w.args_lt k o' h b hb).2)) rfl
  · exact absurd (evaluated_lt hk) (Nat.lt_irrefl _)

theorem Consistent.of_ops_eq {s s' : State τ} (c : Consistent s) (h1 : s'.ops = s.ops)
    (h2 : s'.params = s.params) : Consistent s' := by
  have hv : s'.valueOf? = s.valueOf? := by funext a; simp [State.valueOf?, h1, h2]
  intro k hk o ho
  rw [h1] at ho
  have : s.evaluated k := by simpa [State.evaluated, h1] using hk
  rw [hv]
  exact c k this o ho

/-- operations other than parameter updates -/
def Op.isUpdate : Op τ → Bool
  | .setParamValue _ _ => true
  | _ => false

theorem step_consistent (T : TOps τ) {s : State τ} (w : WF s) (c : Consistent s) {op : Op τ}
    (hup : op.isUpdate = false) : Consistent (step T s op) := by
  cases op with
  | addOperator kind args sizes =>
    simp only [step, addOperator_eq]
    by_cases hall : args.all s.validAddr = true
    · rw [if_pos hall]; exact c.push w (by simp [freshOp])
    · rw [if_neg hall]; exact c
  | forward a =>
    obtain ⟨l, e, _⟩ := forward_ext T a w
    exact e.consistent c
  | backward a =>
    obtain ⟨l, s1, e, _, sv⟩ := backward_ext T a w
    exact sv.consistent (e.consistent c)
  | setParamValue p v => simp [Op.isUpdate] at hup
  | setFail k => exact c.of_ops_eq rfl rfl

theorem run_consistent (T : TOps τ) {s : State τ} (w : WF s) (c : Consistent s) (h : List (Op τ))
    (hadm : ∀ op ∈ h, op.Admissible) (hup : ∀ op ∈ h, op.isUpdate = false) : Consistent (run T s h) := by
  induction h generalizing s with
  | nil => exact c
  | cons op rest ih =>
    exact ih (step_wf T w (hadm op List.mem_cons_self)) (step_consistent T w c (hup op List.mem_cons_self))
      (fun op' h' => hadm op' (List.mem_cons_of_mem _ h')) (fun op' h' => hup op' (List.mem_cons_of_mem _ h'))

theorem Consistent.empty (params : Params τ) (sample : Nat → Nat → τ) : Consistent (State.empty params sample) := by
  intro k hk
  simp [State.empty, State.evaluated] at hk

/-! ## A failed attempt followed by a retry -/

/-- changing the fault schedule is invisible to `Ext` -/
theorem Ext.setFailIn (s : State τ) (x : Option Nat) : Ext s { s with failIn := x } [] :=
  Ext.refl' rfl rfl rfl rfl rfl

theorem Ext.unsetFailIn (s : State τ) (x : Option Nat) : Ext { s with failIn := x } s [] :=
  Ext.refl' rfl rfl rfl rfl rfl

theorem WF.setFailIn {s : State τ} (w : WF s) (x : Option Nat) : WF { s with failIn := x } :=
  w.of_ops_eq rfl rfl rfl rfl

/-- Two extensions of the same state, the first having evaluated a subset of the (deterministic)
operators of the second, agree on everything the first evaluated and on everything the second
did not touch. -/
theorem Ext.agree_sub {s s2 t2 : State τ} {l l' : List Nat} (w : WF s) (e : Ext s s2 l) (e' : Ext s t2 l')
    (hsub : ∀ k ∈ l, k ∈ l') (hdet : ∀ k ∈ l, s.isRnd k = false) :
    ∀ k : Nat, (k ∈ l ∨ k ∉ l') → s2.ops[k]? = t2.ops[k]? := by
  have w2 := e.wf w
  intro k
  induction k using Nat.strongRecOn with
  | _ k ih =>
    intro hcase
    by_cases hk : k ∈ l
    · have hk' := hsub k hk
      obtain ⟨o, o2, ho, ho2, st⟩ := e.stored k hk
      obtain ⟨o', o2', ho', ho2', st'⟩ := e'.stored k hk'
      rw [ho] at ho'; cases ho'
      rw [ho2, ho2']
      congr 1
      obtain ⟨xs, hxs, hsem⟩ := e.loc k hk o2 ho2
      obtain ⟨xs', hxs', hsem'⟩ := e'.loc k hk' o2' ho2'
      have hev2 : s2.evaluated k := (e.evaluated k).2 (.inr hk)
      have hargs : ∀ b ∈ o.args, s2.valueOf? b = t2.valueOf? b := by
        intro b hb
        have hlt := (w.args_lt k o ho b hb).1
        have hb2 : b ∈ o2.args := st.args ▸ hb
        have : b.oid ∈ l ∨ b.oid ∉ l' := by
          by_cases hp : s2.isParam b.oid = true
          · right; intro hm
            have := (e'.fresh hm).2
            rw [← e.isParam, hp] at this; cases this
          · rcases (e.evaluated b.oid).1 (w2.closed k o2 ho2 hev2 b hb2 (by simpa using hp)) with h | h
            · right; intro hm; exact (e'.fresh hm).1 h
            · exact .inl h
        have := ih b.oid hlt this
        unfold State.valueOf?
        rw [this, e.params, e'.params]
      rw [st.args, mapM_congr hargs] at hxs
      rw [st'.args, hxs] at hxs'
      cases hxs'
      have hdk := hdet k hk
      simp only [State.isRnd, ho] at hdk
      cases hkind : o.kind with
      | param p => have := st.nonparam; simp [hkind, Kind.isParam] at this
      | rnd => simp [hkind, Kind.isRnd] at hdk
      | op sem =>
        obtain ⟨ys, hys, hv⟩ := hsem sem (st.kind.trans hkind)
        obtain ⟨ys', hys', hv'⟩ := hsem' sem (st'.kind.trans hkind)
        rw [hys] at hys'; cases hys'
        have hlen : o2.rets.length = o2'.rets.length := by rw [st.grow.length, st'.grow.length]
        have hrets : o2.rets = o2'.rets := by
          apply rets_ext (st.sizes.trans st'.sizes.symm) (st.grads.trans st'.grads.symm)
          apply List.ext_getElem?
          intro i
          simp only [List.getElem?_map]
          cases h : o2.rets[i]? with
          | none =>
            have : o2'.rets[i]? = none := by
              rw [List.getElem?_eq_none_iff] at h ⊢; omega
            rw [this]
          | some n =>
            have hi := (List.getElem?_eq_some_iff.1 h).1
            have hi' : i < o2'.rets.length := by omega
            rw [List.getElem?_eq_getElem hi']
            simp only [Option.map_some, Option.some.injEq]
            rw [hv i n h, hv' i _ (List.getElem?_eq_getElem hi')]
        cases o2; cases o2'
        simp only at hrets
        simp only [OpInfo.mk.injEq]
        exact ⟨st.kind.trans st'.kind.symm, st.args.trans st'.args.symm, hrets⟩
    · have hk' : k ∉ l' := by rcases hcase with h | h; exact absurd h hk; exact h
      rw [e.same k hk, e'.same k hk']

/-- what a failed attempt followed by a retry has in common with a run that never failed -/
structure RetryClean (T : TOps τ) (s : State τ) (a : Addr) (k : Nat) (v : τ) : Prop where
  /-- the retry returns the value of the clean run -/
  value : (forward T { (forward T { s with failIn := some k } a).1 with failIn := none } a).2 = .ok v
  /-- … and reaches the same operators with the same values (and gradients) -/
  ops : (forward T { (forward T { s with failIn := some k } a).1 with failIn := none } a).1.ops =
    (forward T { s with failIn := none } a).1.ops
  params : (forward T { (forward T { s with failIn := some k } a).1 with failIn := none } a).1.params = s.params
  rndPos : (forward T { (forward T { s with failIn := some k } a).1 with failIn := none } a).1.rndPos = s.rndPos
  failIn : (forward T { (forward T { s with failIn := some k } a).1 with failIn := none } a).1.failIn = none
  /-- no operator is evaluated twice over the attempt and the retry -/
  log : ∃ l1 l2, (forward T { s with failIn := some k } a).1.log = s.log ++ l1 ∧
    (forward T { (forward T { s with failIn := some k } a).1 with failIn := none } a).1.log = s.log ++ l1 ++ l2 ∧
    (s.log ++ l1 ++ l2).Nodup ∧
    ∀ j, j ∈ l1 ++ l2 ↔ j ∈ (forward T { s with failIn := none } a).1.log ∧ j ∉ s.log

theorem retry_clean (T : TOps τ) {s : State τ} (w : WF s) {a : Addr} (hv : s.validAddr a = true) (k : Nat)
    {v : τ} (hclean : (forward T { s with failIn := none } a).2 = .ok v)
    (hdet : (forward T { s with failIn := none } a).1.rndPos = s.rndPos) : RetryClean T s a k v := by
  -- the clean run
  have wb : WF { s with failIn := none } := w.setFailIn none
  have hvb : ({ s with failIn := none } : State τ).validAddr a = true := hv
  have spc := forward_spec T wb hvb
  obtain ⟨lc, pc⟩ := spc.post
  obtain ⟨hvalc, hdonec⟩ := spc.ok v hclean
  have ec := pc.ext
  have hcount : lc.countP ({ s with failIn := none } : State τ).isRnd = 0 := by
    have := ec.rndPos
    have h2 : ({ s with failIn := none } : State τ).rndPos = s.rndPos := rfl
    rw [hdet, h2] at this; omega
  have hdetc : ∀ j ∈ lc, ({ s with failIn := none } : State τ).isRnd j = false := by
    intro j hj
    have := List.countP_eq_zero.1 hcount j hj
    simpa using this
  have hlc : ∀ j, AncOf { s with failIn := none } j a.oid → ¬ ({ s with failIn := none } : State τ).evaluated j →
      ({ s with failIn := none } : State τ).isParam j = false → j ∈ lc := by
    intro j h1 h2 h3
    rcases (ec.evaluated j).1 (hdonec a (List.mem_singleton_self a) j h1 h3) with h | h
    · exact absurd h h2
    · exact h
  -- the failed attempt
  have wf : WF { s with failIn := some k } := w.setFailIn (some k)
  obtain ⟨l1, e1, hanc1⟩ := forward_ext T a wf
  have e1b : Ext { s with failIn := none } (forward T { s with failIn := some k } a).1 l1 := by
    have := (Ext.refl' (s := { s with failIn := none }) (s' := { s with failIn := some k }) rfl rfl rfl rfl rfl).trans e1
    simpa using this
  have e1' : Ext { s with failIn := none } { (forward T { s with failIn := some k } a).1 with failIn := none } l1 := by
    have := e1b.trans (Ext.setFailIn (forward T { s with failIn := some k } a).1 none)
    simpa using this
  have w1' : WF { (forward T { s with failIn := some k } a).1 with failIn := none } := e1'.wf wb
  have hsub : ∀ j ∈ l1, j ∈ lc := by
    intro j hj
    have hf := e1.fresh hj
    exact hlc j (hanc1 j hj) hf.1 hf.2
  have hdet1 : ∀ j ∈ l1, ({ s with failIn := none } : State τ).isRnd j = false := fun j hj => hdetc j (hsub j hj)
  have hagree := Ext.agree_sub wb e1' ec hsub hdet1
  have dsub : DetSub { (forward T { s with failIn := some k } a).1 with failIn := none }
      (forward T { s with failIn := none } a).1 := by
    refine ⟨ec.params.trans e1'.params.symm, fun j => ?_⟩
    by_cases hj : j ∈ l1 ∨ j ∉ lc
    · exact .inl (hagree j hj)
    · have hj1 : j ∉ l1 := fun h => hj (.inl h)
      have hjc : j ∈ lc := Classical.not_not.1 (fun h => hj (.inr h))
      obtain ⟨o, o2, h1, h2, st⟩ := ec.stored j hjc
      have hr := hdetc j hjc
      simp only [State.isRnd, h1] at hr
      exact .inr ⟨o, o2, by rw [e1'.same j hj1]; exact h1, h2, st, hr, ec.loc j hjc⟩
  have hv1 : ({ (forward T { s with failIn := some k } a).1 with failIn := none } : State τ).validAddr a = true := by
    rw [e1'.validAddr]; exact hv
  have hancs : ∀ j, AncOf { (forward T { s with failIn := some k } a).1 with failIn := none } j a.oid →
      ({ (forward T { s with failIn := some k } a).1 with failIn := none } : State τ).isParam j = false →
      (forward T { s with failIn := none } a).1.evaluated j := by
    intro j h1 h2
    rw [e1'.anc] at h1
    rw [e1'.isParam] at h2
    exact hdonec a (List.mem_singleton_self a) j h1 h2
  -- the retry
  have dr := forward_det T _ w1' rfl dsub hv1 hancs
  obtain ⟨v', hv'⟩ := dr.ok
  have sp2 := forward_spec T w1' hv1
  obtain ⟨l2, p2⟩ := sp2.post
  obtain ⟨hval2, hdone2⟩ := sp2.ok v' hv'
  have e2 := e1'.trans p2.ext
  have hops : ∀ j : Nat,
      (forward T { (forward T { s with failIn := some k } a).1 with failIn := none } a).1.ops[j]? =
      (forward T { s with failIn := none } a).1.ops[j]? := by
    intro j
    rcases dr.sub.ops j with h | ⟨o, o2, h1, h2, st, -, -⟩
    · exact h
    · exfalso
      have hnev : ¬ (forward T { (forward T { s with failIn := some k } a).1 with failIn := none } a).1.evaluated j := by
        rintro ⟨o', ho', m, hm, hmv⟩
        rw [h1] at ho'; cases ho'
        simp [st.before m hm] at hmv
      have hevc : (forward T { s with failIn := none } a).1.evaluated j := by
        have hlen := st.grow.length
        cases hr : o2.rets with
        | nil => rw [hr] at hlen; exact absurd (List.eq_nil_of_length_eq_zero hlen.symm) st.nonempty
        | cons m r => exact ⟨o2, h2, m, hr ▸ List.mem_cons_self, st.after m (hr ▸ List.mem_cons_self)⟩
      rcases (ec.evaluated j).1 hevc with h | h
      · exact hnev ((e2.evaluated j).2 (.inl h))
      · have hf := ec.fresh h
        obtain ⟨b, hb, hab⟩ := pc.anc j h
        simp only [List.mem_singleton] at hb; subst hb
        apply hnev
        apply hdone2 b (List.mem_singleton_self b) j
        · rw [e1'.anc]; exact hab
        · rw [e1'.isParam]; exact hf.2
  have hopseq := List.ext_getElem? hops
  have hpar : (forward T { (forward T { s with failIn := some k } a).1 with failIn := none } a).1.params = s.params :=
    e2.params
  have hvv : v' = v := by
    have h1 : (forward T { (forward T { s with failIn := some k } a).1 with failIn := none } a).1.valueOf? a =
        (forward T { s with failIn := none } a).1.valueOf? a := by
      unfold State.valueOf?
      rw [hops a.oid, hpar, ec.params]
    rw [hval2, hvalc] at h1
    exact Option.some.inj h1
  have hmem : ∀ j, j ∈ l1 ++ l2 ↔ j ∈ lc := by
    intro j
    have a1 := (e2.evaluated j)
    have a2 := (ec.evaluated j)
    have hevq : (forward T { (forward T { s with failIn := some k } a).1 with failIn := none } a).1.evaluated j ↔
        (forward T { s with failIn := none } a).1.evaluated j := by
      simp only [State.evaluated, hops j]
    constructor
    · intro hj
      rcases a2.1 (hevq.1 (a1.2 (.inr hj))) with h | h
      · exact absurd h (e2.fresh hj).1
      · exact h
    · intro hj
      rcases a1.1 (hevq.2 (a2.2 (.inr hj))) with h | h
      · exact absurd h (ec.fresh hj).1
      · exact h
  have w2 := p2.ext.wf w1'
  refine ⟨hvv ▸ hv', hopseq, hpar, ?_, dr.failIn, l1, l2, e1.log, ?_, ?_, ?_⟩
  · have hc2 : (l1 ++ l2).countP ({ s with failIn := none } : State τ).isRnd = 0 := by
      apply List.countP_eq_zero.2
      intro j hj
      simpa using hdetc j ((hmem j).1 hj)
    have := e2.rndPos
    rw [hc2] at this
    exact this
  · have := e2.log
    rw [← List.append_assoc] at this
    exact this
  · have := w2.log_nodup
    rw [e2.log, ← List.append_assoc] at this
    exact this
  · intro j
    rw [hmem j, ec.log]
    constructor
    · intro hj
      refine ⟨List.mem_append_right _ hj, fun hs => ?_⟩
      exact (ec.fresh hj).1 ((wb.log_iff j).1 hs)
    · rintro ⟨hj, hns⟩
      rcases List.mem_append.1 hj with h | h
      · exact absurd h hns
      · exact h

/-! ## Rejected calls, and the forward phase of `backward` -/

theorem forward_invalid (T : TOps τ) {s : State τ} {a : Addr} (h : s.validAddr a = false) :
    forward T s a = (s, .error .crash) := by
  simp [forward, h]

theorem backward_invalid (T : TOps τ) {s : State τ} {a : Addr} (h : s.validAddr a = false) :
    backward T s a = (s, .error .crash) := by
  simp [backward, h]

theorem node?_of_valid {s : State τ} {a : Addr} (h : s.validAddr a = true) : ∃ n, s.node? a = some n := by
  obtain ⟨o, ho, hv⟩ := validAddr_iff.1 h
  exact ⟨o.rets[a.vid], by simp [State.node?, ho, List.getElem?_eq_getElem hv]⟩

/-- a failure in the forward phase of `backward` is the failure of `forward`: nothing else happens -/
theorem backward_fwd_error (T : TOps τ) {s : State τ} {a : Addr} {n : NodeInfo τ} {e : Err}
    (hv : s.validAddr a = true) (hn : s.node? a = some n) (hval : n.value = none)
    (he : (forward T s a).2 = .error e) : backward T s a = ((forward T s a).1, .error e) := by
  unfold backward
  simp only [hv, Bool.not_true, Bool.false_eq_true, if_false, hn, hval, Option.isSome_none]
  cases hf : forward T s a with
  | mk s1 r =>
    rw [hf] at he
    simp only at he
    subst he
    rfl

/-- with a memoised value `backward` evaluates nothing: it seeds and sweeps -/
theorem backward_memo (T : TOps τ) {s : State τ} {a : Addr} {n : NodeInfo τ} {v : τ}
    (hv : s.validAddr a = true) (hn : s.node? a = some n) (hval : n.value = some v) :
    backward T s a = sweep T (a.oid + 1) (s.updNode a fun n => { n with grad := some (T.ones n.size) }) := by
  unfold backward
  simp [hv, hn, hval]

/-- after a successful forward phase `backward` seeds and sweeps from the state `forward` reached -/
theorem backward_fwd_ok (T : TOps τ) {s : State τ} {a : Addr} {n : NodeInfo τ} {v : τ}
    (hv : s.validAddr a = true) (hn : s.node? a = some n) (hval : n.value = none)
    (hok : (forward T s a).2 = .ok v) :
    backward T s a =
      sweep T (a.oid + 1) ((forward T s a).1.updNode a fun n => { n with grad := some (T.ones n.size) }) := by
  unfold backward
  simp only [hv, Bool.not_true, Bool.false_eq_true, if_false, hn, hval, Option.isSome_none]
  cases hf : forward T s a with
  | mk s1 r =>
    rw [hf] at hok
    simp only at hok
    subst hok
    rfl

/-! ## A failing forward stores nothing for the failing operator -/

theorem evalSelf_error_ops (kind : Kind τ) (n : NodeInfo τ) (a : Addr) (s1 : State τ) (xs : List τ) (e : Err)
    (h : (evalSelf kind n a s1 xs).2 = .error e) (hne : e ≠ .crash) : (evalSelf kind n a s1 xs).1.ops = s1.ops := by
  unfold evalSelf at h ⊢
  cases kind with
  | param p => simp only [Bool.false_eq_true, if_false] at h ⊢
  | rnd =>
    simp only [if_true] at h ⊢
    cases hf : s1.failIn with
    | none => rw [hf] at h; simp at h
    | some m =>
      cases m with
      | zero => rfl
      | succ m => rw [hf] at h; simp at h
  | op sem =>
    have tail : ∀ sB : State τ, sB.ops = s1.ops →
        ∀ res : State τ × Except Err τ,
        res = (match sem.fwd xs with
          | none => (sB, .error .error)
          | some ys =>
            match ys[a.vid]? with
            | some v => (({ sB with log := sB.log ++ [a.oid] }).storeValues a.oid ys, .ok v)
            | none => (({ sB with log := sB.log ++ [a.oid] }).storeValues a.oid ys, .error .crash)) →
        res.2 = .error e → res.1.ops = s1.ops := by
      intro sB hB res hres he
      cases hfw : sem.fwd xs with
      | none => rw [hfw] at hres; subst hres; exact hB
      | some ys =>
        rw [hfw] at hres
        simp only at hres
        cases hy : ys[a.vid]? with
        | some v => rw [hy] at hres; subst hres; cases he
        | none =>
          rw [hy] at hres; subst hres
          simp only [Except.error.injEq] at he
          exact absurd he.symm hne
    simp only at h ⊢
    rcases Bool.eq_false_or_eq_true sem.faulty with hfl | hfl
    · simp only [hfl, if_true] at h ⊢
      cases hf : s1.failIn with
      | none => rw [hf] at h; exact tail { s1 with failIn := none } rfl _ rfl h
      | some m =>
        cases m with
        | zero => rfl
        | succ m => rw [hf] at h; exact tail { s1 with failIn := some m } rfl _ rfl h
    · simp only [hfl, Bool.false_eq_true, if_false] at h ⊢
      exact tail s1 rfl _ rfl h

/-- if `forward a` fails, the operator of `a` is exactly as it was: none of its return values
has become visible -/
theorem forward_error_unevaluated (T : TOps τ) {s : State τ} (w : WF s) {a : Addr} (hv : s.validAddr a = true)
    {e : Err} (he : (forward T s a).2 = .error e) : (forward T s a).1.ops[a.oid]? = s.ops[a.oid]? := by
  have hnc := (forward_spec T w hv).nocrash
  have hne : e ≠ .crash := by intro h; subst h; exact hnc he
  unfold forward at he ⊢
  rw [if_pos hv] at he ⊢
  obtain ⟨o, ho, hvid⟩ := validAddr_iff.1 hv
  obtain ⟨n, hn⟩ : ∃ n, o.rets[a.vid]? = some n := ⟨_, List.getElem?_eq_getElem hvid⟩
  have kok := w.kind_ok _ o ho
  by_cases hnp : o.kind.isParam = true
  · rw [forwardRec_unfold] at he
    simp only [ho] at he
    cases hk : o.kind with
    | rnd => simp [hk, Kind.isParam] at hnp
    | op sem => simp [hk, Kind.isParam] at hnp
    | param p =>
      rw [hk] at kok he; simp only [KindOK] at kok
      have h0 : a.vid = 0 := by omega
      simp [h0] at he
  · have hnp : o.kind.isParam = false := by simpa using hnp
    rw [forwardRec_succ_nonparam T _ ho hnp] at he ⊢
    simp only [hn] at he ⊢
    cases hval : n.value with
    | some v => exact absurd he (by rw [hval]; simp)
    | none =>
      rw [hval] at he
      simp only at he ⊢
      have hargs := w.args_lt _ o ho
      have hbs : ∀ b ∈ o.args, s.validAddr b = true ∧ b.oid < a.oid :=
        fun b hb => ⟨(hargs b hb).2, (hargs b hb).1⟩
      have sp := forwardArgs_spec (forwardRec T a.oid) a.oid (forwardRec_spec T a.oid) s o.args w hbs
      cases h1 : forwardArgsWith (forwardRec T a.oid) s o.args with
      | mk s1 r1 =>
        rw [h1] at sp he
        obtain ⟨l1, p1⟩ := sp.post
        simp only at p1
        have ho1 : s1.ops[a.oid]? = some o := by
          rw [p1.ext.same]; exact ho
          intro hmem
          obtain ⟨b, hb, hkb⟩ := p1.anc _ hmem
          have := w.anc_le hkb
          have := (hargs b hb).1
          omega
        cases r1 with
        | error e1 => simp only; rw [ho1, ho]
        | ok xs =>
          simp only at he ⊢
          rw [evalSelf_error_ops _ _ _ _ _ e he hne, ho1, ho]

/-- `forward` does not touch gradients -/
theorem Ext.node_grad {s s' : State τ} {l : List Nat} (h : Ext s s' l) (b : Addr) :
    (s'.node? b).map (·.grad) = (s.node? b).map (·.grad) := by
  unfold State.node?
  rcases h.cases b.oid with ⟨h1, h2⟩ | ⟨o, o', h1, h2, g⟩
  · simp [h1, h2]
  · simp only [h1, h2]
    have := congrArg (·[b.vid]?) g.grads
    simpa only [List.getElem?_map] using this

/-! ## With random sources: the same operators are evaluated, the stream advances equally -/

theorem retry_same_set (T : TOps τ) {s : State τ} (w : WF s) {a : Addr} (hv : s.validAddr a = true) (k : Nat)
    {v v' : τ} (hclean : (forward T { s with failIn := none } a).2 = .ok v)
    (hretry : (forward T { (forward T { s with failIn := some k } a).1 with failIn := none } a).2 = .ok v') :
    ∃ l1 l2 lc, (forward T { s with failIn := some k } a).1.log = s.log ++ l1 ∧
      (forward T { (forward T { s with failIn := some k } a).1 with failIn := none } a).1.log = s.log ++ l1 ++ l2 ∧
      (forward T { s with failIn := none } a).1.log = s.log ++ lc ∧
      (s.log ++ l1 ++ l2).Nodup ∧ (l1 ++ l2).Perm lc ∧
      (forward T { (forward T { s with failIn := some k } a).1 with failIn := none } a).1.rndPos =
        (forward T { s with failIn := none } a).1.rndPos := by
  have wb : WF { s with failIn := none } := w.setFailIn none
  have hvb : ({ s with failIn := none } : State τ).validAddr a = true := hv
  have spc := forward_spec T wb hvb
  obtain ⟨lc, pc⟩ := spc.post
  obtain ⟨-, hdonec⟩ := spc.ok v hclean
  have ec := pc.ext
  have wf : WF { s with failIn := some k } := w.setFailIn (some k)
  obtain ⟨l1, e1, hanc1⟩ := forward_ext T a wf
  have e1' : Ext { s with failIn := none } { (forward T { s with failIn := some k } a).1 with failIn := none } l1 := by
    have := ((Ext.refl' (s := { s with failIn := none }) (s' := { s with failIn := some k }) rfl rfl rfl rfl rfl).trans
      e1).trans (Ext.setFailIn (forward T { s with failIn := some k } a).1 none)
    simpa using this
  have w1' := e1'.wf wb
  have hv1 : ({ (forward T { s with failIn := some k } a).1 with failIn := none } : State τ).validAddr a = true := by
    rw [e1'.validAddr]; exact hv
  have sp2 := forward_spec T w1' hv1
  obtain ⟨l2, p2⟩ := sp2.post
  obtain ⟨-, hdone2⟩ := sp2.ok v' hretry
  have e2 := e1'.trans p2.ext
  have hmem : ∀ j, j ∈ l1 ++ l2 ↔ j ∈ lc := by
    intro j
    constructor
    · intro hj
      have hf := e2.fresh hj
      have hanc : AncOf { s with failIn := none } j a.oid := by
        rcases List.mem_append.1 hj with h | h
        · exact hanc1 j h
        · obtain ⟨b, hb, hab⟩ := p2.anc j h
          simp only [List.mem_singleton] at hb; rw [hb] at hab
          rw [e1'.anc] at hab; exact hab
      rcases (ec.evaluated j).1 (hdonec a (List.mem_singleton_self a) j hanc hf.2) with h | h
      · exact absurd h hf.1
      · exact h
    · intro hj
      have hf := ec.fresh hj
      obtain ⟨b, hb, hab⟩ := pc.anc j hj
      simp only [List.mem_singleton] at hb; rw [hb] at hab
      have : (forward T { (forward T { s with failIn := some k } a).1 with failIn := none } a).1.evaluated j := by
        apply hdone2 a (List.mem_singleton_self a) j
        · rw [e1'.anc]; exact hab
        · rw [e1'.isParam]; exact hf.2
      rcases (e2.evaluated j).1 this with h | h
      · exact absurd h hf.1
      · exact h
  have hperm : (l1 ++ l2).Perm lc := (List.perm_ext_iff_of_nodup e2.nodup ec.nodup).2 hmem
  have w2 := p2.ext.wf w1'
  refine ⟨l1, l2, lc, e1.log, ?_, ec.log, ?_, hperm, ?_⟩
  · have := e2.log; rw [← List.append_assoc] at this; exact this
  · have := w2.log_nodup; rw [e2.log, ← List.append_assoc] at this; exact this
  · rw [e2.rndPos, ec.rndPos, hperm.countP_eq]

/-! ## Exact resumption: the retry reproduces the clean run, random sources included -/

/-- empty the fault schedule ("memory is available again") -/
def State.clr (s : State τ) : State τ := { s with failIn := none }

theorem clr_clr (s : State τ) : s.clr.clr = s.clr := rfl
theorem clr_storeValues (s : State τ) (k : Nat) (ys : List τ) :
    (s.storeValues k ys).clr = s.clr.storeValues k ys := by
  unfold State.storeValues
  show _ = match s.ops[k]? with | none => _ | some o => _
  cases s.ops[k]? <;> rfl

theorem clr_valueOf (s : State τ) : s.clr.valueOf? = s.valueOf? := rfl
theorem clr_validAddr (s : State τ) : s.clr.validAddr = s.validAddr := rfl
theorem WF.clr {s : State τ} (w : WF s) : WF s.clr := w.setFailIn none

/-- `evalSelf` commutes with emptying the schedule, unless the scheduled failure fires -/
theorem evalSelf_clr (kind : Kind τ) (n : NodeInfo τ) (a : Addr) (tf : State τ) (xs : List τ) :
    evalSelf kind n a tf xs = (tf.clr, .error .error) ∨
    ((evalSelf kind n a tf xs).2 = (evalSelf kind n a tf.clr xs).2 ∧
      (evalSelf kind n a tf xs).1.clr = (evalSelf kind n a tf.clr xs).1) := by
  cases kind with
  | param p => right; exact ⟨rfl, rfl⟩
  | rnd =>
    unfold evalSelf
    simp only [if_true]
    have hc : tf.clr.failIn = none := rfl
    rw [hc]
    cases hf : tf.failIn with
    | none => right; exact ⟨rfl, by simp only; rw [clr_storeValues]; rfl⟩
    | some m =>
      cases m with
      | zero => left; rfl
      | succ m => right; exact ⟨rfl, by simp only; rw [clr_storeValues]; rfl⟩
  | op sem =>
    have tail : ∀ sB : State τ,
        ((match sem.fwd xs with
          | none => (sB, Except.error Err.error)
          | some ys =>
            match ys[a.vid]? with
            | some v => (({ sB with log := sB.log ++ [a.oid] }).storeValues a.oid ys, Except.ok v)
            | none => (({ sB with log := sB.log ++ [a.oid] }).storeValues a.oid ys, .error .crash)) :
              State τ × Except Err τ).2 =
        ((match sem.fwd xs with
          | none => (sB.clr, Except.error Err.error)
          | some ys =>
            match ys[a.vid]? with
            | some v => (({ sB.clr with log := sB.clr.log ++ [a.oid] }).storeValues a.oid ys, Except.ok v)
            | none => (({ sB.clr with log := sB.clr.log ++ [a.oid] }).storeValues a.oid ys, .error .crash)) :
              State τ × Except Err τ).2 ∧
        ((match sem.fwd xs with
          | none => (sB, Except.error Err.error)
          | some ys =>
            match ys[a.vid]? with
            | some v => (({ sB with log := sB.log ++ [a.oid] }).storeValues a.oid ys, Except.ok v)
            | none => (({ sB with log := sB.log ++ [a.oid] }).storeValues a.oid ys, .error .crash)) :
              State τ × Except Err τ).1.clr =
        ((match sem.fwd xs with
          | none => (sB.clr, Except.error Err.error)
          | some ys =>
            match ys[a.vid]? with
            | some v => (({ sB.clr with log := sB.clr.log ++ [a.oid] }).storeValues a.oid ys, Except.ok v)
            | none => (({ sB.clr with log := sB.clr.log ++ [a.oid] }).storeValues a.oid ys, .error .crash)) :
              State τ × Except Err τ).1 := by
      intro sB
      cases sem.fwd xs with
      | none => exact ⟨rfl, rfl⟩
      | some ys =>
        simp only
        cases ys[a.vid]? with
        | none => exact ⟨rfl, by simp only; rw [clr_storeValues]; rfl⟩
        | some v => exact ⟨rfl, by simp only; rw [clr_storeValues]; rfl⟩
    unfold evalSelf
    simp only
    have hc : tf.clr.failIn = none := rfl
    rw [hc]
    rcases Bool.eq_false_or_eq_true sem.faulty with hfl | hfl
    · simp only [hfl, if_true]
      cases hf : tf.failIn with
      | none => right; exact tail { tf with failIn := none }
      | some m =>
        cases m with
        | zero => left; rfl
        | succ m => right; exact tail { tf with failIn := some m }
    · simp only [hfl, Bool.false_eq_true, if_false]
      right; exact tail tf

/-- a node that shows a value is returned as it is, by any amount of fuel -/
theorem forwardRec_stable (T : TOps τ) {fuel : Nat} {s : State τ} {b : Addr} {x : τ}
    (hv : s.validAddr b = true) (hlt : b.oid < fuel) (hx : s.valueOf? b = some x) :
    forwardRec T fuel s b = (s, .ok x) := by
  cases fuel with
  | zero => omega
  | succ fuel =>
    obtain ⟨o, ho, hvid⟩ := validAddr_iff.1 hv
    rw [forwardRec_unfold]
    unfold State.valueOf? at hx
    simp only [ho] at hx ⊢
    cases hk : o.kind with
    | param p =>
      simp only [hk] at hx ⊢
      by_cases h0 : b.vid = 0
      · simp only [h0, if_true, Option.some.injEq] at hx ⊢; rw [hx]
      · simp [h0] at hx
    | rnd =>
      simp only [hk] at hx ⊢
      cases hn : o.rets[b.vid]? with
      | none => simp [hn] at hx
      | some n => simp only [hn] at hx ⊢; rw [hx]
    | op sem =>
      simp only [hk] at hx ⊢
      cases hn : o.rets[b.vid]? with
      | none => simp [hn] at hx
      | some n => simp only [hn] at hx ⊢; rw [hx]

theorem forwardArgs_stable (ev : State τ → Addr → State τ × Except Err τ) {s : State τ} {bs : List Addr} {xs : List τ}
    (hev : ∀ b ∈ bs, ∀ x, s.valueOf? b = some x → ev s b = (s, .ok x))
    (hxs : bs.mapM s.valueOf? = some xs) : forwardArgsWith ev s bs = (s, .ok xs) := by
  induction bs generalizing xs with
  | nil => simp at hxs; subst hxs; rfl
  | cons b rest ih =>
    simp only [List.mapM_cons, Option.bind_eq_bind] at hxs
    cases h1 : s.valueOf? b with
    | none => simp [h1] at hxs
    | some x =>
      simp only [h1, Option.bind_some] at hxs
      cases h2 : rest.mapM s.valueOf? with
      | none => simp [h2] at hxs
      | some xs' =>
        simp only [h2, Option.bind_some, Option.pure_def, Option.some.injEq] at hxs
        subst hxs
        unfold forwardArgsWith
        rw [hev b List.mem_cons_self x h1]
        simp only
        rw [ih (fun b' hb' => hev b' (List.mem_cons_of_mem _ hb')) h2]

theorem forwardArgsWith_cons (ev : State τ → Addr → State τ × Except Err τ) (s : State τ) (b : Addr)
    (rest : List Addr) :
    forwardArgsWith ev s (b :: rest) =
      match ev s b with
      | (s1, .error e) => (s1, .error e)
      | (s1, .ok v) =>
        match forwardArgsWith ev s1 rest with
        | (s2, .error e) => (s2, .error e)
        | (s2, .ok vs) => (s2, .ok (v :: vs)) := rfl

/-- The attempt `res` (started from `tf`) relative to the clean run `(sc, .ok v)` (started from
`tf.clr`): either it succeeded and differs from the clean run in the schedule only, or it failed
and running the request `again` from the state it reached, schedule emptied, gives exactly the
clean run's state and value. -/
def Resumes {α : Type} (again : State τ → State τ × Except Err α) (res : State τ × Except Err α)
    (sc : State τ) (v : α) : Prop :=
  (res.2 = .ok v ∧ res.1.clr = sc) ∨ ((∃ e, res.2 = .error e) ∧ again res.1.clr = (sc, .ok v))

theorem forwardArgs_resume (ev : State τ → Addr → State τ × Except Err τ) (fuel : Nat)
    (hev : ∀ tf b, WF tf → tf.validAddr b = true → b.oid < fuel →
      FwdSpec tf b (ev tf b) ∧ (∀ x, tf.valueOf? b = some x → ev tf b = (tf, .ok x)) ∧
      (∀ sc x, ev tf.clr b = (sc, .ok x) → Resumes (fun t => ev t b) (ev tf b) sc x))
    (tf : State τ) (bs : List Addr) (w : WF tf) (hbs : ∀ b ∈ bs, tf.validAddr b = true ∧ b.oid < fuel)
    (sca : State τ) (xs : List τ) (hclean : forwardArgsWith ev tf.clr bs = (sca, .ok xs)) :
    Resumes (fun t => forwardArgsWith ev t bs) (forwardArgsWith ev tf bs) sca xs := by
  induction bs generalizing tf sca xs with
  | nil =>
    simp only [forwardArgsWith, Prod.mk.injEq, Except.ok.injEq] at hclean
    exact .inl ⟨by rw [← hclean.2]; rfl, hclean.1⟩
  | cons b rest ih =>
    have hb := hbs b List.mem_cons_self
    obtain ⟨sp, -, hres⟩ := hev tf b w hb.1 hb.2
    have hspec : ∀ s b, WF s → s.validAddr b = true → b.oid < fuel → FwdSpec s b (ev s b) :=
      fun s b w' h1 h2 => (hev s b w' h1 h2).1
    -- the clean run
    rw [forwardArgsWith_cons] at hclean
    cases hcb : ev tf.clr b with
    | mk t1 r =>
      rw [hcb] at hclean
      cases r with
      | error e => simp at hclean
      | ok x =>
        simp only at hclean
        cases hcr : forwardArgsWith ev t1 rest with
        | mk sca' r2 =>
          rw [hcr] at hclean
          cases r2 with
          | error e => simp at hclean
          | ok xs' =>
            simp only [Prod.mk.injEq, Except.ok.injEq] at hclean
            obtain ⟨rfl, rfl⟩ := hclean
            rcases hres t1 x hcb with ⟨hok, hclr⟩ | ⟨⟨e, he⟩, hagain⟩
            · -- the attempt got through `b`
              cases h1 : ev tf b with
              | mk tf1 r1 =>
                rw [h1] at sp hok hclr
                simp only at hok hclr
                subst hok
                obtain ⟨l1, p1⟩ := sp.post
                obtain ⟨hvx, -⟩ := sp.ok x rfl
                simp only at p1 hvx
                have w1 := p1.ext.wf w
                have hbs1 : ∀ b' ∈ rest, tf1.validAddr b' = true ∧ b'.oid < fuel := fun b' hb' => by
                  rw [p1.ext.validAddr]; exact hbs b' (List.mem_cons_of_mem _ hb')
                have hih := ih tf1 w1 hbs1 sca' xs' (by rw [hclr]; exact hcr)
                have spr := forwardArgs_spec ev fuel hspec tf1 rest w1 hbs1
                rw [forwardArgsWith_cons]
                rw [h1]
                simp only
                cases h2 : forwardArgsWith ev tf1 rest with
                | mk s2 r2 =>
                  rw [h2] at hih spr
                  rcases hih with ⟨hok2, hclr2⟩ | ⟨⟨e2, he2⟩, hagain2⟩
                  · simp only at hok2 hclr2; subst hok2
                    exact .inl ⟨rfl, hclr2⟩
                  · simp only at he2 hagain2; subst he2
                    refine .inr ⟨⟨e2, rfl⟩, ?_⟩
                    simp only
                    obtain ⟨l2, p2⟩ := spr.post
                    simp only at p2
                    have w2 : WF s2.clr := (p2.ext.wf w1).clr
                    have hv2 : s2.clr.validAddr b = true := by
                      rw [clr_validAddr, p2.ext.validAddr, p1.ext.validAddr]; exact hb.1
                    have hx2 : s2.clr.valueOf? b = some x := by
                      rw [clr_valueOf]; exact p2.ext.valueOf_mono hvx
                    have := (hev s2.clr b w2 hv2 hb.2).2.1 x hx2
                    rw [forwardArgsWith_cons]
                    rw [this]
                    simp only
                    rw [hagain2]
            · -- the attempt failed inside `b`
              cases h1 : ev tf b with
              | mk s1 r1 =>
                rw [h1] at he hagain
                simp only at he hagain
                subst he
                rw [forwardArgsWith_cons]
                rw [h1]
                refine .inr ⟨⟨e, rfl⟩, ?_⟩
                simp only
                rw [forwardArgsWith_cons]
                rw [hagain]
                simp only
                rw [hcr]

theorem forwardRec_resume (T : TOps τ) (fuel : Nat) :
    ∀ (tf : State τ) (a : Addr), WF tf → tf.validAddr a = true → a.oid < fuel →
      ∀ sc v, forwardRec T fuel tf.clr a = (sc, .ok v) →
        Resumes (fun t => forwardRec T fuel t a) (forwardRec T fuel tf a) sc v := by
  induction fuel with
  | zero => intro tf a _ _ h; omega
  | succ fuel ih =>
    intro tf a w hv hlt sc v hclean
    obtain ⟨o, ho, hvid⟩ := validAddr_iff.1 hv
    obtain ⟨n, hn⟩ : ∃ n, o.rets[a.vid]? = some n := ⟨_, List.getElem?_eq_getElem hvid⟩
    have hoc : tf.clr.ops[a.oid]? = some o := ho
    have kok := w.kind_ok _ o ho
    by_cases hnp : o.kind.isParam = true
    · rw [forwardRec_unfold] at hclean ⊢
      simp only [hoc] at hclean
      simp only [ho]
      cases hk : o.kind with
      | rnd => simp [hk, Kind.isParam] at hnp
      | op sem => simp [hk, Kind.isParam] at hnp
      | param p =>
        rw [hk] at kok hclean; simp only [KindOK] at kok
        have h0 : a.vid = 0 := by omega
        simp only [h0, if_true, Prod.mk.injEq, Except.ok.injEq] at hclean ⊢
        exact .inl ⟨by rw [← hclean.2]; rfl, hclean.1⟩
    · have hnp : o.kind.isParam = false := by simpa using hnp
      rw [forwardRec_succ_nonparam T fuel hoc hnp] at hclean
      rw [forwardRec_succ_nonparam T fuel ho hnp]
      simp only [hn] at hclean ⊢
      cases hval : n.value with
      | some v' =>
        rw [hval] at hclean
        simp only [Prod.mk.injEq, Except.ok.injEq] at hclean ⊢
        exact .inl ⟨by rw [← hclean.2], hclean.1⟩
      | none =>
        rw [hval] at hclean
        simp only at hclean ⊢
        have hargs := w.args_lt _ o ho
        have hbs : ∀ b ∈ o.args, tf.validAddr b = true ∧ b.oid < fuel :=
          fun b hb => ⟨(hargs b hb).2, by have := (hargs b hb).1; omega⟩
        have hev : ∀ tf b, WF tf → tf.validAddr b = true → b.oid < fuel →
            FwdSpec tf b (forwardRec T fuel tf b) ∧
            (∀ x, tf.valueOf? b = some x → forwardRec T fuel tf b = (tf, .ok x)) ∧
            (∀ sc x, forwardRec T fuel tf.clr b = (sc, .ok x) →
              Resumes (fun t => forwardRec T fuel t b) (forwardRec T fuel tf b) sc x) :=
          fun tf b w' h1 h2 => ⟨forwardRec_spec T fuel tf b w' h1 h2, fun x hx => forwardRec_stable T h1 h2 hx,
            ih tf b w' h1 h2⟩
        -- the clean run: arguments, then the operator
        cases hca : forwardArgsWith (forwardRec T fuel) tf.clr o.args with
        | mk sca ra =>
          rw [hca] at hclean
          cases ra with
          | error e => simp at hclean
          | ok xs =>
            simp only at hclean
            have hres := forwardArgs_resume (forwardRec T fuel) fuel hev tf o.args w hbs sca xs hca
            have spa := forwardArgs_spec (forwardRec T fuel) fuel (forwardRec_spec T fuel) tf o.args w hbs
            -- re-running the request from a state in which the arguments are available
            have again : ∀ t : State τ, WF t → t.ops[a.oid]? = some o →
                forwardArgsWith (forwardRec T fuel) t o.args = (sca, .ok xs) →
                forwardRec T (fuel + 1) t a = (sc, .ok v) := by
              intro t _ hot hta
              rw [forwardRec_succ_nonparam T fuel hot hnp]
              simp only [hn, hval, hta]
              exact hclean
            cases h1 : forwardArgsWith (forwardRec T fuel) tf o.args with
            | mk s1 r1 =>
              rw [h1] at hres spa
              obtain ⟨l1, p1⟩ := spa.post
              simp only at p1
              have w1 := p1.ext.wf w
              have ho1 : s1.ops[a.oid]? = some o := by
                rw [p1.ext.same]; exact ho
                intro hmem
                obtain ⟨b, hb, hkb⟩ := p1.anc _ hmem
                have := w.anc_le hkb
                have := (hargs b hb).1
                omega
              rcases hres with ⟨hok, hclr⟩ | ⟨⟨e, he⟩, hagain⟩
              · simp only at hok hclr
                subst hok
                simp only
                obtain ⟨hxs, -⟩ := spa.ok xs rfl
                simp only at hxs
                rcases evalSelf_clr o.kind n a s1 xs with hfired | ⟨hr, hs⟩
                · -- the scheduled failure fires in the operator's own forward
                  rw [hfired]
                  refine .inr ⟨⟨_, rfl⟩, ?_⟩
                  simp only [clr_clr]
                  apply again s1.clr w1.clr ho1
                  rw [← hclr]
                  apply forwardArgs_stable
                  · intro b hb x hx
                    exact forwardRec_stable T (by rw [clr_validAddr, p1.ext.validAddr]; exact (hbs b hb).1)
                      (hbs b hb).2 hx
                  · rw [clr_valueOf]; exact hxs
                · rw [hclr, hclean] at hr hs
                  exact .inl ⟨hr, hs⟩
              · simp only at he hagain
                subst he
                simp only
                refine .inr ⟨⟨e, rfl⟩, ?_⟩
                exact again s1.clr w1.clr ho1 hagain

/-- **Exact resumption.**  If `forward a` without a scheduled failure succeeds from `s`, then
after an attempt from `s` under *any* fault schedule, `forward a` with the schedule emptied
returns the same value and reaches the very same state (operators, values, log, stream position)
as the run that never failed — random sources included. -/
theorem forward_resume (T : TOps τ) {s : State τ} (w : WF s) {a : Addr} (hv : s.validAddr a = true)
    {sc : State τ} {v : τ} (hclean : forward T s.clr a = (sc, .ok v)) :
    forward T (forward T s a).1.clr a = (sc, .ok v) := by
  have hvc : s.clr.validAddr a = true := hv
  have spc := forward_spec T w.clr hvc
  rw [hclean] at spc
  obtain ⟨hvalc, -⟩ := spc.ok v rfl
  obtain ⟨lc, pc⟩ := spc.post
  simp only at hvalc pc
  obtain ⟨l, e, _⟩ := forward_ext T a w
  have hv1 : (forward T s a).1.clr.validAddr a = true := by rw [clr_validAddr, e.validAddr]; exact hv
  have hfeq : ∀ {t : State τ}, t.validAddr a = true → forward T t a = forwardRec T (a.oid + 1) t a := by
    intro t ht; unfold forward; rw [if_pos ht]
  rw [hfeq hvc] at hclean
  rw [hfeq hv1]
  rw [hfeq hv] at hv1 e ⊢
  rcases forwardRec_resume T (a.oid + 1) s a w hv (Nat.lt_succ_self _) sc v hclean with ⟨hok, hclr⟩ | ⟨_, hagain⟩
  · rw [hclr]
    have hvsc : sc.validAddr a = true := by rw [← hclr]; exact hv1
    exact forwardRec_stable T hvsc (Nat.lt_succ_self _) hvalc
  · exact hagain

end Primitiv.Graph
