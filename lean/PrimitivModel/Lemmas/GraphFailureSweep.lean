import PrimitivModel.Lemmas.GraphFailure
import PrimitivModel.Lemmas.GraphSweep
/-
Failures of `backward` (Props/C10): on top of Lemmas/GraphFailure.lean (forward evaluation,
fault schedule) and Lemmas/GraphSweep.lean (the reverse sweep).  Bridges the two developments
(`Anc`/`AncOf`, `argsOf`/`argList`), shows that the reverse sweep cannot fail once the forward phase
has succeeded (`sweep_total`), hence that a failing `backward` failed in its forward phase
(`backward_error_cases`), and that no gradient is pending between the calls of a history
(`run_gradsInvalid`).  Core Lean only.
-/
namespace Primitiv.Graph
variable {τ : Type}

/-! ### bridge between the two developments -/

theorem argsOf_eq_argList (s : State τ) : s.argsOf = s.argList := rfl

theorem anc_iff_ancF (f : Nat → List Addr) (j k : Nat) : Anc f j k ↔ AncF f j k := by
  constructor
  · intro h
    induction h with
    | refl => exact AncF.refl _
    | step hb _ ih => exact AncF.step hb ih
  · intro h
    induction h with
    | refl => exact Anc.refl _
    | step hb _ ih => exact Anc.step hb ih

theorem anc_iff_ancOf (s : State τ) (j k : Nat) : Anc s.argsOf j k ↔ AncOf s j k :=
  anc_iff_ancF _ j k

theorem WF.argsBelow {s : State τ} (w : WF s) : ArgsBelow s :=
  fun i o ho a ha => (w.args_lt i o ho a ha).1

/-! ### the sweep never fails once the forward phase has succeeded -/

theorem mapM_some_of_forall {α β} {f : α → Option β} {l : List α} (h : ∀ a ∈ l, ∃ b, f a = some b) :
    ∃ bs, l.mapM f = some bs := by
  induction l with
  | nil => exact ⟨[], rfl⟩
  | cons a rest ih =>
    obtain ⟨b, hb⟩ := h a List.mem_cons_self
    obtain ⟨bs, hbs⟩ := ih (fun a' ha' => h a' (List.mem_cons_of_mem _ ha'))
    exact ⟨b :: bs, by simp [List.mapM_cons, hb, hbs]⟩

/-- the arguments of an evaluated operator (and of a Parameter operator) show values -/
theorem WF.args_have_values {s : State τ} (w : WF s) {k : Nat} {o : OpInfo τ} (ho : s.ops[k]? = some o)
    (hev : s.isParam k = true ∨ s.evaluated k) : ∃ xs, o.args.mapM s.valueOf? = some xs := by
  apply mapM_some_of_forall
  intro b hb
  have kok := w.kind_ok k o ho
  rcases hev with hp | hev
  · simp only [State.isParam, ho] at hp
    cases hk : o.kind with
    | param p => rw [hk] at kok; simp only [KindOK] at kok; simp [kok.1] at hb
    | rnd => simp [hk, Kind.isParam] at hp
    | op sem => simp [hk, Kind.isParam] at hp
  · obtain ⟨ob, hob, hvid⟩ := validAddr_iff.1 (w.args_lt k o ho b hb).2
    have kokb := w.kind_ok _ ob hob
    unfold State.valueOf?
    simp only [hob]
    cases hkb : ob.kind with
    | param p =>
      rw [hkb] at kokb; simp only [KindOK] at kokb
      have : b.vid = 0 := by omega
      simp [this]
    | rnd =>
      have hevb := w.closed k o ho hev b hb (by simp [State.isParam, hob, hkb, Kind.isParam])
      obtain ⟨ob', hob', m, hm, hmv⟩ := hevb
      rw [hob] at hob'; cases hob'
      have hall : ∀ n ∈ ob.rets, n.value.isSome = true := by
        rcases w.all_or_none _ ob hob with h | h
        · simp [h m hm] at hmv
        · exact h
      have hn := hall _ (List.getElem_mem hvid)
      simp only [List.getElem?_eq_getElem hvid]
      exact Option.isSome_iff_exists.1 hn
    | op sem =>
      have hevb := w.closed k o ho hev b hb (by simp [State.isParam, hob, hkb, Kind.isParam])
      obtain ⟨ob', hob', m, hm, hmv⟩ := hevb
      rw [hob] at hob'; cases hob'
      have hall : ∀ n ∈ ob.rets, n.value.isSome = true := by
        rcases w.all_or_none _ ob hob with h | h
        · simp [h m hm] at hmv
        · exact h
      have hn := hall _ (List.getElem_mem hvid)
      simp only [List.getElem?_eq_getElem hvid]
      exact Option.isSome_iff_exists.1 hn

/-- one iteration of the sweep cannot fail when every enabled operator is an ancestor of `t` and
all non-parameter ancestors of `t` are evaluated -/
theorem backwardStep_ok (T : TOps τ) {s2 s : State τ} (w2 : WF s2) (hf : SameFrame s2 s) {t k : Nat}
    (hk : k < s.ops.length) (hanc : OnlyAnc s.argsOf t s)
    (hdone : ∀ j, AncOf s2 j t → s2.isParam j = false → s2.evaluated j) :
    (backwardStep T s k).2 = .ok () := by
  rw [backwardStep_eq]
  have hk' : k < s.ops.length := hk
  obtain ⟨o, ho⟩ : ∃ o, s.ops[k]? = some o := ⟨_, List.getElem?_eq_getElem hk'⟩
  simp only [ho]
  by_cases hen : (!o.enabled) = true
  · rw [if_pos hen]
  · rw [if_neg hen]
    have ha : Anc s.argsOf k t := enabled_anc ho hen hanc
    rw [argsOf_of_skel hf.skel, anc_iff_ancOf] at ha
    -- the operator in `s2`
    have hlen := skel_length hf.skel
    obtain ⟨o2, ho2⟩ : ∃ o2, s2.ops[k]? = some o2 := ⟨_, List.getElem?_eq_getElem (by omega)⟩
    obtain ⟨o', ho', _, hargs, _⟩ := skel_op_some hf.skel ho2
    rw [ho] at ho'; cases ho'
    have hev : s2.isParam k = true ∨ s2.evaluated k := by
      cases hp : s2.isParam k with
      | true => exact .inl rfl
      | false => exact .inr (hdone k ha hp)
    obtain ⟨xs, hxs⟩ := w2.args_have_values ho2 hev
    have hv : s.valueOf? = s2.valueOf? := funext (skel_valueOf hf.skel hf.pvalue)
    rw [hargs, hv, hxs]

/-- after a successful forward phase (all non-parameter ancestors of `a` evaluated, all gradients
invalid) the seeded sweep runs to completion -/
theorem sweep_total (T : TOps τ) {s2 : State τ} (w2 : WF s2) (hg : AllGradsInvalid s2) {a : Addr}
    (hv : s2.validAddr a = true)
    (hdone : ∀ j, AncOf s2 j a.oid → s2.isParam j = false → s2.evaluated j) :
    ∃ s', sweep T (a.oid + 1) (seed T s2 a) = (s', .ok ()) := by
  have hseed := seed_sameFrame T s2 a
  have h0 : OnlyAnc (seed T s2 a).argsOf a.oid (seed T s2 a) := onlyAnc_seed T s2 a hg
  obtain ⟨s', hs', _⟩ := sweep_inv_total T
    (fun k s => k ≤ s.ops.length ∧ SameFrame s2 s ∧ OnlyAnc s.argsOf a.oid s)
    (fun k s ⟨hk, hf, hanc⟩ => by
      have hok := backwardStep_ok T w2 hf (t := a.oid) (k := k) (by omega) hanc hdone
      have hsf := backwardStep_sameFrame T s k
      have hoa := backwardStep_onlyAnc T a.oid k s hanc
      cases hb : backwardStep T s k with
      | mk s1 r =>
        rw [hb] at hok hsf hoa
        simp only at hok hsf hoa
        subst hok
        refine ⟨s1, rfl, ?_, hf.trans hsf, ?_⟩
        · rw [skel_length hsf.skel]; omega
        · rw [argsOf_of_skel hsf.skel]; exact hoa)
    (a.oid + 1) (seed T s2 a)
    ⟨by rw [skel_length hseed.skel]; exact validAddr_lt hv, hseed, h0⟩
  exact ⟨s', hs'⟩

/-! ### a failing `backward` failed in its forward phase -/

theorem evaluated_of_node? {s : State τ} {a : Addr} {n : NodeInfo τ} {v : τ} (hn : s.node? a = some n)
    (hv : n.value = some v) : s.evaluated a.oid := by
  unfold State.node? at hn
  cases ho : s.ops[a.oid]? with
  | none => simp [ho] at hn
  | some o => simp only [ho] at hn; exact evaluated_of_node ho hn hv

/-- In a well-formed state without pending gradients `backward a` can fail in two ways only: `a`
is not a node of the graph (nothing happens), or the forward evaluation of `a` fails (and then
`backward` stops in the state `forward` reached).  The reverse sweep itself never fails. -/
theorem backward_error_cases (T : TOps τ) {s : State τ} (w : WF s) (hg : AllGradsInvalid s) {a : Addr}
    {s' : State τ} {e : Err} (h : backward T s a = (s', .error e)) :
    (s.validAddr a = false ∧ s' = s ∧ e = .crash) ∨
    (s.validAddr a = true ∧ (∃ n, s.node? a = some n ∧ n.value = none) ∧
      (forward T s a).2 = .error e ∧ s' = (forward T s a).1) := by
  cases hv : s.validAddr a with
  | false =>
    rw [backward_invalid T hv] at h
    simp only [Prod.mk.injEq, Except.error.injEq] at h
    exact .inl ⟨rfl, h.1.symm, h.2.symm⟩
  | true =>
    right
    obtain ⟨n, hn⟩ := node?_of_valid hv
    cases hval : n.value with
    | some v =>
      exfalso
      rw [backward_memo T hv hn hval] at h
      obtain ⟨s'', hs''⟩ := sweep_total T w hg hv
        (fun j hj hp => w.closed_anc hj (evaluated_of_node? hn hval) hp)
      have : sweep T (a.oid + 1) (seed T s a) = (s', .error e) := h
      rw [hs''] at this
      cases this
    | none =>
      cases hf : (forward T s a).2 with
      | ok v =>
        exfalso
        rw [backward_fwd_ok T hv hn hval hf] at h
        have sp := forward_spec T w hv
        obtain ⟨l, p⟩ := sp.post
        obtain ⟨-, hdone⟩ := sp.ok v hf
        have w1 := p.ext.wf w
        have hg1 : AllGradsInvalid (forward T s a).1 :=
          fun b => by rw [gskel_gradAt (forward_fwdFrame T s a).gskel]; exact hg b
        have hv1 : (forward T s a).1.validAddr a = true := by rw [p.ext.validAddr]; exact hv
        obtain ⟨s'', hs''⟩ := sweep_total T w1 hg1 hv1 (fun j hj hp => by
          rw [p.ext.anc] at hj; rw [p.ext.isParam] at hp
          exact hdone a (List.mem_singleton_self a) j hj hp)
        have : sweep T (a.oid + 1) (seed T (forward T s a).1 a) = (s', .error e) := h
        rw [hs''] at this
        cases this
      | error e' =>
        rw [backward_fwd_error T hv hn hval hf] at h
        simp only [Prod.mk.injEq, Except.error.injEq] at h
        exact ⟨rfl, ⟨n, hn, hval⟩, by rw [h.2], h.1.symm⟩

/-! ### no gradient is pending between the calls of a history -/

theorem AllGradsInvalid.empty (params : Params τ) (sample : Nat → Nat → τ) :
    AllGradsInvalid (State.empty params sample) := by
  intro a
  simp [State.gradAt, State.node?, State.empty]

theorem step_gradsInvalid (T : TOps τ) {s : State τ} (w : WF s) (hg : AllGradsInvalid s) (op : Op τ) :
    AllGradsInvalid (step T s op) := by
  cases op with
  | addOperator kind args sizes =>
    simp only [step]
    cases h : addOperator s kind args sizes with
    | error e => exact hg
    | ok r =>
      obtain ⟨s', i⟩ := r
      exact (addOperator_ginv s s' kind args sizes i ⟨hg, w.argsBelow⟩ h).1
  | forward a =>
    intro b
    show (forward T s a).1.gradAt b = none
    rw [gskel_gradAt (forward_fwdFrame T s a).gskel]; exact hg b
  | backward a =>
    show AllGradsInvalid (backward T s a).1
    cases h : backward T s a with
    | mk s' r =>
      cases r with
      | ok u => cases u; exact backward_allGradsInvalid T s s' a hg w.argsBelow h
      | error e =>
        rcases backward_error_cases T w hg h with ⟨_, rfl, _⟩ | ⟨_, _, _, rfl⟩
        · exact hg
        · intro b
          rw [gskel_gradAt (forward_fwdFrame T s a).gskel]; exact hg b
  | setParamValue p v => exact hg
  | setFail k => exact hg

theorem run_gradsInvalid (T : TOps τ) {s : State τ} (w : WF s) (hg : AllGradsInvalid s) (h : List (Op τ))
    (hadm : ∀ op ∈ h, op.Admissible) : AllGradsInvalid (run T s h) := by
  induction h generalizing s with
  | nil => exact hg
  | cons op rest ih =>
    exact ih (step_wf T w (hadm op List.mem_cons_self)) (step_gradsInvalid T w hg op)
      (fun op' h' => hadm op' (List.mem_cons_of_mem _ h'))

end Primitiv.Graph
