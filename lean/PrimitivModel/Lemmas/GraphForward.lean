import PrimitivModel.Model.Graph
/-
Helper lemmas for Props/C05 (and whoever needs frame facts about values):
what the state-update helpers of Model/Graph.lean leave unchanged, the
well-formedness invariant `WF`, the relation `Ext s s' l` ("s' is s after the
operators l have been evaluated") and the main induction over `forwardRec`.
Core Lean only.
-/
namespace Primitiv.Graph
variable {τ : Type}

/-! ## Frame lemmas: everything `backward` does after its forward leaves values alone -/

theorem updRet_kind (o : OpInfo τ) (i f) : (updRet o i f).kind = o.kind := by
  unfold updRet; split <;> rfl
theorem updRet_args (o : OpInfo τ) (i f) : (updRet o i f).args = o.args := by
  unfold updRet; split <;> rfl

def NodeInfo.strip (n : NodeInfo τ) : NodeInfo τ := { n with grad := none }
def OpInfo.strip (o : OpInfo τ) : OpInfo τ := { o with rets := o.rets.map NodeInfo.strip }

/-- `s'` differs from `s` at most in gradients (node gradients, parameter gradients) -/
structure SameVals (s s' : State τ) : Prop where
  ops : s'.ops.map OpInfo.strip = s.ops.map OpInfo.strip
  log : s'.log = s.log
  rndPos : s'.rndPos = s.rndPos
  pvalue : s'.params.value = s.params.value
  sample : s'.sample = s.sample
  failIn : s'.failIn = s.failIn

theorem SameVals.refl (s : State τ) : SameVals s s := ⟨rfl, rfl, rfl, rfl, rfl, rfl⟩
theorem SameVals.trans {s s1 s2 : State τ} (h1 : SameVals s s1) (h2 : SameVals s1 s2) : SameVals s s2 :=
  ⟨h2.ops.trans h1.ops, h2.log.trans h1.log, h2.rndPos.trans h1.rndPos, h2.pvalue.trans h1.pvalue,
   h2.sample.trans h1.sample, h2.failIn.trans h1.failIn⟩
theorem SameVals.symm {s s1 : State τ} (h1 : SameVals s s1) : SameVals s1 s :=
  ⟨h1.ops.symm, h1.log.symm, h1.rndPos.symm, h1.pvalue.symm, h1.sample.symm, h1.failIn.symm⟩

theorem updRet_strip (o : OpInfo τ) (i : Nat) (f : NodeInfo τ → NodeInfo τ)
    (hf : ∀ n, (f n).strip = n.strip) : (updRet o i f).strip = o.strip := by
  unfold updRet; split
  · rename_i n h
    simp only [OpInfo.strip, List.map_set, hf]
    congr 1
    apply List.ext_getElem?
    intro j
    simp only [List.getElem?_set, List.length_map, List.getElem?_map]
    split
    · subst_vars; simp [h]; exact (List.getElem?_eq_some_iff.1 h).1
    · rfl
  · rfl

theorem updNode_sameVals (s : State τ) (a : Addr) (f : NodeInfo τ → NodeInfo τ)
    (hf : ∀ n, (f n).strip = n.strip) : SameVals s (s.updNode a f) := by
  unfold State.updNode; split
  · rename_i o h
    refine ⟨?_, rfl, rfl, rfl, rfl, rfl⟩
    simp only [List.map_set, updRet_strip o a.vid f hf]
    apply List.ext_getElem?
    intro j
    simp only [List.getElem?_set, List.length_map, List.getElem?_map]
    split
    · subst_vars; simp [h]; exact (List.getElem?_eq_some_iff.1 h).1
    · rfl
  · exact SameVals.refl s

theorem zeroFill_sameVals (T : TOps τ) (s : State τ) (l : List Addr) : SameVals s (zeroFill T s l) := by
  induction l generalizing s with
  | nil => exact SameVals.refl s
  | cons a rest ih =>
    refine (updNode_sameVals s a _ ?_).trans (ih _)
    intro n; cases h : n.grad <;> simp [NodeInfo.strip]

theorem addContribs_sameVals (T : TOps τ) (s : State τ) (l : List (Addr × Option τ)) :
    SameVals s (addContribs T s l) := by
  induction l generalizing s with
  | nil => exact SameVals.refl s
  | cons x rest ih =>
    obtain ⟨a, c⟩ := x
    cases c with
    | none => exact ih s
    | some c =>
      refine (updNode_sameVals s a _ ?_).trans (ih _)
      intro n; cases h : n.grad <;> simp [NodeInfo.strip]

theorem invalidateGrads_sameVals (s : State τ) (oid : Nat) : SameVals s (invalidateGrads s oid) := by
  unfold invalidateGrads; split
  · exact SameVals.refl s
  · rename_i o h
    refine ⟨?_, rfl, rfl, rfl, rfl, rfl⟩
    simp only [List.map_set]
    apply List.ext_getElem?
    intro j
    simp only [List.getElem?_set, List.length_map, List.getElem?_map]
    split
    · subst_vars; simp [h, OpInfo.strip, NodeInfo.strip]; exact (List.getElem?_eq_some_iff.1 h).1
    · rfl

theorem backwardStep_sameVals (T : TOps τ) (s : State τ) (oid : Nat) :
    SameVals s (backwardStep T s oid).1 := by
  unfold backwardStep
  cases h : s.ops[oid]? with
  | none => exact SameVals.refl s
  | some o =>
    dsimp only
    have h1 := zeroFill_sameVals T s (retAddrs oid o)
    have h2 := h1.trans (zeroFill_sameVals T _ o.args)
    by_cases hen : (!(o.rets.any fun n => n.grad.isSome)) = true
    · rw [if_pos hen]; exact SameVals.refl s
    · rw [if_neg hen]
      cases hm : o.args.mapM (zeroFill T s (retAddrs oid o)).valueOf? with
      | none => exact h1
      | some xs =>
        dsimp only
        cases h2o : (zeroFill T (zeroFill T s (retAddrs oid o)) o.args).ops[oid]? with
        | none => exact h2
        | some o2 =>
          dsimp only
          refine h2.trans (SameVals.trans ?_ (invalidateGrads_sameVals _ oid))
          cases o.kind with
          | param p =>
            dsimp only
            cases o2.rets.filterMap (·.grad) with
            | nil => exact SameVals.refl _
            | cons g _ => exact ⟨rfl, rfl, rfl, rfl, rfl, rfl⟩
          | rnd => exact SameVals.refl _
          | op sem => exact addContribs_sameVals T _ _

theorem sweep_sameVals (T : TOps τ) (k : Nat) (s : State τ) : SameVals s (sweep T k s).1 := by
  induction k generalizing s with
  | zero => exact SameVals.refl s
  | succ k ih =>
    unfold sweep
    have h := backwardStep_sameVals T s k
    split
    · rename_i s1 e he; rw [he] at h; exact h
    · rename_i s1 he; rw [he] at h; exact h.trans (ih s1)
/-! ## Observations on states -/

def Kind.isParam : Kind τ → Bool
  | .param _ => true
  | _ => false

def Kind.isRnd : Kind τ → Bool
  | .rnd => true
  | _ => false

/-- some return value of operator `k` holds a memoised value -/
def State.evaluated (s : State τ) (k : Nat) : Prop :=
  ∃ o, s.ops[k]? = some o ∧ ∃ n ∈ o.rets, n.value.isSome = true

def State.isRnd (s : State τ) (k : Nat) : Bool :=
  match s.ops[k]? with
  | some o => o.kind.isRnd
  | none => false

def State.isParam (s : State τ) (k : Nat) : Bool :=
  match s.ops[k]? with
  | some o => o.kind.isParam
  | none => false

def State.argsOf (s : State τ) (k : Nat) : List Addr :=
  match s.ops[k]? with
  | some o => o.args
  | none => []

/-- `AncF f j k`: `j` is `k` or reachable from `k` through argument edges -/
inductive AncF (f : Nat → List Addr) : Nat → Nat → Prop
  | refl (k : Nat) : AncF f k k
  | step {j k : Nat} {b : Addr} : b ∈ f k → AncF f j b.oid → AncF f j k

/-- `Anc s j k`: operator `j` is `k` itself or an ancestor of `k` in the graph of `s` -/
def Anc (s : State τ) : Nat → Nat → Prop := AncF s.argsOf

/-- The contract between an operator and the graph that `add_operator`'s arity
check and `Operator::forward` establish in the C++: a Parameter operator has
no arguments and one return value, a random source has one return value, and
`forward` fills every return value. -/
def KindOK (kind : Kind τ) (args : List Addr) (nret : Nat) : Prop :=
  match kind with
  | .param _ => args = [] ∧ nret = 1
  | .rnd => nret = 1
  | .op sem => ∀ xs ys, sem.fwd xs = some ys → nret ≤ ys.length

/-- Well-formedness of a graph state. -/
structure WF (s : State τ) : Prop where
  /-- arguments refer to existing nodes of earlier operators -/
  args_lt : ∀ (k : Nat) (o : OpInfo τ), s.ops[k]? = some o → ∀ a ∈ o.args, a.oid < k ∧ s.validAddr a = true
  kind_ok : ∀ (k : Nat) (o : OpInfo τ), s.ops[k]? = some o → KindOK o.kind o.args o.rets.length
  /-- the return values of an operator are evaluated together -/
  all_or_none : ∀ (k : Nat) (o : OpInfo τ), s.ops[k]? = some o →
    (∀ n ∈ o.rets, n.value = none) ∨ (∀ n ∈ o.rets, n.value.isSome = true)
  /-- Parameter operators never memoise -/
  param_none : ∀ (k : Nat) (o : OpInfo τ), s.ops[k]? = some o → o.kind.isParam = true → ∀ n ∈ o.rets, n.value = none
  /-- the log lists exactly the evaluated operators -/
  log_iff : ∀ k, k ∈ s.log ↔ s.evaluated k
  log_nodup : s.log.Nodup
  /-- the stream position counts the evaluated random operators -/
  rnd_count : s.rndPos = s.log.countP s.isRnd

/-! ### transfer along `SameVals` -/

theorem strip_eq_iff {o o' : OpInfo τ} (h : o'.strip = o.strip) :
    o'.kind = o.kind ∧ o'.args = o.args ∧ o'.rets.length = o.rets.length ∧
    o'.rets.map (·.value) = o.rets.map (·.value) ∧ o'.rets.map (·.size) = o.rets.map (·.size) := by
  cases o with | mk k a r => cases o' with | mk k' a' r' =>
  simp only [OpInfo.strip, OpInfo.mk.injEq] at h
  obtain ⟨hk, ha, hr⟩ := h
  refine ⟨hk, ha, ?_, ?_, ?_⟩
  · simpa using congrArg List.length hr
  · have := congrArg (List.map (·.value)) hr
    simpa [List.map_map, Function.comp_def, NodeInfo.strip] using this
  · have := congrArg (List.map (·.size)) hr
    simpa [List.map_map, Function.comp_def, NodeInfo.strip] using this

theorem SameVals.op {s s' : State τ} (h : SameVals s s') {k : Nat} {o : OpInfo τ}
    (ho : s.ops[k]? = some o) : ∃ o', s'.ops[k]? = some o' ∧ o'.strip = o.strip := by
  have := congrArg (·[k]?) h.ops
  simp only [List.getElem?_map, ho, Option.map_some] at this
  cases h' : s'.ops[k]? with
  | none => simp [h'] at this
  | some o' => simp [h'] at this; exact ⟨o', rfl, this⟩

theorem map_value_mem {r r' : List (NodeInfo τ)} (h : r'.map (·.value) = r.map (·.value))
    {n' : NodeInfo τ} (hn : n' ∈ r') : ∃ n ∈ r, n.value = n'.value := by
  have : n'.value ∈ r'.map (·.value) := List.mem_map_of_mem hn
  rw [h] at this
  simpa using this

theorem SameVals.op_map {s s' : State τ} (h : SameVals s s') (k : Nat) :
    (s'.ops[k]?).map OpInfo.strip = (s.ops[k]?).map OpInfo.strip := by
  have := congrArg (·[k]?) h.ops
  simpa only [List.getElem?_map] using this

/-- case analysis on operator `k` in two states with the same values -/
theorem SameVals.cases {s s' : State τ} (h : SameVals s s') (k : Nat) :
    (s.ops[k]? = none ∧ s'.ops[k]? = none) ∨
    ∃ o o', s.ops[k]? = some o ∧ s'.ops[k]? = some o' ∧ o'.strip = o.strip := by
  have := h.op_map k
  cases h1 : s.ops[k]? <;> cases h2 : s'.ops[k]? <;> simp [h1, h2] at this ⊢
  exact this

theorem SameVals.validAddr {s s' : State τ} (h : SameVals s s') (a : Addr) :
    s'.validAddr a = s.validAddr a := by
  unfold State.validAddr
  rcases h.cases a.oid with ⟨h1, h2⟩ | ⟨o, o', h1, h2, he⟩
  · simp [h1, h2]
  · simp [h1, h2, (strip_eq_iff he).2.2.1]

theorem SameVals.evaluated {s s' : State τ} (h : SameVals s s') (k : Nat) :
    s'.evaluated k ↔ s.evaluated k := by
  unfold State.evaluated
  rcases h.cases k with ⟨h1, h2⟩ | ⟨o, o', h1, h2, he⟩
  · simp [h1, h2]
  · simp only [h1, h2, Option.some.injEq, exists_eq_left']
    have hv := (strip_eq_iff he).2.2.2.1
    constructor
    · rintro ⟨n', hn', hv'⟩
      obtain ⟨n, hn, e⟩ := map_value_mem hv hn'
      exact ⟨n, hn, e ▸ hv'⟩
    · rintro ⟨n', hn', hv'⟩
      obtain ⟨n, hn, e⟩ := map_value_mem hv.symm hn'
      exact ⟨n, hn, e ▸ hv'⟩

theorem SameVals.isRnd {s s' : State τ} (h : SameVals s s') : s'.isRnd = s.isRnd := by
  funext k
  unfold State.isRnd
  rcases h.cases k with ⟨h1, h2⟩ | ⟨o, o', h1, h2, he⟩
  · simp [h1, h2]
  · simp [h1, h2, (strip_eq_iff he).1]

theorem SameVals.isParam {s s' : State τ} (h : SameVals s s') : s'.isParam = s.isParam := by
  funext k
  unfold State.isParam
  rcases h.cases k with ⟨h1, h2⟩ | ⟨o, o', h1, h2, he⟩
  · simp [h1, h2]
  · simp [h1, h2, (strip_eq_iff he).1]

theorem SameVals.argsOf {s s' : State τ} (h : SameVals s s') : s'.argsOf = s.argsOf := by
  funext k
  unfold State.argsOf
  rcases h.cases k with ⟨h1, h2⟩ | ⟨o, o', h1, h2, he⟩
  · simp [h1, h2]
  · simp [h1, h2, (strip_eq_iff he).2.1]

theorem map_value_getElem? {r r' : List (NodeInfo τ)} (h : r'.map (·.value) = r.map (·.value)) (i : Nat) :
    (r'[i]?).map (·.value) = (r[i]?).map (·.value) := by
  have := congrArg (·[i]?) h
  simpa only [List.getElem?_map] using this

theorem SameVals.node_value {s s' : State τ} (h : SameVals s s') (a : Addr) :
    (s'.node? a).map (·.value) = (s.node? a).map (·.value) := by
  unfold State.node?
  rcases h.cases a.oid with ⟨h1, h2⟩ | ⟨o, o', h1, h2, he⟩
  · simp [h1, h2]
  · simp only [h1, h2]
    exact map_value_getElem? (strip_eq_iff he).2.2.2.1 a.vid

theorem SameVals.valueOf? {s s' : State τ} (h : SameVals s s') (a : Addr) :
    s'.valueOf? a = s.valueOf? a := by
  unfold State.valueOf?
  rcases h.cases a.oid with ⟨h1, h2⟩ | ⟨o, o', h1, h2, he⟩
  · simp [h1, h2]
  · simp only [h1, h2, (strip_eq_iff he).1, h.pvalue]
    have := map_value_getElem? (strip_eq_iff he).2.2.2.1 a.vid
    cases o.kind <;> simp only [] <;>
      cases h3 : o.rets[a.vid]? <;> cases h4 : o'.rets[a.vid]? <;> simp_all

theorem SameVals.wf {s s' : State τ} (h : SameVals s s') (w : WF s) : WF s' := by
  have back : ∀ {k : Nat} {o' : OpInfo τ}, s'.ops[k]? = some o' → ∃ o, s.ops[k]? = some o ∧ o'.strip = o.strip := by
    intro k o' ho'
    rcases h.cases k with ⟨h1, h2⟩ | ⟨o, o2, h1, h2, he⟩
    · simp [h2] at ho'
    · rw [h2] at ho'; cases ho'; exact ⟨o, h1, he⟩
  constructor
  · intro k o' ho' a ha
    obtain ⟨o, ho, he⟩ := back ho'
    rw [(strip_eq_iff he).2.1] at ha
    rw [h.validAddr]
    exact w.args_lt k o ho a ha
  · intro k o' ho'
    obtain ⟨o, ho, he⟩ := back ho'
    obtain ⟨e1, e2, e3, -, -⟩ := strip_eq_iff he
    rw [e1, e2, e3]; exact w.kind_ok k o ho
  · intro k o' ho'
    obtain ⟨o, ho, he⟩ := back ho'
    have hv := (strip_eq_iff he).2.2.2.1
    rcases w.all_or_none k o ho with hn | hs
    · left; intro n' hn'
      obtain ⟨n, hn1, e⟩ := map_value_mem hv hn'
      rw [← e]; exact hn n hn1
    · right; intro n' hn'
      obtain ⟨n, hn1, e⟩ := map_value_mem hv hn'
      rw [← e]; exact hs n hn1
  · intro k o' ho' hp n' hn'
    obtain ⟨o, ho, he⟩ := back ho'
    obtain ⟨e1, -, -, hv, -⟩ := strip_eq_iff he
    obtain ⟨n, hn1, e⟩ := map_value_mem hv hn'
    rw [← e]; exact w.param_none k o ho (e1 ▸ hp) n hn1
  · intro k; rw [h.log, h.evaluated]; exact w.log_iff k
  · rw [h.log]; exact w.log_nodup
  · rw [h.log, h.rndPos, h.isRnd]; exact w.rnd_count

end Primitiv.Graph
