import PrimitivModel.Model.Graph
/-
Helper lemmas for Props/C05 (and whoever needs frame facts about values).
Core Lean only.  Contents, in order:

 * `SameVals s s'` (s' differs from s at most in gradients) and the frame lemmas
   `updNode_sameVals`, `zeroFill_sameVals`, `addContribs_sameVals`,
   `invalidateGrads_sameVals`, `backwardStep_sameVals`, `sweep_sameVals`;
 * observations (`evaluated`, `isParam`, `isRnd`, `argList`, `AncOf`), the operator
   contract `KindOK` and the invariant `WF`; transfer of all of them along `SameVals`;
 * `Ext s s' l` (s' is s after exactly the operators l have been evaluated, with the
   local equation `LocalEq` each of them satisfies): `refl`, `trans`, `wf`, monotonicity
   of values, the single evaluation step `Ext.step` (`storeValues` frame lemmas);
 * `evalSelf` (the tail of `forwardRec`), `forwardRec_unfold`, and the main induction
   `forwardArgs_spec` / `forwardRec_spec` (`FwdSpec`: extension, only ancestors, no
   crash, on success the value and all ancestors evaluated);
 * `forward_ext`, `backward_ext`, `addOperator_wf` (`State.push`), histories (`Op`,
   `step`, `run`, `Op.Admissible`, `run_wf`), `Keeps` (structure and values kept);
 * what a request evaluates (`Evaluates`, `forward_complete`, `forward_memo`);
   `forward_push` (later operators), `forceAll`, `Ext.agree`,
   `forceAll_order_independent`; the evaluation order `plan` / `forward_plan`;
   `forwardRec_fuel`; `DetSub` / `forwardRec_det` / `forceAll_succeeds`;
   `forward_run_adds`.
-/
namespace Primitiv.Graph
variable {τ : Type}

/-! ## Frame lemmas: everything `backward` does after its forward leaves values alone -/


def NodeInfo.strip (n : NodeInfo τ) : NodeInfo τ := { n with grad := none }
def OpInfo.strip (o : OpInfo τ) : OpInfo τ := { o with rets := o.rets.map NodeInfo.strip }

/-- `s'` differs from `s` at most in gradients (node gradients, parameter gradients) -/
structure SameVals (s s' : State τ) : Prop where
  ops : s'.ops.map OpInfo.strip = s.ops.map OpInfo.strip
  log : s'.log = s.log
  rndPos : s'.rndPos = s.rndPos
  pvalue : s'.params.value = s.params.value
  sample : s'.sample = s.sample
  failIn : s'.failIn = s.failIn

theorem SameVals.refl (s : State τ) : SameVals s s := ⟨rfl, rfl, rfl, rfl, rfl, rfl⟩
theorem SameVals.trans {s s1 s2 : State τ} (h1 : SameVals s s1) (h2 : SameVals s1 s2) : SameVals s s2 :=
  ⟨h2.ops.trans h1.ops, h2.log.trans h1.log, h2.rndPos.trans h1.rndPos, h2.pvalue.trans h1.pvalue,
   h2.sample.trans h1.sample, h2.failIn.trans h1.failIn⟩
theorem SameVals.symm {s s1 : State τ} (h1 : SameVals s s1) : SameVals s1 s :=
  ⟨h1.ops.symm, h1.log.symm, h1.rndPos.symm, h1.pvalue.symm, h1.sample.symm, h1.failIn.symm⟩

theorem updRet_strip (o : OpInfo τ) (i : Nat) (f : NodeInfo τ → NodeInfo τ)
    (hf : ∀ n, (f n).strip = n.strip) : (updRet o i f).strip = o.strip := by
  unfold updRet; split
  · rename_i n h
    simp only [OpInfo.strip, List.map_set, hf]
    congr 1
    apply List.ext_getElem?
    intro j
    simp only [List.getElem?_set, List.length_map, List.getElem?_map]
    split
    · subst_vars; simp [h]; exact (List.getElem?_eq_some_iff.1 h).1
    · rfl
  · rfl

theorem updNode_sameVals (s : State τ) (a : Addr) (f : NodeInfo τ → NodeInfo τ)
    (hf : ∀ n, (f n).strip = n.strip) : SameVals s (s.updNode a f) := by
  unfold State.updNode; split
  · rename_i o h
    refine ⟨?_, rfl, rfl, rfl, rfl, rfl⟩
    simp only [List.map_set, updRet_strip o a.vid f hf]
    apply List.ext_getElem?
    intro j
    simp only [List.getElem?_set, List.length_map, List.getElem?_map]
    split
    · subst_vars; simp [h]; exact (List.getElem?_eq_some_iff.1 h).1
    · rfl
  · exact SameVals.refl s

theorem zeroFill_sameVals (T : TOps τ) (s : State τ) (l : List Addr) : SameVals s (zeroFill T s l) := by
  induction l generalizing s with
  | nil => exact SameVals.refl s
  | cons a rest ih =>
    refine (updNode_sameVals s a _ ?_).trans (ih _)
    intro n; cases h : n.grad <;> simp [NodeInfo.strip]

theorem addContribs_sameVals (T : TOps τ) (s : State τ) (l : List (Addr × Option τ)) :
    SameVals s (addContribs T s l) := by
  induction l generalizing s with
  | nil => exact SameVals.refl s
  | cons x rest ih =>
    obtain ⟨a, c⟩ := x
    cases c with
    | none => exact ih s
    | some c =>
      refine (updNode_sameVals s a _ ?_).trans (ih _)
      intro n; cases h : n.grad <;> simp [NodeInfo.strip]

theorem invalidateGrads_sameVals (s : State τ) (oid : Nat) : SameVals s (invalidateGrads s oid) := by
  unfold invalidateGrads; split
  · exact SameVals.refl s
  · rename_i o h
    refine ⟨?_, rfl, rfl, rfl, rfl, rfl⟩
    simp only [List.map_set]
    apply List.ext_getElem?
    intro j
    simp only [List.getElem?_set, List.length_map, List.getElem?_map]
    split
    · subst_vars; simp [h, OpInfo.strip, NodeInfo.strip]; exact (List.getElem?_eq_some_iff.1 h).1
    · rfl

theorem backwardStep_sameVals (T : TOps τ) (s : State τ) (oid : Nat) :
    SameVals s (backwardStep T s oid).1 := by
  unfold backwardStep
  cases h : s.ops[oid]? with
  | none => exact SameVals.refl s
  | some o =>
    dsimp only
    have h1 := zeroFill_sameVals T s (retAddrs oid o)
    have h2 := h1.trans (zeroFill_sameVals T _ o.args)
    by_cases hen : (!(o.rets.any fun n => n.grad.isSome)) = true
    · rw [if_pos hen]; exact SameVals.refl s
    · rw [if_neg hen]
      cases hm : o.args.mapM (zeroFill T s (retAddrs oid o)).valueOf? with
      | none => exact h1
      | some xs =>
        dsimp only
        cases h2o : (zeroFill T (zeroFill T s (retAddrs oid o)) o.args).ops[oid]? with
        | none => exact h2
        | some o2 =>
          dsimp only
          refine h2.trans (SameVals.trans ?_ (invalidateGrads_sameVals _ oid))
          cases o.kind with
          | param p =>
            dsimp only
            cases o2.rets.filterMap (·.grad) with
            | nil => exact SameVals.refl _
            | cons g _ => exact ⟨rfl, rfl, rfl, rfl, rfl, rfl⟩
          | rnd => exact SameVals.refl _
          | op sem => exact addContribs_sameVals T _ _

theorem sweep_sameVals (T : TOps τ) (k : Nat) (s : State τ) : SameVals s (sweep T k s).1 := by
  induction k generalizing s with
  | zero => exact SameVals.refl s
  | succ k ih =>
    unfold sweep
    have h := backwardStep_sameVals T s k
    split
    · rename_i s1 e he; rw [he] at h; exact h
    · rename_i s1 he; rw [he] at h; exact h.trans (ih s1)
/-! ## Observations on states -/

def Kind.isParam : Kind τ → Bool
  | .param _ => true
  | _ => false

def Kind.isRnd : Kind τ → Bool
  | .rnd => true
  | _ => false

/-- some return value of operator `k` holds a memoised value -/
def State.evaluated (s : State τ) (k : Nat) : Prop :=
  ∃ o, s.ops[k]? = some o ∧ ∃ n ∈ o.rets, n.value.isSome = true

def State.isRnd (s : State τ) (k : Nat) : Bool :=
  match s.ops[k]? with
  | some o => o.kind.isRnd
  | none => false

def State.isParam (s : State τ) (k : Nat) : Bool :=
  match s.ops[k]? with
  | some o => o.kind.isParam
  | none => false

def State.argList (s : State τ) (k : Nat) : List Addr :=
  match s.ops[k]? with
  | some o => o.args
  | none => []

/-- `AncF f j k`: `j` is `k` or reachable from `k` through argument edges -/
inductive AncF (f : Nat → List Addr) : Nat → Nat → Prop
  | refl (k : Nat) : AncF f k k
  | step {j k : Nat} {b : Addr} : b ∈ f k → AncF f j b.oid → AncF f j k

/-- `AncOf s j k`: operator `j` is `k` itself or an ancestor of `k` in the graph of `s` -/
def AncOf (s : State τ) : Nat → Nat → Prop := AncF s.argList

/-- The contract between an operator and the graph that `add_operator`'s arity
check and `Operator::forward` establish in the C++: a Parameter operator has
no arguments and one return value, a random source has one return value, and
`forward` fills every return value. -/
def KindOK (kind : Kind τ) (args : List Addr) (nret : Nat) : Prop :=
  match kind with
  | .param _ => args = [] ∧ nret = 1
  | .rnd => nret = 1
  | .op sem => ∀ xs ys, sem.fwd xs = some ys → nret ≤ ys.length

/-- Well-formedness of a graph state. -/
structure WF (s : State τ) : Prop where
  /-- arguments refer to existing nodes of earlier operators -/
  args_lt : ∀ (k : Nat) (o : OpInfo τ), s.ops[k]? = some o → ∀ a ∈ o.args, a.oid < k ∧ s.validAddr a = true
  kind_ok : ∀ (k : Nat) (o : OpInfo τ), s.ops[k]? = some o → KindOK o.kind o.args o.rets.length
  /-- the return values of an operator are evaluated together -/
  all_or_none : ∀ (k : Nat) (o : OpInfo τ), s.ops[k]? = some o →
    (∀ n ∈ o.rets, n.value = none) ∨ (∀ n ∈ o.rets, n.value.isSome = true)
  /-- Parameter operators never memoise -/
  param_none : ∀ (k : Nat) (o : OpInfo τ), s.ops[k]? = some o → o.kind.isParam = true → ∀ n ∈ o.rets, n.value = none
  /-- an evaluated operator's non-parameter arguments are evaluated -/
  closed : ∀ (k : Nat) (o : OpInfo τ), s.ops[k]? = some o → s.evaluated k →
    ∀ b ∈ o.args, s.isParam b.oid = false → s.evaluated b.oid
  /-- the log lists exactly the evaluated operators -/
  log_iff : ∀ k, k ∈ s.log ↔ s.evaluated k
  log_nodup : s.log.Nodup
  /-- the stream position counts the evaluated random operators -/
  rnd_count : s.rndPos = s.log.countP s.isRnd
  /-- the i-th evaluated random operator holds the i-th sample of the stream -/
  rnd_vals : ∀ (i k : Nat), (s.log.filter s.isRnd)[i]? = some k →
    ∃ o n, s.ops[k]? = some o ∧ o.rets[0]? = some n ∧ n.value = some (s.sample i n.size)

/-! ### transfer along `SameVals` -/

theorem strip_eq_iff {o o' : OpInfo τ} (h : o'.strip = o.strip) :
    o'.kind = o.kind ∧ o'.args = o.args ∧ o'.rets.length = o.rets.length ∧
    o'.rets.map (·.value) = o.rets.map (·.value) ∧ o'.rets.map (·.size) = o.rets.map (·.size) := by
  cases o with | mk k a r => cases o' with | mk k' a' r' =>
  simp only [OpInfo.strip, OpInfo.mk.injEq] at h
  obtain ⟨hk, ha, hr⟩ := h
  refine ⟨hk, ha, ?_, ?_, ?_⟩
  · simpa using congrArg List.length hr
  · have := congrArg (List.map (·.value)) hr
    simpa [List.map_map, Function.comp_def, NodeInfo.strip] using this
  · have := congrArg (List.map (·.size)) hr
    simpa [List.map_map, Function.comp_def, NodeInfo.strip] using this

theorem SameVals.op {s s' : State τ} (h : SameVals s s') {k : Nat} {o : OpInfo τ}
    (ho : s.ops[k]? = some o) : ∃ o', s'.ops[k]? = some o' ∧ o'.strip = o.strip := by
  have := congrArg (·[k]?) h.ops
  simp only [List.getElem?_map, ho, Option.map_some] at this
  cases h' : s'.ops[k]? with
  | none => simp [h'] at this
  | some o' => simp [h'] at this; exact ⟨o', rfl, this⟩

theorem map_value_mem {r r' : List (NodeInfo τ)} (h : r'.map (·.value) = r.map (·.value))
    {n' : NodeInfo τ} (hn : n' ∈ r') : ∃ n ∈ r, n.value = n'.value := by
  have : n'.value ∈ r'.map (·.value) := List.mem_map_of_mem hn
  rw [h] at this
  simpa using this

theorem SameVals.op_map {s s' : State τ} (h : SameVals s s') (k : Nat) :
    (s'.ops[k]?).map OpInfo.strip = (s.ops[k]?).map OpInfo.strip := by
  have := congrArg (·[k]?) h.ops
  simpa only [List.getElem?_map] using this

/-- case analysis on operator `k` in two states with the same values -/
theorem SameVals.cases {s s' : State τ} (h : SameVals s s') (k : Nat) :
    (s.ops[k]? = none ∧ s'.ops[k]? = none) ∨
    ∃ o o', s.ops[k]? = some o ∧ s'.ops[k]? = some o' ∧ o'.strip = o.strip := by
  have := h.op_map k
  cases h1 : s.ops[k]? <;> cases h2 : s'.ops[k]? <;> simp [h1, h2] at this ⊢
  exact this

theorem SameVals.validAddr {s s' : State τ} (h : SameVals s s') (a : Addr) :
    s'.validAddr a = s.validAddr a := by
  unfold State.validAddr
  rcases h.cases a.oid with ⟨h1, h2⟩ | ⟨o, o', h1, h2, he⟩
  · simp [h1, h2]
  · simp [h1, h2, (strip_eq_iff he).2.2.1]

theorem SameVals.evaluated {s s' : State τ} (h : SameVals s s') (k : Nat) :
    s'.evaluated k ↔ s.evaluated k := by
  unfold State.evaluated
  rcases h.cases k with ⟨h1, h2⟩ | ⟨o, o', h1, h2, he⟩
  · simp [h1, h2]
  · simp only [h1, h2, Option.some.injEq, exists_eq_left']
    have hv := (strip_eq_iff he).2.2.2.1
    constructor
    · rintro ⟨n', hn', hv'⟩
      obtain ⟨n, hn, e⟩ := map_value_mem hv hn'
      exact ⟨n, hn, e ▸ hv'⟩
    · rintro ⟨n', hn', hv'⟩
      obtain ⟨n, hn, e⟩ := map_value_mem hv.symm hn'
      exact ⟨n, hn, e ▸ hv'⟩

theorem SameVals.isRnd {s s' : State τ} (h : SameVals s s') : s'.isRnd = s.isRnd := by
  funext k
  unfold State.isRnd
  rcases h.cases k with ⟨h1, h2⟩ | ⟨o, o', h1, h2, he⟩
  · simp [h1, h2]
  · simp [h1, h2, (strip_eq_iff he).1]

theorem SameVals.isParam {s s' : State τ} (h : SameVals s s') : s'.isParam = s.isParam := by
  funext k
  unfold State.isParam
  rcases h.cases k with ⟨h1, h2⟩ | ⟨o, o', h1, h2, he⟩
  · simp [h1, h2]
  · simp [h1, h2, (strip_eq_iff he).1]

theorem SameVals.argList {s s' : State τ} (h : SameVals s s') : s'.argList = s.argList := by
  funext k
  unfold State.argList
  rcases h.cases k with ⟨h1, h2⟩ | ⟨o, o', h1, h2, he⟩
  · simp [h1, h2]
  · simp [h1, h2, (strip_eq_iff he).2.1]

theorem map_value_getElem? {r r' : List (NodeInfo τ)} (h : r'.map (·.value) = r.map (·.value)) (i : Nat) :
    (r'[i]?).map (·.value) = (r[i]?).map (·.value) := by
  have := congrArg (·[i]?) h
  simpa only [List.getElem?_map] using this

theorem SameVals.node_value {s s' : State τ} (h : SameVals s s') (a : Addr) :
    (s'.node? a).map (·.value) = (s.node? a).map (·.value) := by
  unfold State.node?
  rcases h.cases a.oid with ⟨h1, h2⟩ | ⟨o, o', h1, h2, he⟩
  · simp [h1, h2]
  · simp only [h1, h2]
    exact map_value_getElem? (strip_eq_iff he).2.2.2.1 a.vid

theorem SameVals.valueOf? {s s' : State τ} (h : SameVals s s') (a : Addr) :
    s'.valueOf? a = s.valueOf? a := by
  unfold State.valueOf?
  rcases h.cases a.oid with ⟨h1, h2⟩ | ⟨o, o', h1, h2, he⟩
  · simp [h1, h2]
  · simp only [h1, h2, (strip_eq_iff he).1, h.pvalue]
    have := map_value_getElem? (strip_eq_iff he).2.2.2.1 a.vid
    cases o.kind <;> simp only [] <;>
      cases h3 : o.rets[a.vid]? <;> cases h4 : o'.rets[a.vid]? <;> simp_all

theorem SameVals.wf {s s' : State τ} (h : SameVals s s') (w : WF s) : WF s' := by
  have back : ∀ {k : Nat} {o' : OpInfo τ}, s'.ops[k]? = some o' → ∃ o, s.ops[k]? = some o ∧ o'.strip = o.strip := by
    intro k o' ho'
    rcases h.cases k with ⟨h1, h2⟩ | ⟨o, o2, h1, h2, he⟩
    · simp [h2] at ho'
    · rw [h2] at ho'; cases ho'; exact ⟨o, h1, he⟩
  constructor
  · intro k o' ho' a ha
    obtain ⟨o, ho, he⟩ := back ho'
    rw [(strip_eq_iff he).2.1] at ha
    rw [h.validAddr]
    exact w.args_lt k o ho a ha
  · intro k o' ho'
    obtain ⟨o, ho, he⟩ := back ho'
    obtain ⟨e1, e2, e3, -, -⟩ := strip_eq_iff he
    rw [e1, e2, e3]; exact w.kind_ok k o ho
  · intro k o' ho'
    obtain ⟨o, ho, he⟩ := back ho'
    have hv := (strip_eq_iff he).2.2.2.1
    rcases w.all_or_none k o ho with hn | hs
    · left; intro n' hn'
      obtain ⟨n, hn1, e⟩ := map_value_mem hv hn'
      rw [← e]; exact hn n hn1
    · right; intro n' hn'
      obtain ⟨n, hn1, e⟩ := map_value_mem hv hn'
      rw [← e]; exact hs n hn1
  · intro k o' ho' hp n' hn'
    obtain ⟨o, ho, he⟩ := back ho'
    obtain ⟨e1, -, -, hv, -⟩ := strip_eq_iff he
    obtain ⟨n, hn1, e⟩ := map_value_mem hv hn'
    rw [← e]; exact w.param_none k o ho (e1 ▸ hp) n hn1
  · intro k o' ho' hev b hb hp
    obtain ⟨o, ho, he⟩ := back ho'
    rw [(strip_eq_iff he).2.1] at hb
    rw [h.isParam] at hp
    rw [h.evaluated] at hev ⊢
    exact w.closed k o ho hev b hb hp
  · intro k; rw [h.log, h.evaluated]; exact w.log_iff k
  · rw [h.log]; exact w.log_nodup
  · rw [h.log, h.rndPos, h.isRnd]; exact w.rnd_count
  · intro i k hik
    rw [h.log, h.isRnd] at hik
    obtain ⟨o, n, e1, e2, e3⟩ := w.rnd_vals i k hik
    obtain ⟨o', ho', he⟩ := h.op e1
    obtain ⟨-, -, -, hv, hsz⟩ := strip_eq_iff he
    have a1 := map_value_getElem? hv 0
    have a2 := congrArg (·[0]?) hsz
    simp only [List.getElem?_map] at a2
    rw [e2] at a1 a2
    cases hn' : o'.rets[0]? with
    | none => simp [hn'] at a1
    | some n' =>
      simp only [hn', Option.map_some, Option.some.injEq] at a1 a2
      exact ⟨o', n', ho', hn', by rw [a1, e3, a2, h.sample]⟩

/-! ## `Ext s s' l`: `s'` is `s` after the operators `l` have been evaluated -/

/-- operator `o` (unevaluated) became `o'` (evaluated) -/
structure OpStored (o o' : OpInfo τ) : Prop where
  kind : o'.kind = o.kind
  args : o'.args = o.args
  sizes : o'.rets.map (·.size) = o.rets.map (·.size)
  grads : o'.rets.map (·.grad) = o.rets.map (·.grad)
  nonparam : o.kind.isParam = false
  nonempty : o.rets ≠ []
  before : ∀ n ∈ o.rets, n.value = none
  after : ∀ n ∈ o'.rets, n.value.isSome = true

/-- what every operation on a graph preserves of an operator -/
structure OpGrow (o o' : OpInfo τ) : Prop where
  kind : o'.kind = o.kind
  args : o'.args = o.args
  sizes : o'.rets.map (·.size) = o.rets.map (·.size)
  grads : o'.rets.map (·.grad) = o.rets.map (·.grad)
  mono : ∀ (i : Nat) (n : NodeInfo τ) (v : τ), o.rets[i]? = some n → n.value = some v → ∃ n', o'.rets[i]? = some n' ∧ n'.value = some v

theorem OpGrow.refl (o : OpInfo τ) : OpGrow o o := ⟨rfl, rfl, rfl, rfl, fun _ n _ h hv => ⟨n, h, hv⟩⟩

theorem OpStored.grow {o o' : OpInfo τ} (h : OpStored o o') : OpGrow o o' :=
  ⟨h.kind, h.args, h.sizes, h.grads, fun i n v hn hv => by
    have := h.before n (List.mem_of_getElem? hn); simp [this] at hv⟩

theorem OpGrow.length {o o' : OpInfo τ} (h : OpGrow o o') : o'.rets.length = o.rets.length := by
  simpa using congrArg List.length h.sizes

/-- the equation the values of a deterministic operator satisfy right after its evaluation -/
def LocalEq (s : State τ) (k : Nat) : Prop :=
  ∀ (o : OpInfo τ), s.ops[k]? = some o →
    ∃ xs, o.args.mapM s.valueOf? = some xs ∧
      ∀ (sem : OpSem τ), o.kind = .op sem → ∃ ys, sem.fwd xs = some ys ∧
        ∀ (i : Nat) (n : NodeInfo τ), o.rets[i]? = some n → n.value = ys[i]?

structure Ext (s s' : State τ) (l : List Nat) : Prop where
  params : s'.params = s.params
  sample : s'.sample = s.sample
  log : s'.log = s.log ++ l
  rndPos : s'.rndPos = s.rndPos + l.countP s.isRnd
  nodup : l.Nodup
  same : ∀ k, k ∉ l → s'.ops[k]? = s.ops[k]?
  stored : ∀ k ∈ l, ∃ o o', s.ops[k]? = some o ∧ s'.ops[k]? = some o' ∧ OpStored o o'
  loc : ∀ k ∈ l, LocalEq s' k
  /-- the random operators among `l` hold the next samples of the stream, in order -/
  rnd : ∀ (i k : Nat), (l.filter s.isRnd)[i]? = some k →
    ∃ o' n, s'.ops[k]? = some o' ∧ o'.rets[0]? = some n ∧
      n.value = some (s.sample (s.rndPos + i) n.size)

theorem Ext.cases {s s' : State τ} {l : List Nat} (h : Ext s s' l) (k : Nat) :
    (s.ops[k]? = none ∧ s'.ops[k]? = none) ∨
    ∃ o o', s.ops[k]? = some o ∧ s'.ops[k]? = some o' ∧ OpGrow o o' := by
  by_cases hk : k ∈ l
  · obtain ⟨o, o', h1, h2, h3⟩ := h.stored k hk
    exact .inr ⟨o, o', h1, h2, h3.grow⟩
  · have := h.same k hk
    cases h1 : s.ops[k]? with
    | none => exact .inl ⟨rfl, by rw [this, h1]⟩
    | some o => exact .inr ⟨o, o, rfl, by rw [this, h1], OpGrow.refl o⟩

theorem Ext.isRnd {s s' : State τ} {l : List Nat} (h : Ext s s' l) : s'.isRnd = s.isRnd := by
  funext k
  unfold State.isRnd
  rcases h.cases k with ⟨h1, h2⟩ | ⟨o, o', h1, h2, he⟩
  · simp [h1, h2]
  · simp [h1, h2, he.kind]

theorem Ext.isParam {s s' : State τ} {l : List Nat} (h : Ext s s' l) : s'.isParam = s.isParam := by
  funext k
  unfold State.isParam
  rcases h.cases k with ⟨h1, h2⟩ | ⟨o, o', h1, h2, he⟩
  · simp [h1, h2]
  · simp [h1, h2, he.kind]

theorem Ext.argList {s s' : State τ} {l : List Nat} (h : Ext s s' l) : s'.argList = s.argList := by
  funext k
  unfold State.argList
  rcases h.cases k with ⟨h1, h2⟩ | ⟨o, o', h1, h2, he⟩
  · simp [h1, h2]
  · simp [h1, h2, he.args]

theorem Ext.validAddr {s s' : State τ} {l : List Nat} (h : Ext s s' l) (a : Addr) :
    s'.validAddr a = s.validAddr a := by
  unfold State.validAddr
  rcases h.cases a.oid with ⟨h1, h2⟩ | ⟨o, o', h1, h2, he⟩
  · simp [h1, h2]
  · simp [h1, h2, he.length]

theorem Ext.length {s s' : State τ} {l : List Nat} (h : Ext s s' l) : s'.ops.length = s.ops.length := by
  apply Nat.le_antisymm
  · apply Nat.le_of_not_lt; intro hlt
    rcases h.cases s.ops.length with ⟨h1, h2⟩ | ⟨o, o', h1, h2, he⟩
    · rw [List.getElem?_eq_none_iff] at h2; omega
    · have := (List.getElem?_eq_some_iff.1 h1).1; omega
  · apply Nat.le_of_not_lt; intro hlt
    rcases h.cases s'.ops.length with ⟨h1, h2⟩ | ⟨o, o', h1, h2, he⟩
    · rw [List.getElem?_eq_none_iff] at h1; omega
    · have := (List.getElem?_eq_some_iff.1 h2).1; omega

theorem Ext.node_mono {s s' : State τ} {l : List Nat} (h : Ext s s' l) {a : Addr} {n : NodeInfo τ} {v : τ}
    (hn : s.node? a = some n) (hv : n.value = some v) :
    ∃ n', s'.node? a = some n' ∧ n'.value = some v := by
  unfold State.node? at hn ⊢
  rcases h.cases a.oid with ⟨h1, h2⟩ | ⟨o, o', h1, h2, he⟩
  · simp [h1] at hn
  · simp only [h1, h2] at hn ⊢
    exact he.mono a.vid n v hn hv

theorem Ext.valueOf_mono {s s' : State τ} {l : List Nat} (h : Ext s s' l) {a : Addr} {v : τ}
    (hv : s.valueOf? a = some v) : s'.valueOf? a = some v := by
  unfold State.valueOf? at hv ⊢
  rcases h.cases a.oid with ⟨h1, h2⟩ | ⟨o, o', h1, h2, he⟩
  · simp [h1] at hv
  · simp only [h1, h2, he.kind, h.params] at hv ⊢
    cases hk : o.kind with
    | param p => simpa [hk] using hv
    | rnd =>
      simp only [hk] at hv ⊢
      cases h3 : o.rets[a.vid]? with
      | none => simp [h3] at hv
      | some n =>
        simp only [h3] at hv
        obtain ⟨n', h4, h5⟩ := he.mono a.vid n v h3 hv
        simp [h4, h5]
    | op sem =>
      simp only [hk] at hv ⊢
      cases h3 : o.rets[a.vid]? with
      | none => simp [h3] at hv
      | some n =>
        simp only [h3] at hv
        obtain ⟨n', h4, h5⟩ := he.mono a.vid n v h3 hv
        simp [h4, h5]

theorem mapM_mono {α β} {f g : α → Option β} {l : List α} {ys : List β}
    (hfg : ∀ a ∈ l, ∀ b, f a = some b → g a = some b) (h : l.mapM f = some ys) : l.mapM g = some ys := by
  induction l generalizing ys with
  | nil => simpa using h
  | cons a rest ih =>
    simp only [List.mapM_cons, Option.bind_eq_bind] at h ⊢
    cases h1 : f a with
    | none => simp [h1] at h
    | some b =>
      simp only [h1, Option.bind_some] at h
      cases h2 : rest.mapM f with
      | none => simp [h2] at h
      | some bs =>
        simp only [h2, Option.bind_some] at h
        rw [hfg a (List.mem_cons_self) b h1, ih (fun a ha => hfg a (List.mem_cons_of_mem _ ha)) h2]
        simpa using h

theorem Ext.evaluated {s s' : State τ} {l : List Nat} (h : Ext s s' l) (k : Nat) :
    s'.evaluated k ↔ s.evaluated k ∨ k ∈ l := by
  unfold State.evaluated
  by_cases hk : k ∈ l
  · obtain ⟨o, o', h1, h2, h3⟩ := h.stored k hk
    simp only [hk, or_true, iff_true, h2, Option.some.injEq, exists_eq_left']
    have hlen := h3.grow.length
    cases hr : o'.rets with
    | nil => rw [hr] at hlen; exact absurd (List.eq_nil_of_length_eq_zero hlen.symm) h3.nonempty
    | cons n r => exact ⟨n, List.mem_cons_self, h3.after n (hr ▸ List.mem_cons_self)⟩
  · simp [hk, h.same k hk]

theorem Ext.refl' {s s' : State τ} (hops : s'.ops = s.ops) (hp : s'.params = s.params)
    (hs : s'.sample = s.sample) (hl : s'.log = s.log) (hr : s'.rndPos = s.rndPos) : Ext s s' [] :=
  ⟨hp, hs, by simp [hl], by simp [hr], List.nodup_nil, fun k _ => by rw [hops],
   fun k hk => by simp at hk, fun k hk => by simp at hk, fun i k hik => by simp at hik⟩

theorem OpGrow.node {o o' : OpInfo τ} (h : OpGrow o o') {i : Nat} {n : NodeInfo τ} {v : τ}
    (hn : o.rets[i]? = some n) (hv : n.value = some v) :
    ∃ n', o'.rets[i]? = some n' ∧ n'.value = some v ∧ n'.size = n.size := by
  obtain ⟨n', hn', hv'⟩ := h.mono i n v hn hv
  refine ⟨n', hn', hv', ?_⟩
  have := congrArg (·[i]?) h.sizes
  simp only [List.getElem?_map, hn, hn', Option.map_some, Option.some.injEq] at this
  exact this

theorem Ext.rnd_mono {s s' : State τ} {l : List Nat} (h : Ext s s' l) {k : Nat} {o : OpInfo τ}
    {n : NodeInfo τ} {v : τ} (ho : s.ops[k]? = some o) (hn : o.rets[0]? = some n) (hv : n.value = some v) :
    ∃ o' n', s'.ops[k]? = some o' ∧ o'.rets[0]? = some n' ∧ n'.value = some v ∧ n'.size = n.size := by
  rcases h.cases k with ⟨h1, _⟩ | ⟨o1, o', h1, h2, g⟩
  · rw [ho] at h1; cases h1
  · rw [ho] at h1; cases h1
    obtain ⟨n', a1, a2, a3⟩ := g.node hn hv
    exact ⟨o', n', h2, a1, a2, a3⟩

theorem Ext.refl (s : State τ) : Ext s s [] := Ext.refl' rfl rfl rfl rfl rfl

theorem LocalEq.mono {s s' : State τ} {l : List Nat} (h : Ext s s' l) {k : Nat} (hk : k ∉ l)
    (he : LocalEq s k) : LocalEq s' k := by
  intro o ho
  rw [h.same k hk] at ho
  obtain ⟨xs, h1, h2⟩ := he o ho
  exact ⟨xs, mapM_mono (fun a _ b hb => h.valueOf_mono hb) h1, h2⟩

theorem Ext.disjoint {s s1 s2 : State τ} {l1 l2 : List Nat} (h1 : Ext s s1 l1) (h2 : Ext s1 s2 l2)
    {k : Nat} (hk1 : k ∈ l1) (hk2 : k ∈ l2) : False := by
  obtain ⟨o, o', _, e2, st⟩ := h1.stored k hk1
  obtain ⟨p, p', e3, _, st'⟩ := h2.stored k hk2
  rw [e2] at e3; cases e3
  cases hr : o'.rets with
  | nil => exact st'.nonempty hr
  | cons n r =>
    have a1 := st.after n (hr ▸ List.mem_cons_self)
    have a2 := st'.before n (hr ▸ List.mem_cons_self)
    simp [a2] at a1

theorem Ext.trans {s s1 s2 : State τ} {l1 l2 : List Nat} (h1 : Ext s s1 l1) (h2 : Ext s1 s2 l2) :
    Ext s s2 (l1 ++ l2) := by
  have hdis : ∀ k, k ∈ l1 → k ∈ l2 → False := fun k => h1.disjoint h2
  refine ⟨h2.params.trans h1.params, h2.sample.trans h1.sample, ?_, ?_, ?_, ?_, ?_, ?_, ?_⟩
  · rw [h2.log, h1.log, List.append_assoc]
  · rw [h2.rndPos, h1.rndPos, h1.isRnd, List.countP_append, Nat.add_assoc]
  · rw [List.nodup_append]
    exact ⟨h1.nodup, h2.nodup, fun a ha b hb hab => hdis a ha (hab ▸ hb)⟩
  · intro k hk
    simp only [List.mem_append, not_or] at hk
    rw [h2.same k hk.2, h1.same k hk.1]
  · intro k hk
    rcases List.mem_append.1 hk with hk | hk
    · obtain ⟨o, o', e1, e2, st⟩ := h1.stored k hk
      exact ⟨o, o', e1, by rw [h2.same k (fun h => hdis k hk h), e2], st⟩
    · obtain ⟨o, o', e1, e2, st⟩ := h2.stored k hk
      exact ⟨o, o', by rw [← h1.same k (fun h => hdis k h hk), e1], e2, st⟩
  · intro k hk
    rcases List.mem_append.1 hk with hk | hk
    · exact LocalEq.mono h2 (fun h => hdis k hk h) (h1.loc k hk)
    · exact h2.loc k hk
  · intro i k hik
    rw [List.filter_append] at hik
    by_cases hi : i < (l1.filter s.isRnd).length
    · rw [List.getElem?_append_left hi] at hik
      obtain ⟨o', n, e1, e2, e3⟩ := h1.rnd i k hik
      obtain ⟨o2, n2, f1, f2, f3, f4⟩ := h2.rnd_mono e1 e2 e3
      exact ⟨o2, n2, f1, f2, by rw [f3, f4]⟩
    · rw [List.getElem?_append_right (Nat.le_of_not_lt hi)] at hik
      have hik' : (l2.filter s1.isRnd)[i - (l1.filter s.isRnd).length]? = some k := by
        rw [h1.isRnd]; exact hik
      obtain ⟨o', n, e1, e2, e3⟩ := h2.rnd _ k hik'
      have : s1.rndPos + (i - (l1.filter s.isRnd).length) = s.rndPos + i := by
        rw [h1.rndPos, List.countP_eq_length_filter]; omega
      rw [h1.sample, this] at e3
      exact ⟨o', n, e1, e2, e3⟩

theorem evaluated_of_valueOf? {s : State τ} {b : Addr} {v : τ} (hv : s.valueOf? b = some v)
    (hp : s.isParam b.oid = false) : s.evaluated b.oid := by
  unfold State.valueOf? at hv
  unfold State.isParam at hp
  cases ho : s.ops[b.oid]? with
  | none => simp [ho] at hv
  | some o =>
    simp only [ho] at hv hp
    cases hk : o.kind with
    | param p => simp [hk, Kind.isParam] at hp
    | rnd =>
      simp only [hk] at hv
      cases hn : o.rets[b.vid]? with
      | none => simp [hn] at hv
      | some n => simp only [hn] at hv; exact ⟨o, ho, n, List.mem_of_getElem? hn, by simp [hv]⟩
    | op sem =>
      simp only [hk] at hv
      cases hn : o.rets[b.vid]? with
      | none => simp [hn] at hv
      | some n => simp only [hn] at hv; exact ⟨o, ho, n, List.mem_of_getElem? hn, by simp [hv]⟩

theorem mapM_some_mem {α β} {f : α → Option β} {l : List α} {ys : List β} (h : l.mapM f = some ys) :
    ∀ a ∈ l, ∃ b, f a = some b := by
  induction l generalizing ys with
  | nil => simp
  | cons a rest ih =>
    simp only [List.mapM_cons, Option.bind_eq_bind] at h
    cases h1 : f a with
    | none => simp [h1] at h
    | some b =>
      simp only [h1, Option.bind_some] at h
      cases h2 : rest.mapM f with
      | none => simp [h2] at h
      | some bs =>
        intro a' ha'
        rcases List.mem_cons.1 ha' with rfl | ha'
        · exact ⟨b, h1⟩
        · exact ih h2 a' ha'

theorem Ext.wf {s s' : State τ} {l : List Nat} (h : Ext s s' l) (w : WF s) : WF s' := by
  have back : ∀ {k : Nat} {o' : OpInfo τ}, s'.ops[k]? = some o' →
      ∃ o, s.ops[k]? = some o ∧ OpGrow o o' := by
    intro k o' ho'
    rcases h.cases k with ⟨h1, h2⟩ | ⟨o, o2, h1, h2, he⟩
    · simp [h2] at ho'
    · rw [h2] at ho'; cases ho'; exact ⟨o, h1, he⟩
  constructor
  · intro k o' ho' a ha
    obtain ⟨o, ho, he⟩ := back ho'
    rw [he.args] at ha
    rw [h.validAddr]
    exact w.args_lt k o ho a ha
  · intro k o' ho'
    obtain ⟨o, ho, he⟩ := back ho'
    rw [he.kind, he.args, he.length]; exact w.kind_ok k o ho
  · intro k o' ho'
    by_cases hk : k ∈ l
    · obtain ⟨o, o2, e1, e2, st⟩ := h.stored k hk
      rw [e2] at ho'; cases ho'
      exact .inr st.after
    · rw [h.same k hk] at ho'; exact w.all_or_none k o' ho'
  · intro k o' ho' hp
    by_cases hk : k ∈ l
    · obtain ⟨o, o2, e1, e2, st⟩ := h.stored k hk
      rw [e2] at ho'; cases ho'
      rw [st.kind, st.nonparam] at hp; cases hp
    · rw [h.same k hk] at ho'; exact w.param_none k o' ho' hp
  · intro k o' ho' hev b hb hp
    by_cases hk : k ∈ l
    · obtain ⟨xs, hxs, -⟩ := h.loc k hk o' ho'
      obtain ⟨v, hv⟩ := mapM_some_mem hxs b hb
      exact evaluated_of_valueOf? hv hp
    · rw [h.same k hk] at ho'
      rw [h.isParam] at hp
      rw [h.evaluated] at hev ⊢
      rcases hev with hev | hev
      · exact .inl (w.closed k o' ho' hev b hb hp)
      · exact absurd hev hk
  · intro k; rw [h.log, h.evaluated, List.mem_append, w.log_iff]
  · rw [h.log, List.nodup_append]
    refine ⟨w.log_nodup, h.nodup, fun a ha b hb hab => ?_⟩
    subst hab
    obtain ⟨o, o2, e1, e2, st⟩ := h.stored a hb
    obtain ⟨o3, e3, n, hn, hv⟩ := (w.log_iff a).1 ha
    rw [e1] at e3; cases e3
    simp [st.before n hn] at hv
  · rw [h.log, h.rndPos, h.isRnd, List.countP_append, w.rnd_count]
  · intro i k hik
    rw [h.log, h.isRnd, List.filter_append] at hik
    by_cases hi : i < (s.log.filter s.isRnd).length
    · rw [List.getElem?_append_left hi] at hik
      obtain ⟨o, n, e1, e2, e3⟩ := w.rnd_vals i k hik
      obtain ⟨o2, n2, f1, f2, f3, f4⟩ := h.rnd_mono e1 e2 e3
      exact ⟨o2, n2, f1, f2, by rw [f3, f4, h.sample]⟩
    · rw [List.getElem?_append_right (Nat.le_of_not_lt hi)] at hik
      obtain ⟨o', n, e1, e2, e3⟩ := h.rnd _ k hik
      have : s.rndPos + (i - (s.log.filter s.isRnd).length) = i := by
        rw [w.rnd_count, List.countP_eq_length_filter]; omega
      rw [this] at e3
      exact ⟨o', n, e1, e2, by rw [e3, h.sample]⟩

/-! ### the evaluation step -/

def storeRets (rets : List (NodeInfo τ)) (vals : List τ) : List (NodeInfo τ) :=
  rets.zipIdx.map fun (n, i) =>
    match vals[i]? with
    | some v => { n with value := some v }
    | none => n

theorem storeRets_getElem? (rets : List (NodeInfo τ)) (vals : List τ) (i : Nat) :
    (storeRets rets vals)[i]? = (rets[i]?).map fun n =>
      match vals[i]? with
      | some v => { n with value := some v }
      | none => n := by
  simp [storeRets, List.getElem?_zipIdx]
  cases rets[i]? <;> simp

theorem storeRets_map_size (rets : List (NodeInfo τ)) (vals : List τ) :
    (storeRets rets vals).map (·.size) = rets.map (·.size) := by
  apply List.ext_getElem?
  intro i
  simp only [List.getElem?_map, storeRets_getElem?]
  cases rets[i]? <;> simp
  cases vals[i]? <;> rfl

theorem storeRets_map_grad (rets : List (NodeInfo τ)) (vals : List τ) :
    (storeRets rets vals).map (·.grad) = rets.map (·.grad) := by
  apply List.ext_getElem?
  intro i
  simp only [List.getElem?_map, storeRets_getElem?]
  cases rets[i]? <;> simp
  cases vals[i]? <;> rfl

theorem storeRets_value (rets : List (NodeInfo τ)) (vals : List τ) (hlen : rets.length ≤ vals.length)
    (i : Nat) (n : NodeInfo τ) (h : (storeRets rets vals)[i]? = some n) : n.value = vals[i]? := by
  rw [storeRets_getElem?] at h
  cases hr : rets[i]? with
  | none => simp [hr] at h
  | some m =>
    have hi : i < vals.length := Nat.lt_of_lt_of_le (List.getElem?_eq_some_iff.1 hr).1 hlen
    simp only [hr, Option.map_some, List.getElem?_eq_getElem hi, Option.some.injEq] at h
    rw [← h, List.getElem?_eq_getElem hi]

theorem storeValues_of_some {s : State τ} {k : Nat} {o : OpInfo τ} (vals : List τ)
    (h : s.ops[k]? = some o) :
    s.storeValues k vals = { s with ops := s.ops.set k { o with rets := storeRets o.rets vals } } := by
  unfold State.storeValues
  rw [h]
  rfl

theorem State.valueOf?_congr {s s' : State τ} {a : Addr} (h : s'.ops[a.oid]? = s.ops[a.oid]?)
    (hp : s'.params = s.params) : s'.valueOf? a = s.valueOf? a := by
  unfold State.valueOf?; rw [h, hp]

theorem mapM_congr {α β} {f g : α → Option β} {l : List α} (h : ∀ a ∈ l, f a = g a) :
    l.mapM f = l.mapM g := by
  induction l with
  | nil => rfl
  | cons a r ih =>
    simp only [List.mapM_cons]
    rw [h a List.mem_cons_self, ih (fun a ha => h a (List.mem_cons_of_mem _ ha))]

theorem Ext.step {s1 sA : State τ} {k : Nat} {o : OpInfo τ} {ys : List τ}
    (ho : s1.ops[k]? = some o) (hops : sA.ops = s1.ops) (hp : sA.params = s1.params)
    (hs : sA.sample = s1.sample) (hl : sA.log = s1.log ++ [k])
    (hr : sA.rndPos = s1.rndPos + if o.kind.isRnd then 1 else 0)
    (hnp : o.kind.isParam = false) (hne : o.rets ≠ []) (hbefore : ∀ n ∈ o.rets, n.value = none)
    (hlen : o.rets.length ≤ ys.length)
    (hargs : ∀ b ∈ o.args, b.oid ≠ k)
    (hloc : ∃ xs, o.args.mapM s1.valueOf? = some xs ∧ ∀ sem, o.kind = .op sem → sem.fwd xs = some ys)
    (hrnd : o.kind.isRnd = true →
      ∃ n, o.rets[0]? = some n ∧ ys[0]? = some (s1.sample s1.rndPos n.size)) :
    Ext s1 (sA.storeValues k ys) [k] := by
  have hoA : sA.ops[k]? = some o := by rw [hops]; exact ho
  have hklt : k < s1.ops.length := (List.getElem?_eq_some_iff.1 ho).1
  rw [storeValues_of_some ys hoA]
  have hget : ∀ j, (sA.ops.set k { o with rets := storeRets o.rets ys })[j]? =
      if j = k then some { o with rets := storeRets o.rets ys } else s1.ops[j]? := by
    intro j
    rw [hops, List.getElem?_set]
    by_cases hj : k = j
    · subst hj; simp [hklt]
    · simp [hj, Ne.symm hj]
  refine ⟨hp, hs, hl, ?_, (by simp), ?_, ?_, ?_, ?_⟩
  · simp only [hr, List.countP_singleton, State.isRnd, ho]
  · intro j hj
    simp only [List.mem_singleton] at hj
    show (sA.ops.set k _)[j]? = _
    rw [hget, if_neg hj]
  · intro j hj
    simp only [List.mem_singleton] at hj; subst hj
    refine ⟨o, { o with rets := storeRets o.rets ys }, ho, ?_, ?_⟩
    · show (sA.ops.set j _)[j]? = _
      rw [hget, if_pos rfl]
    · refine ⟨rfl, rfl, storeRets_map_size _ _, storeRets_map_grad _ _, hnp, hne, hbefore, ?_⟩
      intro n hn
      obtain ⟨i, hi⟩ := List.getElem?_of_mem hn
      have := storeRets_value o.rets ys hlen i n hi
      have hi' : i < ys.length := by
        have := (List.getElem?_eq_some_iff.1 hi).1
        simp [storeRets] at this; omega
      rw [this, List.getElem?_eq_getElem hi']; rfl
  · intro j hj
    simp only [List.mem_singleton] at hj; subst hj
    intro o' ho'
    change (sA.ops.set j _)[j]? = _ at ho'
    rw [hget, if_pos rfl] at ho'
    cases ho'
    obtain ⟨xs, hx1, hx2⟩ := hloc
    refine ⟨xs, ?_, fun sem hkind => ⟨ys, hx2 sem hkind, fun i n hi => storeRets_value o.rets ys hlen i n hi⟩⟩
    rw [← hx1]
    apply mapM_congr
    intro b hb
    apply State.valueOf?_congr
    · show (sA.ops.set j _)[b.oid]? = _
      rw [hget, if_neg (hargs b hb)]
    · exact hp
  · intro i j hij
    have hisr : s1.isRnd k = o.kind.isRnd := by simp [State.isRnd, ho]
    simp only [List.filter_cons, List.filter_nil, hisr] at hij
    cases hkr : o.kind.isRnd with
    | false => simp [hkr] at hij
    | true =>
      simp only [hkr, if_true] at hij
      cases i with
      | succ i => simp at hij
      | zero =>
        simp only [List.getElem?_cons_zero, Option.some.injEq] at hij
        subst hij
        obtain ⟨n, hn, hy⟩ := hrnd hkr
        refine ⟨{ o with rets := storeRets o.rets ys },
          { n with value := some (s1.sample s1.rndPos n.size) }, ?_, ?_, ?_⟩
        · show (sA.ops.set k _)[k]? = _
          rw [hget, if_pos rfl]
        · simp [storeRets_getElem?, hn, hy]
        · simp

/-! ## The main induction over `forwardRec` -/

/-- what one (recursive) forward call from `s` for the nodes `tops` guarantees about
the state `s'` it reaches, `l` being the operators it evaluated -/
structure FwdPost (s : State τ) (tops : List Addr) (s' : State τ) (l : List Nat) : Prop where
  ext : Ext s s' l
  anc : ∀ k ∈ l, ∃ b ∈ tops, AncOf s k b.oid

/-- on success every non-parameter ancestor of the requested nodes is evaluated -/
def FwdDone (s : State τ) (tops : List Addr) (s' : State τ) : Prop :=
  ∀ b ∈ tops, ∀ k, AncOf s k b.oid → s.isParam k = false → s'.evaluated k

structure FwdSpec (s : State τ) (a : Addr) (res : State τ × Except Err τ) : Prop where
  post : ∃ l, FwdPost s [a] res.1 l
  nocrash : res.2 ≠ .error .crash
  ok : ∀ v, res.2 = .ok v → res.1.valueOf? a = some v ∧ FwdDone s [a] res.1

structure ArgsSpec (s : State τ) (bs : List Addr) (res : State τ × Except Err (List τ)) : Prop where
  post : ∃ l, FwdPost s bs res.1 l
  nocrash : res.2 ≠ .error .crash
  ok : ∀ vs, res.2 = .ok vs → bs.mapM res.1.valueOf? = some vs ∧ FwdDone s bs res.1

theorem Ext.anc {s s' : State τ} {l : List Nat} (h : Ext s s' l) : AncOf s' = AncOf s := by
  unfold AncOf; rw [h.argList]

theorem forwardArgs_spec (ev : State τ → Addr → State τ × Except Err τ) (fuel : Nat)
    (hev : ∀ s b, WF s → s.validAddr b = true → b.oid < fuel → FwdSpec s b (ev s b))
    (s : State τ) (bs : List Addr) (w : WF s)
    (hbs : ∀ b ∈ bs, s.validAddr b = true ∧ b.oid < fuel) :
    ArgsSpec s bs (forwardArgsWith ev s bs) := by
  induction bs generalizing s with
  | nil =>
    refine ⟨⟨[], Ext.refl s, by simp⟩, by simp [forwardArgsWith], ?_⟩
    intro vs h
    simp only [forwardArgsWith, Except.ok.injEq] at h
    subst h
    exact ⟨rfl, by simp [FwdDone]⟩
  | cons b rest ih =>
    have hb := hbs b List.mem_cons_self
    have sp := hev s b w hb.1 hb.2
    unfold forwardArgsWith
    cases h1 : ev s b with
    | mk s1 r1 =>
      rw [h1] at sp
      obtain ⟨⟨l1, p1⟩, nc1, ok1⟩ := sp
      simp only at p1 nc1 ok1
      cases r1 with
      | error e =>
        show ArgsSpec s (b :: rest) (s1, Except.error e)
        refine ⟨⟨l1, p1.ext, ?_⟩, (by intro h; injection h with h; subst h; exact nc1 rfl), by simp⟩
        intro k hk
        obtain ⟨b', hb', ha⟩ := p1.anc k hk
        simp only [List.mem_singleton] at hb'; subst hb'
        exact ⟨b', List.mem_cons_self, ha⟩
      | ok v =>
        obtain ⟨hv, hd1⟩ := ok1 v rfl
        have w1 := p1.ext.wf w
        have sp2 := ih s1 w1 (fun b' hb' => by
          rw [p1.ext.validAddr]; exact hbs b' (List.mem_cons_of_mem _ hb'))
        simp only
        cases h2 : forwardArgsWith ev s1 rest with
        | mk s2 r2 =>
          rw [h2] at sp2
          obtain ⟨⟨l2, p2⟩, nc2, ok2⟩ := sp2
          simp only at p2 nc2 ok2
          have hpost : FwdPost s (b :: rest) s2 (l1 ++ l2) := by
            refine ⟨p1.ext.trans p2.ext, ?_⟩
            intro k hk
            rcases List.mem_append.1 hk with hk | hk
            · obtain ⟨b', hb', ha⟩ := p1.anc k hk
              simp only [List.mem_singleton] at hb'; subst hb'
              exact ⟨b', List.mem_cons_self, ha⟩
            · obtain ⟨b', hb', ha⟩ := p2.anc k hk
              rw [p1.ext.anc] at ha
              exact ⟨b', List.mem_cons_of_mem _ hb', ha⟩
          cases r2 with
          | error e => exact ⟨⟨_, hpost⟩, nc2, by simp⟩
          | ok vs =>
            refine ⟨⟨_, hpost⟩, by simp, ?_⟩
            intro vs' hvs'
            simp only [Except.ok.injEq] at hvs'
            subst hvs'
            obtain ⟨hm, hd2⟩ := ok2 vs rfl
            refine ⟨?_, ?_⟩
            · simp only [List.mapM_cons, p2.ext.valueOf_mono hv, hm]; rfl
            · intro b' hb' k hk hp
              rcases List.mem_cons.1 hb' with rfl | hb'
              · exact (p2.ext.evaluated k).2 (.inl (hd1 b' List.mem_cons_self k hk hp))
              · rw [← p1.ext.anc] at hk
                rw [← p1.ext.isParam] at hp
                exact hd2 b' hb' k hk hp

theorem validAddr_iff {s : State τ} {a : Addr} :
    s.validAddr a = true ↔ ∃ o, s.ops[a.oid]? = some o ∧ a.vid < o.rets.length := by
  unfold State.validAddr
  cases s.ops[a.oid]? <;> simp

/-- the part of `forwardRec` that runs the operator's own forward once its arguments are there -/
def evalSelf (kind : Kind τ) (n : NodeInfo τ) (a : Addr) (s1 : State τ) (xs : List τ) :
    State τ × Except Err τ :=
  let faulty := match kind with
    | .op sem => sem.faulty
    | .rnd => true
    | .param _ => false
  match (if faulty then s1.failIn else none) with
  | some 0 => ({ s1 with failIn := none }, .error .error)
  | fi =>
    let s1 := if faulty then { s1 with failIn := fi.map (· - 1) } else s1
    match kind with
    | .param _ => (s1, .error .crash)
    | .rnd =>
      let v := s1.sample s1.rndPos n.size
      let s2 := { s1 with rndPos := s1.rndPos + 1, log := s1.log ++ [a.oid] }
      (s2.storeValues a.oid [v], .ok v)
    | .op sem =>
      match sem.fwd xs with
      | none => (s1, .error .error)
      | some ys =>
        let s2 := ({ s1 with log := s1.log ++ [a.oid] }).storeValues a.oid ys
        match ys[a.vid]? with
        | some v => (s2, .ok v)
        | none => (s2, .error .crash)

theorem forwardRec_unfold (T : TOps τ) (fuel : Nat) (s : State τ) (a : Addr) :
    forwardRec T (fuel + 1) s a =
      match s.ops[a.oid]? with
      | none => (s, .error .crash)
      | some o =>
        match o.kind with
        | .param p => if a.vid = 0 then (s, .ok (s.params.value p)) else (s, .error .crash)
        | kind =>
          match o.rets[a.vid]? with
          | none => (s, .error .crash)
          | some n =>
            match n.value with
            | some v => (s, .ok v)
            | none =>
              match forwardArgsWith (forwardRec T fuel) s o.args with
              | (s1, .error e) => (s1, .error e)
              | (s1, .ok xs) => evalSelf kind n a s1 xs := by
  rfl

theorem valueOf?_storeValues {sA : State τ} {a : Addr} {o : OpInfo τ} {n : NodeInfo τ} {ys : List τ} {v : τ}
    (ho : sA.ops[a.oid]? = some o) (hnp : o.kind.isParam = false) (hn : o.rets[a.vid]? = some n)
    (hv : ys[a.vid]? = some v) : (sA.storeValues a.oid ys).valueOf? a = some v := by
  rw [storeValues_of_some ys ho]
  unfold State.valueOf?
  have hlt := (List.getElem?_eq_some_iff.1 ho).1
  simp only [List.getElem?_set, hlt, if_true]
  cases hk : o.kind with
  | param p => simp [hk, Kind.isParam] at hnp
  | rnd => simp [storeRets_getElem?, hn, hv]
  | op sem => simp [storeRets_getElem?, hn, hv]

theorem evaluated_storeValues {sA : State τ} {a : Addr} {o : OpInfo τ} {n : NodeInfo τ} {ys : List τ} {v : τ}
    (ho : sA.ops[a.oid]? = some o) (hn : o.rets[a.vid]? = some n)
    (hv : ys[a.vid]? = some v) : (sA.storeValues a.oid ys).evaluated a.oid := by
  rw [storeValues_of_some ys ho]
  unfold State.evaluated
  have hlt := (List.getElem?_eq_some_iff.1 ho).1
  simp only [List.getElem?_set, hlt, if_true]
  refine ⟨_, rfl, { n with value := some v }, ?_, rfl⟩
  apply List.mem_of_getElem? (i := a.vid)
  simp [storeRets_getElem?, hn, hv]

theorem evalSelf_spec {s1 : State τ} {a : Addr} {o : OpInfo τ} {n : NodeInfo τ} {xs : List τ}
    (w : WF s1) (ho : s1.ops[a.oid]? = some o) (hn : o.rets[a.vid]? = some n) (hnv : n.value = none)
    (hnp : o.kind.isParam = false) (hxs : o.args.mapM s1.valueOf? = some xs) :
    ∃ l, (∀ k ∈ l, k = a.oid) ∧ Ext s1 (evalSelf o.kind n a s1 xs).1 l ∧
      (evalSelf o.kind n a s1 xs).2 ≠ .error .crash ∧
      ∀ v, (evalSelf o.kind n a s1 xs).2 = .ok v →
        (evalSelf o.kind n a s1 xs).1.valueOf? a = some v ∧ (evalSelf o.kind n a s1 xs).1.evaluated a.oid := by
  have hne : o.rets ≠ [] := by intro h; simp [h] at hn
  have hbefore : ∀ m ∈ o.rets, m.value = none := by
    rcases w.all_or_none _ o ho with h | h
    · exact h
    · have := h n (List.mem_of_getElem? hn); simp [hnv] at this
  have hargs : ∀ b ∈ o.args, b.oid ≠ a.oid := fun b hb => Nat.ne_of_lt (w.args_lt _ o ho b hb).1
  have kok := w.kind_ok _ o ho
  -- the state after the fault counter has been decremented
  have key : ∀ (c : Bool) (x : Option Nat) (ys : List τ) (v : τ), ys[a.vid]? = some v → o.rets.length ≤ ys.length →
      (∀ sem, o.kind = .op sem → sem.fwd xs = some ys) →
      (o.kind.isRnd = true → ∃ n0, o.rets[0]? = some n0 ∧ ys[0]? = some (s1.sample s1.rndPos n0.size)) →
      ∀ sA : State τ, sA.ops = s1.ops → sA.params = s1.params → sA.sample = s1.sample →
        sA.log = s1.log ++ [a.oid] → sA.rndPos = s1.rndPos + (if o.kind.isRnd then 1 else 0) →
      Ext s1 (sA.storeValues a.oid ys) [a.oid] ∧ (sA.storeValues a.oid ys).valueOf? a = some v ∧
        (sA.storeValues a.oid ys).evaluated a.oid := by
    intro c x ys v hv hlen hsem hrnd sA h1 h2 h3 h4 h5
    have hoA : sA.ops[a.oid]? = some o := by rw [h1]; exact ho
    exact ⟨Ext.step ho h1 h2 h3 h4 h5 hnp hne hbefore hlen hargs ⟨xs, hxs, hsem⟩ hrnd,
      valueOf?_storeValues hoA hnp hn hv, evaluated_storeValues hoA hn hv⟩
  cases hk : o.kind with
  | param p => simp [hk, Kind.isParam] at hnp
  | rnd =>
    rw [hk] at kok key
    simp only [KindOK] at kok
    have hvid : a.vid = 0 := by
      have := (List.getElem?_eq_some_iff.1 hn).1; omega
    unfold evalSelf
    simp only [if_true]
    cases hf : s1.failIn with
    | none =>
      obtain ⟨e1, e2, e3⟩ := key true none [s1.sample s1.rndPos n.size] (s1.sample s1.rndPos n.size)
        (by simp [hvid]) (by simp [kok]) (by intro sem h; cases h)
        (fun _ => ⟨n, hvid ▸ hn, by simp⟩)
        { s1 with failIn := none, rndPos := s1.rndPos + 1, log := s1.log ++ [a.oid] } rfl rfl rfl rfl rfl
      refine ⟨[a.oid], by simp, e1, by simp, ?_⟩
      intro v hv; simp only [Except.ok.injEq] at hv; subst hv
      exact ⟨e2, e3⟩
    | some m =>
      cases m with
      | zero =>
        exact ⟨[], by simp, Ext.refl' rfl rfl rfl rfl rfl, by simp, by simp⟩
      | succ m =>
        obtain ⟨e1, e2, e3⟩ := key true none [s1.sample s1.rndPos n.size] (s1.sample s1.rndPos n.size)
          (by simp [hvid]) (by simp [kok]) (by intro sem h; cases h)
          (fun _ => ⟨n, hvid ▸ hn, by simp⟩)
          { s1 with failIn := some m, rndPos := s1.rndPos + 1, log := s1.log ++ [a.oid] } rfl rfl rfl rfl rfl
        refine ⟨[a.oid], by simp, e1, by simp, ?_⟩
        intro v hv; simp only [Except.ok.injEq] at hv; subst hv
        exact ⟨e2, e3⟩
  | op sem =>
    rw [hk] at kok key
    simp only [KindOK] at kok
    -- after the fault schedule has been consulted
    have tail : ∀ sB : State τ, sB.ops = s1.ops → sB.params = s1.params → sB.sample = s1.sample →
        sB.log = s1.log → sB.rndPos = s1.rndPos →
        ∀ res : State τ × Except Err τ,
        res = (match sem.fwd xs with
          | none => (sB, .error .error)
          | some ys =>
            match ys[a.vid]? with
            | some v => (({ sB with log := sB.log ++ [a.oid] }).storeValues a.oid ys, .ok v)
            | none => (({ sB with log := sB.log ++ [a.oid] }).storeValues a.oid ys, .error .crash)) →
        ∃ l, (∀ k ∈ l, k = a.oid) ∧ Ext s1 res.1 l ∧ res.2 ≠ .error .crash ∧
          ∀ v, res.2 = .ok v → res.1.valueOf? a = some v ∧ res.1.evaluated a.oid := by
      intro sB h1 h2 h3 h4 h5 res hres
      cases hfw : sem.fwd xs with
      | none =>
        rw [hfw] at hres; subst hres
        exact ⟨[], by simp, Ext.refl' h1 h2 h3 h4 h5, by simp, by simp⟩
      | some ys =>
        rw [hfw] at hres
        have hlen := kok xs ys hfw
        have hvid : a.vid < ys.length := Nat.lt_of_lt_of_le (List.getElem?_eq_some_iff.1 hn).1 hlen
        simp only [List.getElem?_eq_getElem hvid] at hres
        subst hres
        obtain ⟨e1, e2, e3⟩ := key true none ys ys[a.vid] (List.getElem?_eq_getElem hvid) hlen
          (by intro sem' h; cases h; exact hfw) (by intro h; cases h)
          { sB with log := sB.log ++ [a.oid] } h1 h2 h3 (by simp [h4]) (by simp [h5, Kind.isRnd])
        refine ⟨[a.oid], by simp, e1, by simp, ?_⟩
        intro v hv; simp only [Except.ok.injEq] at hv; subst hv
        exact ⟨e2, e3⟩
    unfold evalSelf
    cases hfa : sem.faulty with
    | false =>
      simp only [hfa, Bool.false_eq_true, if_false]
      exact tail s1 rfl rfl rfl rfl rfl _ rfl
    | true =>
      simp only [hfa, if_true]
      cases hf : s1.failIn with
      | none => exact tail { s1 with failIn := none } rfl rfl rfl rfl rfl _ rfl
      | some m =>
        cases m with
        | zero => exact ⟨[], by simp, Ext.refl' rfl rfl rfl rfl rfl, by simp, by simp⟩
        | succ m => exact tail { s1 with failIn := some m } rfl rfl rfl rfl rfl _ rfl

theorem AncOf.refl (s : State τ) (k : Nat) : AncOf s k k := AncF.refl k

theorem AncOf.of_arg {s : State τ} {k j : Nat} {o : OpInfo τ} {b : Addr} (ho : s.ops[k]? = some o)
    (hb : b ∈ o.args) (h : AncOf s j b.oid) : AncOf s j k := by
  refine AncF.step (b := b) ?_ h
  simp [State.argList, ho, hb]

/-- an ancestor of `k` is `k` itself or an ancestor of one of its arguments -/
theorem AncOf.cases {s : State τ} {k j : Nat} (h : AncOf s j k) :
    j = k ∨ ∃ o b, s.ops[k]? = some o ∧ b ∈ o.args ∧ AncOf s j b.oid := by
  cases h with
  | refl => exact .inl rfl
  | step hb h =>
    rename_i b
    right
    unfold State.argList at hb
    cases ho : s.ops[k]? with
    | none => simp [ho] at hb
    | some o => simp only [ho] at hb; exact ⟨o, b, rfl, hb, h⟩

theorem evaluated_of_node {s : State τ} {a : Addr} {o : OpInfo τ} {n : NodeInfo τ} {v : τ}
    (ho : s.ops[a.oid]? = some o) (hn : o.rets[a.vid]? = some n) (hv : n.value = some v) :
    s.evaluated a.oid := ⟨o, ho, n, List.mem_of_getElem? hn, by simp [hv]⟩

theorem WF.closed_anc {s : State τ} (w : WF s) {j k : Nat} (h : AncOf s j k) (hev : s.evaluated k)
    (hp : s.isParam j = false) : s.evaluated j := by
  induction h with
  | refl => exact hev
  | step hb h ih =>
    rename_i k b
    unfold State.argList at hb
    cases ho : s.ops[k]? with
    | none => simp [ho] at hb
    | some o =>
      simp only [ho] at hb
      by_cases hpb : s.isParam b.oid = true
      · -- a parameter has no arguments: `j` is that parameter
        rcases AncOf.cases h with rfl | ⟨o', b', ho', hb', _⟩
        · rw [hpb] at hp; cases hp
        · have := w.kind_ok _ o' ho'
          simp only [State.isParam, ho'] at hpb
          cases hk : o'.kind with
          | param p => rw [hk] at this; simp only [KindOK] at this; simp [this.1] at hb'
          | rnd => simp [hk, Kind.isParam] at hpb
          | op sem => simp [hk, Kind.isParam] at hpb
      · exact ih (w.closed k o ho hev b hb (by simpa using hpb))

theorem WF.anc_le {s : State τ} (w : WF s) {j k : Nat} (h : AncOf s j k) : j ≤ k := by
  induction h with
  | refl => exact Nat.le_refl _
  | step hb h ih =>
    rename_i k b
    unfold State.argList at hb
    cases ho : s.ops[k]? with
    | none => simp [ho] at hb
    | some o =>
      simp only [ho] at hb
      have := (w.args_lt k o ho b hb).1
      omega

theorem forwardRec_succ_nonparam (T : TOps τ) (fuel : Nat) {s : State τ} {a : Addr} {o : OpInfo τ}
    (ho : s.ops[a.oid]? = some o) (hnp : o.kind.isParam = false) :
    forwardRec T (fuel + 1) s a =
      match o.rets[a.vid]? with
      | none => (s, .error .crash)
      | some n =>
        match n.value with
        | some v => (s, .ok v)
        | none =>
          match forwardArgsWith (forwardRec T fuel) s o.args with
          | (s1, .error e) => (s1, .error e)
          | (s1, .ok xs) => evalSelf o.kind n a s1 xs := by
  rw [forwardRec_unfold]
  simp only [ho]
  cases hk : o.kind with
  | param p => simp [hk, Kind.isParam] at hnp
  | rnd => rfl
  | op sem => rfl

theorem forwardRec_spec (T : TOps τ) (fuel : Nat) :
    ∀ (s : State τ) (a : Addr), WF s → s.validAddr a = true → a.oid < fuel →
      FwdSpec s a (forwardRec T fuel s a) := by
  induction fuel with
  | zero => intro s a _ _ h; omega
  | succ fuel ih =>
    intro s a w hv hlt
    obtain ⟨o, ho, hvid⟩ := validAddr_iff.1 hv
    obtain ⟨n, hn⟩ : ∃ n, o.rets[a.vid]? = some n := ⟨_, List.getElem?_eq_getElem hvid⟩
    have kok := w.kind_ok _ o ho
    have hself : s.isParam a.oid = o.kind.isParam := by simp [State.isParam, ho]
    -- the two immediate returns
    have immediate : ∀ v, s.valueOf? a = some v → (o.kind.isParam = false → s.evaluated a.oid) →
        FwdSpec s a (s, .ok v) := by
      intro v hval hev
      refine ⟨⟨[], Ext.refl s, by simp⟩, by simp, ?_⟩
      intro v' hv'
      simp only [Except.ok.injEq] at hv'; subst hv'
      refine ⟨hval, ?_⟩
      intro b hb k hk hp
      simp only [List.mem_singleton] at hb; subst hb
      by_cases hpa : o.kind.isParam = true
      · rcases hk.cases with rfl | ⟨o', b', ho', hb', hk'⟩
        · rw [hself, hpa] at hp; cases hp
        · rw [ho] at ho'; cases ho'
          cases hkind : o.kind with
          | param p => rw [hkind] at kok; simp only [KindOK] at kok; simp [kok.1] at hb'
          | rnd => simp [hkind, Kind.isParam] at hpa
          | op sem => simp [hkind, Kind.isParam] at hpa
      · exact w.closed_anc hk (hev (by simpa using hpa)) hp
    by_cases hnp : o.kind.isParam = true
    · cases hk : o.kind with
      | rnd => simp [hk, Kind.isParam] at hnp
      | op sem => simp [hk, Kind.isParam] at hnp
      | param p =>
        rw [hk] at kok; simp only [KindOK] at kok
        have h0 : a.vid = 0 := by omega
        rw [forwardRec_unfold]
        simp only [ho, hk, h0, if_true]
        apply immediate
        · simp [State.valueOf?, ho, hk, h0]
        · simp [hk, Kind.isParam]
    · have hnp : o.kind.isParam = false := by simpa using hnp
      rw [forwardRec_succ_nonparam T fuel ho hnp]
      simp only [hn]
      cases hval : n.value with
      | some v =>
        simp only
        apply immediate
        · unfold State.valueOf?
          cases hk : o.kind with
          | param p => simp [hk, Kind.isParam] at hnp
          | rnd => simp [ho, hk, hn, hval]
          | op sem => simp [ho, hk, hn, hval]
        · intro _; exact evaluated_of_node ho hn hval
      | none =>
        simp only
        have hargs := w.args_lt _ o ho
        have sp := forwardArgs_spec (forwardRec T fuel) fuel ih s o.args w
          (fun b hb => ⟨(hargs b hb).2, by have := (hargs b hb).1; omega⟩)
        cases h1 : forwardArgsWith (forwardRec T fuel) s o.args with
        | mk s1 r1 =>
          rw [h1] at sp
          obtain ⟨⟨l1, p1⟩, nc1, ok1⟩ := sp
          simp only at p1 nc1 ok1
          have anc1 : ∀ k ∈ l1, ∃ b ∈ [a], AncOf s k b.oid := by
            intro k hk
            obtain ⟨b, hb, hkb⟩ := p1.anc k hk
            exact ⟨a, List.mem_singleton_self a, AncOf.of_arg ho hb hkb⟩
          cases r1 with
          | error e =>
            exact ⟨⟨l1, p1.ext, anc1⟩, (by intro h; injection h with h; subst h; exact nc1 rfl), by simp⟩
          | ok xs =>
            obtain ⟨hxs, hd1⟩ := ok1 xs rfl
            have w1 := p1.ext.wf w
            have ho1 : s1.ops[a.oid]? = some o := by
              rw [p1.ext.same]; exact ho
              intro hmem
              obtain ⟨b, hb, hkb⟩ := p1.anc _ hmem
              have := w.anc_le hkb
              have := (hargs b hb).1
              omega
            obtain ⟨l2, hl2, e2, nc2, ok2⟩ := evalSelf_spec w1 ho1 hn hval hnp hxs
            simp only
            refine ⟨⟨l1 ++ l2, p1.ext.trans e2, ?_⟩, nc2, ?_⟩
            · intro k hk
              rcases List.mem_append.1 hk with hk | hk
              · exact anc1 k hk
              · exact ⟨a, List.mem_singleton_self a, hl2 k hk ▸ AncOf.refl s a.oid⟩
            · intro v hv
              obtain ⟨hv1, hev⟩ := ok2 v hv
              refine ⟨hv1, ?_⟩
              intro b hb k hk hp
              simp only [List.mem_singleton] at hb; subst hb
              rcases hk.cases with rfl | ⟨o', b', ho', hb', hk'⟩
              · exact hev
              · rw [ho] at ho'; cases ho'
                exact (e2.evaluated k).2 (.inl (hd1 b' hb' k hk' hp))

/-! ## `forward`, `backward`, `addOperator` as state transformers -/

theorem forward_spec (T : TOps τ) {s : State τ} {a : Addr} (w : WF s) (hv : s.validAddr a = true) :
    FwdSpec s a (forward T s a) := by
  unfold forward
  rw [if_pos hv]
  exact forwardRec_spec T (a.oid + 1) s a w hv (Nat.lt_succ_self _)

/-- whatever the address, `forward` extends the state by evaluations -/
theorem forward_ext (T : TOps τ) {s : State τ} (a : Addr) (w : WF s) :
    ∃ l, Ext s (forward T s a).1 l ∧ ∀ k ∈ l, AncOf s k a.oid := by
  by_cases hv : s.validAddr a = true
  · obtain ⟨l, p⟩ := (forward_spec T w hv).post
    refine ⟨l, p.ext, fun k hk => ?_⟩
    obtain ⟨b, hb, h⟩ := p.anc k hk
    simp only [List.mem_singleton] at hb; subst hb; exact h
  · unfold forward; rw [if_neg hv]; exact ⟨[], Ext.refl s, by simp⟩

/-- `backward` = a forward (possibly) followed by gradient-only updates -/
theorem backward_ext (T : TOps τ) {s : State τ} (a : Addr) (w : WF s) :
    ∃ l s1, Ext s s1 l ∧ (∀ k ∈ l, AncOf s k a.oid) ∧ SameVals s1 (backward T s a).1 := by
  unfold backward
  by_cases hv : s.validAddr a = true
  · simp only [hv, Bool.not_true, Bool.false_eq_true, if_false]
    cases hn : s.node? a with
    | none => exact ⟨[], s, Ext.refl s, by simp, SameVals.refl s⟩
    | some n =>
      simp only
      by_cases hval : n.value.isSome = true
      · simp only [hval, if_true]
        exact ⟨[], s, Ext.refl s, by simp,
          (updNode_sameVals s a (fun n => { n with grad := some (T.ones n.size) }) (fun _ => rfl)).trans
            (sweep_sameVals T _ _)⟩
      · have hval : n.value.isSome = false := by simpa using hval
        simp only [hval, Bool.false_eq_true, if_false]
        obtain ⟨l, e, hl⟩ := forward_ext T a w
        cases hf : forward T s a with
        | mk s1 r =>
          rw [hf] at e
          cases r with
          | error err => exact ⟨l, s1, e, hl, SameVals.refl s1⟩
          | ok v =>
            exact ⟨l, s1, e, hl,
              (updNode_sameVals s1 a (fun n => { n with grad := some (T.ones n.size) }) (fun _ => rfl)).trans
                (sweep_sameVals T _ _)⟩
  · simp only [hv, Bool.not_false, if_true]
    exact ⟨[], s, Ext.refl s, by simp, SameVals.refl s⟩

theorem backward_wf (T : TOps τ) {s : State τ} (a : Addr) (w : WF s) : WF (backward T s a).1 := by
  obtain ⟨l, s1, e, _, sv⟩ := backward_ext T a w
  exact sv.wf (e.wf w)

theorem forward_wf (T : TOps τ) {s : State τ} (a : Addr) (w : WF s) : WF (forward T s a).1 := by
  obtain ⟨l, e, _⟩ := forward_ext T a w
  exact e.wf w

/-! ### add_operator -/

def State.push (s : State τ) (o : OpInfo τ) : State τ := { s with ops := s.ops ++ [o] }

def freshOp (kind : Kind τ) (args : List Addr) (sizes : List Nat) : OpInfo τ :=
  { kind := kind, args := args, rets := sizes.map fun n => ({ size := n } : NodeInfo τ) }

theorem addOperator_eq (s : State τ) (kind : Kind τ) (args : List Addr) (sizes : List Nat) :
    addOperator s kind args sizes =
      if args.all s.validAddr then .ok (s.push (freshOp kind args sizes), s.ops.length) else .error .crash := rfl

theorem push_getElem?_lt {s : State τ} {o : OpInfo τ} {k : Nat} (h : k < s.ops.length) :
    (s.push o).ops[k]? = s.ops[k]? := by
  simp [State.push, List.getElem?_append_left h]

theorem push_getElem?_some {s : State τ} {o o' : OpInfo τ} {k : Nat} (h : s.ops[k]? = some o') :
    (s.push o).ops[k]? = some o' := by
  rw [push_getElem?_lt (List.getElem?_eq_some_iff.1 h).1, h]

theorem push_getElem?_cases {s : State τ} {o o' : OpInfo τ} {k : Nat} (h : (s.push o).ops[k]? = some o') :
    s.ops[k]? = some o' ∨ (k = s.ops.length ∧ o' = o) := by
  by_cases hk : k < s.ops.length
  · left; rw [← push_getElem?_lt hk]; exact h
  · right
    have hlen := (List.getElem?_eq_some_iff.1 h).1
    simp only [State.push, List.length_append, List.length_singleton] at hlen
    have : k = s.ops.length := by omega
    subst this
    simp [State.push] at h
    exact ⟨rfl, h.symm⟩

theorem validAddr_push {s : State τ} {o : OpInfo τ} {a : Addr} (h : s.validAddr a = true) :
    (s.push o).validAddr a = true := by
  obtain ⟨o', ho', hv⟩ := validAddr_iff.1 h
  exact validAddr_iff.2 ⟨o', push_getElem?_some ho', hv⟩

theorem evaluated_push {s : State τ} {o : OpInfo τ} (hnone : ∀ n ∈ o.rets, n.value = none) (k : Nat) :
    (s.push o).evaluated k ↔ s.evaluated k := by
  constructor
  · rintro ⟨o', ho', n, hn, hv⟩
    rcases push_getElem?_cases ho' with h | ⟨_, rfl⟩
    · exact ⟨o', h, n, hn, hv⟩
    · simp [hnone n hn] at hv
  · rintro ⟨o', ho', n, hn, hv⟩
    exact ⟨o', push_getElem?_some ho', n, hn, hv⟩

theorem isParam_push {s : State τ} {o : OpInfo τ} {k : Nat} (hk : k < s.ops.length) :
    (s.push o).isParam k = s.isParam k := by
  simp [State.isParam, push_getElem?_lt hk]

theorem isRnd_push {s : State τ} {o : OpInfo τ} {k : Nat} (hk : k < s.ops.length) :
    (s.push o).isRnd k = s.isRnd k := by
  simp [State.isRnd, push_getElem?_lt hk]

theorem evaluated_lt {s : State τ} {k : Nat} (h : s.evaluated k) : k < s.ops.length := by
  obtain ⟨o, ho, _⟩ := h
  exact (List.getElem?_eq_some_iff.1 ho).1

theorem validAddr_oid_lt {s : State τ} {a : Addr} (h : s.validAddr a = true) : a.oid < s.ops.length := by
  obtain ⟨o, ho, _⟩ := validAddr_iff.1 h
  exact (List.getElem?_eq_some_iff.1 ho).1

theorem WF.push {s : State τ} (w : WF s) {o : OpInfo τ} (hargs : ∀ a ∈ o.args, s.validAddr a = true)
    (hk : KindOK o.kind o.args o.rets.length) (hnone : ∀ n ∈ o.rets, n.value = none) : WF (s.push o) := by
  constructor
  · intro k o' ho' a ha
    rcases push_getElem?_cases ho' with h | ⟨rfl, rfl⟩
    · have := w.args_lt k o' h a ha
      exact ⟨this.1, validAddr_push this.2⟩
    · exact ⟨validAddr_oid_lt (hargs a ha), validAddr_push (hargs a ha)⟩
  · intro k o' ho'
    rcases push_getElem?_cases ho' with h | ⟨rfl, rfl⟩
    · exact w.kind_ok k o' h
    · exact hk
  · intro k o' ho'
    rcases push_getElem?_cases ho' with h | ⟨rfl, rfl⟩
    · exact w.all_or_none k o' h
    · exact .inl hnone
  · intro k o' ho' hp
    rcases push_getElem?_cases ho' with h | ⟨rfl, rfl⟩
    · exact w.param_none k o' h hp
    · exact hnone
  · intro k o' ho' hev b hb hp
    rw [evaluated_push hnone] at hev ⊢
    rcases push_getElem?_cases ho' with h | ⟨rfl, rfl⟩
    · have hlt := validAddr_oid_lt (w.args_lt k o' h b hb).2
      rw [isParam_push hlt] at hp
      exact w.closed k o' h hev b hb hp
    · exact absurd (evaluated_lt hev) (Nat.lt_irrefl _)
  · intro k
    rw [evaluated_push hnone]
    exact w.log_iff k
  · exact w.log_nodup
  · show s.rndPos = s.log.countP (s.push o).isRnd
    rw [w.rnd_count]
    apply List.countP_congr
    intro k hk
    rw [isRnd_push (evaluated_lt ((w.log_iff k).1 hk))]
  · intro i k hik
    have hf : s.log.filter (s.push o).isRnd = s.log.filter s.isRnd :=
      List.filter_congr (fun k hk => isRnd_push (evaluated_lt ((w.log_iff k).1 hk)))
    change (s.log.filter (s.push o).isRnd)[i]? = some k at hik
    rw [hf] at hik
    obtain ⟨o1, n, e1, e2, e3⟩ := w.rnd_vals i k hik
    exact ⟨o1, n, push_getElem?_some e1, e2, e3⟩

theorem addOperator_wf {s s' : State τ} {kind : Kind τ} {args : List Addr} {sizes : List Nat} {id : Nat}
    (w : WF s) (hk : KindOK kind args sizes.length)
    (h : addOperator s kind args sizes = .ok (s', id)) : WF s' := by
  rw [addOperator_eq] at h
  split at h
  · rename_i hall
    simp only [Except.ok.injEq, Prod.mk.injEq] at h
    rw [← h.1]
    apply w.push
    · simpa [freshOp] using hall
    · simpa [freshOp] using hk
    · simp [freshOp]
  · cases h

/-! ## Histories -/

/-- the operations a program can apply to a graph (and to the parameters it uses) -/
inductive Op (τ : Type) where
  | addOperator (kind : Kind τ) (args : List Addr) (sizes : List Nat)
  | forward (a : Addr)
  | backward (a : Addr)
  /-- an optimizer update (or any other in-place write) of a parameter value -/
  | setParamValue (p : Nat) (v : τ)
  /-- schedule a failure of the (k+1)-th operator forward from now -/
  | setFail (k : Nat)

def State.setParamValue (s : State τ) (p : Nat) (v : τ) : State τ :=
  { s with params := { s.params with value := fun q => if q = p then v else s.params.value q } }

/-- one operation; a failing operation keeps the state it reached, as the model does -/
def step (T : TOps τ) (s : State τ) : Op τ → State τ
  | .addOperator kind args sizes =>
    match addOperator s kind args sizes with
    | .ok (s', _) => s'
    | .error _ => s
  | .forward a => (forward T s a).1
  | .backward a => (backward T s a).1
  | .setParamValue p v => s.setParamValue p v
  | .setFail k => { s with failIn := some k }

def run (T : TOps τ) (s : State τ) (h : List (Op τ)) : State τ := h.foldl (step T) s

/-- the empty graph -/
def State.empty (params : Params τ) (sample : Nat → Nat → τ) : State τ :=
  { ops := [], params := params, sample := sample }

/-- operators obey the contract `KindOK` (see there) -/
def Op.Admissible : Op τ → Prop
  | .addOperator kind args sizes => KindOK kind args sizes.length
  | _ => True

theorem WF.empty (params : Params τ) (sample : Nat → Nat → τ) : WF (State.empty params sample) := by
  constructor <;> simp [State.empty, State.evaluated]

theorem WF.of_ops_eq {s s' : State τ} (w : WF s) (h1 : s'.ops = s.ops) (h2 : s'.log = s.log)
    (h3 : s'.rndPos = s.rndPos) (h4 : s'.sample = s.sample) : WF s' := by
  have hev : ∀ k, s'.evaluated k ↔ s.evaluated k := by intro k; simp [State.evaluated, h1]
  have hv : ∀ a, s'.validAddr a = s.validAddr a := by intro a; simp [State.validAddr, h1]
  have hp : s'.isParam = s.isParam := by funext k; simp [State.isParam, h1]
  have hr : s'.isRnd = s.isRnd := by funext k; simp [State.isRnd, h1]
  constructor
  · intro k o ho; rw [h1] at ho; intro a ha; rw [hv]; exact w.args_lt k o ho a ha
  · intro k o ho; rw [h1] at ho; exact w.kind_ok k o ho
  · intro k o ho; rw [h1] at ho; exact w.all_or_none k o ho
  · intro k o ho; rw [h1] at ho; exact w.param_none k o ho
  · intro k o ho; rw [h1] at ho; rw [hev, hp]; intro he b hb; rw [hev]; exact w.closed k o ho he b hb
  · intro k; rw [h2, hev]; exact w.log_iff k
  · rw [h2]; exact w.log_nodup
  · rw [h2, h3, hr]; exact w.rnd_count
  · intro i k hik; rw [h2, hr] at hik; rw [h1, h4]; exact w.rnd_vals i k hik

theorem step_wf (T : TOps τ) {s : State τ} (w : WF s) {op : Op τ} (hop : op.Admissible) :
    WF (step T s op) := by
  cases op with
  | addOperator kind args sizes =>
    simp only [step]
    cases h : addOperator s kind args sizes with
    | error e => exact w
    | ok r => obtain ⟨s', id⟩ := r; exact addOperator_wf w hop h
  | forward a => exact forward_wf T a w
  | backward a => exact backward_wf T a w
  | setParamValue p v => exact w.of_ops_eq rfl rfl rfl rfl
  | setFail k => exact w.of_ops_eq rfl rfl rfl rfl

theorem run_wf (T : TOps τ) {s : State τ} (w : WF s) (h : List (Op τ)) (hadm : ∀ op ∈ h, op.Admissible) :
    WF (run T s h) := by
  induction h generalizing s with
  | nil => exact w
  | cons op rest ih =>
    exact ih (step_wf T w (hadm op List.mem_cons_self)) (fun op' h' => hadm op' (List.mem_cons_of_mem _ h'))

theorem run_append (T : TOps τ) (s : State τ) (h h' : List (Op τ)) :
    run T s (h ++ h') = run T (run T s h) h' := by
  simp [run, List.foldl_append]

/-! ### what no operation ever changes -/

/-- operator `o` keeps its structure and every value it has -/
structure OpKeeps (o o' : OpInfo τ) : Prop where
  kind : o'.kind = o.kind
  args : o'.args = o.args
  sizes : o'.rets.map (·.size) = o.rets.map (·.size)
  mono : ∀ (i : Nat) (n : NodeInfo τ) (v : τ), o.rets[i]? = some n → n.value = some v →
    ∃ n', o'.rets[i]? = some n' ∧ n'.value = some v

def Keeps (s s' : State τ) : Prop :=
  ∀ (k : Nat) (o : OpInfo τ), s.ops[k]? = some o → ∃ o', s'.ops[k]? = some o' ∧ OpKeeps o o'

theorem OpKeeps.refl (o : OpInfo τ) : OpKeeps o o := ⟨rfl, rfl, rfl, fun _ n _ h hv => ⟨n, h, hv⟩⟩

theorem Keeps.refl (s : State τ) : Keeps s s := fun _ o ho => ⟨o, ho, OpKeeps.refl o⟩

theorem Keeps.of_ops_eq {s s' : State τ} (h : s'.ops = s.ops) : Keeps s s' :=
  fun _ o ho => ⟨o, h ▸ ho, OpKeeps.refl o⟩

theorem Keeps.trans {s s1 s2 : State τ} (h1 : Keeps s s1) (h2 : Keeps s1 s2) : Keeps s s2 := by
  intro k o ho
  obtain ⟨o1, ho1, k1⟩ := h1 k o ho
  obtain ⟨o2, ho2, k2⟩ := h2 k o1 ho1
  refine ⟨o2, ho2, k2.kind.trans k1.kind, k2.args.trans k1.args, k2.sizes.trans k1.sizes, ?_⟩
  intro i n v hn hv
  obtain ⟨n1, hn1, hv1⟩ := k1.mono i n v hn hv
  exact k2.mono i n1 v hn1 hv1

theorem Ext.keeps {s s' : State τ} {l : List Nat} (h : Ext s s' l) : Keeps s s' := by
  intro k o ho
  rcases h.cases k with ⟨h1, _⟩ | ⟨o1, o', h1, h2, g⟩
  · rw [ho] at h1; cases h1
  · rw [ho] at h1; cases h1
    exact ⟨o', h2, g.kind, g.args, g.sizes, g.mono⟩

theorem SameVals.keeps {s s' : State τ} (h : SameVals s s') : Keeps s s' := by
  intro k o ho
  obtain ⟨o', ho', he⟩ := h.op ho
  obtain ⟨e1, e2, _, e4, e5⟩ := strip_eq_iff he
  refine ⟨o', ho', e1, e2, e5, ?_⟩
  intro i n v hn hv
  have := map_value_getElem? e4 i
  rw [hn] at this
  cases hn' : o'.rets[i]? with
  | none => simp [hn'] at this
  | some n' => simp [hn'] at this; exact ⟨n', rfl, by rw [this, hv]⟩

theorem Keeps.push (s : State τ) (o : OpInfo τ) : Keeps s (s.push o) :=
  fun _ o' ho' => ⟨o', push_getElem?_some ho', OpKeeps.refl o'⟩

theorem step_keeps (T : TOps τ) {s : State τ} (w : WF s) (op : Op τ) : Keeps s (step T s op) := by
  cases op with
  | addOperator kind args sizes =>
    simp only [step]
    rw [addOperator_eq]
    by_cases hall : args.all s.validAddr = true
    · rw [if_pos hall]; exact Keeps.push s _
    · rw [if_neg hall]; exact Keeps.refl s
  | forward a =>
    obtain ⟨l, e, _⟩ := forward_ext T a w
    exact e.keeps
  | backward a =>
    obtain ⟨l, s1, e, _, sv⟩ := backward_ext T a w
    exact e.keeps.trans sv.keeps
  | setParamValue p v => exact Keeps.of_ops_eq rfl
  | setFail k => exact Keeps.of_ops_eq rfl

theorem run_keeps (T : TOps τ) {s : State τ} (w : WF s) (h : List (Op τ)) (hadm : ∀ op ∈ h, op.Admissible) :
    Keeps s (run T s h) := by
  induction h generalizing s with
  | nil => exact Keeps.refl s
  | cons op rest ih =>
    exact (step_keeps T w op).trans
      (ih (step_wf T w (hadm op List.mem_cons_self)) (fun op' h' => hadm op' (List.mem_cons_of_mem _ h')))

theorem Keeps.node {s s' : State τ} (h : Keeps s s') {a : Addr} {n : NodeInfo τ} {v : τ}
    (hn : s.node? a = some n) (hv : n.value = some v) : ∃ n', s'.node? a = some n' ∧ n'.value = some v := by
  unfold State.node? at hn ⊢
  cases ho : s.ops[a.oid]? with
  | none => simp [ho] at hn
  | some o =>
    simp only [ho] at hn
    obtain ⟨o', ho', k⟩ := h _ o ho
    simp only [ho']
    exact k.mono a.vid n v hn hv

/-! ### what a request evaluates -/

theorem Ext.fresh {s s' : State τ} {l : List Nat} (h : Ext s s' l) {k : Nat} (hk : k ∈ l) :
    ¬ s.evaluated k ∧ s.isParam k = false := by
  obtain ⟨o, o', ho, _, st⟩ := h.stored k hk
  refine ⟨?_, by simp [State.isParam, ho, st.nonparam]⟩
  rintro ⟨o2, ho2, n, hn, hv⟩
  rw [ho] at ho2; cases ho2
  simp [st.before n hn] at hv

/-- the operators a request evaluates: each once, only ancestors, only unevaluated non-parameters -/
structure Evaluates (s : State τ) (top : Nat) (s' : State τ) (l : List Nat) : Prop where
  log : s'.log = s.log ++ l
  nodup : l.Nodup
  only : ∀ k ∈ l, AncOf s k top ∧ ¬ s.evaluated k ∧ s.isParam k = false
  rndPos : s'.rndPos = s.rndPos + l.countP s.isRnd

theorem forward_evaluates (T : TOps τ) {s : State τ} (w : WF s) (a : Addr) :
    ∃ l, Evaluates s a.oid (forward T s a).1 l := by
  obtain ⟨l, e, hl⟩ := forward_ext T a w
  exact ⟨l, e.log, e.nodup, fun k hk => ⟨hl k hk, e.fresh hk⟩, e.rndPos⟩

theorem backward_evaluates (T : TOps τ) {s : State τ} (w : WF s) (a : Addr) :
    ∃ l, Evaluates s a.oid (backward T s a).1 l := by
  obtain ⟨l, s1, e, hl, sv⟩ := backward_ext T a w
  exact ⟨l, by rw [sv.log, e.log], e.nodup, fun k hk => ⟨hl k hk, e.fresh hk⟩, by rw [sv.rndPos, e.rndPos]⟩

/-- the list of evaluated operators is determined by the two logs -/
theorem Evaluates.unique {s s' : State τ} {top top' : Nat} {l l' : List Nat}
    (h : Evaluates s top s' l) (h' : Evaluates s top' s' l') : l = l' :=
  List.append_cancel_left (h.log.symm.trans h'.log)

/-- a successful `forward` leaves no non-parameter ancestor unevaluated -/
theorem forward_complete (T : TOps τ) {s : State τ} (w : WF s) {a : Addr} (hv : s.validAddr a = true)
    {v : τ} (hok : (forward T s a).2 = .ok v) {l : List Nat} (hl : Evaluates s a.oid (forward T s a).1 l)
    {k : Nat} (hk : AncOf s k a.oid) (hne : ¬ s.evaluated k) (hp : s.isParam k = false) : k ∈ l := by
  have sp := forward_spec T w hv
  obtain ⟨l', p⟩ := sp.post
  have : l = l' := List.append_cancel_left (hl.log.symm.trans p.ext.log)
  subst this
  have := (sp.ok v hok).2 a (List.mem_singleton_self a) k hk hp
  rcases (p.ext.evaluated k).1 this with h | h
  · exact absurd h hne
  · exact h

theorem forward_value (T : TOps τ) {s : State τ} (w : WF s) {a : Addr} (hv : s.validAddr a = true)
    {v : τ} (hok : (forward T s a).2 = .ok v) : (forward T s a).1.valueOf? a = some v :=
  ((forward_spec T w hv).ok v hok).1

/-- memoisation: a stored value is returned as it is, nothing is evaluated -/
theorem forward_memo (T : TOps τ) {s : State τ} (w : WF s) {a : Addr} {n : NodeInfo τ} {v : τ}
    (hn : s.node? a = some n) (hval : n.value = some v) : forward T s a = (s, .ok v) := by
  unfold State.node? at hn
  cases ho : s.ops[a.oid]? with
  | none => simp [ho] at hn
  | some o =>
    simp only [ho] at hn
    have hvalid : s.validAddr a = true :=
      validAddr_iff.2 ⟨o, ho, (List.getElem?_eq_some_iff.1 hn).1⟩
    have hnp : o.kind.isParam = false := by
      cases hp : o.kind.isParam with
      | false => rfl
      | true =>
        have := w.param_none _ o ho hp n (List.mem_of_getElem? hn)
        rw [this] at hval; cases hval
    unfold forward
    rw [if_pos hvalid, forwardRec_succ_nonparam T _ ho hnp]
    simp only [hn, hval]

theorem valueOf?_of_node {s : State τ} (w : WF s) {a : Addr} {n : NodeInfo τ} {v : τ}
    (hn : s.node? a = some n) (hval : n.value = some v) : s.valueOf? a = some v := by
  unfold State.node? at hn
  cases ho : s.ops[a.oid]? with
  | none => simp [ho] at hn
  | some o =>
    simp only [ho] at hn
    unfold State.valueOf?
    simp only [ho]
    cases hk : o.kind with
    | param p =>
      have := w.param_none _ o ho (by simp [hk, Kind.isParam]) n (List.mem_of_getElem? hn)
      rw [this] at hval; cases hval
    | rnd => simp [hn, hval]
    | op sem => simp [hn, hval]

/-! ### operators added later do not matter -/

theorem storeValues_push {s : State τ} {k : Nat} {oo : OpInfo τ} (o : OpInfo τ) (ys : List τ)
    (h : s.ops[k]? = some oo) : (s.push o).storeValues k ys = (s.storeValues k ys).push o := by
  have hlt := (List.getElem?_eq_some_iff.1 h).1
  rw [storeValues_of_some ys h, storeValues_of_some ys (push_getElem?_some h)]
  simp [State.push, List.set_append_left _ _ hlt]

theorem evalSelf_push {s1 : State τ} {a : Addr} {oo : OpInfo τ} (o : OpInfo τ) (kind : Kind τ) (n : NodeInfo τ)
    (xs : List τ) (h : s1.ops[a.oid]? = some oo) :
    evalSelf kind n a (s1.push o) xs = ((evalSelf kind n a s1 xs).1.push o, (evalSelf kind n a s1 xs).2) := by
  have st : ∀ (sA : State τ) ys, sA.ops = s1.ops → (sA.push o).storeValues a.oid ys = (sA.storeValues a.oid ys).push o :=
    fun sA ys hA => storeValues_push o ys (hA ▸ h)
  unfold evalSelf
  cases kind with
  | param p =>
    simp only [Bool.false_eq_true, if_false]
  | rnd =>
    simp only [if_true]
    have : (s1.push o).failIn = s1.failIn := rfl
    rw [this]
    cases hf : s1.failIn with
    | none =>
      simp only
      exact Prod.ext (st { s1 with failIn := none, rndPos := s1.rndPos + 1, log := s1.log ++ [a.oid] } _ rfl) rfl
    | some m =>
      cases m with
      | zero => rfl
      | succ m =>
        simp only
        exact Prod.ext (st { s1 with failIn := some m, rndPos := s1.rndPos + 1, log := s1.log ++ [a.oid] } _ rfl) rfl
  | op sem =>
    have tail : ∀ sB : State τ, sB.ops = s1.ops →
        (match sem.fwd xs with
          | none => (sB.push o, Except.error Err.error)
          | some ys =>
            match ys[a.vid]? with
            | some v => (({ sB.push o with log := (sB.push o).log ++ [a.oid] }).storeValues a.oid ys, Except.ok v)
            | none => (({ sB.push o with log := (sB.push o).log ++ [a.oid] }).storeValues a.oid ys, .error .crash)) =
        (((match sem.fwd xs with
          | none => (sB, Except.error Err.error)
          | some ys =>
            match ys[a.vid]? with
            | some v => (({ sB with log := sB.log ++ [a.oid] }).storeValues a.oid ys, Except.ok v)
            | none => (({ sB with log := sB.log ++ [a.oid] }).storeValues a.oid ys, .error .crash)) :
              State τ × Except Err τ).1.push o,
         ((match sem.fwd xs with
          | none => (sB, Except.error Err.error)
          | some ys =>
            match ys[a.vid]? with
            | some v => (({ sB with log := sB.log ++ [a.oid] }).storeValues a.oid ys, Except.ok v)
            | none => (({ sB with log := sB.log ++ [a.oid] }).storeValues a.oid ys, .error .crash)) :
              State τ × Except Err τ).2) := by
      intro sB hB
      cases sem.fwd xs with
      | none => rfl
      | some ys =>
        simp only
        cases ys[a.vid]? with
        | none => exact Prod.ext (st { sB with log := sB.log ++ [a.oid] } ys hB) rfl
        | some v => exact Prod.ext (st { sB with log := sB.log ++ [a.oid] } ys hB) rfl
    simp only
    have : (s1.push o).failIn = s1.failIn := rfl
    rcases Bool.eq_false_or_eq_true sem.faulty with hfa | hfa
    · simp only [hfa, if_true, this]
      cases hf : s1.failIn with
      | none => exact tail { s1 with failIn := none } rfl
      | some m =>
        cases m with
        | zero => rfl
        | succ m => exact tail { s1 with failIn := some m } rfl
    · simp only [hfa, Bool.false_eq_true, if_false]
      exact tail s1 rfl

theorem forwardArgs_push (ev : State τ → Addr → State τ × Except Err τ) (o : OpInfo τ) (fuel : Nat)
    (hev : ∀ s b, WF s → s.validAddr b = true → b.oid < fuel →
      FwdSpec s b (ev s b) ∧ ev (s.push o) b = ((ev s b).1.push o, (ev s b).2))
    (s : State τ) (bs : List Addr) (w : WF s) (hbs : ∀ b ∈ bs, s.validAddr b = true ∧ b.oid < fuel) :
    forwardArgsWith ev (s.push o) bs =
      ((forwardArgsWith ev s bs).1.push o, (forwardArgsWith ev s bs).2) := by
  induction bs generalizing s with
  | nil => rfl
  | cons b rest ih =>
    have hb := hbs b List.mem_cons_self
    obtain ⟨sp, hpush⟩ := hev s b w hb.1 hb.2
    unfold forwardArgsWith
    rw [hpush]
    cases h1 : ev s b with
    | mk s1 r1 =>
      rw [h1] at sp
      cases r1 with
      | error e => rfl
      | ok v =>
        obtain ⟨l1, p1⟩ := sp.post
        simp only at p1
        have := ih s1 (p1.ext.wf w) (fun b' hb' => by
          rw [p1.ext.validAddr]; exact hbs b' (List.mem_cons_of_mem _ hb'))
        simp only
        rw [this]
        cases h2 : forwardArgsWith ev s1 rest with
        | mk s2 r2 => cases r2 <;> rfl

theorem forwardRec_push (T : TOps τ) (o : OpInfo τ) (fuel : Nat) :
    ∀ (s : State τ) (a : Addr), WF s → s.validAddr a = true → a.oid < fuel →
      forwardRec T fuel (s.push o) a = ((forwardRec T fuel s a).1.push o, (forwardRec T fuel s a).2) := by
  induction fuel with
  | zero => intro s a _ _ h; omega
  | succ fuel ih =>
    intro s a w hv hlt
    obtain ⟨oo, ho, hvid⟩ := validAddr_iff.1 hv
    obtain ⟨n, hn⟩ : ∃ n, oo.rets[a.vid]? = some n := ⟨_, List.getElem?_eq_getElem hvid⟩
    have ho' := push_getElem?_some (o := o) ho
    by_cases hnp : oo.kind.isParam = true
    · rw [forwardRec_unfold, forwardRec_unfold]
      simp only [ho, ho']
      cases hk : oo.kind with
      | rnd => simp [hk, Kind.isParam] at hnp
      | op sem => simp [hk, Kind.isParam] at hnp
      | param p =>
        simp only
        split <;> rfl
    · have hnp : oo.kind.isParam = false := by simpa using hnp
      rw [forwardRec_succ_nonparam T fuel ho hnp, forwardRec_succ_nonparam T fuel ho' hnp]
      simp only [hn]
      cases hval : n.value with
      | some v => rfl
      | none =>
        simp only
        have hargs := w.args_lt _ oo ho
        have hbs : ∀ b ∈ oo.args, s.validAddr b = true ∧ b.oid < fuel :=
          fun b hb => ⟨(hargs b hb).2, by have := (hargs b hb).1; omega⟩
        rw [forwardArgs_push (forwardRec T fuel) o fuel
          (fun s b w hv hlt => ⟨forwardRec_spec T fuel s b w hv hlt, ih s b w hv hlt⟩) s oo.args w hbs]
        have sp := forwardArgs_spec (forwardRec T fuel) fuel (forwardRec_spec T fuel) s oo.args w hbs
        cases h1 : forwardArgsWith (forwardRec T fuel) s oo.args with
        | mk s1 r1 =>
          rw [h1] at sp
          cases r1 with
          | error e => rfl
          | ok xs =>
            obtain ⟨l1, p1⟩ := sp.post
            simp only at p1
            have ho1 : s1.ops[a.oid]? = some oo := by
              rw [p1.ext.same]; exact ho
              intro hmem
              obtain ⟨b, hb, hkb⟩ := p1.anc _ hmem
              have := w.anc_le hkb
              have := (hargs b hb).1
              omega
            simp only
            exact evalSelf_push o oo.kind n xs ho1

theorem forward_push (T : TOps τ) {s : State τ} (w : WF s) (o : OpInfo τ) {a : Addr}
    (hv : s.validAddr a = true) :
    forward T (s.push o) a = ((forward T s a).1.push o, (forward T s a).2) := by
  unfold forward
  rw [if_pos hv, if_pos (validAddr_push hv)]
  exact forwardRec_push T o _ s a w hv (Nat.lt_succ_self _)

/-! ### the order of requests does not matter -/

/-- force the nodes in the given order (stops at the first failure) -/
def forceAll (T : TOps τ) : State τ → List Addr → State τ × Except Err (List τ) :=
  forwardArgsWith (forward T)

theorem forceAll_spec (T : TOps τ) {s : State τ} (w : WF s) (as : List Addr)
    (has : ∀ a ∈ as, s.validAddr a = true) : ArgsSpec s as (forceAll T s as) :=
  forwardArgs_spec (forward T) s.ops.length (fun _ _ w' hv _ => forward_spec T w' hv) s as w
    (fun a ha => ⟨has a ha, validAddr_oid_lt (has a ha)⟩)

theorem rets_ext {r r' : List (NodeInfo τ)} (h1 : r.map (·.size) = r'.map (·.size))
    (h2 : r.map (·.grad) = r'.map (·.grad)) (h3 : r.map (·.value) = r'.map (·.value)) : r = r' := by
  apply List.ext_getElem?
  intro i
  have e1 := congrArg (·[i]?) h1
  have e2 := congrArg (·[i]?) h2
  have e3 := congrArg (·[i]?) h3
  simp only [List.getElem?_map] at e1 e2 e3
  cases h : r[i]? with
  | none => cases h' : r'[i]? with
    | none => rfl
    | some n' => simp [h, h'] at e1
  | some n => cases h' : r'[i]? with
    | none => simp [h, h'] at e1
    | some n' =>
      simp only [h, h', Option.map_some, Option.some.injEq] at e1 e2 e3
      cases n; cases n'; simp_all

/-- Two extensions of the same state that evaluated the same deterministic operators agree. -/
theorem Ext.agree {s s2 t2 : State τ} {l l' : List Nat} (w : WF s) (e : Ext s s2 l) (e' : Ext s t2 l')
    (hmem : ∀ k, k ∈ l ↔ k ∈ l') (hdet : ∀ k ∈ l, s.isRnd k = false) :
    ∀ k : Nat, s2.ops[k]? = t2.ops[k]? := by
  intro k
  induction k using Nat.strongRecOn with
  | _ k ih =>
    by_cases hk : k ∈ l
    · have hk' := (hmem k).1 hk
      obtain ⟨o, o2, ho, ho2, st⟩ := e.stored k hk
      obtain ⟨o', o2', ho', ho2', st'⟩ := e'.stored k hk'
      rw [ho] at ho'; cases ho'
      rw [ho2, ho2']
      congr 1
      obtain ⟨xs, hxs, hsem⟩ := e.loc k hk o2 ho2
      obtain ⟨xs', hxs', hsem'⟩ := e'.loc k hk' o2' ho2'
      -- the arguments have the same values on both sides
      have hargs : ∀ b ∈ o.args, s2.valueOf? b = t2.valueOf? b := by
        intro b hb
        have hlt := (w.args_lt k o ho b hb).1
        have := ih b.oid hlt
        unfold State.valueOf?
        rw [this, e.params, e'.params]
      rw [st.args, mapM_congr hargs] at hxs
      rw [st'.args, hxs] at hxs'
      cases hxs'
      have hdk := hdet k hk
      simp only [State.isRnd, ho] at hdk
      cases hkind : o.kind with
      | param p => have := st.nonparam; simp [hkind, Kind.isParam] at this
      | rnd => simp [hkind, Kind.isRnd] at hdk
      | op sem =>
        obtain ⟨ys, hys, hv⟩ := hsem sem (st.kind.trans hkind)
        obtain ⟨ys', hys', hv'⟩ := hsem' sem (st'.kind.trans hkind)
        rw [hys] at hys'; cases hys'
        have hlen : o2.rets.length = o2'.rets.length := by rw [st.grow.length, st'.grow.length]
        have hrets : o2.rets = o2'.rets := by
          apply rets_ext (st.sizes.trans st'.sizes.symm) (st.grads.trans st'.grads.symm)
          apply List.ext_getElem?
          intro i
          simp only [List.getElem?_map]
          cases h : o2.rets[i]? with
          | none =>
            have : o2'.rets[i]? = none := by
              rw [List.getElem?_eq_none_iff] at h ⊢; omega
            rw [this]
          | some n =>
            have hi := (List.getElem?_eq_some_iff.1 h).1
            have hi' : i < o2'.rets.length := by omega
            rw [List.getElem?_eq_getElem hi']
            simp only [Option.map_some, Option.some.injEq]
            rw [hv i n h, hv' i _ (List.getElem?_eq_getElem hi')]
        cases o2; cases o2'
        simp only at hrets
        simp only [OpInfo.mk.injEq]
        exact ⟨st.kind.trans st'.kind.symm, st.args.trans st'.args.symm, hrets⟩
    · rw [e.same k hk, e'.same k (fun h => hk ((hmem k).2 h))]

/-- the operators evaluated by a successful `forceAll`: exactly the unevaluated non-parameter
ancestors of the requested nodes -/
theorem forceAll_exact (T : TOps τ) {s : State τ} (w : WF s) {as : List Addr}
    (has : ∀ a ∈ as, s.validAddr a = true) {vs : List τ} (hok : (forceAll T s as).2 = .ok vs) :
    ∃ l, Ext s (forceAll T s as).1 l ∧
      ∀ k, k ∈ l ↔ ((∃ a ∈ as, AncOf s k a.oid) ∧ ¬ s.evaluated k ∧ s.isParam k = false) := by
  have sp := forceAll_spec T w as has
  obtain ⟨l, p⟩ := sp.post
  refine ⟨l, p.ext, fun k => ⟨fun hk => ⟨p.anc k hk, p.ext.fresh hk⟩, ?_⟩⟩
  rintro ⟨⟨a, ha, hanc⟩, hne, hp⟩
  have := (sp.ok vs hok).2 a ha k hanc hp
  rcases (p.ext.evaluated k).1 this with h | h
  · exact absurd h hne
  · exact h

theorem forceAll_order_independent (T : TOps τ) {s : State τ} (w : WF s) {as as' : List Addr}
    (hmem : ∀ a, a ∈ as ↔ a ∈ as') (has : ∀ a ∈ as, s.validAddr a = true)
    {vs vs' : List τ} (h1 : (forceAll T s as).2 = .ok vs) (h2 : (forceAll T s as').2 = .ok vs')
    (hdet : (forceAll T s as).1.rndPos = s.rndPos) :
    (forceAll T s as).1.ops = (forceAll T s as').1.ops ∧
    (forceAll T s as).1.params = (forceAll T s as').1.params ∧
    (forceAll T s as).1.rndPos = (forceAll T s as').1.rndPos ∧
    ∀ a, (forceAll T s as).1.valueOf? a = (forceAll T s as').1.valueOf? a := by
  have has' : ∀ a ∈ as', s.validAddr a = true := fun a ha => has a ((hmem a).2 ha)
  obtain ⟨l, e, hl⟩ := forceAll_exact T w has h1
  obtain ⟨l', e', hl'⟩ := forceAll_exact T w has' h2
  have hll : ∀ k, k ∈ l ↔ k ∈ l' := by
    intro k
    rw [hl, hl']
    constructor
    · rintro ⟨⟨a, ha, h⟩, r⟩; exact ⟨⟨a, (hmem a).1 ha, h⟩, r⟩
    · rintro ⟨⟨a, ha, h⟩, r⟩; exact ⟨⟨a, (hmem a).2 ha, h⟩, r⟩
  have hc : l.countP s.isRnd = 0 := by
    have := e.rndPos; rw [hdet] at this; omega
  have hdetl : ∀ k ∈ l, s.isRnd k = false := by
    intro k hk
    have := List.countP_eq_zero.1 hc k hk
    simpa using this
  have hops : ∀ k : Nat, (forceAll T s as).1.ops[k]? = (forceAll T s as').1.ops[k]? :=
    Ext.agree w e e' hll hdetl
  have hpar : (forceAll T s as).1.params = (forceAll T s as').1.params := e.params.trans e'.params.symm
  refine ⟨List.ext_getElem? hops, hpar, ?_, ?_⟩
  · have hc' : l'.countP s.isRnd = 0 := by
      apply List.countP_eq_zero.2
      intro k hk
      simpa using hdetl k ((hll k).2 hk)
    rw [e.rndPos, e'.rndPos, hc, hc']
  · intro a
    unfold State.valueOf?
    rw [hops a.oid, hpar]

/-! ### the evaluation order -/

def State.evaluatedB (s : State τ) (k : Nat) : Bool :=
  match s.ops[k]? with
  | some o => o.rets.any (·.value.isSome)
  | none => false

theorem evaluatedB_iff {s : State τ} {k : Nat} : s.evaluatedB k = true ↔ s.evaluated k := by
  unfold State.evaluatedB State.evaluated
  cases s.ops[k]? <;> simp

/-- plan the arguments left to right; `done` = operators planned so far -/
def planArgs (ev : List Nat → Addr → List Nat) : List Nat → List Addr → List Nat
  | _, [] => []
  | done, b :: rest => ev done b ++ planArgs ev (done ++ ev done b) rest

/-- Specification of the evaluation order of `forward a` in state `s`: nothing for a Parameter,
an evaluated operator or one already planned; otherwise the plans of the arguments, left to
right, followed by the operator itself (depth-first post-order, each operator once). -/
def plan (s : State τ) : Nat → List Nat → Addr → List Nat
  | 0, _, _ => []
  | fuel + 1, done, a =>
    if s.isParam a.oid || s.evaluatedB a.oid || done.contains a.oid then []
    else planArgs (plan s fuel) done (s.argList a.oid) ++ [a.oid]

theorem eq_singleton_of_forall {l : List Nat} {k : Nat} (hn : l.Nodup) (hall : ∀ x ∈ l, x = k) (hk : k ∈ l) :
    l = [k] := by
  match l, hn, hall, hk with
  | [x], _, hall, _ => rw [hall x (by simp)]
  | x :: y :: r, hn, hall, _ =>
    have h1 := hall x (by simp)
    have h2 := hall y (by simp)
    subst h1; subst h2
    simp at hn

theorem forwardArgs_plan (ev : State τ → Addr → State τ × Except Err τ) (P : List Nat → Addr → List Nat)
    (fuel : Nat) {s0 : State τ}
    (hev : ∀ s d b, Ext s0 s d → s.validAddr b = true → b.oid < fuel →
      FwdSpec s b (ev s b) ∧ ∀ v, (ev s b).2 = .ok v → (ev s b).1.log = s.log ++ P d b)
    (s : State τ) (d : List Nat) (bs : List Addr) (e : Ext s0 s d)
    (hbs : ∀ b ∈ bs, s.validAddr b = true ∧ b.oid < fuel) (vs : List τ)
    (hok : (forwardArgsWith ev s bs).2 = .ok vs) :
    (forwardArgsWith ev s bs).1.log = s.log ++ planArgs P d bs := by
  induction bs generalizing s d vs with
  | nil => simp [forwardArgsWith, planArgs]
  | cons b rest ih =>
    have hb := hbs b List.mem_cons_self
    obtain ⟨sp, hlog⟩ := hev s d b e hb.1 hb.2
    unfold forwardArgsWith at hok ⊢
    cases h1 : ev s b with
    | mk s1 r1 =>
      rw [h1] at sp hlog hok
      cases r1 with
      | error err => simp at hok
      | ok v =>
        obtain ⟨l1, p1⟩ := sp.post
        simp only at p1 hlog hok ⊢
        have hl1 : l1 = P d b := List.append_cancel_left (p1.ext.log.symm.trans (hlog v rfl))
        subst hl1
        have e1 : Ext s0 s1 (d ++ P d b) := e.trans p1.ext
        cases h2 : forwardArgsWith ev s1 rest with
        | mk s2 r2 =>
          rw [h2] at hok
          cases r2 with
          | error err => simp at hok
          | ok vs2 =>
            have := ih s1 (d ++ P d b) e1 (fun b' hb' => by
              rw [p1.ext.validAddr]; exact hbs b' (List.mem_cons_of_mem _ hb')) vs2 (by rw [h2])
            rw [h2] at this
            simp only at this ⊢
            rw [this, p1.ext.log, planArgs, List.append_assoc]

theorem forwardRec_plan (T : TOps τ) {s0 : State τ} (w0 : WF s0) (fuel : Nat) :
    ∀ (s : State τ) (d : List Nat) (a : Addr), Ext s0 s d → s.validAddr a = true → a.oid < fuel →
      ∀ v, (forwardRec T fuel s a).2 = .ok v → (forwardRec T fuel s a).1.log = s.log ++ plan s0 fuel d a := by
  induction fuel with
  | zero => intro s d a _ _ h; omega
  | succ fuel ih =>
    intro s d a e hv hlt v hok
    have w := e.wf w0
    obtain ⟨o, ho, hvid⟩ := validAddr_iff.1 hv
    obtain ⟨n, hn⟩ : ∃ n, o.rets[a.vid]? = some n := ⟨_, List.getElem?_eq_getElem hvid⟩
    have hparam : s0.isParam a.oid = o.kind.isParam := by
      rw [← e.isParam]; simp [State.isParam, ho]
    have hargList : s0.argList a.oid = o.args := by
      rw [← e.argList]; simp [State.argList, ho]
    rw [plan]
    by_cases hnp : o.kind.isParam = true
    · -- Parameter: nothing is evaluated
      rw [hparam, hnp]
      simp only [Bool.true_or, if_true, List.append_nil]
      rw [forwardRec_unfold]
      simp only [ho]
      cases hk : o.kind with
      | rnd => simp [hk, Kind.isParam] at hnp
      | op sem => simp [hk, Kind.isParam] at hnp
      | param p => simp only; split <;> rfl
    · have hnp : o.kind.isParam = false := by simpa using hnp
      rw [forwardRec_succ_nonparam T fuel ho hnp] at hok ⊢
      simp only [hn] at hok ⊢
      cases hval : n.value with
      | some v' =>
        -- memoised: nothing is evaluated
        have hev : s.evaluated a.oid := evaluated_of_node ho hn hval
        have : (s0.evaluatedB a.oid || d.contains a.oid) = true := by
          rcases (e.evaluated a.oid).1 hev with h | h
          · simp [evaluatedB_iff.2 h]
          · simp [h]
        rw [Bool.or_assoc, this]
        simp
      | none =>
        have hbefore : ∀ m ∈ o.rets, m.value = none := by
          rcases w.all_or_none _ o ho with h | h
          · exact h
          · have := h n (List.mem_of_getElem? hn); simp [hval] at this
        have hnev : ¬ s.evaluated a.oid := by
          rintro ⟨o', ho', m, hm, hmv⟩
          rw [ho] at ho'; cases ho'
          simp [hbefore m hm] at hmv
        have hnev0 : s0.evaluatedB a.oid = false := by
          cases h : s0.evaluatedB a.oid with
          | false => rfl
          | true => exact absurd ((e.evaluated a.oid).2 (.inl (evaluatedB_iff.1 h))) hnev
        have hnd : d.contains a.oid = false := by
          cases h : d.contains a.oid with
          | false => rfl
          | true => exact absurd ((e.evaluated a.oid).2 (.inr (by simpa using h))) hnev
        rw [hparam, hnp, hnev0, hnd, hargList]
        simp only [Bool.or_self, Bool.false_eq_true, if_false]
        rw [hval] at hok
        simp only at hok ⊢
        have hargs := w.args_lt _ o ho
        have hbs : ∀ b ∈ o.args, s.validAddr b = true ∧ b.oid < fuel :=
          fun b hb => ⟨(hargs b hb).2, by have := (hargs b hb).1; omega⟩
        have sp := forwardArgs_spec (forwardRec T fuel) fuel (forwardRec_spec T fuel) s o.args w hbs
        have hplan := forwardArgs_plan (forwardRec T fuel) (plan s0 fuel) fuel
          (fun s' d' b e' hv' hlt' => ⟨forwardRec_spec T fuel s' b (e'.wf w0) hv' hlt', ih s' d' b e' hv' hlt'⟩)
          s d o.args e hbs
        cases h1 : forwardArgsWith (forwardRec T fuel) s o.args with
        | mk s1 r1 =>
          rw [h1] at sp hplan hok
          cases r1 with
          | error err => simp at hok
          | ok xs =>
            obtain ⟨l1, p1⟩ := sp.post
            obtain ⟨hxs, -⟩ := sp.ok xs rfl
            simp only at p1 hxs hok ⊢
            have hlog1 := hplan xs rfl
            simp only at hlog1
            have ho1 : s1.ops[a.oid]? = some o := by
              rw [p1.ext.same]; exact ho
              intro hmem
              obtain ⟨b, hb, hkb⟩ := p1.anc _ hmem
              have := w.anc_le hkb
              have := (hargs b hb).1
              omega
            obtain ⟨l2, hl2, e2, -, ok2⟩ := evalSelf_spec (p1.ext.wf w) ho1 hn hval hnp hxs
            obtain ⟨-, hev2⟩ := ok2 v hok
            have hmem : a.oid ∈ l2 := by
              rcases (e2.evaluated a.oid).1 hev2 with h | h
              · obtain ⟨o', ho', m, hm, hmv⟩ := h
                rw [ho1] at ho'; cases ho'
                simp [hbefore m hm] at hmv
              · exact h
            have : l2 = [a.oid] := eq_singleton_of_forall e2.nodup hl2 hmem
            rw [e2.log, this, hlog1, List.append_assoc]

theorem forward_plan (T : TOps τ) {s : State τ} (w : WF s) {a : Addr} {v : τ}
    (hok : (forward T s a).2 = .ok v) : (forward T s a).1.log = s.log ++ plan s (a.oid + 1) [] a := by
  unfold forward at hok ⊢
  by_cases hv : s.validAddr a = true
  · rw [if_pos hv] at hok ⊢
    exact forwardRec_plan T w (a.oid + 1) s [] a (Ext.refl s) hv (Nat.lt_succ_self _) v hok
  · rw [if_neg hv] at hok; simp at hok

/-! ### more fuel changes nothing -/

theorem forwardArgs_congr (ev ev' : State τ → Addr → State τ × Except Err τ) (fuel : Nat)
    (hev : ∀ s b, WF s → s.validAddr b = true → b.oid < fuel → FwdSpec s b (ev s b) ∧ ev s b = ev' s b)
    (s : State τ) (bs : List Addr) (w : WF s) (hbs : ∀ b ∈ bs, s.validAddr b = true ∧ b.oid < fuel) :
    forwardArgsWith ev s bs = forwardArgsWith ev' s bs := by
  induction bs generalizing s with
  | nil => rfl
  | cons b rest ih =>
    have hb := hbs b List.mem_cons_self
    obtain ⟨sp, heq⟩ := hev s b w hb.1 hb.2
    unfold forwardArgsWith
    rw [← heq]
    cases h1 : ev s b with
    | mk s1 r1 =>
      rw [h1] at sp
      cases r1 with
      | error e => rfl
      | ok v =>
        obtain ⟨l1, p1⟩ := sp.post
        simp only at p1 ⊢
        rw [ih s1 (p1.ext.wf w) (fun b' hb' => by
          rw [p1.ext.validAddr]; exact hbs b' (List.mem_cons_of_mem _ hb'))]

theorem forwardRec_fuel (T : TOps τ) (f1 : Nat) :
    ∀ (f2 : Nat) (s : State τ) (a : Addr), WF s → s.validAddr a = true → a.oid < f1 → a.oid < f2 →
      forwardRec T f1 s a = forwardRec T f2 s a := by
  induction f1 with
  | zero => intro f2 s a _ _ h; omega
  | succ f1 ih =>
    intro f2 s a w hv h1 h2
    cases f2 with
    | zero => omega
    | succ f2 =>
      obtain ⟨o, ho, hvid⟩ := validAddr_iff.1 hv
      by_cases hnp : o.kind.isParam = true
      · rw [forwardRec_unfold, forwardRec_unfold]
        simp only [ho]
        cases hk : o.kind with
        | rnd => simp [hk, Kind.isParam] at hnp
        | op sem => simp [hk, Kind.isParam] at hnp
        | param p => rfl
      · have hnp : o.kind.isParam = false := by simpa using hnp
        rw [forwardRec_succ_nonparam T f1 ho hnp, forwardRec_succ_nonparam T f2 ho hnp]
        have hargs := w.args_lt _ o ho
        rw [forwardArgs_congr (forwardRec T f1) (forwardRec T f2) a.oid
          (fun s b w hv hlt => ⟨forwardRec_spec T f1 s b w hv (by omega), ih f2 s b w hv (by omega) (by omega)⟩)
          s o.args w (fun b hb => ⟨(hargs b hb).2, (hargs b hb).1⟩)]

/-! ### a request succeeds when a deterministic run has evaluated all it needs -/

/-- `s2` is `t` plus the evaluation of some deterministic operators -/
structure DetSub (t s2 : State τ) : Prop where
  params : s2.params = t.params
  ops : ∀ j : Nat, t.ops[j]? = s2.ops[j]? ∨
    ∃ o o2, t.ops[j]? = some o ∧ s2.ops[j]? = some o2 ∧ OpStored o o2 ∧ o.kind.isRnd = false ∧ LocalEq s2 j

theorem Ext.detSub {s s2 : State τ} {l : List Nat} (e : Ext s s2 l) (hdet : ∀ k ∈ l, s.isRnd k = false) :
    DetSub s s2 := by
  refine ⟨e.params, fun j => ?_⟩
  by_cases hj : j ∈ l
  · obtain ⟨o, o2, h1, h2, st⟩ := e.stored j hj
    have := hdet j hj
    simp only [State.isRnd, h1] at this
    exact .inr ⟨o, o2, h1, h2, st, this, e.loc j hj⟩
  · exact .inl (e.same j hj).symm

theorem DetSub.valueOf_mono {t s2 : State τ} (h : DetSub t s2) {b : Addr} {v : τ}
    (hv : t.valueOf? b = some v) : s2.valueOf? b = some v := by
  rcases h.ops b.oid with heq | ⟨o, o2, h1, h2, st, -, -⟩
  · rw [← hv]; unfold State.valueOf?; rw [heq, h.params]
  · unfold State.valueOf? at hv
    simp only [h1] at hv
    cases hk : o.kind with
    | param p => have := st.nonparam; simp [hk, Kind.isParam] at this
    | rnd =>
      simp only [hk] at hv
      cases hn : o.rets[b.vid]? with
      | none => simp [hn] at hv
      | some n => simp [hn, st.before n (List.mem_of_getElem? hn)] at hv
    | op sem =>
      simp only [hk] at hv
      cases hn : o.rets[b.vid]? with
      | none => simp [hn] at hv
      | some n => simp [hn, st.before n (List.mem_of_getElem? hn)] at hv

/-- the successful path of `evalSelf` for a deterministic operator -/
theorem evalSelf_ok {s1 : State τ} {a : Addr} {o : OpInfo τ} {n : NodeInfo τ} {xs ys : List τ} {v : τ}
    {sem : OpSem τ} (hf : s1.failIn = none) (ho : s1.ops[a.oid]? = some o) (hfw : sem.fwd xs = some ys)
    (hv : ys[a.vid]? = some v) :
    (evalSelf (.op sem) n a s1 xs).2 = .ok v ∧ (evalSelf (.op sem) n a s1 xs).1.failIn = none ∧
    (evalSelf (.op sem) n a s1 xs).1.params = s1.params ∧
    (evalSelf (.op sem) n a s1 xs).1.ops = s1.ops.set a.oid { o with rets := storeRets o.rets ys } := by
  have key : ∀ sB : State τ, sB.ops = s1.ops → sB.params = s1.params → sB.failIn = none →
      ((sB.storeValues a.oid ys).failIn = none ∧ (sB.storeValues a.oid ys).params = s1.params ∧
        (sB.storeValues a.oid ys).ops = s1.ops.set a.oid { o with rets := storeRets o.rets ys }) := by
    intro sB h1 h2 h3
    rw [storeValues_of_some ys (h1 ▸ ho)]
    exact ⟨h3, h2, by rw [h1]⟩
  unfold evalSelf
  simp only [hf, hfw, hv]
  rcases Bool.eq_false_or_eq_true sem.faulty with hfa | hfa
  · simp only [hfa, if_true]
    exact ⟨trivial, key _ rfl rfl rfl⟩
  · simp only [hfa, Bool.false_eq_true, if_false]
    exact ⟨trivial, key _ rfl rfl hf⟩

structure DetRes {α : Type} (s2 : State τ) (res : State τ × Except Err α) : Prop where
  ok : ∃ v, res.2 = .ok v
  failIn : res.1.failIn = none
  sub : DetSub res.1 s2

theorem forwardArgs_det (ev : State τ → Addr → State τ × Except Err τ) (fuel : Nat) (s2 : State τ)
    (hev : ∀ t b, WF t → t.failIn = none → DetSub t s2 → t.validAddr b = true → b.oid < fuel →
      (∀ k, AncOf t k b.oid → t.isParam k = false → s2.evaluated k) →
      FwdSpec t b (ev t b) ∧ DetRes s2 (ev t b))
    (t : State τ) (bs : List Addr) (w : WF t) (hf : t.failIn = none) (hsub : DetSub t s2)
    (hbs : ∀ b ∈ bs, t.validAddr b = true ∧ b.oid < fuel)
    (hanc : ∀ b ∈ bs, ∀ k, AncOf t k b.oid → t.isParam k = false → s2.evaluated k) :
    DetRes s2 (forwardArgsWith ev t bs) := by
  induction bs generalizing t with
  | nil => exact ⟨⟨[], rfl⟩, hf, hsub⟩
  | cons b rest ih =>
    have hb := hbs b List.mem_cons_self
    obtain ⟨sp, dr⟩ := hev t b w hf hsub hb.1 hb.2 (hanc b List.mem_cons_self)
    unfold forwardArgsWith
    cases h1 : ev t b with
    | mk t1 r1 =>
      rw [h1] at sp dr
      obtain ⟨⟨v, hv⟩, hf1, hsub1⟩ := dr
      simp only at hv hf1 hsub1
      subst hv
      obtain ⟨l1, p1⟩ := sp.post
      simp only at p1 ⊢
      have := ih t1 (p1.ext.wf w) hf1 hsub1
        (fun b' hb' => by rw [p1.ext.validAddr]; exact hbs b' (List.mem_cons_of_mem _ hb'))
        (fun b' hb' k hk hp => by
          rw [p1.ext.anc] at hk; rw [p1.ext.isParam] at hp
          exact hanc b' (List.mem_cons_of_mem _ hb') k hk hp)
      cases h2 : forwardArgsWith ev t1 rest with
      | mk t2 r2 =>
        rw [h2] at this
        obtain ⟨⟨vs, hvs⟩, hf2, hsub2⟩ := this
        simp only at hvs hf2 hsub2
        subst hvs
        exact ⟨⟨_, rfl⟩, hf2, hsub2⟩

theorem forwardRec_det (T : TOps τ) (s2 : State τ) (fuel : Nat) :
    ∀ (t : State τ) (a : Addr), WF t → t.failIn = none → DetSub t s2 → t.validAddr a = true → a.oid < fuel →
      (∀ k, AncOf t k a.oid → t.isParam k = false → s2.evaluated k) →
      DetRes s2 (forwardRec T fuel t a) := by
  induction fuel with
  | zero => intro t a _ _ _ _ h; omega
  | succ fuel ih =>
    intro t a w hf hsub hv hlt hanc
    obtain ⟨o, ho, hvid⟩ := validAddr_iff.1 hv
    obtain ⟨n, hn⟩ : ∃ n, o.rets[a.vid]? = some n := ⟨_, List.getElem?_eq_getElem hvid⟩
    have kok := w.kind_ok _ o ho
    by_cases hnp : o.kind.isParam = true
    · rw [forwardRec_unfold]
      simp only [ho]
      cases hk : o.kind with
      | rnd => simp [hk, Kind.isParam] at hnp
      | op sem => simp [hk, Kind.isParam] at hnp
      | param p =>
        rw [hk] at kok; simp only [KindOK] at kok
        have h0 : a.vid = 0 := by omega
        simp only [h0, if_true]
        exact ⟨⟨_, rfl⟩, hf, hsub⟩
    · have hnp : o.kind.isParam = false := by simpa using hnp
      rw [forwardRec_succ_nonparam T fuel ho hnp]
      simp only [hn]
      cases hval : n.value with
      | some v => exact ⟨⟨_, rfl⟩, hf, hsub⟩
      | none =>
        simp only
        have hbefore : ∀ m ∈ o.rets, m.value = none := by
          rcases w.all_or_none _ o ho with h | h
          · exact h
          · have := h n (List.mem_of_getElem? hn); simp [hval] at this
        have hargs := w.args_lt _ o ho
        have hbs : ∀ b ∈ o.args, t.validAddr b = true ∧ b.oid < fuel :=
          fun b hb => ⟨(hargs b hb).2, by have := (hargs b hb).1; omega⟩
        have sp := forwardArgs_spec (forwardRec T fuel) fuel (forwardRec_spec T fuel) t o.args w hbs
        have dr := forwardArgs_det (forwardRec T fuel) fuel s2
          (fun t' b w' hf' hs' hv' hlt' ha' => ⟨forwardRec_spec T fuel t' b w' hv' hlt', ih t' b w' hf' hs' hv' hlt' ha'⟩)
          t o.args w hf hsub hbs (fun b hb k hk hp => hanc k (AncOf.of_arg ho hb hk) hp)
        cases h1 : forwardArgsWith (forwardRec T fuel) t o.args with
        | mk t1 r1 =>
          rw [h1] at sp dr
          obtain ⟨⟨xs, hxs⟩, hf1, hsub1⟩ := dr
          simp only at hxs hf1 hsub1
          subst hxs
          obtain ⟨l1, p1⟩ := sp.post
          obtain ⟨hxs, -⟩ := sp.ok xs rfl
          simp only at p1 hxs ⊢
          have ho1 : t1.ops[a.oid]? = some o := by
            rw [p1.ext.same]; exact ho
            intro hmem
            obtain ⟨b, hb, hkb⟩ := p1.anc _ hmem
            have := w.anc_le hkb
            have := (hargs b hb).1
            omega
          -- operator `a.oid` is evaluated in `s2`, deterministically
          have hev2 : s2.evaluated a.oid := hanc a.oid (AncOf.refl t a.oid) (by simp [State.isParam, ho, hnp])
          rcases hsub1.ops a.oid with heq | ⟨o', o2, h1', h2', st, hnr, hloc⟩
          · obtain ⟨o2, ho2, m, hm, hmv⟩ := hev2
            rw [← heq, ho1] at ho2; cases ho2
            simp [hbefore m hm] at hmv
          · rw [ho1] at h1'; cases h1'
            obtain ⟨xs2, hxs2, hsem⟩ := hloc o2 h2'
            have : xs2 = xs := by
              rw [st.args, mapM_mono (fun b _ v hv => hsub1.valueOf_mono hv) hxs] at hxs2
              cases hxs2; rfl
            subst this
            cases hk : o.kind with
            | param p => simp [hk, Kind.isParam] at hnp
            | rnd => simp [hk, Kind.isRnd] at hnr
            | op sem =>
              obtain ⟨ys, hys, hvals⟩ := hsem sem (st.kind.trans hk)
              rw [hk] at kok; simp only [KindOK] at kok
              have hlen := kok xs2 ys hys
              have hvid' : a.vid < ys.length := by omega
              obtain ⟨e1, e2, e3, e4⟩ := evalSelf_ok (n := n) hf1 ho1 hys (List.getElem?_eq_getElem hvid')
              refine ⟨⟨_, e1⟩, e2, ⟨?_, ?_⟩⟩
              · rw [e3]; exact hsub1.params
              · intro j
                rw [e4, List.getElem?_set]
                by_cases hj : a.oid = j
                · subst hj
                  left
                  have hlt' := (List.getElem?_eq_some_iff.1 ho1).1
                  simp only [if_true, hlt', h2', Option.some.injEq]
                  have hrets : storeRets o.rets ys = o2.rets := by
                    apply rets_ext ((storeRets_map_size _ _).trans st.sizes.symm)
                      ((storeRets_map_grad _ _).trans st.grads.symm)
                    apply List.ext_getElem?
                    intro i
                    simp only [List.getElem?_map]
                    have hl2 := st.grow.length
                    cases h : (storeRets o.rets ys)[i]? with
                    | none =>
                      have : o2.rets[i]? = none := by
                        rw [List.getElem?_eq_none_iff] at h ⊢
                        simp [storeRets] at h; omega
                      rw [this]
                    | some m =>
                      have hi := (List.getElem?_eq_some_iff.1 h).1
                      have hi' : i < o2.rets.length := by simp [storeRets] at hi; omega
                      rw [List.getElem?_eq_getElem hi']
                      simp only [Option.map_some, Option.some.injEq]
                      rw [storeRets_value o.rets ys hlen i m h, hvals i _ (List.getElem?_eq_getElem hi')]
                  cases o2
                  simp only at hrets st
                  simp only [OpInfo.mk.injEq]
                  exact ⟨st.kind.symm, st.args.symm, hrets⟩
                · simp only [hj, if_false]
                  exact hsub1.ops j

theorem forward_det (T : TOps τ) (s2 : State τ) {t : State τ} {a : Addr} (w : WF t) (hf : t.failIn = none)
    (hsub : DetSub t s2) (hv : t.validAddr a = true)
    (hanc : ∀ k, AncOf t k a.oid → t.isParam k = false → s2.evaluated k) : DetRes s2 (forward T t a) := by
  unfold forward
  rw [if_pos hv]
  exact forwardRec_det T s2 _ t a w hf hsub hv (Nat.lt_succ_self _) hanc

/-- if forcing `as` succeeds without a random draw then forcing any nodes among `as`, in any order,
succeeds too (no failure scheduled) -/
theorem forceAll_succeeds (T : TOps τ) {s : State τ} (w : WF s) (hf : s.failIn = none) {as as' : List Addr}
    (hsub : ∀ a ∈ as', a ∈ as) (has : ∀ a ∈ as, s.validAddr a = true)
    {vs : List τ} (h1 : (forceAll T s as).2 = .ok vs) (hdet : (forceAll T s as).1.rndPos = s.rndPos) :
    ∃ vs', (forceAll T s as').2 = .ok vs' := by
  have sp := forceAll_spec T w as has
  obtain ⟨l, p⟩ := sp.post
  have hdone := (sp.ok vs h1).2
  have hc : l.countP s.isRnd = 0 := by
    have := p.ext.rndPos; rw [hdet] at this; omega
  have hdetl : ∀ k ∈ l, s.isRnd k = false := by
    intro k hk
    have := List.countP_eq_zero.1 hc k hk
    simpa using this
  have := forwardArgs_det (forward T) s.ops.length (forceAll T s as).1
    (fun t b w' hf' hs' hv' _ ha' => ⟨forward_spec T w' hv', forward_det T _ w' hf' hs' hv' ha'⟩)
    s as' w hf (p.ext.detSub hdetl)
    (fun a ha => ⟨has a (hsub a ha), validAddr_oid_lt (has a (hsub a ha))⟩)
    (fun a ha k hk hp => hdone a (hsub a ha) k hk hp)
  exact this.ok

/-! ### any number of operators added later -/

def Op.isAdd : Op τ → Bool
  | .addOperator _ _ _ => true
  | _ => false

/-- append the operators `os` (unevaluated) -/
def State.pushAll (s : State τ) (os : List (OpInfo τ)) : State τ := os.foldl State.push s

theorem pushAll_eq (s : State τ) (os : List (OpInfo τ)) :
    s.pushAll os = { s with ops := s.ops ++ os } := by
  induction os generalizing s with
  | nil => simp [State.pushAll]
  | cons o rest ih =>
    have := ih (s.push o)
    simp only [State.pushAll, List.foldl_cons] at this ⊢
    rw [this]
    simp [State.push]

theorem forward_run_adds (T : TOps τ) {s : State τ} (w : WF s) (h : List (Op τ))
    (hadd : ∀ op ∈ h, op.isAdd = true ∧ op.Admissible) {a : Addr} (hv : s.validAddr a = true) :
    ∃ os, run T s h = s.pushAll os ∧
      forward T (run T s h) a = ((forward T s a).1.pushAll os, (forward T s a).2) := by
  induction h generalizing s with
  | nil => exact ⟨[], rfl, rfl⟩
  | cons op rest ih =>
    have hop := hadd op List.mem_cons_self
    have hrest : ∀ op' ∈ rest, op'.isAdd = true ∧ op'.Admissible :=
      fun op' h' => hadd op' (List.mem_cons_of_mem _ h')
    cases op with
    | addOperator kind args sizes =>
      have w' := step_wf T w hop.2
      simp only [run, List.foldl_cons] at w' ⊢
      simp only [step, addOperator_eq] at w' ⊢
      by_cases hall : args.all s.validAddr = true
      · simp only [hall, if_true] at w' ⊢
        obtain ⟨os, h1, h2⟩ := ih w' hrest (validAddr_push hv)
        refine ⟨freshOp kind args sizes :: os, h1, ?_⟩
        simp only [run] at h2
        rw [h2, forward_push T w _ hv]
        rfl
      · simp only [hall] at w' ⊢
        exact ih w hrest hv
    | forward _ => simp [Op.isAdd] at hop
    | backward _ => simp [Op.isAdd] at hop
    | setParamValue _ _ => simp [Op.isAdd] at hop
    | setFail _ => simp [Op.isAdd] at hop

end Primitiv.Graph
