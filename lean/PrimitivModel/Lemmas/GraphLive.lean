import PrimitivModel.Lemmas.GraphSweep
/-!
Which node gradients are live (valid) at which point of the reverse sweep of `Model/Graph.lean`:
the program points of one iteration (`stepPoints`), of the loop (`sweepPoints`, `sweepTrace`), the
number of live gradient tensors (`liveGrads`), and two graphs sharing their parameters
(`withParams`).  Used by Props/C11.lean and Props/C06.lean.  Core Lean only; no definition of the
model is changed.
-/
namespace Primitiv.Graph
variable {τ : Type}

/-! ### program points -/

/-- The states at the program points of the iteration for operator `k` (graph.cc:167-222): on entry,
after the zero-fill of the return gradients, after the zero-fill of the argument gradients, after
the operator's backward rule, after the `invalidate()` loop.  (While the rule runs, contributions are
added one after the other; that changes no gradient's validity.) -/
def stepPoints (T : TOps τ) (s : State τ) (k : Nat) : List (State τ) :=
  match s.ops[k]? with
  | none => [s]
  | some o =>
    if !o.enabled then [s]
    else
      let s1 := zeroFill T s (retAddrs k o)
      match o.args.mapM s.valueOf? with
      | none => [s, s1]
      | some xs =>
        let s2 := zeroFill T s1 o.args
        let s3 := stepCore T s2 o xs o.ys (o.gys T)
        [s, s1, s2, s3, invalidateGrads s3 k]

/-- the last program point is the state that `backwardStep` returns -/
theorem stepPoints_last (T : TOps τ) (s : State τ) (k : Nat) :
    (stepPoints T s k).getLast? = some (backwardStep T s k).1 := by
  rw [backwardStep_eq]
  unfold stepPoints
  cases s.ops[k]? with
  | none => rfl
  | some o =>
    simp only
    by_cases he : (!o.enabled) = true
    · rw [if_pos he, if_pos he]; rfl
    · rw [if_neg he, if_neg he]
      cases o.args.mapM s.valueOf? <;> rfl

/-- all program points of `sweep T k s`, each with the id of the operator being processed; the
list ends with the iteration that fails, if one does -/
def sweepPoints (T : TOps τ) : Nat → State τ → List (Nat × State τ)
  | 0, _ => []
  | k + 1, s =>
    (stepPoints T s k).map (fun s' => (k, s')) ++
      match backwardStep T s k with
      | (s1, .ok ()) => sweepPoints T k s1
      | (_, .error _) => []

/-- the states after each completed iteration of `sweep T k s`, with the id of the operator -/
def sweepTrace (T : TOps τ) : Nat → State τ → List (Nat × State τ)
  | 0, _ => []
  | k + 1, s =>
    match backwardStep T s k with
    | (s1, .ok ()) => (k, s1) :: sweepTrace T k s1
    | (_, .error _) => []

/-- a successful sweep completes `k` iterations, the last one for operator 0, ending in the result -/
theorem sweepTrace_of_ok (T : TOps τ) : ∀ (k : Nat) (s s' : State τ), sweep T k s = (s', .ok ()) →
    (sweepTrace T k s).length = k ∧ (0 < k → (sweepTrace T k s).getLast? = some (0, s')) := by
  intro k
  induction k with
  | zero => intro s s' _; exact ⟨rfl, fun h => absurd h (Nat.lt_irrefl 0)⟩
  | succ k ih =>
    intro s s' hs
    rcases hb : backwardStep T s k with ⟨s1, r⟩
    cases r with
    | error e => rw [sweep_succ_err T hb] at hs; cases hs
    | ok u =>
      cases u
      rw [sweep_succ_ok T hb] at hs
      obtain ⟨h1, h2⟩ := ih s1 s' hs
      simp only [sweepTrace, hb]
      refine ⟨by simp [h1], fun _ => ?_⟩
      cases k with
      | zero => rw [sweep_zero] at hs; cases hs; rfl
      | succ k =>
        have := h2 (Nat.succ_pos k)
        rw [List.getLast?_cons_of_ne_nil]
        · exact this
        · intro hnil; rw [hnil] at this; cases this

/-! ### live gradients -/

/-- every live node gradient sits on an ancestor of operator `t` with id `≤ pos` -/
def LiveBounded (args : Nat → List Addr) (t pos : Nat) (s : State τ) : Prop :=
  ∀ b, (s.gradAt b).isSome = true → Anc args b.oid t ∧ b.oid ≤ pos

theorem stepPoints_bounded (T : TOps τ) (t k : Nat) (s : State τ) (hw : ArgsBelow s)
    (h : LiveBounded s.argsOf t k s) : ∀ s' ∈ stepPoints T s k, LiveBounded s.argsOf t k s' := by
  unfold stepPoints
  cases ho : s.ops[k]? with
  | none => intro s' hs'; simp at hs'; subst hs'; exact h
  | some o =>
    simp only
    by_cases he : (!o.enabled) = true
    · rw [if_pos he]; intro s' hs'; simp at hs'; subst hs'; exact h
    · rw [if_neg he]
      have hk : Anc s.argsOf k t := enabled_anc ho he (fun b hb => (h b hb).1)
      have h1 : LiveBounded s.argsOf t k (zeroFill T s (retAddrs k o)) := by
        intro b hb
        rcases zeroFill_gradAt_isSome T s _ b hb with hm | hs
        · have := ((mem_retAddrs k o b).mp hm).1
          rw [this]; exact ⟨hk, Nat.le_refl _⟩
        · exact h b hs
      cases hxs : o.args.mapM s.valueOf? with
      | none =>
        intro s' hs'
        simp at hs'
        rcases hs' with rfl | rfl
        · exact h
        · exact h1
      | some xs =>
        have h2 : LiveBounded s.argsOf t k (zeroFill T (zeroFill T s (retAddrs k o)) o.args) := by
          intro b hb
          rcases zeroFill_gradAt_isSome T _ _ b hb with hm | hs
          · exact ⟨hk.arg (by rw [argsOf_eq ho]; exact hm), Nat.le_of_lt (hw k o ho b hm)⟩
          · exact h1 b hs
        have h3 : LiveBounded s.argsOf t k
            (stepCore T (zeroFill T (zeroFill T s (retAddrs k o)) o.args) o xs o.ys (o.gys T)) := by
          intro b hb
          rw [stepCore_gradAt_isSome] at hb
          exact h2 b hb
        intro s' hs'
        simp at hs'
        rcases hs' with rfl | rfl | rfl | rfl | rfl
        · exact h
        · exact h1
        · exact h2
        · exact h3
        · intro b hb
          rw [gradAt_invalidateGrads] at hb
          by_cases hbk : b.oid = k
          · simp [hbk] at hb
          · simp only [hbk, if_false] at hb
            exact h3 b hb

theorem sweepPoints_bounded (T : TOps τ) (t : Nat) : ∀ (k : Nat) (s : State τ), ArgsBelow s →
    OnlyAnc s.argsOf t s → GradsBelow k s →
    ∀ x ∈ sweepPoints T k s, LiveBounded s.argsOf t x.1 x.2 := by
  intro k
  induction k with
  | zero => intro s _ _ _ x hx; cases hx
  | succ k ih =>
    intro s hw ha hg x hx
    simp only [sweepPoints, List.mem_append, List.mem_map] at hx
    have hb0 : LiveBounded s.argsOf t k s := fun b hb =>
      ⟨ha b hb, by
        have : ¬ (k + 1 ≤ b.oid) := fun hle => by rw [hg b hle] at hb; cases hb
        omega⟩
    rcases hx with ⟨s', hs', rfl⟩ | hx
    · exact stepPoints_bounded T t k s hw hb0 s' hs'
    · rcases hb : backwardStep T s k with ⟨s1, r⟩
      rw [hb] at hx
      cases r with
      | error e => cases hx
      | ok u =>
        cases u
        simp only at hx
        have hf := backwardStep_sameFrame T s k
        rw [hb] at hf
        have hargs : s1.argsOf = s.argsOf := argsOf_of_skel hf.skel
        have ha1 : OnlyAnc s1.argsOf t s1 := by
          have := backwardStep_onlyAnc T t k s ha
          rw [hb] at this; rw [hargs]; exact this
        have := ih s1 (argsBelow_of_skel hf.skel hw) ha1 (backwardStep_gradsBelow T k s s1 hg hw hb) x hx
        rw [hargs] at this; exact this

theorem sweepTrace_gradsBelow (T : TOps τ) : ∀ (k : Nat) (s : State τ), ArgsBelow s → GradsBelow k s →
    ∀ x ∈ sweepTrace T k s, GradsBelow x.1 x.2 := by
  intro k
  induction k with
  | zero => intro s _ _ x hx; cases hx
  | succ k ih =>
    intro s hw hg x hx
    rcases hb : backwardStep T s k with ⟨s1, r⟩
    simp only [sweepTrace, hb] at hx
    cases r with
    | error e => cases hx
    | ok u =>
      cases u
      simp only [List.mem_cons] at hx
      have hf := backwardStep_sameFrame T s k
      rw [hb] at hf
      have hg1 := backwardStep_gradsBelow T k s s1 hg hw hb
      rcases hx with rfl | hx
      · exact hg1
      · exact ih s1 (argsBelow_of_skel hf.skel hw) hg1 x hx

/-! ### counting live gradient tensors -/

/-- number of node gradients that hold a tensor -/
def liveGrads (s : State τ) : Nat := (s.ops.map fun o => o.rets.countP fun n => n.grad.isSome).sum

theorem sum_map_eq_zero {α} (f : α → Nat) (l : List α) : (l.map f).sum = 0 ↔ ∀ x ∈ l, f x = 0 := by
  induction l with
  | nil => simp
  | cons x rest ih => simp [ih]

theorem liveGrads_eq_zero (s : State τ) : liveGrads s = 0 ↔ AllGradsInvalid s := by
  unfold liveGrads
  rw [sum_map_eq_zero]
  constructor
  · intro h
    apply allGradsInvalid_of_B
    simp only [State.gradsInvalidB, List.all_eq_true]
    intro o ho n hn
    have := h o ho
    rw [List.countP_eq_zero] at this
    have := this n hn
    cases hg : n.grad <;> simp_all
  · intro h o ho
    rw [List.countP_eq_zero]
    intro n hn
    obtain ⟨i, hi⟩ := List.mem_iff_getElem?.mp ho
    obtain ⟨j, hj⟩ := List.mem_iff_getElem?.mp hn
    have := h ⟨i, j⟩
    simp only [State.gradAt, ops_getElem?_node? hi, hj, Option.bind_some] at this
    simp [this]

/-! ### graphs sharing their parameters -/

/-- the graph `s` seen with the parameter table `ps` (parameters live outside graphs) -/
def State.withParams (s : State τ) (ps : Params τ) : State τ := { s with params := ps }

theorem backward_pvalue (T : TOps τ) (s : State τ) (a : Addr) :
    (backward T s a).1.params.value = s.params.value := by
  have hf := fwdPhase_fwdFrame T s a
  rw [backward_eq]
  split
  · rfl
  · rcases hp : fwdPhase T s a with ⟨s1, r⟩
    rw [hp] at hf
    cases r with
    | error e => simp only; rw [hf.params]
    | ok u =>
      cases u
      simp only at hf ⊢
      rw [((seed_sameFrame T s1 a).trans (sweep_sameFrame T _ _)).pvalue, hf.params]

theorem withParams_eq_mapPG (s : State τ) (ps : Params τ) (h : ps.value = s.params.value) :
    s.withParams ps = s.mapPG (fun _ => ps.grad) := by
  cases ps
  simp only at h
  subst h
  rfl

/-- a pass over a graph seen with any parameter table `ps` (same values): the gradients of `ps` plus
this graph's own `D` (the result from the zero gradients `z`); the graph's nodes and the outcome do
not depend on `ps.grad` -/
theorem backward_withParams (T : TOps τ) (hassoc : ∀ x y z : τ, T.add (T.add x y) z = T.add x (T.add y z))
    (s : State τ) (a : Addr) (z : Nat → τ) (hz : ∀ p x, T.add x (z p) = x) (ps : Params τ)
    (h : ps.value = s.params.value) :
    backward T (s.withParams ps) a =
      ((backward T (s.mapPG fun _ => z) a).1.mapPG (shiftG T ps.grad),
       (backward T (s.mapPG fun _ => z) a).2) := by
  rw [withParams_eq_mapPG s ps h]
  have := backward_adds_gen T hassoc (s.mapPG fun _ => ps.grad) a z hz
  rw [mapPG_mapPG] at this
  exact this

end Primitiv.Graph
